import N2k.Model.Num
