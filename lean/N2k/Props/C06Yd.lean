/-
C06, message level, Yacht Devices RAW text — the same transparency statement as `C06_message_trip_ebyte`
for the text format: the encoder's lines, once the gateway's `hh:mm:ss.mmm R|T` tokens are prepended and the
line ending is stripped, are all accepted by `decode_yacht_devices_string`, nothing is returned before the
last line and the last line returns exactly what the pre-assembled payload returns.
-/
import N2k.Props.C06Msg
import N2k.Lemmas.Enc06Yd
namespace N2k.Enc
open N2k N2k.Dec N2k.Gen N2k.Spec N2k.Straight

/-- what the gateway sends for one encoder line: timestamp, direction marker, then the line without its CR LF -/
def ydOnWire (ts dir : List Char) (l : List Char) : List Char := ts ++ [' '] ++ dir ++ [' '] ++ l.dropLast.dropLast

theorem C06_message_trip_yd (cfg : Config) (st : State) (m : MsgIn) (seq seq' : Nat) (lines : List (List Char))
    (p : PgnDef) (hp : p ∈ dbPgns) (hpg : p.pgn = m.pgn) (hty : p.ptype = "Fast" ∨ p.ptype = "Single")
    (hc : CanonAddr m) (hs : seq < 8) (w : Bool)
    (h0 : ∀ x, Fast.lookup st.table (m.pgn, m.src, m.dst) = some x → x.seq ≠ seq)
    (h8 : p.ptype = "Single" → ∀ B, callEncode shippedEnc m = .ok B → 1 ≤ B.length ∧ B.length ≤ 8)
    (ts dir : List Char) (hts : Wire.validHms ts = true) (hsp : ' ' ∉ ts) (hne : ts ≠ [])
    (hdir : dir = ['R'] ∨ dir = ['T'])
    (he : encodeYd shippedEnc seq m = .ok (seq', lines)) :
    (∀ l ∈ lines, ∃ body, l = body ++ ['\r', '\n'] ∧ '\r' ∉ body ∧ '\n' ∉ body) ∧
    ∃ B fs, callEncode shippedEnc m = .ok B ∧
      okFrames (lines.map (fun l => Wire.decodeYd (ydOnWire ts dir l))) = some fs ∧
      (let outs := (run shipped cfg st (fs.map (toInput w))).2
       outs.dropLast.all (· = Out.none) = true ∧
       outs.getLast? = some (step shipped cfg st (wholeInput w m B)).2) := by
  obtain ⟨frs, hF, rfl⟩ := encodeYd_inv shippedEnc seq seq' m lines he
  obtain ⟨hpr, hsr, hpn, _, B, hB, hrun⟩ := trip_core cfg st shippedEnc (fun _ => rfl) m seq seq' frs p hp hpg hty hs w h0
    (fun ht B hB _ => (h8 ht B hB).2) hF
  have hk : shipped.isFast m.pgn = kindOfType p.ptype := by rw [← hpg]; exact C07_db_fast_kind p hp
  have hbytes : ∀ f ∈ frs, 1 ≤ f.length ∧ ∀ b ∈ f, b < 256 := by
    refine encodeFrames_bytes _ encFns fasts seq seq' m frs hs ?_ hF
    intro hnf B' hB'
    rcases hty with ht | ht
    · exact absurd (show shipped.isFast m.pgn = .fast by rw [hk, ht]; rfl) hnf
    · exact (h8 ht B' hB').1
  have hdec := yd_lines_decode m hpr hsr hc.1 hpn hc.2 ts dir hts hsp hne hdir frs hbytes
  refine ⟨?_, B, frs.map (msgFrame m), hB, ?_, ?_⟩
  · intro l hl
    simp only [List.mem_map] at hl
    obtain ⟨f, _, rfl⟩ := hl
    exact Wire.C06_yd_line (frameId m) f
  · unfold okFrames
    have e : (fun l => Wire.decodeYd (ydOnWire ts dir l)) =
        (fun l => Wire.decodeYd (ts ++ [' '] ++ dir ++ [' '] ++ l.dropLast.dropLast)) := rfl
    rw [e, hdec]
    exact mapM_ok _ (fun _ => rfl) _
  · have e : (frs.map (msgFrame m)).map (toInput w) = frs.map (frameIn m.pgn m.prio m.src m.dst w) := by
      rw [List.map_map]; rfl
    rw [e]
    exact hrun

end N2k.Enc
