/-
C01, last clause for decimal resolutions — "whenever every field of a well-formed payload lies inside its
database range, decoding returns a message instead of failing".

`decode_number` computes `value = raw * resolution` in binary64 and rejects the field when
`value < min - tol` or `value > max + tol` with `tol = max(|resolution|/2, |value|·1e-15)`, all in binary64.
The theorem: if the EXACT scaled value `raw × resolution` (decimal arithmetic, as the database means it) lies
inside the exact database range, the binary64 comparison never rejects it — for every raw value of up to 64 bits,
every decimal resolution between 2^-500 and 2^500 and every range — and the value returned is the correctly
rounded product.  (`C01_number_total_int` is the same statement for integer resolutions and offsets.)
Floats are the exact-rational model of `Model/Num.lean`; the rounding lemmas are in `Lemmas/F64.lean`.
-/
import N2k.Model.Codec
import N2k.Gen.All
import N2k.Lemmas.Dec01F
namespace N2k
open N2k.Gen

/-- a decimal literal of moderate size: mantissa up to 10^30 in absolute value, exponent in [-100, 30] -/
def Lit.moderate (l : Lit) : Bool := decide (l.m.natAbs ≤ 10 ^ 30 ∧ -100 ≤ l.e ∧ l.e ≤ 30)

-- no Offset here (`Lit.ofInt 0`), so the effective signedness of `decodeNumber` (`C01_effSigned`) is `signed` itself
theorem C01_number_total_float (data off len : Nat) (signed : Bool) (res mn mx : Lit)
    (z : Int) (hz : z = (if signed then signExtend (Straight.decode_int data off len) len
                          else ((Straight.decode_int data off len : Nat) : Int)))
    (hna : naCode len signed ≠ some z)
    (hf : res.isFloat = true) (hpos : 0 < res.m) (hres : res.moderate = true)
    (hz64 : z.natAbs ≤ 2 ^ 64)
    (hmn : mn.moderate = true) (hmx : mx.moderate = true)
    (h1 : mn.exact ≤ (z : Rat) * res.exact) (h2 : (z : Rat) * res.exact ≤ mx.exact) :
    decodeNumber data off len signed res mn mx (Lit.ofInt 0) =
      .ok (some (.flt (rne (rne (z : Rat) * res.val)))) := by
  -- overflow is not modelled, so only the lower bound on the resolution is used
  have _ := hz64; have _ := hmn; have _ := hmx
  have he : -100 ≤ res.e := by
    simp only [Lit.moderate, decide_eq_true_eq] at hres
    exact hres.2.1
  exact Dec01F.decodeNumber_total_float data off len signed res mn mx z hz hna hf hpos he h1 h2

/-- database facts (kernel, regenerated): every NUMBER field with a decimal resolution has a positive, moderate
resolution and moderate range ends; exactly one of them (127513 peukertExponent) has an Offset and is outside
the theorem above -/
def floatNumber (f : FieldDef) : Bool :=
  f.ftype = "NUMBER" && (match f.resolution with | some r => r.isFloat | none => false)
def floatNumberOk (f : FieldDef) : Bool :=
  !floatNumber f ||
  ((match f.resolution with | some r => decide (0 < r.m) && r.moderate | none => false) &&
   (match f.rangeMin with | some l => l.moderate | none => true) &&
   (match f.rangeMax with | some l => l.moderate | none => true))
theorem C01_db_float_resolutions : dbPgns.all (fun p => p.fields.all floatNumberOk) = true := by
  decide +kernel
theorem C01_db_float_offsets :
    (dbPgns.flatMap (fun p => (p.fields.filter (fun f => floatNumber f && (match f.offset with | some o => o.m != 0 | none => false))).map (fun f => (p.pgn, f.id))))
      = [(127513, "peukertExponent")] := by
  decide +kernel

/-! ### the one decimal-resolution field with an Offset: 127513 Peukert Exponent (8 bits at 48, 0.002 steps, excess 1, range 1 .. 1.5)

`C01_number_total_float` does not cover it; its whole raw domain is small enough for the kernel: every raw value 0..250 (the database
range) decodes, to within 1e-15 of raw × 0.002 + 1; 251..254 (beyond RangeMax) are rejected as above the range; 255 is "not available". -/

/-- the parameters used below are the database's (kernel, regenerated) -/
theorem C01_db_peukert :
    (dbPgns.flatMap (fun p => (p.fields.filter (fun f => p.pgn = 127513 && f.id = "peukertExponent")).map
      (fun f => decide (f.bitOffset = some 48) && decide (f.bitLength = some 8) && !f.signed && decide (f.resolution = some ⟨2, -3, true⟩) &&
        decide (f.rangeMin = some ⟨1, 0, false⟩) && decide (f.rangeMax = some ⟨15, -1, true⟩) && decide (f.offset = some ⟨1, 0, false⟩))))
      = [true] := by
  decide +kernel

theorem C01_peukert_total :
    (List.range 251).all (fun z =>
      match decodeNumber (z * 2 ^ 48) 48 8 false ⟨2, -3, true⟩ ⟨1, 0, false⟩ ⟨15, -1, true⟩ ⟨1, 0, false⟩ with
      | .ok (some (.flt v)) => decide (|v - ((z : Rat) * 2 / 1000 + 1)| ≤ 1 / 10 ^ 15)
      | _ => false) = true := by
  decide +kernel

theorem C01_peukert_beyond :
    ([251, 252, 253, 254].all (fun z =>
      match decodeNumber (z * 2 ^ 48) 48 8 false ⟨2, -3, true⟩ ⟨1, 0, false⟩ ⟨15, -1, true⟩ ⟨1, 0, false⟩ with
      | .error .above => true
      | _ => false) = true) ∧
    decodeNumber (255 * 2 ^ 48) 48 8 false ⟨2, -3, true⟩ ⟨1, 0, false⟩ ⟨15, -1, true⟩ ⟨1, 0, false⟩ = .ok none := by
  decide +kernel

-- non-vacuity: 127508 battery current, raw -32767 (the most negative legal value), resolution 0.1, range -3276.7 .. 3276.6
example : (decodeNumber ((65536 - 32767) * 2 ^ 24) 24 16 true ⟨1, -1, true⟩ ⟨-32767, -1, true⟩ ⟨32766, -1, true⟩ (Lit.ofInt 0)).toOption.isSome = true := by
  decide +kernel

end N2k
