/-
C02 — decoding then re-encoding a payload reproduces it on all defined bits.

* Table theorems (kernel, T1): the shipped encoders are `Spec.compileEnc` of the database entries
  (`Tables.encNN_eq_compiled`), the decoders `Spec.compileDec` (`decNN_eq_compiled`).
* Per-kind round-trip theorems on the codec models (this file): what the decoder reports for a field
  is turned back by the encoder step of that field into exactly the field's bits — numbers up to
  48 bits wide (integer or decimal resolution, with the database Offset for integer resolutions),
  the not-available pattern, lookups, reserved bits, dates, times and durations (exact tick count,
  signed included).
* Message-level theorem: for a definition whose layout is well formed (`EncWF`, a decidable
  predicate checked on the regenerated database), the compiled encoder applied to the compiled
  decoder's output succeeds, has the definition's length, and agrees with the original payload on
  every field's bits.
Fields wider than 48 bits are outside `EncWF` (the property allows double rounding there; one
known finding at the very end of a 64-bit range is recorded in known_findings.json); FLOAT fields
are covered by `C02_float_rt` for finite non-zero values only.
Helpers in `N2k/Lemmas/Enc02.lean`.
-/
import N2k.Model.Spec
import N2k.Model.Interp
import N2k.Tables.All
import N2k.Lemmas.F64
import N2k.Lemmas.Enc02
namespace N2k
open N2k.Spec

/-- the integer the decoder sees in a field (sign-extended when signed) -/
def fieldInt (data off len : Nat) (signed : Bool) : Int :=
  if signed then signExtend (Straight.decode_int data off len) len else ((Straight.decode_int data off len : Nat) : Int)

/-- the bits an encoder step contributes for value `n` in a `len`-bit field -/
def contrib (n : Int) (len : Nat) : Nat := (n % ((2 ^ len : Nat) : Int)).toNat

/-- **NUMBER, integer resolution (with Offset), ≤ 48 bits**: exact round trip -/
theorem C02_number_rt_int (data off len : Nat) (signed : Bool) (r mn mx o : Int) (v : Num)
    (hr : 0 < r) (hl1 : 1 ≤ len) (hl : len ≤ 48) (hs : signed = true → 4 ≤ len)
    (hdec : decodeNumber data off len signed (Lit.ofInt r) (Lit.ofInt mn) (Lit.ofInt mx) (Lit.ofInt o) = .ok (some v)) :
    ∃ n, encodeNumber (numVal v) len signed (Lit.ofInt r) (Lit.ofInt o) = .ok n ∧
      contrib n len = Straight.decode_int data off len := by
  -- with an Offset the field is read unsigned (`effSigned`), so `hs` is only needed without one
  exact Enc02.number_rt_int data off len signed _ _ _ _ v rfl hr rfl hl1 hl
    (fun h => hs (Dec01.effSigned_le _ _ h)) hdec

/-- **NUMBER / TIME / DURATION, decimal resolution, ≤ 48 bits**: exact round trip of the tick count
(`round((raw × res) / res) = raw` in binary64) -/
theorem C02_number_rt_float (data off len : Nat) (signed : Bool) (res mn mx : Lit) (v : Num)
    (hf : res.isFloat = true) (hres : pow2 (-1022) ≤ res.exact)
    (hl1 : 1 ≤ len) (hl : len ≤ 48) (hs : signed = true → 4 ≤ len)
    (hdec : decodeNumber data off len signed res mn mx (Lit.ofInt 0) = .ok (some v)) :
    ∃ n, encodeNumber (numVal v) len signed res (Lit.ofInt 0) = .ok n ∧
      contrib n len = Straight.decode_int data off len := by
  exact Enc02.number_rt_float data off len signed res mn mx v hf hres hl1 hl hs hdec

/-- **absent stays absent**: the not-available pattern decodes to no value, and no value encodes to
the not-available pattern (unsigned ≥ 2 bits: all ones; signed ≥ 4 bits: largest positive) -/
theorem C02_na_rt (data off len : Nat) (signed : Bool) (res mn mx ofs : Lit)
    (hl : 2 ≤ len) (hs : signed = true → 4 ≤ len)
    (hdec : decodeNumber data off len signed res mn mx ofs = .ok none) :
    ∃ n, encodeNumber .none len signed res ofs = .ok n ∧ contrib n len = Straight.decode_int data off len := by
  have _ := hs
  exact ⟨_, Enc02.encodeNumber_none len signed res ofs (by omega), Enc02.na_rt data off len signed res mn mx ofs hl hdec⟩

/-- the same for TIME/DURATION fields (`encode_time(None, bits, signed)`) -/
theorem C02_na_time_rt (data off len : Nat) (signed : Bool) (res mn mx : Lit)
    (hl : 4 ≤ len)
    (hdec : decodeNumber data off len signed res mn mx (Lit.ofInt 0) = .ok none) :
    contrib (naTime len signed) len = Straight.decode_int data off len := by
  rw [Enc02.naTime_eq len signed hl]
  have h := Enc02.na_rt data off len signed res mn mx _ (by omega) hdec
  rwa [Dec01.effSigned_zero] at h

/-- **TIME / DURATION keep their exact tick count** (the encoder divides the reported raw value by
the resolution and rounds): decimal resolution -/
theorem C02_ticks_rt_float (data off len : Nat) (signed : Bool) (res mn mx : Lit) (v : Num)
    (hf : res.isFloat = true) (hres : pow2 (-1022) ≤ res.exact) (hl : len ≤ 48)
    (hdec : decodeNumber data off len signed res mn mx (Lit.ofInt 0) = .ok (some v)) :
    contrib (rhe (pyDiv v (litNum res))) len = Straight.decode_int data off len := by
  exact Enc02.ticks_rt_float data off len signed res mn mx v hf hres hl hdec

/-- integer resolution (e.g. minutes: 60) -/
theorem C02_ticks_rt_int (data off len : Nat) (signed : Bool) (r mn mx : Int) (v : Num)
    (hr : 0 < r) (hl : len ≤ 48)
    (hdec : decodeNumber data off len signed (Lit.ofInt r) (Lit.ofInt mn) (Lit.ofInt mx) (Lit.ofInt 0) = .ok (some v)) :
    contrib (rhe (pyDiv v (litNum (Lit.ofInt r)))) len = Straight.decode_int data off len := by
  exact Enc02.ticks_rt_int data off len signed _ _ _ v rfl hr hl hdec

/-- lookups, reserved bits and raw dates: the reported raw integer is the field's bits -/
theorem C02_raw_bits_rt (data off len : Nat) :
    contrib ((Straight.decode_int data off len : Nat) : Int) len = Straight.decode_int data off len := by
  exact Enc02.ctr_nat _ _ (Enc02.decode_int_lt data off len)

/-- OR-accumulation of masked contributions at pairwise disjoint positions: reading back position
`k` returns contribution `k` -/
def accumulate : List (Nat × Nat × Nat) → Nat     -- (value, len, off), value < 2^len
  | [] => 0
  | (v, _, o) :: rest => accumulate rest ||| (v <<< o)

def disjointRanges : List (Nat × Nat × Nat) → Prop
  | [] => True
  | (_, l, o) :: rest => (∀ x ∈ rest, o + l ≤ x.2.2 ∨ x.2.2 + x.2.1 ≤ o) ∧ disjointRanges rest

theorem C02_accumulate_read (parts : List (Nat × Nat × Nat)) (hd : disjointRanges parts)
    (hv : ∀ x ∈ parts, x.1 < 2 ^ x.2.1) (x : Nat × Nat × Nat) (hx : x ∈ parts) :
    Straight.decode_int (accumulate parts) x.2.2 x.2.1 = x.1 := by
  rw [Enc02.acc_unique accumulate rfl (fun _ _ _ _ => rfl) parts]
  exact Enc02.acc_read parts (Enc02.disj_unique disjointRanges (fun _ _ _ _ => rfl) parts hd) hv x hx

/-! ### message level -/

def leNat : List Nat → Nat
  | [] => 0
  | b :: bs => b + 256 * leNat bs

def isIntLit (l : Option Lit) : Bool := match l with | some x => !x.isFloat | none => false

/-- per-field conditions under which the per-kind theorems above apply -/
def encFieldOk (f : FieldDef) : Bool :=
  match f.bitLength, f.bitOffset, f.resolution with
  | some l, some _, some r =>
    let t := f.ftype
    if t = "NUMBER" ∨ t = "PGN" then
      1 ≤ l && l ≤ 48 && (!f.signed || 4 ≤ l) && f.rangeMin.isSome && f.rangeMax.isSome &&
      (if r.isFloat then f.offset.isNone && decide (pow2 (-1022) ≤ r.exact)
       else decide (0 < r.m) && decide (r.e = 0) && isIntLit f.rangeMin && isIntLit f.rangeMax &&
            (f.offset.isNone || isIntLit f.offset))
    else if t = "TIME" ∨ t = "DURATION" then
      4 ≤ l && l ≤ 48 && f.rangeMin.isSome && f.rangeMax.isSome && f.offset.isNone &&
      (if r.isFloat then decide (pow2 (-1022) ≤ r.exact)
       else decide (0 < r.m) && decide (r.e = 0) && isIntLit f.rangeMin && isIntLit f.rangeMax)
    else if t = "DATE" then
      2 ≤ l && l ≤ 48 && !f.signed && !r.isFloat && decide (r.m = 1) && decide (r.e = 0) &&
      isIntLit f.rangeMin && isIntLit f.rangeMax && f.offset.isNone
    else if t = "LOOKUP" then f.enum.isSome
    else t = "RESERVED"
  | _, _, _ => false

def rangesDisjoint : List FieldDef → Bool
  | [] => true
  | f :: rest =>
    rest.all (fun g =>
      match f.bitOffset, f.bitLength, g.bitOffset, g.bitLength with
      | some o, some l, some o', some l' => decide (o + l ≤ o' ∨ o' + l' ≤ o)
      | _, _, _, _ => false) && rangesDisjoint rest

def idsUnique : List FieldDef → Bool
  | [] => true
  | f :: rest => rest.all (fun g => fieldId g ≠ fieldId f) && idsUnique rest

/-- layout well-formedness of an encodable definition (decidable; evaluated on the regenerated database) -/
def EncWF (p : PgnDef) : Bool :=
  p.fields.all encFieldOk && rangesDisjoint p.fields && idsUnique p.fields && ordersOk' p &&
  (match p.length with
   | some L => p.fields.all (fun f => match f.bitOffset, f.bitLength with | some o, some l => decide (o + l ≤ 8 * L) | _, _ => false)
   | none => true)
where ordersOk' (p : PgnDef) : Bool := (p.fields.mapIdx (fun i f => f.order == i + 1)).all id

/-- **Decode then re-encode**: for every well-formed encodable definition and every payload the
compiled decoder accepts, the compiled encoder applied to the decoded fields succeeds, yields the
definition's length, and agrees with the original payload on the bits of every field. -/
theorem C02_roundtrip (env : Env) (g : List PgnDef) (p : PgnDef) (hwf : EncWF p = true)
    (data : Nat) (m : Msg) (hdec : runDec env (compileDec g p) data = .ok m) :
    ∃ bytes, runEnc env (compileEnc g p) m.fields = .ok bytes ∧
      (∀ L, p.length = some L → bytes.length = L) ∧
      (∀ f ∈ p.fields, ∀ o l, f.bitOffset = some o → f.bitLength = some l →
        Straight.decode_int (leNat bytes) o l = Straight.decode_int data o l) := by
  have e1 : leNat = Enc02.leNat' := funext (Enc02.leNat_unique leNat rfl (fun _ _ => rfl))
  have e2 := Enc02.rangesDisj_unique rangesDisjoint rfl (fun _ _ => rfl) p.fields
  have e3 := Enc02.idsUniq_unique idsUnique rfl (fun _ _ => rfl) p.fields
  have e4 : encFieldOk = Enc02.fieldOk := rfl
  simp only [EncWF, EncWF.ordersOk', Bool.and_eq_true, e2, e3, e4] at hwf
  obtain ⟨⟨⟨⟨h1, h2⟩, h3⟩, h4⟩, h5⟩ := hwf
  rw [e1]
  exact Enc02.roundtrip env g p h1 h2 h3 h4 h5 data m hdec

/-- which definitions of the shipped database have only encodable field kinds but fall outside
`EncWF` (wide 64-bit fields, one decimal-resolution field with an Offset, one integer resolution
with a decimal range): exactly these — every other encodable definition is covered by `C02_roundtrip` -/
def encTypesOnly (p : PgnDef) : Bool :=
  p.fields.all (fun f => f.bitLength.isSome && f.bitOffset.isSome &&
    (f.ftype = "NUMBER" || f.ftype = "PGN" || f.ftype = "RESERVED" || f.ftype = "FLOAT" || f.ftype = "LOOKUP" ||
     f.ftype = "DATE" || f.ftype = "TIME" || f.ftype = "DURATION"))

theorem C02_db_coverage :
    ((Gen.dbPgns.filter encTypesOnly).filter (fun p => !EncWF p)).map (fun p => (p.pgn, p.id)) =
      [(127513, "batteryConfigurationStatus"), (129029, "gnssPositionData"), (130818, "furunoSensorSetup")] ∧
    (Gen.dbPgns.filter encTypesOnly).length = 263 := by
  constructor <;> decide +kernel

-- non-vacuity: battery status 127508, voltage raw 1234 (0.01 V) survives decode -> encode
example :
    (match decodeNumber (1234 <<< 8) 8 16 true ⟨1, -2, true⟩ ⟨-32767, -2, true⟩ ⟨32764, -2, true⟩ (Lit.ofInt 0) with
     | .ok (some v) => encodeNumber (numVal v) 16 true ⟨1, -2, true⟩ (Lit.ofInt 0) == .ok 1234
     | _ => false) = true := by decide +kernel

/-- 127513 is outside `EncWF` only through its Peukert Exponent (decimal resolution with an Offset, see `C01_db_peukert` for its parameters):
that field's decode → encode trip is settled by the kernel over its whole raw domain — every raw value 0..250 decodes to a value that
encodes back to the same raw value -/
theorem C02_peukert_rt :
    (List.range 251).all (fun z =>
      match decodeNumber (z * 2 ^ 48) 48 8 false ⟨2, -3, true⟩ ⟨1, 0, false⟩ ⟨15, -1, true⟩ ⟨1, 0, false⟩ with
      | .ok (some v) =>
        (match encodeNumber (numVal v) 8 false ⟨2, -3, true⟩ ⟨1, 0, false⟩ with
         | .ok n => decide (n = (z : Int))
         | _ => false)
      | _ => false) = true := by
  decide +kernel

end N2k
