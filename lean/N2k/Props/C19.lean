/-
C19 — send() writes the encoder's packets contiguously; bad messages are harmless.
Model: the client LTS (send lock, write, drain, failures; tie: trace validation with concurrent
sends and drain() suspending per script).  PARTIAL w.r.t. the runtime as C13.
Helpers in `N2k/Lemmas/Client19.lean`.
-/
import N2k.Model.Client
import N2k.Lemmas.Client19
namespace N2k.Client

/-- a write is only possible for the send that holds the send lock (or takes it when free) -/
theorem C19_lock_exclusive (s s' : CS) (c sid idx : Nat) (h : step s (.write c sid idx) = some s') :
    (s.lockHolder = none ∨ s.lockHolder = some sid) ∧ s'.lockHolder = some sid ∧ idx = nextIdx s.sendNext sid :=
  step_write h

/-- the wire log restricted to its send ids -/
def sids (w : List (Nat × Nat × Nat)) : List Nat := w.map (·.2.1)

/-- every send's packets form one contiguous block of the wire log -/
def contiguous (l : List Nat) : Prop :=
  ∀ a b c x y, l = a ++ [x] ++ b ++ [y] ++ c → x = y → ∀ z ∈ b, z = x

/-- **Contiguity**: in every accepted trace, whatever the interleaving of tasks and whatever the
drain() suspensions, the packets of one message are never interleaved with another message's -/
theorem C19_contiguous (evs : List Ev) (s : CS) (h : runTrace init evs = some s) : contiguous (sids s.wire) :=
  (reach_inv h).contig

/-- … and within a message the packets go out in the encoder's order 0, 1, 2, … -/
theorem C19_in_order (evs : List Ev) (s : CS) (h : runTrace init evs = some s) (sid : Nat) :
    ((s.wire.filter (·.2.1 = sid)).map (·.2.2)) = List.range (s.wire.filter (·.2.1 = sid)).length :=
  (reach_inv h).order sid

/-- **An unsendable message is harmless**: it writes nothing and leaves connection, state, tasks and locks as they were -/
theorem C19_unsendable_harmless (s s' : CS) (sid : Nat) (h : step s (.sendBad sid) = some s') :
    s' = { s with prev := some (.sendBad sid) } :=
  step_sendBad h

/-- **A failing write on the current link leads to DISCONNECTED**: it records a fault, which enables the DISCONNECTED report while CONNECTED, and releases the send lock -/
theorem C19_write_failure (s s' : CS) (c sid : Nat) (h : step s (.writeFail c sid) = some s') (hst : s.st = .connected)
    (hc : s.conn = some c) :
    s'.faults > 0 ∧ s'.lockHolder = none ∧
      ∃ s'', step s' (.writerClose c) = some s'' ∧ (step s'' (.status .disconnected)).isSome = true :=
  step_writeFail h hst hc

/-- … whereas a failure on a link that has been replaced in the meantime is not a fault of the current link -/
theorem C19_stale_link_failure (s s' : CS) (c sid : Nat) (h : step s (.writeFail c sid) = some s') (hc : s.conn ≠ some c) :
    s'.faults = s.faults ∧ s'.st = s.st ∧ s'.conn = s.conn ∧ s'.lockHolder = none :=
  step_writeFail_stale h hc

/-- **One message, one link**: in every accepted trace all packets of a message are written to the same link — the one that was
current at its first packet — also when the client reconnects while the sender is suspended between two packets -/
theorem C19_one_link (evs : List Ev) (s : CS) (h : runTrace init evs = some s) :
    ∀ e1 ∈ s.wire, ∀ e2 ∈ s.wire, e1.2.1 = e2.2.1 → e1.1 = e2.1 :=
  (reach_inv h).oneLink

/-- **A link that is given up is shut**: DISCONNECTED is only reported for a fault seen on the current link, and only once
that link has been shut -/
theorem C19_fault_shuts_link (s s' : CS) (h : step s (.status .disconnected) = some s') :
    ∃ c, s.conn = some c ∧ c ∈ s.faulted ∧ c ∈ s'.writerClosed :=
  step_status_disconnected h

/-- a fault is only ever recorded for a link that exists -/
theorem C19_faulted_links_exist (evs : List Ev) (s : CS) (h : runTrace init evs = some s) : ∀ c ∈ s.faulted, c < s.nextConn :=
  (reach_inv3 h).faulted

/-- **No sender is left behind on a replaced link**: in every accepted trace, every link that was reported CONNECTED and is
no longer the current one has been shut, and no write to a shut link is accepted (`C19_no_write_after_shut`).  (What the
model cannot state is the liveness half — that a sender suspended in drain() on the shut link is woken with an error and
releases the send lock; that is asyncio's contract for a closed transport, exercised by the `stuck` drain scenarios and the
replay `C19/send-blocked/replaced-link` on real sockets) -/
theorem C19_replaced_link_shut (evs : List Ev) (s : CS) (h : runTrace init evs = some s) :
    ∀ c ∈ s.everConnected, s.conn ≠ some c → c ∈ s.writerClosed :=
  (reach_inv2 h).main

/-- … and no packet is written to a link after it has been shut -/
theorem C19_no_write_after_shut (s s' : CS) (c sid idx : Nat) (h : step s (.write c sid idx) = some s') : c ∉ s.writerClosed :=
  step_write_open h

-- non-vacuity: two concurrent 2-packet sends whose drains suspend
example : (runTrace init [.connCall, .implStart, .implOk 1, .status .connected, .connReturn, .sendCall 1, .write 1 1 0, .sendCall 2,
    .write 1 1 1, .sendReturn 1, .write 1 2 0, .write 1 2 1, .sendReturn 2]).map (fun s => sids s.wire) = some [1, 1, 2, 2] := by decide +kernel
-- a sender suspended after packet 0 when the link is lost: the link is shut before DISCONNECTED is reported, its second packet fails
-- on the OLD link (and releases the lock) while the client has reconnected; writing it to the old or to the new link is not a behaviour of the model
example : (runTrace init [.connCall, .implStart, .implOk 1, .status .connected, .connReturn, .recvStart 1, .sendCall 1, .write 1 1 0,
    .envEof 1, .writerClose 1, .status .disconnected, .recvExit 1 false, .connCall, .implStart, .implOk 2, .status .connected, .connReturn, .recvStart 2,
    .drainFail 1, .sendReturn 1, .sendCall 2, .write 2 2 0]).map (fun s => (s.wire, s.lockHolder, s.st)) = some ([(1, 1, 0), (2, 2, 0)], some 2, .connected) := by decide +kernel
example : runTrace init [.connCall, .implStart, .implOk 1, .status .connected, .connReturn, .recvStart 1, .sendCall 1, .write 1 1 0,
    .envEof 1, .writerClose 1, .status .disconnected, .recvExit 1 false, .connCall, .implStart, .implOk 2, .status .connected, .connReturn, .recvStart 2,
    .write 1 1 1] = none := by decide +kernel
example : runTrace init [.connCall, .implStart, .implOk 1, .status .connected, .connReturn, .recvStart 1, .sendCall 1, .write 1 1 0,
    .envEof 1, .writerClose 1, .status .disconnected, .recvExit 1 false, .connCall, .implStart, .implOk 2, .status .connected, .connReturn, .recvStart 2,
    .write 2 1 1] = none := by decide +kernel
-- DISCONNECTED cannot be reported while the faulted link is still open
example : runTrace init [.connCall, .implStart, .implOk 1, .status .connected, .connReturn, .recvStart 1, .envEof 1, .status .disconnected] = none := by decide +kernel
-- and the interleaved order is not a behaviour of the model
example : runTrace init [.connCall, .implStart, .implOk 1, .status .connected, .connReturn, .sendCall 1, .write 1 1 0, .sendCall 2,
    .write 1 2 0] = none := by decide +kernel

end N2k.Client
