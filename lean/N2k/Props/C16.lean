/-
C16 — decoder instances are isolated and unharmed by bad input.
In the functional model instances cannot share state, so the PROVED part is: what a decoder returns
for a probe depends only on its configuration, the probe and the source identity — not on the rest
of the history (single-frame probes; complete fast-packet probes with a fresh counter), and inputs
that are filtered, unknown or rejected leave the state untouched.  The VALIDATED part is isolation
itself: the correspondence keeps several real decoders and encoders alive at once (constructed with
and without arguments), interleaves histories across them and compares each with its own model
instance.  Helpers in `N2k/Lemmas/Dec16.lean`.
-/
import N2k.Model.Decoder
import N2k.Lemmas.Fast03
import N2k.Lemmas.Dec16
namespace N2k.Dec

/-- outputs compared without the dump log -/
def sameIdentity (s1 s2 : State) (a : Nat) : Prop := lookupSrc s1.sources a = lookupSrc s2.sources a

/-- **Single-frame probe**: for a single-frame PGN the result depends only on the configuration, the
input and the identity of its source — it is the same after any history -/
theorem C16_single_frame_probe (G : GenLayer) (cfg : Config) (s1 s2 : State) (i : Input)
    (hk : i.combined = true ∨ G.isFast i.pgn = .single ∨ G.isFast i.pgn = .unknown ∨ G.isFast i.pgn = .raises)
    (hs : sameIdentity s1 s2 i.src) :
    (step G cfg s1 i).2 = (step G cfg s2 i).2 := by
  have hk' : i.combined = true ∨ G.isFast i.pgn ≠ .fast := by
    rcases hk with h | h | h | h
    · exact Or.inl h
    all_goals exact Or.inr (by rw [h]; decide)
  rw [step_out_nonfast G cfg s1 i hk', step_out_nonfast G cfg s2 i hk', hs]

/-- **Ignored or rejected single-frame input is a no-op** on everything a later result can depend on:
reassembly table and source map are unchanged unless the input was a decodable address claim -/
theorem C16_rejected_is_noop (G : GenLayer) (cfg : Config) (st : State) (i : Input)
    (hk : i.combined = true ∨ G.isFast i.pgn ≠ .fast)
    (hr : (step G cfg st i).2 = .raised ∨ (step G cfg st i).2 = .none)
    (hnc : ∀ m, G.decode i.pgn (leNat i.data) = some (.ok m) → m.pgn ≠ isoClaimPgn) :
    (step G cfg st i).1.table = st.table ∧ (step G cfg st i).1.sources = st.sources := by
  have _ := hr   -- not needed: the state is untouched whatever is returned
  exact step_state_nonfast G cfg st i hk hnc

/-- frames of a fast PGN never touch the source map and touch only their own stream's record -/
theorem C16_fast_frame_local (G : GenLayer) (cfg : Config) (st : State) (i : Input)
    (hk : i.combined = false) (hf : G.isFast i.pgn = .fast)
    (hnc : ∀ d m, G.decode i.pgn d = some (.ok m) → m.pgn ≠ isoClaimPgn) (k : Fast.Key) (hne : k ≠ (i.pgn, i.src, i.dst)) :
    (step G cfg st i).1.sources = st.sources ∧ Fast.lookup (step G cfg st i).1.table k = Fast.lookup st.table k := by
  exact step_fast_local G cfg st i hk hf hnc k hne

/-- **Single-frame traffic never touches a reassembly record** — whatever it is and whatever it does to the rest of the state: also
an address claim (which may replace the identity of its source), also an input that is filtered out, rejected or raises.  So
single-frame messages between the frames of a fast-packet message — claims with changing NAMEs from its source or its destination
included — are no loss for it (with `C16_fast_frame_local`: nor are frames of other streams) -/
theorem C16_single_frame_keeps_records (G : GenLayer) (cfg : Config) (st : State) (i : Input)
    (hk : i.combined = true ∨ G.isFast i.pgn ≠ .fast) :
    (step G cfg st i).1.table = st.table :=
  step_table_nonfast G cfg st i hk

/-- … and what a completed fast-packet message does after its last frame (decoding, address-claim handling, filters, dump) changes
no OTHER stream's record either: after any input, every record other than the input's own stream is what it was -/
theorem C16_other_records_untouched (G : GenLayer) (cfg : Config) (st : State) (i : Input) (k : Fast.Key)
    (hne : k ≠ (i.pgn, i.src, i.dst)) :
    Fast.lookup (step G cfg st i).1.table k = Fast.lookup st.table k :=
  step_table_other G cfg st i k hne

/-- the inputs that carry the frames of one fast-packet message, in order -/
def framesInputs (pgn prio src dst : Nat) (w : Bool) (frames : List (List Nat)) : List Input :=
  frames.map (fun f => { pgn := pgn, prio := prio, src := src, dst := dst, data := f, combined := false, inWindow := w })

/-- **Fast-packet probe**: a complete fast-packet message whose sequence counter differs from the
stream's current record decodes — at its last frame, nothing before — to exactly what the
pre-assembled payload decodes to, after ANY history (any state `st`), as long as the source's
identity is the same. This is also the fast-packet clause of C07 (frame by frame = pre-assembled). -/
theorem C16_fast_probe (G : GenLayer) (cfg : Config) (st : State) (pgn prio src dst seq : Nat) (w : Bool) (P : List Nat)
    (hf : G.isFast pgn = .fast) (hne : pgn ≠ isoClaimPgn)
    (hnc : ∀ d m, G.decode pgn d = some (.ok m) → m.pgn ≠ isoClaimPgn)
    (hs : seq < 8) (hP : P.length ≤ 223)
    (h0 : ∀ x, Fast.lookup st.table (pgn, src, dst) = some x → x.seq ≠ seq) :
    let ins := framesInputs pgn prio src dst w (Fast.frames seq P)
    let combinedIn : Input := { pgn := pgn, prio := prio, src := src, dst := dst, data := P, combined := true, inWindow := w }
    let outs := (run G cfg st ins).2
    outs.dropLast.all (· = Out.none) = true ∧
    outs.getLast? = some (step G cfg st combinedIn).2 := by
  intro ins combinedIn outs
  have _ := hne; have _ := hnc   -- not needed: no frame before the last reaches the per-PGN decoder
  exact fast_probe_aux G cfg st pgn prio src dst seq w P hf hs hP h0

/-! ### the whole-history form: rejected and ignored inputs can be removed from a history -/

/-- **What is returned never depends on the dump log**, and neither do the parts of the state a later result depends on -/
theorem C16_step_sim (G : GenLayer) (cfg : Config) (s1 s2 : State) (i : Input) (h : Sim s1 s2) :
    (step G cfg s1 i).2 = (step G cfg s2 i).2 ∧ Sim (step G cfg s1 i).1 (step G cfg s2 i).1 :=
  step_sim G cfg s1 s2 i h

/-- **Rejected and ignored inputs never change what is returned later** (the statement's second sentence, for whole histories): remove
from ANY history any set of inputs that were rejected or ignored where they stood, start from any state with the same table and source
map (e.g. a different dump log) — the decoder returns, at every remaining position, exactly what it returned in the full history -/
theorem C16_garbage_removal (G : GenLayer) (cfg : Config) (st st' : State) (is : List Input) (ks : List Bool)
    (hl : ks.length = is.length) (hs : Sim st st') (hd : DropsOk G cfg st is ks) :
    (run G cfg st' (pick ks is)).2 = pick ks (run G cfg st is).2 :=
  garbage_removal G cfg st st' is ks hl hs hd

/-- the inputs `C16_rejected_is_noop` speaks about satisfy the condition of `DropsOk` -/
theorem C16_rejected_drops_ok (G : GenLayer) (cfg : Config) (st : State) (i : Input)
    (hk : i.combined = true ∨ G.isFast i.pgn ≠ .fast)
    (hr : (step G cfg st i).2 = .raised ∨ (step G cfg st i).2 = .none)
    (hnc : ∀ m, G.decode i.pgn (leNat i.data) = some (.ok m) → m.pgn ≠ isoClaimPgn) :
    ((step G cfg st i).2 = .raised ∨ (step G cfg st i).2 = .none) ∧
      (step G cfg st i).1.table = st.table ∧ (step G cfg st i).1.sources = st.sources :=
  ⟨hr, C16_rejected_is_noop G cfg st i hk hr hnc⟩

/-- **Decoding the same history twice gives the same results**, whatever was written to the dump in between -/
theorem C16_replay (G : GenLayer) (cfg : Config) (st st' : State) (is : List Input) (hs : Sim st st') :
    (run G cfg st is).2 = (run G cfg st' is).2 :=
  run_sim G cfg st st' is hs

/-- non-vacuity of the mask -/
example : pick [true, false, true] [1, 2, 3] = [1, 3] := by decide

/-- a small generated layer: PGN 1 is single-frame and its decoder raises; nothing else is known -/
def exG : GenLayer := { isFast := fun p => if p = 1 then .single else .unknown, decode := fun _ _ => some .raised }
def exCfg : Config := {
  excludeNums := [], excludeIds := [], includeNums := [], includeIds := [], excludeManu := [], includeManu := [],
  units := [], dumpOn := false, dumpNums := [], dumpIds := [], buildMap := false, isoClaimFilter := false }
def exIn (pgn : Nat) : Input := { pgn := pgn, prio := 0, src := 0, dst := 255, data := [], combined := false, inWindow := false }

/-- non-vacuity of `DropsOk`: the middle input (rejected: its decoder raises) may be dropped -/
theorem exDropsOk : DropsOk exG exCfg {} [exIn 2, exIn 1, exIn 2] [true, false, true] :=
  ⟨fun h => Bool.noConfusion h, fun _ => ⟨Or.inl rfl, rfl, rfl⟩, fun h => Bool.noConfusion h, trivial⟩

/-- … and `C16_garbage_removal` applies to it: without the rejected input, started with some other dump log, the same two results -/
example (d : List OutMsg) : (run exG exCfg { dump := d } [exIn 2, exIn 2]).2 = [.none, .none] :=
  C16_garbage_removal exG exCfg {} { dump := d } [exIn 2, exIn 1, exIn 2] [true, false, true] rfl ⟨rfl, rfl⟩ exDropsOk

example : (run exG exCfg {} [exIn 2, exIn 1, exIn 2]).2 = [.none, .raised, .none] := rfl

end N2k.Dec
