/-
C17 — the identity hash depends exactly on message kind and primary-key fields.
`hash = md5(key)` with `key = id ++ "_" ++ str(raw)` for every primary-key field, in order
(`Dec.hashKey`, tie: T3 — the harness hashes the model's key with hashlib and compares with the
implementation's digest).  Which fields are primary keys is pinned by the table theorems of C01
(field metadata of every decoder = database).  Collision-freedom of MD5 itself is NOT a theorem:
"different keys ⇒ different hashes" is stated on the key strings (`C17_key_injective`), the step
from distinct keys to distinct digests is the named gap.  Helpers in `N2k/Lemmas/Dec17.lean`.
-/
import N2k.Model.Decoder
import N2k.Gen.All
import N2k.Lemmas.Dec17
namespace N2k.Dec

/-- the primary-key raw values of a message, in field order -/
def keyRaws (m : Msg) : List PyVal := (m.fields.filter (·.fmeta.pk)).map (·.raw)

/-- with network mapping off no hash is set; with it on, the hash key is `hashKey` of the decoded message -/
theorem C17_off_none (G : GenLayer) (cfg : Config) (st : State) (i : Input) (o : OutMsg)
    (hb : cfg.buildMap = false) (h : (step G cfg st i).2 = .msg o) : o.hashKey = none := by
  obtain ⟨m, hm⟩ := step_hashKey G cfg st i o h
  simpa [hb] using hm

theorem C17_on_some (G : GenLayer) (cfg : Config) (st : State) (i : Input) (o : OutMsg)
    (hb : cfg.buildMap = true) (h : (step G cfg st i).2 = .msg o) : ∃ k, o.hashKey = some k := by
  obtain ⟨m, hm⟩ := step_hashKey G cfg st i o h
  exact ⟨hashKey m, by simpa [hb] using hm⟩

/-- the key is a function of the id and the primary-key raw values only -/
theorem C17_key_eq (m : Msg) : hashKey m = (keyRaws m).foldl (fun acc r => acc ++ "_" ++ pyStr r) m.id :=
  hashKey_eq_fold m

/-- **Equal id and equal primary-key raws ⇒ equal key** (hence equal hash), whatever the other
fields, values, units, source, destination, priority or decoder instance -/
theorem C17_congr (m m' : Msg) (hid : m.id = m'.id) (hk : keyRaws m = keyRaws m') : hashKey m = hashKey m' := by
  rw [C17_key_eq, C17_key_eq, hid, hk]

/-- the hash key is computed before unit preferences are applied and does not see them -/
theorem C17_units_irrelevant (units : List (String × String)) (m m' : Msg) (h : applyUnits units m = some m') :
    hashKey m' = hashKey m :=
  hashKey_applyUnits units m m' h

def noUnderscore (s : String) : Prop := '_' ∉ s.toList
def intOrNone : PyVal → Prop
  | .int _ => True
  | .none => True
  | _ => False

/-- the kinds of raw value a primary-key field can have: integer, absent, or (ASCII) text -/
def keyKind : PyVal → Prop
  | .int _ => True
  | .none => True
  | .str _ => True
  | _ => False

/-- **Different id or different primary-key raws ⇒ different key**, for ids without '_' and integer
(or absent) key values -/
theorem C17_key_injective (m m' : Msg) (h1 : noUnderscore m.id) (h2 : noUnderscore m'.id)
    (k1 : ∀ r ∈ keyRaws m, intOrNone r) (k2 : ∀ r ∈ keyRaws m', intOrNone r)
    (h : hashKey m = hashKey m') : m.id = m'.id ∧ keyRaws m = keyRaws m' := by
  rw [C17_key_eq, C17_key_eq] at h
  exact foldKey_injective intOrNone (fun r hr => by cases r <;> simp_all [intOrNone, IntOrNone])
    _ _ _ _ h1 h2 k1 k2 h

/-- **… and with text keys too** (the four station-id keys of 130320–130324): for two messages of the
SAME definition (same id, same number of key fields) whose key values are integers, absent or text —
any text, also text containing '_' or spelling "None" — equal keys imply equal key values.
(Text is written with its length, so the parts of the key can be read back one by one.)
The text must be ASCII (`a1`, `a2`: every code < 128, which is what `PyVal.str` is documented to carry):
`pyStr` renders codes with `Char.ofNat`, which sends every invalid code point to '\0', so without this
the claim is false (`C17_text_needs_ascii` below). -/
theorem C17_key_injective_text (m m' : Msg) (hid : m.id = m'.id) (hlen : (keyRaws m).length = (keyRaws m').length)
    (k1 : ∀ r ∈ keyRaws m, keyKind r) (k2 : ∀ r ∈ keyRaws m', keyKind r)
    (a1 : ∀ r ∈ keyRaws m, ∀ cs, r = .str cs → ∀ c ∈ cs, c < 128)
    (a2 : ∀ r ∈ keyRaws m', ∀ cs, r = .str cs → ∀ c ∈ cs, c < 128)
    (h : hashKey m = hashKey m') : keyRaws m = keyRaws m' := by
  rw [C17_key_eq, C17_key_eq, hid] at h
  have kk : ∀ r, keyKind r → KeyKind r := by
    intro r hr
    cases r <;> simp_all [keyKind, KeyKind]
  exact foldKey_injective_text m'.id _ _ hlen (fun r hr => kk r (k1 r hr)) (fun r hr => kk r (k2 r hr)) a1 a2 h

/-- why the ASCII hypothesis is needed: codes 0 and 0xD800 (not a valid code point) render alike -/
theorem C17_text_needs_ascii : pyStr (.str [0]) = pyStr (.str [0xD800]) ∧ PyVal.str [0] ≠ PyVal.str [0xD800] := by
  decide +kernel

/-- database facts (kernel, regenerated): no definition id contains '_'; primary-key fields are
LOOKUP, NUMBER with resolution 1, MMSI (integers), or one of the string/dynamic kinds listed -/
def pkKindOk (f : FieldDef) : Bool :=
  !f.pk || f.ftype = "LOOKUP" || f.ftype = "MMSI" || f.ftype = "STRING_LAU" || f.ftype = "DYNAMIC_FIELD_KEY" ||
    (f.ftype = "NUMBER" && f.resolution == some (Lit.ofInt 1))
theorem C17_db_key_kinds : Gen.dbPgns.all (fun p => !p.id.toList.contains '_' && p.fields.all pkKindOk) = true := by
  decide +kernel

-- non-vacuity: two battery-status messages differing only in a non-key field have the same key
-- an absent station id and the station id "None" have different keys
example : pyStr .none ≠ pyStr (.str ("None".toList.map Char.toNat)) := by decide +kernel

example : hashKey ⟨127508, "batteryStatus", "", none, [⟨⟨"instance", "", none, none, none, "NUMBER", true⟩, .int 1, .int 1⟩, ⟨⟨"voltage", "", none, none, none, "NUMBER", false⟩, .int 5, .int 5⟩]⟩
        = "batteryStatus_1" := by decide +kernel

end N2k.Dec
