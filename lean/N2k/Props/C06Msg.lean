/-
C06, message level — "for every encodable message and each gateway format the packets produced by the
encoder are accepted by the library's decoder for that format and yield a message with the same PGN,
addressing, priority and field values".

Composition of: the encoder model (`Model/Encoder.lean`: `_encode` glue, fast-packet split, gateway
wrapping, instantiated with the T1 tables), the frame-level wire round trips (C06), the identifier
round trip (C05), and frame-by-frame = pre-assembled (C07).  The theorems say that the wire trip is
TRANSPARENT: what the decoder returns for the encoder's packets is exactly what it returns for the
encoder's payload handed over pre-assembled with the message's own addressing.  That the payload
decodes back to the message's field values is C09/C02 (payload level).
-/
import N2k.Model.Encoder
import N2k.Props.C06
import N2k.Props.C07Fast
import N2k.Lemmas.Enc06
namespace N2k.Enc
open N2k N2k.Dec N2k.Gen N2k.Spec N2k.Straight

/-- the encoder side of the shipped generated layer (regenerated from /repo on every run) -/
def shippedEnc : EncLayer := mkEncLayer ⟨masterDict, masterFlagsDict, masterIndirectDict, revDicts⟩ encFns fasts

/-- how a frame-level front-end hands a frame to the decoding core -/
def toInput (w : Bool) (f : Wire.Frame) : Input :=
  { pgn := f.pgn, prio := f.prio, src := f.src, dst := f.dst, data := f.data, combined := false, inWindow := w }

/-- all packets were accepted: the frames they carry -/
def okFrames (rs : List (Wire.Res Wire.Frame)) : Option (List Wire.Frame) :=
  rs.mapM (fun r => match r with | .ok f => some f | _ => none)

/-- canonical addressing: a PDU1 (addressed) PGN has low byte 0 and a one-byte destination; a PDU2 (broadcast) PGN goes to 255 -/
def CanonAddr (m : MsgIn) : Prop :=
  m.dst < 256 ∧ (if m.pgn / 256 % 256 < 240 then m.pgn % 256 = 0 else m.dst = 255)

/-- the message handed over pre-assembled -/
def wholeInput (w : Bool) (m : MsgIn) (B : Bytes) : Input :=
  { pgn := m.pgn, prio := m.prio, src := m.src, dst := m.dst, data := B, combined := true, inWindow := w }

/-- **EByte**: every packet is 13 bytes, every packet is accepted by `decode_tcp`, nothing is returned before
the last packet, and the last packet returns exactly what the pre-assembled payload returns — for every
message of a Single or Fast definition of the database that the encoder accepts, any counter, any decoder
configuration and any decoder state whose record does not already hold the counter. -/
theorem C06_message_trip_ebyte (cfg : Config) (st : State) (m : MsgIn) (seq seq' : Nat) (pk : List Bytes)
    (p : PgnDef) (hp : p ∈ dbPgns) (hpg : p.pgn = m.pgn) (hty : p.ptype = "Fast" ∨ p.ptype = "Single")
    (hc : CanonAddr m) (hs : seq < 8) (w : Bool)
    (h0 : ∀ x, Fast.lookup st.table (m.pgn, m.src, m.dst) = some x → x.seq ≠ seq)
    (he : encodeEbyte shippedEnc seq m = .ok (seq', pk)) :
    (∀ q ∈ pk, q.length = 13) ∧
    ∃ B fs, callEncode shippedEnc m = .ok B ∧ okFrames (pk.map Wire.decodeTcp) = some fs ∧
      (let outs := (run shipped cfg st (fs.map (toInput w))).2
       outs.dropLast.all (· = Out.none) = true ∧
       outs.getLast? = some (step shipped cfg st (wholeInput w m B)).2) := by
  obtain ⟨frs, hF, h8f, rfl⟩ := encodeEbyte_inv shippedEnc seq seq' m pk he
  obtain ⟨hpr, hsr, hpn, hsz, B, hB, hrun⟩ := trip_core cfg st shippedEnc (fun _ => rfl) m seq seq' frs p hp hpg hty hs w h0
    (fun _ B _ hfr => h8f B (by rw [hfr]; exact List.mem_singleton.mpr rfl)) hF
  have hdec := (packets_decode m hpr hsr hc.1 hpn hc.2 frs hsz).1
  refine ⟨(packets_length (frameId m) frs hsz).1, B, frs.map (msgFrame m), hB, ?_, ?_⟩
  · unfold okFrames
    rw [hdec]
    exact mapM_ok _ (fun _ => rfl) _
  · have e : (frs.map (msgFrame m)).map (toInput w) = frs.map (frameIn m.pgn m.prio m.src m.dst w) := by
      rw [List.map_map]; rfl
    rw [e]
    exact hrun

/-- **USB**: same statement with 20-byte packets; a single-frame payload must fit a frame (the USB encoder
does not check it) -/
theorem C06_message_trip_usb (cfg : Config) (st : State) (m : MsgIn) (seq seq' : Nat) (pk : List Bytes)
    (p : PgnDef) (hp : p ∈ dbPgns) (hpg : p.pgn = m.pgn) (hty : p.ptype = "Fast" ∨ p.ptype = "Single")
    (hc : CanonAddr m) (hs : seq < 8) (w : Bool)
    (h0 : ∀ x, Fast.lookup st.table (m.pgn, m.src, m.dst) = some x → x.seq ≠ seq)
    (h8 : p.ptype = "Single" → ∀ B, callEncode shippedEnc m = .ok B → B.length ≤ 8)
    (he : encodeUsb shippedEnc seq m = .ok (seq', pk)) :
    (∀ q ∈ pk, q.length = 20) ∧
    ∃ B fs, callEncode shippedEnc m = .ok B ∧ okFrames (pk.map Wire.decodeUsb) = some fs ∧
      (let outs := (run shipped cfg st (fs.map (toInput w))).2
       outs.dropLast.all (· = Out.none) = true ∧
       outs.getLast? = some (step shipped cfg st (wholeInput w m B)).2) := by
  obtain ⟨frs, hF, rfl⟩ := encodeUsb_inv shippedEnc seq seq' m pk he
  obtain ⟨hpr, hsr, hpn, hsz, B, hB, hrun⟩ := trip_core cfg st shippedEnc (fun _ => rfl) m seq seq' frs p hp hpg hty hs w h0
    (fun ht B hB _ => h8 ht B hB) hF
  have hdec := (packets_decode m hpr hsr hc.1 hpn hc.2 frs hsz).2
  refine ⟨(packets_length (frameId m) frs hsz).2, B, frs.map (msgFrame m), hB, ?_, ?_⟩
  · unfold okFrames
    rw [hdec]
    exact mapM_ok _ (fun _ => rfl) _
  · have e : (frs.map (msgFrame m)).map (toInput w) = frs.map (frameIn m.pgn m.prio m.src m.dst w) := by
      rw [List.map_map]; rfl
    rw [e]
    exact hrun

/-- **Actisense**: the one line, once the gateway's `A<sec>.<ms>` token is prepended, is accepted and carries
the message's own PGN, addressing, priority and the whole payload (an empty payload included) -/
theorem C06_message_trip_actisense (m : MsgIn) (line : List Char)
    (he : encodeActisense shippedEnc m = .ok line) :
    ∃ B, callEncode shippedEnc m = .ok B ∧
      Wire.decodeActisense ("A000001.000 ".toList ++ line) =
        .ok { pgn := m.pgn, prio := m.prio, src := m.src, dst := m.dst, data := B } := by
  obtain ⟨⟨hp, hs, hg, hd⟩, B, hB, rfl⟩ := encodeActisense_inv shippedEnc m line he
  exact ⟨B, hB, Wire.C06_actisense_rt m.prio m.dst m.src m.pgn B (by omega) (by omega) (by omega) (by omega) (callEncode_mk_bytes _ _ _ m B hB)⟩

/-- **The addressing guard of the model is the translated `_check_header`** (T2: `Gen/Straight.lean` is regenerated from
`nmea2000/encoder.py` on every run): the messages every format refuses are exactly those the source's checks reject -/
theorem C06_header_check_translated (m : MsgIn) :
    (7 < m.prio ∨ 255 < m.src ∨ 0x3FFFF < m.pgn ∨ 255 < m.dst) ↔ Straight.check_header m.prio m.src m.pgn m.dst = false := by
  unfold Straight.check_header
  grind

/-- out-of-range addressing is refused by the Actisense encoder exactly as by the three CAN formats -/
theorem C06_actisense_rejects_out_of_range (L : EncLayer) (m : MsgIn)
    (h : 7 < m.prio ∨ 255 < m.src ∨ 0x3FFFF < m.pgn ∨ 255 < m.dst) :
    encodeActisense L m = .raised ∧ ∀ seq, encodeFrames L seq m = .raised := by
  simp [encodeActisense, encodeFrames, h]

/-- the sequence counter advances by one (mod 8) per fast-packet message and not at all otherwise; a refused
message leaves it unchanged by construction (`Res.raised` carries no counter) -/
theorem C06_counter (L : EncLayer) (seq seq' : Nat) (m : MsgIn) (frs : List Bytes)
    (he : encodeFrames L seq m = .ok (seq', frs)) :
    seq' = (if L.isFast m.pgn = .fast then (seq + 1) % 8 else seq) := by
  exact encodeFrames_counter L seq seq' m frs he

end N2k.Enc
