/-
C09, message level — "encoding … produces a payload that decodes back to the same values …; changing one
field's value changes only that field's bits".

For every well-formed encodable definition (`EncWF`, evaluated on the regenerated database by
`C02_db_coverage`) and EVERY assignment of field values the compiled encoder accepts: the bits of every field
in the produced payload are exactly that field's own encoded integer, reduced to the field's width — no
field disturbs another one's bits, whatever the other values are.  Together with the codec-level theorems
(`C09_number_nearest_tick`: the encoded integer of a NUMBER is the nearest tick and lies in the
representable range, so the reduction changes nothing; `C09_raw_exact_partial`) this is "decodes back to the
same values"; where the reduction does change the integer (LOOKUP/RESERVED/DATE/TIME raw values that do not
fit) it is the known finding `C09/wraps-silently/*`.
-/
import N2k.Props.C02
import N2k.Props.C09
import N2k.Lemmas.Enc09
namespace N2k
open N2k.Spec

/-- **The bits of every field are that field's own encoded value.** -/
theorem C09_payload_bits (env : Env) (g : List PgnDef) (p : PgnDef) (hwf : EncWF p = true)
    (fs : List Field) (bytes : List Nat) (henc : runEnc env (compileEnc g p) fs = .ok bytes) :
    ∀ f ∈ p.fields, ∀ o l, f.bitOffset = some o → f.bitLength = some l →
      ∃ fld v, getField fs (fieldId f) = some fld ∧ encValue env fld (encKind f l) = .ok v ∧
        Straight.decode_int (leNat bytes) o l = contrib v l := by
  have e1 : leNat = Enc02.leNat' := funext (Enc02.leNat_unique leNat rfl (fun _ _ => rfl))
  have e2 := Enc02.rangesDisj_unique rangesDisjoint rfl (fun _ _ => rfl) p.fields
  have e4 : encFieldOk = Enc02.fieldOk := rfl
  simp only [EncWF, Bool.and_eq_true, e2, e4] at hwf
  obtain ⟨⟨⟨⟨h1, h2⟩, -⟩, -⟩, -⟩ := hwf
  rw [e1]
  exact Enc09.payload_bits env g p h1 h2 fs bytes henc

/-- corollary: two accepted assignments that agree on a field produce the same bits for it, whatever the other fields hold -/
theorem C09_field_bits_depend_on_field_only (env : Env) (g : List PgnDef) (p : PgnDef) (hwf : EncWF p = true)
    (fs fs' : List Field) (b b' : List Nat)
    (h : runEnc env (compileEnc g p) fs = .ok b) (h' : runEnc env (compileEnc g p) fs' = .ok b')
    (f : FieldDef) (hf : f ∈ p.fields) (o l : Nat) (ho : f.bitOffset = some o) (hl : f.bitLength = some l)
    (hsame : getField fs (fieldId f) = getField fs' (fieldId f)) :
    Straight.decode_int (leNat b) o l = Straight.decode_int (leNat b') o l := by
  obtain ⟨fld, v, hg, hv, hd⟩ := C09_payload_bits env g p hwf fs b h f hf o l ho hl
  obtain ⟨fld', v', hg', hv', hd'⟩ := C09_payload_bits env g p hwf fs' b' h' f hf o l ho hl
  rw [hsame, hg'] at hg
  cases hg
  rw [hv'] at hv
  cases hv
  rw [hd, hd']

end N2k
