/-
C03 — fast-packet segmentation and reassembly are inverse for every payload length.
Model: `N2k/Model/Fast.lean` (tie: T3, exhaustive over all 224 lengths × 8 counters on every run).
Property theorems only; helper lemmas live in `N2k/Lemmas/Fast03.lean`.
-/
import N2k.Model.Fast
import N2k.Lemmas.Fast03
namespace N2k.Fast

/-- every frame carries at most 8 bytes -/
theorem C03_frame_sizes (seq : Nat) (P : Bytes) : ∀ f ∈ frames seq P, f.length ≤ 8 := by
  intro f hf
  simp only [frames, List.mem_cons] at hf
  rcases hf with hf | hf
  · subst hf; simp only [List.length_cons, List.length_take]; omega
  · exact restFrames_mem_length seq _ 1 (chunks_mem_length 7 (by omega) _) f hf

/-- the first frame: sequence counter in the high 3 bits, frame counter 0, announced total length, first 6 bytes -/
theorem C03_first_frame (seq : Nat) (P : Bytes) :
    (frames seq P)[0]? = some (seq * 32 :: P.length :: P.take 6) := by
  simp [frames]

/-- number of frames: 1 for up to 6 bytes, else 1 + ⌈(len-6)/7⌉ — no frame for data that does not exist -/
theorem C03_frame_count (seq : Nat) (P : Bytes) :
    (frames seq P).length = if P.length ≤ 6 then 1 else 1 + (P.length - 6 + 6) / 7 := by
  rw [frames_length]; split <;> omega

/-- frame i ≥ 1: same sequence counter, frame counter i, and between 1 and 7 data bytes, namely the
next slice of the payload -/
theorem C03_later_frame (seq : Nat) (P : Bytes) (i : Nat) (hi : 0 < i) (h : i < (frames seq P).length) :
    (frames seq P)[i]? = some ((seq * 32 + i) :: (P.drop (6 + 7 * (i - 1))).take 7) ∧
    0 < ((P.drop (6 + 7 * (i - 1))).take 7).length := by
  obtain ⟨j, rfl⟩ : ∃ j, i = j + 1 := ⟨i - 1, by omega⟩
  rw [frames_length] at h
  have hj : 6 + 7 * j < P.length := by omega
  simp only [frames_getElem?_succ, Nat.add_sub_cancel, hj, if_true, List.length_take,
    List.length_drop, true_and]
  omega

/-- for the legal lengths (≤ 223) the frame counter stays below 32, i.e. inside its 5 bits -/
theorem C03_frame_counter_fits (seq : Nat) (P : Bytes) (hP : P.length ≤ 223) :
    (frames seq P).length ≤ 32 := by
  rw [frames_length]; omega

/-- the sequence counter advances modulo 8 and differs from the previous message's -/
theorem C03_seq_advances (seq : Nat) (P : Bytes) (hs : seq < 8) :
    (encode seq P).2 = (seq + 1) % 8 ∧ (encode seq P).2 ≠ seq ∧ (encode seq P).2 < 8 := by
  have := hs
  refine ⟨rfl, ?_, ?_⟩ <;> simp only [encode] <;> omega

/-- A decoder fed the frames in order — from a stream state that is empty or holds an unfinished
message with another sequence counter — returns nothing until the last frame and then exactly the
original payload; afterwards no record is left. -/
theorem C03_roundtrip (seq : Nat) (P : Bytes) (hs : seq < 8) (hP : P.length ≤ 223)
    (r0 : Option Rec) (h0 : ∀ x, r0 = some x → x.seq ≠ seq) :
    run r0 (frames seq P) =
      (none, List.replicate ((frames seq P).length - 1) Out.stored ++ [Out.complete P]) :=
  run_frames seq P hs hP r0 h0

/-- **A reused sequence counter does not mix messages.**  The same conclusion from ANY stream state — also one that holds
leftovers of an unfinished message with this very counter — as long as the message's first frame is not a mere repetition
of the first frame stored there (`startsNew`: other counter, other data bytes or other announced length): the first frame
then starts a new message. -/
theorem C03_roundtrip_reused_counter (seq : Nat) (P : Bytes) (hs : seq < 8) (hP : P.length ≤ 223)
    (r0 : Option Rec) (hnew : startsNew r0 seq (P.length :: P.take 6) = true) :
    run r0 (frames seq P) =
      (none, List.replicate ((frames seq P).length - 1) Out.stored ++ [Out.complete P]) :=
  run_frames_new seq P hs hP r0 hnew

/-- consecutive messages (counter wrap-around included): each is returned exactly once, in order -/
def encodeAll : Nat → List Bytes → List Bytes
  | _, [] => []
  | seq, P :: Ps => frames seq P ++ encodeAll ((seq + 1) % 8) Ps

def completes : List Out → List Bytes
  | [] => []
  | .complete p :: os => p :: completes os
  | _ :: os => completes os

theorem C03_sequence (seq : Nat) (Ps : List Bytes) (hs : seq < 8) (hP : ∀ P ∈ Ps, P.length ≤ 223) :
    completes (run none (encodeAll seq Ps)).2 = Ps := by
  have hc : ∀ (k : Nat) (p : Bytes) (os : List Out),
      completes (List.replicate k Out.stored ++ Out.complete p :: os) = p :: completes os := by
    intro k p os
    induction k with
    | zero => rfl
    | succ k ih => simpa [List.replicate_succ, completes] using ih
  induction Ps generalizing seq with
  | nil => rfl
  | cons P Ps ih =>
    simp only [encodeAll]
    rw [run_frames_append seq P hs (hP P (by simp)), hc,
      ih ((seq + 1) % 8) (Nat.mod_lt _ (by omega)) (fun Q hQ => hP Q (by simp [hQ]))]

-- non-vacuity
example : run none (frames 7 (List.range 223)) =
    (none, List.replicate 31 Out.stored ++ [Out.complete (List.range 223)]) := by decide +kernel
example : (frames 5 []).length = 1 ∧ run none (frames 5 []) = (none, [Out.complete []]) := by decide +kernel

end N2k.Fast
