/-
C18 — preferred-unit conversion rewrites only value and unit of matching quantities.
Model: `Dec.applyUnits` / `Dec.convertField` / the six conversion functions in
`N2k/Model/Decoder.lean` (Python float arithmetic as exact rationals + `rne`; tie: T3 over the
quantity fields' value ranges × preference maps).  Helpers in `N2k/Lemmas/Dec18.lean`.
-/
import N2k.Model.Decoder
import N2k.Gen.All
import N2k.Lemmas.F64
import N2k.Lemmas.Dec18
namespace N2k.Dec

/-- everything of a field except value and unit -/
def fieldFrame (f : Field) : String × String × Option String × Option String × String × Bool × PyVal :=
  (f.fmeta.id, f.fmeta.name, f.fmeta.desc, f.fmeta.pq, f.fmeta.ftype, f.fmeta.pk, f.raw)

/-- **Frame rule**: applying preferences keeps the message's PGN, id, description, interval, the number
and order of fields and, per field, id, name, description, quantity, type, primary-key flag and RAW
value; only `value` and `unit` may change -/
theorem C18_frame (units : List (String × String)) (m m' : Msg) (h : applyUnits units m = some m') :
    m'.pgn = m.pgn ∧ m'.id = m.id ∧ m'.desc = m.desc ∧ m'.ttlMs = m.ttlMs ∧
    m'.fields.map fieldFrame = m.fields.map fieldFrame :=
  applyUnits_frame units m m' h

/-- a field whose quantity has no recognised preference is untouched (no quantity, quantity without a
preference, unrecognised unit, quantity without conversions) -/
theorem C18_untouched (units : List (String × String)) (f : Field)
    (h : ∀ pq u, f.fmeta.pq = some pq → assocGet pq units = some u → conversion pq u f.fmeta.unit = none) :
    convertField units f = some f :=
  convertField_untouched units f h

/-- an angle the database already gives in degrees is left alone whatever the ANGLE preference -/
theorem C18_degrees_untouched (units : List (String × String)) (f : Field)
    (hq : f.fmeta.pq = some "ANGLE") (hu : f.fmeta.unit = some "deg") : convertField units f = some f := by
  apply C18_untouched
  intro pq u h _
  rw [hq] at h
  cases h
  simp [conversion, hu]

/-- absent values stay absent (the unit label is still rewritten) -/
theorem C18_absent (units : List (String × String)) (f f' : Field) (hv : f.value = .none)
    (h : convertField units f = some f') : f'.value = .none :=
  convertField_absent units f f' hv h

/-- no preferences: nothing changes -/
theorem C18_no_prefs (m : Msg) : applyUnits [] m = some m :=
  applyUnits_nil m

/-- preferences are matched on the lower-cased unit: `mkConfig` lower-cases every requested unit -/
theorem C18_case_insensitive (u : UserConfig) (cfg : Config) (h : mkConfig u = some cfg) :
    cfg.units = u.units.map (fun p => (p.1, lower p.2)) :=
  mkConfig_units u cfg h

/-- **Decoding with preferences = conversion of decoding without**: one step of the decoder under
`cfg` and under `cfg` with the preferences removed give the same state (up to the dump log) and
outputs related by `applyUnits` -/
theorem C18_decode_commutes (G : GenLayer) (cfg : Config) (st : State) (i : Input) :
    let cfg0 := { cfg with units := [] }
    (step G cfg st i).1.table = (step G cfg0 st i).1.table ∧
    (step G cfg st i).1.sources = (step G cfg0 st i).1.sources ∧
    (match (step G cfg0 st i).2 with
     | .msg o0 =>
       (match applyUnits cfg.units o0.msg with
        | some m' => (step G cfg st i).2 = .msg { o0 with msg := m' }
        | none => (step G cfg st i).2 = .raised)
     | other => (step G cfg st i).2 = other) := by
  intro cfg0
  exact step_units G cfg st i

/-- accuracy of the two conversions that do not round to integers/tenths: bar and psi are the exact
quotient rounded once to binary64 -/
theorem C18_bar_exact (z : Int) : pascalToBar (.int z) = rne ((z : Rat) / 100000) := by
  rfl

/-- Celsius: `round(k − 273.15, 2)`: within 0.005 K (+ double rounding) of the exact difference,
for every kelvin value the 16/24/32-bit temperature fields can carry -/
theorem C18_celsius_acc (k : Rat) (hk : rne k = k) (h0 : 0 ≤ k) (h1 : k ≤ 1000000) :
    |kelvinToCelsius (.flt k) - (k - 27315 / 100)| ≤ 1 / 200 + 1 / 1000000000 :=
  celsius_acc k hk h0 h1

/-- Fahrenheit: `round((k − 273.15)·9/5 + 32)`: within half a degree (+ accumulated binary64 rounding)
of the exact value, for every kelvin value the temperature fields can carry -/
theorem C18_fahrenheit_acc (k : Rat) (hk : rne k = k) (h0 : 0 ≤ k) (h1 : k ≤ 1000000) :
    |kelvinToFahrenheit (.flt k) - ((k - 27315 / 100) * 9 / 5 + 32)| ≤ 1 / 2 + 1 / 1000000 :=
  fahrenheit_acc k hk h0 h1

/-- psi: `p / 6894.76` (not rounded to decimals): within 1e-8 psi of the exact quotient, for every
pascal value the pressure fields can carry -/
theorem C18_psi_acc (p : Rat) (hp : rne p = p) (h0 : -10000000000 ≤ p) (h1 : p ≤ 10000000000) :
    |pascalToPsi (.flt p) - p * 100 / 689476| ≤ 1 / 100000000 :=
  psi_acc p hp h0 h1

/-- degrees: `round(r · (180 / math.pi))`: within half a degree (+ accumulated binary64 rounding) of
`r · 180 / pi64`, where `pi64` is the binary64 value of `math.pi`, for every radian value the angle
fields can carry -/
theorem C18_degrees_acc (r : Rat) (hr : rne r = r) (h0 : -10000 ≤ r) (h1 : r ≤ 10000) :
    |radToDegrees (.flt r) - r * 180 / pi64| ≤ 1 / 2 + 1 / 100000000 :=
  degrees_acc r hr h0 h1

/-- knots: `round(v · (3600 / 1852), 1)`: within 0.05 kn (+ accumulated binary64 rounding) of the exact
value, for every m/s value the speed fields can carry -/
theorem C18_knots_acc (v : Rat) (hv : rne v = v) (h0 : -1000000 ≤ v) (h1 : v ≤ 1000000) :
    |mpsToKnots (.flt v) - v * 3600 / 1852| ≤ 1 / 20 + 1 / 100000000 :=
  knots_acc v hv h0 h1

/-- database fact (kernel, regenerated): every field of the four convertible quantities is a NUMBER -/
theorem C18_db_quantities_numeric :
    Gen.dbPgns.all (fun p => p.fields.all (fun f =>
      !(f.pq = some "TEMPERATURE" || f.pq = some "PRESSURE" || f.pq = some "ANGLE" || f.pq = some "SPEED") || f.ftype = "NUMBER")) = true := by
  decide +kernel

-- non-vacuity: 300 K in Celsius, 1 rad in degrees
example : kelvinToCelsius (.int 300) = rne (2685 / 100) := by decide +kernel
example : radToDegrees (.int 1) = 57 := by decide +kernel
-- 300 K in Fahrenheit, 10 m/s in knots, 1 bar in psi (here equal to the singly rounded exact quotient)
example : kelvinToFahrenheit (.int 300) = 80 := by decide +kernel
example : mpsToKnots (.int 10) = rne (194 / 10) := by decide +kernel
example : pascalToPsi (.int 100000) = rne (10000000 / 689476) := by decide +kernel
example : |pascalToPsi (.int 100000) - 145 / 10| ≤ 1 / 100 := by decide +kernel

end N2k.Dec
