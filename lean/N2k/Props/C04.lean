/-
C04 — fast-packet reassembly is exact under interleaving, reordering, duplication and loss.
Models: `N2k/Model/Fast.lean` (one stream) and `N2k/Model/FastKeyed.lean` (the table keyed by
(pgn, src, dst)).  Tie: T3.  Property theorems only; helpers in `N2k/Lemmas/Fast04.lean`.
-/
import N2k.Model.FastKeyed
import N2k.Lemmas.Fast04
namespace N2k.Fast

/-- outputs of a keyed history restricted to stream `k` -/
def outsOf (k : Key) : List (Key × Bytes) → List Out → List Out
  | (k', _) :: h, o :: os => if k' = k then o :: outsOf k h os else outsOf k h os
  | _, _ => []

def framesOf (k : Key) (h : List (Key × Bytes)) : List Bytes :=
  h.filterMap (fun p => if p.1 = k then some p.2 else none)

/-- **Stream independence.** For every interleaving of frames of different (pgn, src, dst) streams,
what the decoder returns on stream `k` is exactly what it returns for `k`'s frames alone: no bytes
are mixed across streams, and other streams' traffic never disturbs `k`. -/
theorem C04_interleaving (t : Table) (h : List (Key × Bytes)) (k : Key) :
    outsOf k h (runK t h).2 = (run (lookup t k) (framesOf k h)).2 := by
  induction h generalizing t with
  | nil => simp [outsOf, framesOf, run]
  | cons p h ih =>
    obtain ⟨k', f⟩ := p
    have ih' := ih (stepK t k' f).1
    rw [L04.lookup_stepK] at ih'
    rw [L04.runK_cons]
    by_cases hk : k' = k
    · subst hk
      simp only [if_true] at ih'
      simp only [outsOf, framesOf, List.filterMap_cons, if_true, L04.run_cons, L04.stepK_out]
      exact congrArg _ ih'
    · have hk' : ¬ k = k' := fun e => hk e.symm
      simp only [hk', if_false] at ih'
      simp only [outsOf, framesOf, List.filterMap_cons, hk, if_false]
      exact ih'

/-- and the record of `k` afterwards is the one the isolated run leaves -/
theorem C04_interleaving_state (t : Table) (h : List (Key × Bytes)) (k : Key) :
    lookup (runK t h).1 k = (run (lookup t k) (framesOf k h)).1 := by
  induction h generalizing t with
  | nil => simp [framesOf, run, runK]
  | cons p h ih =>
    obtain ⟨k', f⟩ := p
    have ih' := ih (stepK t k' f).1
    rw [L04.lookup_stepK] at ih'
    rw [L04.runK_cons]
    by_cases hk : k' = k
    · subst hk
      simp only [if_true] at ih'
      simp only [framesOf, List.filterMap_cons, if_true, L04.run_cons]
      exact ih'
    · have hk' : ¬ k = k' := fun e => hk e.symm
      simp only [hk', if_false] at ih'
      simp only [framesOf, List.filterMap_cons, hk, if_false]
      exact ih'

/-- A frame that is "stale" with respect to the message under reassembly: a non-first frame that
carries another sequence counter (left over from an earlier message). -/
def isStale (seq : Nat) (f : Bytes) : Prop :=
  ∃ b rest, f = b :: rest ∧ b % 32 ≠ 0 ∧ b / 32 % 8 ≠ seq

/-- distinct frames seen so far -/
def seenAll (F : List Bytes) (hist : List Bytes) : Prop := ∀ f ∈ F, f ∈ hist

/-- **Exactness within one message.** Let `F = framesPad seq P pad` be the frames of a message (the
last one possibly padded, total frame size still ≤ 8). Feed its first frame, then ANY sequence `rest`
of its later frames (permuted, duplicated, some missing) mixed with stale frames of older messages,
starting from an empty stream or an unfinished message with another counter. Then:
* every output is `stored`, `ignored` or `complete P` — never another payload, whatever the padding;
* `complete P` is produced at most once;
* it is produced iff all frames of `F` occur, exactly at the position where the last missing one arrives. -/
theorem C04_exact (seq : Nat) (P pad : Bytes) (hs : seq < 8) (hP : P.length ≤ 223)
    (hpad : ∀ f ∈ framesPad seq P pad, f.length ≤ 8)
    (r0 : Option Rec) (h0 : ∀ x, r0 = some x → x.seq ≠ seq)
    (rest : List Bytes)
    (hrest : ∀ f ∈ rest, f ∈ (framesPad seq P pad).tail ∨ isStale seq f) :
    let F := framesPad seq P pad
    let hist := F.head! :: rest
    let outs := (run r0 hist).2
    (∀ o ∈ outs, o = Out.stored ∨ o = Out.ignored ∨ o = Out.complete P) ∧
    (outs.count (Out.complete P) ≤ 1) ∧
    (∀ j, j < hist.length →
      (outs[j]? = some (Out.complete P) ↔
        (seenAll F (hist.take (j + 1)) ∧ ¬ seenAll F (hist.take j)))) := by
  obtain ⟨d0, T, hF, ok⟩ := L04.framesPad_seg seq P pad hs hP hpad
  rw [hF] at hrest ⊢
  simp only [L04.head!_cons, List.tail_cons] at hrest ⊢
  exact L04.segment_exact ok hs r0 h0 rest hrest

/-- after the segment the stream is empty (message delivered) or holds a record with this
message's counter — so the next message, which carries a different counter, starts clean:
after any loss the next complete message on the stream is returned intact (`C03_roundtrip`
and `C04_exact` both accept such a start state). -/
theorem C04_after_segment (seq : Nat) (P pad : Bytes) (hs : seq < 8) (hP : P.length ≤ 223)
    (hpad : ∀ f ∈ framesPad seq P pad, f.length ≤ 8)
    (r0 : Option Rec) (h0 : ∀ x, r0 = some x → x.seq ≠ seq)
    (rest : List Bytes)
    (hrest : ∀ f ∈ rest, f ∈ (framesPad seq P pad).tail ∨ isStale seq f) :
    ∀ x, (run r0 ((framesPad seq P pad).head! :: rest)).1 = some x → x.seq = seq := by
  obtain ⟨d0, T, hF, ok⟩ := L04.framesPad_seg seq P pad hs hP hpad
  rw [hF] at hrest ⊢
  simp only [L04.head!_cons, List.tail_cons] at hrest ⊢
  exact (L04.segment_main ok hs r0 h0 rest hrest).2

/-- the result does not depend on padding bytes beyond the announced length -/
theorem C04_padding_independent (seq : Nat) (P pad pad' : Bytes) (hs : seq < 8) (hP : P.length ≤ 223)
    (hl : pad.length = pad'.length) (hpad : ∀ f ∈ framesPad seq P pad, f.length ≤ 8) :
    (run none (framesPad seq P pad)).2 = (run none (framesPad seq P pad')).2 :=
  L04.padding_independent seq P pad pad' hs hP hl hpad

-- non-vacuity: a permuted, duplicated, padded 3-frame message next to a stale frame
example :
    let F := framesPad 3 (List.range 20) [255, 255, 255]
    (run none [F[0]!, F[2]!, [0x41, 9, 9], F[2]!, F[1]!, F[1]!]).2 =
      [.stored, .stored, .ignored, .ignored, .complete (List.range 20), .ignored] := by decide +kernel

end N2k.Fast
