/-
C01 — decoded fields match the canboat definition for every PGN and payload.

Structure of the argument:
* **Table theorems (kernel, regenerated every run — T1):** every per-definition decoder of the shipped
  `pgns.py` is, statement for statement, `Spec.compileDec` of its database entry
  (`Tables.decNN_eq_compiled`), and the three dictionaries equal the database's enumerations.
* **Generic theorems (this file):** what running a compiled decoder yields, for EVERY database entry
  and EVERY payload: the message names the definition, the fields carry the database's metadata in
  order, each statically positioned field's value is `runOp` of the database-derived codec
  (`Spec.decOp f` — the field's bit length, signedness, resolution, range, lookup table) applied at
  the field's own `BitOffset`, and that result depends only on the bits of the field itself.
* The semantics of the statement shapes (`Interp.runStmts`) and the codecs (`Codec`) are hand models
  tied by T3 against all 442 generated functions on database-derived boundary payloads.
Helpers in `N2k/Lemmas/Dec01.lean`.
-/
import N2k.Model.Spec
import N2k.Model.Interp
import N2k.Tables.All
import N2k.Lemmas.Dec01
namespace N2k
open N2k.Spec

/-- the shipped per-definition decoders are exactly the compiled database entries -/
theorem C01_code_is_compiled :
    Gen.decFns = (Gen.dbChunks.map (fun c => (groupsOf c).flatMap compileGroupDec)).flatten := by
  simp only [Gen.decFns, Gen.decChunks, Gen.dbChunks, List.map_cons, List.map_nil,
    Tables.dec00_eq_compiled, Tables.dec01_eq_compiled, Tables.dec02_eq_compiled, Tables.dec03_eq_compiled,
    Tables.dec04_eq_compiled, Tables.dec05_eq_compiled, Tables.dec06_eq_compiled, Tables.dec07_eq_compiled,
    Tables.dec08_eq_compiled, Tables.dec09_eq_compiled, Tables.dec10_eq_compiled, Tables.dec11_eq_compiled,
    Tables.dec12_eq_compiled, Tables.dec13_eq_compiled, Tables.dec14_eq_compiled, Tables.dec15_eq_compiled]

/-- a returned message names its definition: PGN, id, description, transmission interval -/
theorem C01_header (env : Env) (g : List PgnDef) (p : PgnDef) (data : Nat) (m : Msg)
    (h : runDec env (compileDec g p) data = .ok m) :
    m.pgn = p.pgn ∧ m.id = p.id ∧ m.desc = p.desc ∧ m.ttlMs = p.interval := by
  obtain ⟨fs, -, rfl⟩ := Dec01.runDec_ok h
  exact ⟨rfl, rfl, rfl, rfl⟩

/-- one field per database field, in order, with the database's id (`reserved_<offset>` for reserved
fields), name, description, unit, physical quantity, type and primary-key flag -/
theorem C01_fields_meta (env : Env) (g : List PgnDef) (p : PgnDef) (data : Nat) (m : Msg)
    (h : runDec env (compileDec g p) data = .ok m) :
    m.fields.map (·.fmeta) = p.fields.map fieldMeta := by
  obtain ⟨fs, hrun, rfl⟩ := Dec01.runDec_ok h
  simpa [Dec01.decStmts_map_fmeta] using Dec01.runStmts_meta env data _ 0 [] fs hrun

/-- field orders are 1,2,3,… (a fact about the database, checked on the regenerated tables) -/
def ordersOk (p : PgnDef) : Bool := (p.fields.mapIdx (fun i f => f.order == i + 1)).all id
theorem C01_db_orders : Gen.dbPgns.all ordersOk = true := by decide +kernel

/-- **The value of a statically positioned field** is the database-derived codec applied at the
field's own bit offset (`done` = the fields decoded before it, which only a BINARY field sized by
another field looks at). INDIRECT_LOOKUP fields keep their raw value; their reported value is
patched in afterwards (`C01_indirect_value`). -/
theorem C01_field_value (env : Env) (g : List PgnDef) (p : PgnDef) (data : Nat) (m : Msg)
    (h : runDec env (compileDec g p) data = .ok m) (hord : ordersOk p = true)
    (i : Nat) (f : FieldDef) (hf : p.fields[i]? = some f) (o : Nat) (ho : f.bitOffset = some o)
    (hind : f.ftype ≠ "INDIRECT_LOOKUP") :
    ∃ fld off' done, m.fields[i]? = some fld ∧ done.length = i ∧
      runOp env data o done (decOp f) = .ok (fld.value, fld.raw, off') := by
  obtain ⟨fld, v, off', done, h1, h2, h3, h4⟩ :=
    Dec01.compiled_field h (Dec01.orders_of_all p.fields hord) hf ho
  exact ⟨fld, off', done, h1, h2, by rw [h4 hind]; exact h3⟩

/-- the raw value of an INDIRECT_LOOKUP field is the integer at its position -/
theorem C01_indirect_raw (env : Env) (g : List PgnDef) (p : PgnDef) (data : Nat) (m : Msg)
    (h : runDec env (compileDec g p) data = .ok m) (hord : ordersOk p = true)
    (i : Nat) (f : FieldDef) (hf : p.fields[i]? = some f) (o l : Nat) (ho : f.bitOffset = some o)
    (hl : f.bitLength = some l) (hind : f.ftype = "INDIRECT_LOOKUP") :
    ∃ fld, m.fields[i]? = some fld ∧ fld.raw = .int (Straight.decode_int data o l) := by
  exact Dec01.compiled_indirect_raw h (Dec01.orders_of_all p.fields hord) hf ho hl hind

/-- width of the ops that read a fixed number of bits -/
def fixedWidth : DecOp → Option Nat
  | .number l _ _ _ _ _ _ => some l
  | .lookup l _ => some l
  | .bitLookup l _ => some l
  | .rawInt l => some l
  | .binary l => some l
  | .stringFix l => some l
  | .float l _ _ => some l
  | .indirect l => some l
  | _ => none

/-- **Exactly the bits at the field's position**: a fixed-width codec sees nothing of the payload but
the `len` bits starting at the offset (and nothing of the earlier fields). -/
theorem C01_locality (env : Env) (op : DecOp) (l : Nat) (hl : fixedWidth op = some l)
    (data data' o : Nat) (done done' : List Field)
    (hb : Straight.decode_int data o l = Straight.decode_int data' o l) :
    runOp env data o done op = runOp env data' o done' op := by
  cases op <;> simp only [fixedWidth, Option.some.injEq, reduceCtorEq] at hl <;> subst hl <;>
    simp only [runOp, decodeNumber, decodeStringFix, decodeFloat, hb]

/-- `decode_int` is the bit field: `(data / 2^o) % 2^l` -/
theorem C01_decode_int_bits (data o l : Nat) : Straight.decode_int data o l = data / 2 ^ o % 2 ^ l := by
  exact Dec01.decode_int_bits data o l

/-- **The effective signedness.** A field with an Offset is stored excess-K: `decode_number` and
`encode_number` read its raw count as UNSIGNED whatever the database's Signed flag says (the 22 power
fields: 32 bits, offset -2000000000, flagged Signed). Without an Offset it is the database flag. -/
theorem C01_effSigned (signed : Bool) (ofs : Lit) :
    effSigned signed ofs = (if ofs.val = 0 then signed else false) := rfl

/-- for an integer Offset: the database flag when the offset is 0, unsigned otherwise -/
theorem C01_effSigned_int (signed : Bool) (o : Int) :
    effSigned signed (Lit.ofInt o) = (if o = 0 then signed else false) := by
  exact Dec01.effSigned_ofInt signed o

/-- **"Not available" is reported as no value**, and only it: `decode_number` yields `None` exactly
when the (sign-extended) integer is the field's not-available code — all ones for unsigned fields
of 2+ bits, the largest positive value for signed fields of 4+ bits; 1-bit fields have none.
"Signed" is the effective signedness (`C01_effSigned`). -/
theorem C01_na (data off len : Nat) (signed : Bool) (res mn mx ofs : Lit) :
    decodeNumber data off len signed res mn mx ofs = .ok none ↔
      naCode len (effSigned signed ofs) =
        some (if effSigned signed ofs then signExtend (Straight.decode_int data off len) len
              else ((Straight.decode_int data off len : Nat) : Int)) := by
  exact Dec01.decodeNumber_na data off len signed res mn mx ofs

/-- an integer-resolution NUMBER inside its database range decodes (no error) to exactly
raw × resolution + offset, where raw is the field's integer under the effective signedness -/
theorem C01_number_total_int (data off len : Nat) (signed : Bool) (r mn mx o : Int)
    (z : Int) (hz : z = (if effSigned signed (Lit.ofInt o) then signExtend (Straight.decode_int data off len) len
                          else ((Straight.decode_int data off len : Nat) : Int)))
    (hna : naCode len (effSigned signed (Lit.ofInt o)) ≠ some z) (h1 : mn ≤ z * r + o) (h2 : z * r + o ≤ mx) :
    decodeNumber data off len signed (Lit.ofInt r) (Lit.ofInt mn) (Lit.ofInt mx) (Lit.ofInt o) = .ok (some (.int (z * r + o))) := by
  exact Dec01.decodeNumber_total_int data off len signed r mn mx o z hz hna h1 h2

/-- **The power fields** (32 bits, resolution 1, offset -2000000000, database flag Signed, range
-2000000000 .. 2294967292): every raw count 0 .. 0xFFFFFFFC decodes to raw - 2000000000 — the whole
database range, including the upper half that sign extension would have turned negative. -/
theorem C01_power_field_total (data off : Nat) (h : Straight.decode_int data off 32 ≤ 0xFFFFFFFC) :
    decodeNumber data off 32 true (Lit.ofInt 1) (Lit.ofInt (-2000000000)) (Lit.ofInt 2294967292) (Lit.ofInt (-2000000000)) =
      .ok (some (.int ((Straight.decode_int data off 32 : Nat) - 2000000000))) := by
  have he : effSigned true (Lit.ofInt (-2000000000)) = false := by rw [C01_effSigned_int]; rfl
  have := C01_number_total_int data off 32 true 1 (-2000000000) 2294967292 (-2000000000)
    ((Straight.decode_int data off 32 : Nat) : Int) (by rw [he]; rfl)
    (by rw [he]; simp only [naCode]; intro hh; have := Option.some.inj hh; omega) (by omega) (by omega)
  rw [this]
  congr 3
  omega

/-- equality of decoder results is decidable (for the kernel-evaluated examples below) -/
local instance : DecidableEq (Except DecErr (Option Num)) := fun a b =>
  match a, b with
  | .ok x, .ok y => if h : x = y then isTrue (by rw [h]) else isFalse (fun e => h (Except.ok.inj e))
  | .error x, .error y => if h : x = y then isTrue (by rw [h]) else isFalse (fun e => h (Except.error.inj e))
  | .ok _, .error _ => isFalse (fun e => by cases e)
  | .error _, .ok _ => isFalse (fun e => by cases e)

-- raw 0x80000000 is 147483648 W (not -4147483648), raw 0 is the minimum, raw 0xFFFFFFFC the maximum,
-- raw 0xFFFFFFFF is "not available", and the reserved codes 0xFFFFFFFD/E are above the database maximum
example : decodeNumber 0x80000000 0 32 true (Lit.ofInt 1) (Lit.ofInt (-2000000000)) (Lit.ofInt 2294967292) (Lit.ofInt (-2000000000))
    = .ok (some (.int 147483648)) := by decide +kernel
example : decodeNumber 0 0 32 true (Lit.ofInt 1) (Lit.ofInt (-2000000000)) (Lit.ofInt 2294967292) (Lit.ofInt (-2000000000))
    = .ok (some (.int (-2000000000))) := by decide +kernel
example : decodeNumber 0xFFFFFFFC 0 32 true (Lit.ofInt 1) (Lit.ofInt (-2000000000)) (Lit.ofInt 2294967292) (Lit.ofInt (-2000000000))
    = .ok (some (.int 2294967292)) := by decide +kernel
example : decodeNumber 0xFFFFFFFF 0 32 true (Lit.ofInt 1) (Lit.ofInt (-2000000000)) (Lit.ofInt 2294967292) (Lit.ofInt (-2000000000))
    = .ok none := by decide +kernel
example : decodeNumber 0xFFFFFFFD 0 32 true (Lit.ofInt 1) (Lit.ofInt (-2000000000)) (Lit.ofInt 2294967292) (Lit.ofInt (-2000000000))
    = .error .above := by decide +kernel
-- without an Offset the database flag decides: 0x7FFFFFFF is the signed "not available" code
example : decodeNumber 0x7FFFFFFF 0 32 true (Lit.ofInt 1) (Lit.ofInt (-2147483648)) (Lit.ofInt 2147483645) (Lit.ofInt 0)
    = .ok none := by decide +kernel

-- non-vacuity: PGN 127508 (battery status) is in the database, and its compiled decoder decodes
example : ∃ p ∈ Gen.dbPgns, p.pgn = 127508 ∧ ordersOk p = true ∧
    (runDec ⟨Gen.masterDict, Gen.masterFlagsDict, Gen.masterIndirectDict, Gen.revDicts⟩ (compileDec [p] p) 0).toOption.isSome = true := by
  decide +kernel

end N2k
