/-
C13 — gateway clients recover from every connection fault and never stall the loop.
Model: the client LTS `N2k/Model/Client.lean`, tied to the four real clients by trace validation
(scripted sessions under virtual time with faults injected at every step).  The theorems hold for
every event list the LTS accepts.  PARTIAL w.r.t. the runtime: that nothing else inside a task step
blocks (CPU-bound decoding, blocking system calls) is outside the model.
Helpers in `N2k/Lemmas/Client13.lean`.
-/
import N2k.Model.Client
import N2k.Lemmas.Client13
namespace N2k.Client

/-- **Back-off**: the delay before the next attempt grows, is capped at 10 s and is never zero -/
theorem C13_backoff (k : Nat) (hk : 1 ≤ k) :
    backoff k = min (500 * 2 ^ (k - 1)) 10000 ∧ 0 < backoff k ∧ backoff k ≤ 10000 ∧ backoff k ≤ backoff (k + 1) := by
  have h1 : 0 < 2 ^ (k - 1) := Nat.two_pow_pos _
  have h2 : 2 ^ (k - 1) ≤ 2 ^ (k + 1 - 1) := Nat.pow_le_pow_right (by omega) (by omega)
  refine ⟨rfl, ?_, ?_, ?_⟩ <;> simp only [backoff] <;> omega

/-- the sleep after a failed attempt is exactly the back-off delay of that attempt number -/
theorem C13_retry_delay (s s' : CS) (ms : Nat) (hf : s.lastFailed = true) (hs : s.slept = false)
    (h : step s (.sleep ms) = some s') : ms = backoff s.tryNo := by
  obtain ⟨t, ht, -⟩ := L13.step_eq_some.1 h
  simp only [stepCore, hf, hs, Bool.not_false, Bool.and_self, if_true, L13.guard_eq_some, decide_eq_true_eq] at ht
  exact ht.1

/-- a new receive task is only ever started when no receive task is alive -/
theorem C13_single_receiver_step (s s' : CS) (c : Nat) (h : step s (.recvStart c) = some s') : s.recv = none := by
  rcases L13.step_recv_frame h with ⟨_, _, h1, _⟩ | ⟨_, _, h1, _⟩ | ⟨h1, _⟩
  · exact h1
  · cases h1
  · exact absurd rfl (h1 c)

/-- receive tasks alive after a trace: starts minus exits -/
def liveReceivers : List Ev → Int
  | [] => 0
  | .recvStart _ :: es => liveReceivers es + 1
  | .recvExit _ _ :: es => liveReceivers es - 1
  | _ :: es => liveReceivers es

/-- **Only one receive path is active at any time**, in every accepted trace -/
theorem C13_single_receiver (evs : List Ev) (s : CS) (h : runTrace init evs = some s) :
    liveReceivers evs = (if s.recv.isSome then 1 else 0) := by
  have key : ∀ (evs : List Ev) (s s' : CS), runTrace s evs = some s' →
      liveReceivers evs + (if s.recv.isSome then 1 else 0) = (if s'.recv.isSome then 1 else 0) := by
    intro evs
    induction evs with
    | nil => intro s s' h; obtain rfl := L13.runTrace_nil.1 h; simp [liveReceivers]
    | cons e es ih =>
      intro s s' h
      obtain ⟨t, h1, h2⟩ := L13.runTrace_cons.1 h
      have := ih t s' h2
      rcases L13.step_recv_frame h1 with ⟨c, rfl, h3, -, h4⟩ | ⟨c, b, rfl, h3, h4⟩ | ⟨h3, h4, h5⟩
      · simp only [liveReceivers, h3, h4] at *; simp at *; omega
      · simp only [liveReceivers, h3, h4] at *; simp at *; omega
      · rw [h5] at this
        cases e <;> first | exact this | exact absurd rfl (h3 _) | exact absurd rfl (h4 _ _)
  simpa [init] using key evs init s h

/-- the recovery run: refused `k` times, then accepted -/
def recoveryTrace (k c : Nat) : List Ev :=
  [.connCall] ++ (List.range k).flatMap (fun i => [Ev.implStart, .implFail, .sleep (backoff (i + 1))]) ++
    [.implStart, .implOk c, .status .connected, .connReturn, .recvStart c]

/-- **Recovery, for every k**: from any state in which the link is down and no connect is running,
a connect that is refused k times and then accepted ends CONNECTED — reported once — with the
attempts separated by the back-off delays and a (single) receive task on the new connection -/
theorem C13_recovers (s : CS) (k : Nat) (hst : s.st = .disconnected) (ha : s.connActive = false)
    (hr : s.recv = none) (hp : s.implPending = false) :
    ∃ s', runTrace s (recoveryTrace k s.nextConn) = some s' ∧ s'.st = .connected ∧ s'.recv = some s.nextConn ∧
      s'.statusLog = s.statusLog ++ [.connected] ∧ s'.conn = some s.nextConn := by
  exact L13.recovers k hst ha hr

/-- DISCONNECTED is reported only after a fault, and not again until the link is back -/
theorem C13_disconnected_once (s s' : CS) (h : step s (.status .disconnected) = some s') :
    s.faults > 0 ∧ s.st = .connected ∧ step s' (.status .disconnected) = none := by
  obtain ⟨t, ht, rfl⟩ := L13.step_eq_some.1 h
  simp only [stepCore, L13.guard_eq_some, Bool.and_eq_true, decide_eq_true_eq] at ht
  obtain ⟨⟨⟨h1, h2⟩, h3, -⟩, rfl⟩ := ht
  refine ⟨h3, ?_, ?_⟩
  · cases hs : s.st <;> simp_all
  · simp [L13.step_eq_none, stepCore, L13.guard_eq_none]

/-- **No spin**: an iteration of the receive loop that neither suspends nor consumes input nor leaves the loop is not a behaviour of the model -/
theorem C13_no_spin (s : CS) (c : Nat) : step s (.recvIter c false) = none := by
  simp [L13.step_eq_none, stepCore, L13.guard_eq_none]

/-- **One reconnect task serves all fault reports**: a reconnect task is only started when none is alive, so in every
accepted trace at most one is alive — however many senders report the same lost link -/
theorem C13_single_reconnect (evs : List Ev) (s : CS) (h : runTrace init evs = some s) : s.reconn ≤ 1 :=
  (L13.reconnInv_init h).1

theorem C13_single_reconnect_step (s s' : CS) (h : step s .reconnStart = some s') : s.reconn = 0 ∧ s'.reconn = 1 := by
  rcases L13.step_reconn_frame h with ⟨-, h1, h2, -⟩ | ⟨_, h1, -⟩ | ⟨h1, -⟩ | ⟨h1, -⟩ | ⟨h1, -⟩
  · exact ⟨h1, h2⟩
  · cases h1
  · cases h1
  · cases h1
  · exact absurd rfl h1

/-- the events since the latest start of a reconnect task (the whole trace if there is none) -/
def sinceReconnStart : List Ev → List Ev
  | [] => []
  | e :: es => if es.contains .reconnStart then sinceReconnStart es else (if e = .reconnStart then es else e :: es)

/-- `sinceReconnStart` is what follows the last `.reconnStart` -/
theorem sinceReconnStart_split (pre post : List Ev) (hp : Ev.reconnStart ∉ post) :
    sinceReconnStart (pre ++ .reconnStart :: post) = post := by
  induction pre with
  | nil => simp [sinceReconnStart, hp]
  | cons a pre ih => simp [sinceReconnStart, ih]

/-- **Never-zero delay on the reconnect path**: in every accepted trace, whenever the reconnect task calls connect() it has
waited at least 500 ms (the first back-off delay) since it was started -/
theorem C13_reconnect_waits (evs : List Ev) (s s' : CS) (h : runTrace init evs = some s) (hc : step s .reconnCall = some s') :
    ∃ ms, 500 ≤ ms ∧ .reconnSleep ms ∈ sinceReconnStart evs := by
  rcases L13.step_reconn_frame hc with ⟨h1, -⟩ | ⟨_, h1, -⟩ | ⟨h1, -⟩ | ⟨-, h1, h2, -⟩ | ⟨-, -, -, h1, -⟩
  · cases h1
  · cases h1
  · cases h1
  · obtain ⟨pre, post, rfl, hp, hw⟩ := (L13.reconnInv_init h).2 h1
    rw [sinceReconnStart_split pre post hp]
    exact hw h2
  · exact absurd rfl h1

/-- … and a call uses up that wait: right after a connect() call of the reconnect task, another one is not a behaviour of the
model (every attempt inside a call is connect()'s own retry with its back-off delay; a further call needs a wait of its own,
`C13_reconnect_waits_each`) -/
theorem C13_reconnect_calls_once (s s' : CS) (h : step s .reconnCall = some s') : step s' .reconnCall = none := by
  obtain ⟨t, ht, rfl⟩ := L13.step_eq_some.1 h
  simp only [stepCore, L13.guard_eq_some] at ht
  obtain ⟨-, rfl⟩ := ht
  simp [L13.step_eq_none, stepCore, L13.guard_eq_none]

/-- **Every connect() call of the reconnect task has its own wait**: in every accepted trace, between any two `reconnCall`s —
in particular between two calls of one reconnect task (no `reconnStart` in between) — lies a `reconnSleep` of at least 500 ms -/
theorem C13_reconnect_waits_each (evs : List Ev) (s : CS) (h : runTrace init evs = some s) (i j : Nat) (hij : i < j)
    (hi : evs[i]? = some .reconnCall) (hj : evs[j]? = some .reconnCall) :
    ∃ k ms, i < k ∧ k < j ∧ evs[k]? = some (.reconnSleep ms) ∧ 500 ≤ ms :=
  L13.sleep_between_calls h hij hi hj

/-- the one-step form: if one event separates two connect() calls of the reconnect task, that event is its wait -/
theorem C13_reconnect_waits_each_step (s s1 s2 : CS) (e : Ev) (h1 : step s .reconnCall = some s1) (h2 : step s1 e = some s2)
    (h3 : (step s2 .reconnCall).isSome) : ∃ ms, e = .reconnSleep ms ∧ 500 ≤ ms := by
  obtain ⟨s3, h3⟩ := Option.isSome_iff_exists.1 h3
  have a : s1.reconnSlept = false := by
    rcases L13.step_reconn_frame h1 with ⟨h, -⟩ | ⟨_, h, -⟩ | ⟨h, -⟩ | ⟨-, -, -, -, h⟩ | ⟨-, -, -, h, -⟩
    · cases h
    · cases h
    · cases h
    · exact h
    · exact absurd rfl h
  have b : s2.reconnSlept = true := by
    rcases L13.step_reconn_frame h3 with ⟨h, -⟩ | ⟨_, h, -⟩ | ⟨h, -⟩ | ⟨-, -, h, -⟩ | ⟨-, -, -, h, -⟩
    · cases h
    · cases h
    · cases h
    · exact h
    · exact absurd rfl h
  rcases L13.step_reconn_frame h2 with ⟨-, -, -, h⟩ | ⟨ms, rfl, h, -⟩ | ⟨-, -, -, h⟩ | ⟨-, -, -, -, h⟩ | ⟨-, -, -, -, -, h⟩
  · rw [b] at h; cases h
  · exact ⟨ms, rfl, h⟩
  · rw [b, a] at h; cases h
  · rw [b] at h; cases h
  · rw [b, a] at h; cases h

/-- a connect() that finds the client CONNECTED with nobody reading gives that link up before it connects again -/
theorem C13_abandon_is_fault (s s' : CS) (c : Nat) (h : step s (.abandon c) = some s') :
    s.st = .connected ∧ s.recv = none ∧ s.conn = some c ∧ c ∈ s'.faulted ∧ (∃ s'', step s' (.writerClose c) = some s'') := by
  obtain ⟨t, ht, rfl⟩ := L13.step_eq_some.1 h
  simp only [stepCore, L13.guard_eq_some, Bool.and_eq_true, decide_eq_true_eq, Option.isNone_iff_eq_none] at ht
  obtain ⟨⟨⟨⟨⟨⟨h1, h2⟩, h3⟩, -⟩, -⟩, -⟩, rfl⟩ := ht
  refine ⟨h1, h2, h3, by simp, ?_⟩
  simp [step, stepCore, guard, h3]

/-- a reconnect task is only ever started after a fault -/
theorem C13_reconnect_after_fault (s s' : CS) (h : step s .reconnStart = some s') : s.faults > 0 := by
  obtain ⟨t, ht, -⟩ := L13.step_eq_some.1 h
  simp only [stepCore, L13.guard_eq_some, Bool.and_eq_true, decide_eq_true_eq] at ht
  exact ht.1.2

/-- what happens after a fault on the established link `c`: the link is shut, DISCONNECTED is reported, the receive task ends, one
reconnect task is started, waits 500 ms and calls connect(), which is refused `k` times and then accepted with the link `n` -/
def faultRecoveryTrace (c k n : Nat) : List Ev :=
  [.envEof c, .writerClose c, .status .disconnected, .recvExit c false, .reconnStart, .reconnSleep 500, .reconnCall] ++
    (List.range k).flatMap (fun i => [Ev.implStart, .implFail, .sleep (backoff (i + 1))]) ++
    [.implStart, .implOk n, .status .connected, .connReturn, .reconnEnd, .recvStart n]

/-- **Recovery after a fault on an established link, for every k**: from any CONNECTED state with its receive task alive, no connect
running and no reconnect task alive, the run above is accepted and ends CONNECTED on the new link — DISCONNECTED and CONNECTED
reported once each, in that order, one receive task on the new link, the old link shut, the reconnect task gone -/
theorem C13_recovers_after_fault (s : CS) (c k : Nat) (hst : s.st = .connected) (hc : s.conn = some c) (hr : s.recv = some c)
    (ha : s.connActive = false) (hp : s.implPending = false) (hre : s.reconn = 0) (hcf : s.closeFromRecv = false) :
    ∃ s', runTrace s (faultRecoveryTrace c k s.nextConn) = some s' ∧ s'.st = .connected ∧ s'.recv = some s.nextConn ∧
      s'.statusLog = s.statusLog ++ [.disconnected, .connected] ∧ s'.conn = some s.nextConn ∧ c ∈ s'.writerClosed ∧ s'.reconn = 0 := by
  exact L13.recovers_after_fault k hst hc hr ha hre

example : (runTrace init ([.connCall, .implStart, .implOk 1, .status .connected, .connReturn, .recvStart 1] ++ faultRecoveryTrace 1 2 2)).map
    (fun s => (s.st, s.recv, s.statusLog, s.reconn)) = some (.connected, some 2, [.connected, .disconnected, .connected], 0) := by decide +kernel

-- a second reconnect task while one is alive, and a reconnect that does not wait, are not behaviours of the model
example : runTrace init [.connCall, .implStart, .implOk 1, .status .connected, .connReturn, .recvStart 1, .envEof 1, .writerClose 1,
    .status .disconnected, .recvExit 1 false, .reconnStart, .sendCall 1, .writeFail 1 1, .reconnStart] = none := by decide +kernel
example : runTrace init [.connCall, .implStart, .implOk 1, .status .connected, .connReturn, .recvStart 1, .envEof 1, .writerClose 1,
    .status .disconnected, .recvExit 1 false, .reconnStart, .reconnCall] = none := by decide +kernel
example : (runTrace init [.connCall, .implStart, .implOk 1, .status .connected, .connReturn, .recvStart 1, .envEof 1, .writerClose 1,
    .status .disconnected, .recvExit 1 false, .reconnStart, .reconnSleep 500, .reconnCall, .implStart, .implOk 2, .status .connected,
    .connReturn, .reconnEnd, .recvStart 2]).map (fun s => (s.st, s.reconn, s.conn)) = some (.connected, 0, some 2) := by decide +kernel

-- the reconnect task calls connect() while another connect() holds the lock: the call returns at once, the task waits again and
-- calls again; a second call without a wait of its own is not a behaviour of the model
example : (runTrace init [.connCall, .implStart, .implOk 1, .status .connected, .connReturn, .recvStart 1, .envEof 1, .writerClose 1,
    .status .disconnected, .recvExit 1 false, .reconnStart, .connCall, .implStart, .reconnSleep 500, .reconnCall, .connReturn,
    .reconnSleep 500, .reconnCall, .connReturn, .implOk 2, .status .connected, .connReturn, .reconnEnd, .recvStart 2]).map
    (fun s => (s.st, s.reconn, s.conn, s.calls)) = some (.connected, 0, some 2, 0) := by decide +kernel
example : runTrace init [.connCall, .implStart, .implOk 1, .status .connected, .connReturn, .recvStart 1, .envEof 1, .writerClose 1,
    .status .disconnected, .recvExit 1 false, .reconnStart, .connCall, .implStart, .reconnSleep 500, .reconnCall, .connReturn,
    .reconnCall] = none := by decide +kernel
-- a connect() cancelled after CONNECTED was reported and before its receive task exists: the next connect() gives the link up
-- (fault, shut, DISCONNECTED) and only then connects; attempting while that link is still reported CONNECTED is not a behaviour
example : (runTrace init [.connCall, .implStart, .implOk 1, .status .connected, .connCancel, .connCall, .abandon 1, .writerClose 1,
    .status .disconnected, .implStart, .implOk 2, .status .connected, .connReturn, .recvStart 2]).map
    (fun s => (s.st, s.conn, s.recv, s.writerClosed, s.statusLog)) =
    some (.connected, some 2, some 2, [1], [.connected, .disconnected, .connected]) := by decide +kernel
example : runTrace init [.connCall, .implStart, .implOk 1, .status .connected, .connCancel, .connCall, .implStart] = none := by decide +kernel
example : runTrace init [.connCall, .implStart, .implOk 1, .status .connected, .connCancel, .connCall, .abandon 1, .implStart] = none := by
  decide +kernel

-- What the model does NOT promise: it admits the history in which the application cancels its own connect() after CONNECTED was reported
-- and before the receive task was started WITHOUT the call giving the link up (`connGiveUp`) — the state is then CONNECTED, nobody
-- reads, no reconnect task is alive, and nothing in the LTS forces a further step.  The real client did exactly that until the last
-- repair (findings `C13/connected-without-receiver/*`); since then its traces carry `connGiveUp c, writerClose c, status DISCONNECTED`
-- before `connCancel`, and the monitor `connected-without-receiver` watches for the old behaviour.  (Recovery is a liveness claim; the theorems above say
-- which recovery runs exist and which steps are impossible, the monitors `not-recovered` / `connected-without-receiver` and the replays
-- in `tools/repros/C13_known_*.py` exhibit the histories in which the real client stays there.)
example : (runTrace init [.connCall, .implStart, .implOk 1, .status .connected, .connReturn, .recvStart 1, .envEof 1, .writerClose 1,
    .status .disconnected, .recvExit 1 false, .connCall, .implStart, .implOk 2, .status .connected, .connCancel]).map
    (fun s => (s.st, s.recv, s.reconn, s.calls)) = some (.connected, none, 0, 0) := by decide +kernel

-- non-vacuity: three refusals then success from the initial state
example : (runTrace init (recoveryTrace 3 1)).map (fun s => (s.st, s.recv, s.statusLog)) = some (.connected, some 1, [.connected]) := by decide +kernel

end N2k.Client
