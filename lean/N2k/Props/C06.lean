/-
C06 — every gateway wire format round-trips and obeys its fixed framing.
Model: `N2k/Model/Wire.lean` (tie: T3; header/checksum are T2 translations).
These are the frame-level theorems; the message-level round trip composes them with C05
(identifier), C02/C09 (payload) and C03 (fast-packet frames).
Property theorems only; helpers in `N2k/Lemmas/Wire06.lean`.
-/
import N2k.Model.Wire
import N2k.Lemmas.Wire06
import N2k.Props.C05
namespace N2k.Wire
open N2k.Straight

def isByte (b : Nat) : Prop := b < 256

/-- every EByte packet is exactly 13 bytes (after the repair `960072e`: short frames are zero padded) -/
theorem C06_ebyte_13 (id : Nat) (data : Bytes) (h : data.length ≤ 8) :
    (encodeEbyte id data).length = 13 := by
  exact encodeEbyte_length id data h

/-- EByte round trip: the decoder recovers exactly the identifier's fields and the data bytes -/
theorem C06_ebyte_rt (id : Nat) (data : Bytes) (hid : id < 2^32) (h : data.length ≤ 8) :
    decodeTcp (encodeEbyte id data) = .ok (frameOfId id data) := by
  exact decodeTcp_encodeEbyte id data hid h

/-- every USB packet is exactly 20 bytes -/
theorem C06_usb_20 (id : Nat) (data : Bytes) (h : data.length ≤ 8) :
    (encodeUsb id data).length = 20 := by
  exact encodeUsb_length id data h

/-- its last byte is the checksum of bytes 2..18 -/
theorem C06_usb_checksum_valid (id : Nat) (data : Bytes) (h : data.length ≤ 8) :
    (encodeUsb id data).getD 19 0 = checksum (encodeUsb id data) := by
  exact encodeUsb_checksum id data h

/-- USB round trip -/
theorem C06_usb_rt (id : Nat) (data : Bytes) (hid : id < 2^32) (h : data.length ≤ 8) :
    decodeUsb (encodeUsb id data) = .ok (frameOfId id data) := by
  exact decodeUsb_encodeUsb id data hid h

/-- the checksum exposes ANY single corrupted byte among the 18 checked positions (2..19), for every
one of the 255 wrong values: such a packet is never decoded. Stated for every well-formed 20-byte
packet, not only encoder output. -/
theorem C06_usb_single_corruption (pkt : Bytes) (hl : pkt.length = 20)
    (h0 : pkt.getD 0 0 = 0xaa) (h1 : pkt.getD 1 0 = 0x55) (hb : ∀ b ∈ pkt, b < 256)
    (hc : pkt.getD 19 0 = checksum pkt)
    (i : Nat) (hi : 2 ≤ i ∧ i ≤ 19) (v : Nat) (hv : v < 256) (hne : v ≠ pkt.getD i 0) :
    decodeUsb (pkt.set i v) = .none := by
  exact usb_single_corruption pkt hl h0 h1 hb hc i hi v hv hne

/-- a Yacht Devices packet is one line: CR LF at the end and nowhere else -/
theorem C06_yd_line (id : Nat) (data : Bytes) :
    ∃ body, encodeYd id data = body ++ ['\r', '\n'] ∧ '\r' ∉ body ∧ '\n' ∉ body := by
  exact yd_line id data

/-- Yacht Devices round trip, once the gateway's `hh:mm:ss.mmm R|T` token is prepended -/
theorem C06_yd_rt (id : Nat) (data : Bytes) (hid : id < 2^32) (hd : 1 ≤ data.length)
    (hb : ∀ b ∈ data, b < 256) (ts dir : List Char) (hts : validHms ts = true) (hsp : ' ' ∉ ts)
    (hne : ts ≠ []) (hdir : dir = ['R'] ∨ dir = ['T']) :
    decodeYd (ts ++ [' '] ++ dir ++ [' '] ++ (encodeYd id data).dropLast.dropLast) = .ok (frameOfId id data) := by
  exact yd_rt id data hid hd hb ts dir hts hsp hne hdir

/-- Actisense round trip, once the `A<sec>.<ms>` token is prepended (whole payload, any length, the empty payload included) -/
theorem C06_actisense_rt (prio dst src pgn : Nat) (data : Bytes) (hp : prio < 16) (hd : dst < 256)
    (hs : src < 256) (hg : pgn < 2^24) (hb : ∀ b ∈ data, b < 256) :
    decodeActisense ("A000001.000 ".toList ++ encodeActisense prio dst src pgn data) =
      .ok { pgn := pgn, prio := prio, src := src, dst := dst, data := data } := by
  exact actisense_rt prio dst src pgn data hp hd hs hg hb

/-- a concatenation of fixed-size packets is split back into the same packets by cutting every 13
(EByte: `readexactly(13)`) resp. 20 bytes -/
def cut (n : Nat) : Nat → Bytes → List Bytes
  | 0, _ => []
  | k + 1, s => s.take n :: cut n k (s.drop n)

theorem C06_split_fixed (n : Nat) (ps : List Bytes) (h : ∀ p ∈ ps, p.length = n) :
    cut n ps.length ps.flatten = ps := by
  induction ps with
  | nil => rfl
  | cons p ps ih =>
    have hp : p.length = n := h p (by simp)
    simp only [List.length_cons, List.flatten_cons, cut]
    rw [← hp, List.take_left, List.drop_left, hp, ih (fun q hq => h q (by simp [hq]))]

/-- what a message's addressing looks like after a trip over a frame-level format: the PGN (for
addressed PGNs in canonical form), source and priority as sent, the destination as sent for
addressed (PDU1) PGNs and 255 for broadcast (PDU2) PGNs. Composition of the wire round trips
with C05 (`build_header` is the encoder's own identifier packing). -/
def sentFrame (pgn src dst prio : Nat) (data : Bytes) : Frame :=
  { pgn := pgn, prio := prio, src := src, dst := if pgn / 256 % 256 < 240 then dst else 255, data := data }

theorem C06_frame_message_rt (pgn src dst prio : Nat) (data : Bytes)
    (hp : prio < 8) (hs : src < 256) (hd : dst < 256) (hpgn : pgn < 2^18)
    (hcanon : pgn / 256 % 256 < 240 → pgn % 256 = 0) (h8 : data.length ≤ 8) :
    decodeTcp (encodeEbyte (build_header pgn src dst prio) data) = .ok (sentFrame pgn src dst prio data) ∧
    decodeUsb (encodeUsb (build_header pgn src dst prio) data) = .ok (sentFrame pgn src dst prio data) := by
  have hlt : build_header pgn src dst prio < 2^32 :=
    Nat.lt_trans (N2k.C05_build_lt pgn src dst prio hp hs hd hpgn) (by decide)
  rw [C06_ebyte_rt _ _ hlt h8, C06_usb_rt _ _ hlt h8]
  unfold frameOfId sentFrame
  by_cases hpf : pgn / 256 % 256 < 240
  · rw [N2k.C05_build_parse_pdu1 pgn src dst prio hp hs hd hpgn hpf (hcanon hpf)]
    simp [hpf]
  · rw [N2k.C05_build_parse_pdu2 pgn src dst prio hp hs hd hpgn (by omega)]
    simp [hpf]

-- non-vacuity
example : decodeTcp (encodeEbyte 0x19F80123 [1, 2, 3]) = .ok (frameOfId 0x19F80123 [1, 2, 3]) := by decide +kernel
example : decodeUsb ((encodeUsb 0x19F80123 [1, 2, 3]).set 18 7) = .none := by decide +kernel
example : decodeYd ("12:00:01.5 R ".toList ++ (encodeYd 0x19F80123 [1, 0xAB]).dropLast.dropLast)
    = .ok (frameOfId 0x19F80123 [1, 0xAB]) := by decide +kernel

end N2k.Wire
