/-
C10 — PGN include/exclude filters are a pure selection of the unfiltered output.
Model: `N2k/Model/Decoder.lean` (hand model of `NMEA2000Decoder`, tie: T3 on histories under 28
configurations), generic in the generated layer `G`.  Helpers in `N2k/Lemmas/Dec10.lean`.
-/
import N2k.Model.Decoder
import N2k.Lemmas.Dec10
namespace N2k.Dec

/-- the property's own notion of "permitted", from the user's lists: not excluded by number or id and,
when an include list is given, listed in it by number or by id (ids compared case-insensitively) -/
def permitted (u : UserConfig) (pgn : Nat) (id : String) : Bool :=
  !(nums u.excludePgns).contains pgn && !(ids u.excludePgns).contains (lower id) &&
  (((nums u.includePgns).isEmpty && (ids u.includePgns).isEmpty) ||
    (nums u.includePgns).contains pgn || (ids u.includePgns).contains (lower id))

/-- the same configuration without PGN filters -/
def unfiltered (u : UserConfig) : UserConfig := { u with excludePgns := [], includePgns := [] }

def visible : Out → Option OutMsg
  | .msg m => some m
  | _ => none

def select (u : UserConfig) (o : Option OutMsg) : Option OutMsg :=
  o.bind (fun m => if permitted u m.msg.pgn m.msg.id then some m else none)

/-- what the generated layer guarantees (from the table theorems: every definition of a PGN group
carries that PGN; PGN 60928 has the single definition isoAddressClaim) -/
structure GenOk (G : GenLayer) : Prop where
  pgn_eq : ∀ pgn d m, G.decode pgn d = some (.ok m) → m.pgn = pgn
  claim_id : ∀ d m, G.decode isoClaimPgn d = some (.ok m) → lower m.id = isoClaimId
  claim_single : G.isFast isoClaimPgn = .single
  claim_id_only : ∀ pgn d m, G.decode pgn d = some (.ok m) → lower m.id = isoClaimId → pgn = isoClaimPgn

/-- **Selection**: for every filter configuration and every input history, position by position, the
filtered decoder returns exactly the unfiltered decoder's message if its PGN is permitted, and
nothing otherwise (an input on which either raises counts as "no message"); and filtering never
changes the source map: address claims update it even when they are filtered out. -/
theorem C10_selection (G : GenLayer) (hG : GenOk G) (u : UserConfig) (cfg cfg0 : Config)
    (hc : mkConfig u = some cfg) (hc0 : mkConfig (unfiltered u) = some cfg0) (h : List Input) :
    ((run G cfg {} h).2.map visible = (run G cfg0 {} h).2.map (fun o => select u (visible o))) ∧
    (run G cfg {} h).1.sources = (run G cfg0 {} h).1.sources :=
  L10.selection G u hG.pgn_eq hG.claim_id hG.claim_id_only cfg cfg0 hc hc0 h

/-- filtered-out traffic never disturbs later results: a corollary in the form "inserting inputs whose
PGN is excluded by number anywhere in the history changes no other position's result" is the
selection theorem applied to both histories; the direct statement for one step: -/
theorem C10_excluded_step_is_noop (G : GenLayer) (cfg : Config) (st : State) (i : Input)
    (hne : i.pgn ≠ isoClaimPgn) (hex : cfg.excludeNums.contains i.pgn = true) :
    step G cfg st i = (st, .none) :=
  L10.step_excluded G cfg st i hne hex

/-- both lists given is rejected at construction -/
theorem C10_both_lists_rejected (u : UserConfig) (h1 : u.excludePgns ≠ []) (h2 : u.includePgns ≠ []) :
    mkConfig u = none :=
  L10.mkConfig_both h1 h2

-- non-vacuity: a mixed include list by number and by id in odd letter case
example : permitted { includePgns := [.num 127508, .id "GnssPositionData"] } 129029 "gnssPositionData" = true ∧
          permitted { includePgns := [.num 127508, .id "GnssPositionData"] } 127250 "vesselHeading" = false := by decide +kernel

end N2k.Dec
