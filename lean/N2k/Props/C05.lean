/-
C05 — CAN identifier packing and parsing are mutually inverse (PDU1/PDU2 aware).
The two functions are the T2 translations of `NMEA2000Decoder._extract_header`
(decoder.py) and `NMEA2000Encoder._build_header` (encoder.py), regenerated from /repo on
every run: the theorems below are re-proved against what the code says now.
-/
import N2k.Gen.Straight
import N2k.Lemmas.BitsArith
set_option linter.unusedSimpArgs false
namespace N2k
open Straight

/-- closed form of parsing an identifier laid out as prio | 18-bit field | src. -/
theorem extract_closed (f src prio : Nat) (hp : prio < 8) (hs : src < 256) (hf : f < 2^18) :
    extract_header (prio * 67108864 + f * 256 + src) =
      (if f / 256 % 256 < 240 then f - f % 256 else f, src,
       if f / 256 % 256 < 240 then f % 256 else 255, prio) := by
  unfold extract_header; simp only []; arith_bits
  simp only [Nat.reducePow] at *
  have e1 : (prio * 67108864 + f * 256 + src) / 256 % 262144 = f := by omega
  have e2 : (prio * 67108864 + f * 256 + src) % 256 = src := by omega
  have e3 : (prio * 67108864 + f * 256 + src) / 67108864 % 8 = prio := by omega
  rw [e1, e2, e3]
  clear e1 e2 e3
  split <;> (try arith_bits) <;> (try simp only [Prod.mk.injEq, and_true, true_and]) <;> omega

/-- closed form of the identifier built by the encoder. -/
theorem build_closed (pgn src dst prio : Nat) (hp : prio < 8) (hs : src < 256) (hd : dst < 256)
    (hpgn : pgn < 2^18) :
    build_header pgn src dst prio =
      prio * 67108864 + (if pgn / 256 % 256 < 240 then pgn - pgn % 256 + dst else pgn) * 256 + src := by
  unfold build_header
  simp only []
  arith_bits
  simp only [Nat.reducePow] at *
  split <;> (try arith_bits) <;> (try simp only [Nat.reducePow] at *) <;> omega

/-- build ∘ parse = id on every 29-bit identifier (all 2^29 of them, no enumeration). -/
theorem C05_parse_build (id : Nat) (h : id < 2^29) :
    build_header (extract_header id).1 (extract_header id).2.1 (extract_header id).2.2.1
      (extract_header id).2.2.2 = id := by
  unfold extract_header
  simp only []
  split <;> (unfold build_header; simp only []; arith_bits; split <;> (try arith_bits) <;> omega)

/-- parse ∘ build on addressed (PDU1) PGNs in canonical form (low byte zero). -/
theorem C05_build_parse_pdu1 (pgn src dst prio : Nat) (hp : prio < 8) (hs : src < 256) (hd : dst < 256)
    (hpgn : pgn < 2^18) (hpf : pgn / 256 % 256 < 240) (hcanon : pgn % 256 = 0) :
    extract_header (build_header pgn src dst prio) = (pgn, src, dst, prio) := by
  rw [build_closed pgn src dst prio hp hs hd hpgn, if_pos hpf,
      extract_closed _ src prio hp hs (by omega)]
  have h1 : (pgn - pgn % 256 + dst) / 256 % 256 < 240 := by omega
  simp only [if_pos h1, Prod.mk.injEq, and_true, true_and]
  constructor <;> omega

/-- parse ∘ build on broadcast (PDU2) PGNs: the destination always parses to 255, whatever
destination was given (non-canonical input included). -/
theorem C05_build_parse_pdu2 (pgn src dst prio : Nat) (hp : prio < 8) (hs : src < 256) (hd : dst < 256)
    (hpgn : pgn < 2^18) (hpf : 240 ≤ pgn / 256 % 256) :
    extract_header (build_header pgn src dst prio) = (pgn, src, 255, prio) := by
  rw [build_closed pgn src dst prio hp hs hd hpgn, if_neg (by omega),
      extract_closed _ src prio hp hs hpgn]
  simp only [if_neg (show ¬ pgn / 256 % 256 < 240 by omega)]

/-- non-canonical PDU1 input: a PDU1 PGN given with a non-zero low byte parses back with the
low byte cleared (the destination occupies that byte on the wire). -/
theorem C05_build_parse_pdu1_noncanon (pgn src dst prio : Nat) (hp : prio < 8) (hs : src < 256) (hd : dst < 256)
    (hpgn : pgn < 2^18) (hpf : pgn / 256 % 256 < 240) :
    extract_header (build_header pgn src dst prio) = (pgn - pgn % 256, src, dst, prio) := by
  rw [build_closed pgn src dst prio hp hs hd hpgn, if_pos hpf,
      extract_closed _ src prio hp hs (by omega)]
  have h1 : (pgn - pgn % 256 + dst) / 256 % 256 < 240 := by omega
  simp only [if_pos h1, Prod.mk.injEq, and_true, true_and]
  constructor <;> omega

/-- no two identifiers are confused: parsing is injective on 29-bit identifiers. -/
theorem C05_injective (a b : Nat) (ha : a < 2^29) (hb : b < 2^29)
    (h : extract_header a = extract_header b) : a = b := by
  have h1 := C05_parse_build a ha
  have h2 := C05_parse_build b hb
  rw [h] at h1
  exact h1.symm.trans h2

/-- parsed fields are in range: pgn < 2^18, src < 256, dst < 256, prio < 8. -/
theorem C05_parse_ranges (id : Nat) :
    (extract_header id).1 < 2^18 ∧ (extract_header id).2.1 < 256 ∧
    (extract_header id).2.2.1 < 256 ∧ (extract_header id).2.2.2 < 8 := by
  unfold extract_header
  simp only []
  split <;> arith_bits <;> (refine ⟨?_, ?_, ?_, ?_⟩ <;> omega)

/-- the built identifier always fits in 29 bits (so it is one of the identifiers of `C05_parse_build`). -/
theorem C05_build_lt (pgn src dst prio : Nat) (hp : prio < 8) (hs : src < 256) (hd : dst < 256)
    (hpgn : pgn < 2^18) : build_header pgn src dst prio < 2^29 := by
  rw [build_closed pgn src dst prio hp hs hd hpgn]
  split <;> omega

-- non-vacuity: concrete identifiers meeting the hypotheses
example : (0x09F80123 : Nat) < 2^29 ∧ extract_header 0x09F80123 = (129025, 0x23, 255, 2) := by decide
example : extract_header (build_header 59904 5 17 6) = (59904, 5, 17, 6) := by decide
example : extract_header (build_header 129025 5 17 2) = (129025, 5, 255, 2) := by decide

end N2k
