/-
C07 — the same CAN frame decodes identically through every input format.
All five front-ends hand a `Frame` (pgn, prio, src, dst, data in wire order) to the common decoding
core (`_decode`), so it suffices that the frame they extract is the same; what the core does with
it does not depend on the format (the core's model takes a `Frame` and nothing else).
Model: `N2k/Model/Wire.lean` (tie: T3).  Helpers in `N2k/Lemmas/Wire06.lean`.
-/
import N2k.Model.Wire
import N2k.Lemmas.Wire06
import N2k.Props.C06
import N2k.Props.C05
namespace N2k.Wire
open N2k.Straight

/-- `"%d"` rendering used by the canboat plain format -/
def toDecAux : Nat → Nat → List Char → List Char
  | 0, _, acc => acc
  | fuel + 1, n, acc => if n < 10 then Char.ofNat (48 + n) :: acc else toDecAux fuel (n / 10) (Char.ofNat (48 + n % 10) :: acc)
def toDec (n : Nat) : List Char := toDecAux 40 n []

/-- a canboat plain-text line for a frame -/
def renderBasic (ts : List Char) (f : Frame) : List Char :=
  ts ++ [','] ++ toDec f.prio ++ [','] ++ toDec f.pgn ++ [','] ++ toDec f.src ++ [','] ++ toDec f.dst ++ [','] ++
    toDec f.data.length ++ [','] ++ List.intercalate [','] (f.data.map byteHex)

/-- lower-casing hex digits (the text formats accept either case) -/
def lowerHex (c : Char) : Char := if 'A' ≤ c ∧ c ≤ 'F' then Char.ofNat (c.toNat + 32) else c

/-- **The three frame-level formats extract the same frame** from the same identifier and data —
EByte binary, USB binary and Yacht Devices text (either direction marker) -/
theorem C07_frame_formats_agree (id : Nat) (data : Bytes) (hid : id < 2^32) (hd : 1 ≤ data.length)
    (h8 : data.length ≤ 8) (hb : ∀ b ∈ data, b < 256)
    (ts dir : List Char) (hts : validHms ts = true) (hsp : ' ' ∉ ts) (hne : ts ≠ [])
    (hdir : dir = ['R'] ∨ dir = ['T']) :
    decodeTcp (encodeEbyte id data) = .ok (frameOfId id data) ∧
    decodeUsb (encodeUsb id data) = .ok (frameOfId id data) ∧
    decodeYd (ts ++ [' '] ++ dir ++ [' '] ++ (encodeYd id data).dropLast.dropLast) = .ok (frameOfId id data) := by
  exact ⟨C06_ebyte_rt id data hid h8, C06_usb_rt id data hid h8,
    C06_yd_rt id data hid hd hb ts dir hts hsp hne hdir⟩

/-- Yacht Devices text is case-insensitive in its hex digits -/
theorem C07_yd_lowercase (id : Nat) (data : Bytes) (hid : id < 2^32) (hd : 1 ≤ data.length)
    (hb : ∀ b ∈ data, b < 256) (ts dir : List Char) (hts : validHms ts = true) (hsp : ' ' ∉ ts)
    (hne : ts ≠ []) (hdir : dir = ['R'] ∨ dir = ['T']) :
    decodeYd (ts ++ [' '] ++ dir ++ [' '] ++ ((encodeYd id data).dropLast.dropLast).map lowerHex) = .ok (frameOfId id data) := by
  exact yd_rt_map lowerHex (by decide) (by decide) id data hid hd hb ts dir hts hsp hne hdir

/-- **The two message-level formats extract the frame whose fields are the parsed identifier** — so a
frame given as identifier+data to a frame-level format and as (pgn, prio, src, dst)+data to the canboat
plain format or the Actisense format reaches the decoding core as the same `Frame`. -/
theorem C07_basic_agrees (id : Nat) (data : Bytes) (hd : 1 ≤ data.length) (h223 : data.length ≤ 223)
    (hb : ∀ b ∈ data, b < 256) (ts : List Char) (hts : validStamp ts = true) (hc : ',' ∉ ts) :
    decodeBasic (renderBasic ts (frameOfId id data)) = .ok (frameOfId id data) := by
  -- (a CAN payload has at most 223 bytes; the decimal renderer `toDec` is exact far beyond that)
  have hlen : data.length < 10 ^ 40 := by
    have : (223 : Nat) < 10 ^ 40 := by decide
    omega
  have haux : ∀ f n acc, toDecAux f n acc = decAux f n acc := by
    intro f
    induction f with
    | zero => intros; rfl
    | succ f ih => intro n acc; simp only [toDecAux, decAux, ih]
  have htd : ∀ n, toDec n = dec n := fun n => haux 40 n []
  have r := N2k.C05_parse_ranges id
  simp only [renderBasic, htd]
  exact basic_rt (frameOfId id data) (by have := r.2.2.2; simp only [frameOfId]; omega)
    (by have := r.1; simp only [frameOfId]; omega) (by have := r.2.1; simp only [frameOfId]; omega)
    (by have := r.2.2.1; simp only [frameOfId]; omega) hlen hd hb ts hts hc

theorem C07_actisense_agrees (id : Nat) (data : Bytes) (hb : ∀ b ∈ data, b < 256) :
    let f := frameOfId id data
    decodeActisense ("A000001.000 ".toList ++ encodeActisense f.prio f.dst f.src f.pgn data) = .ok f := by
  intro f
  have r := N2k.C05_parse_ranges id
  exact C06_actisense_rt f.prio f.dst f.src f.pgn data (by have := r.2.2.2; simp only [f, frameOfId]; omega)
    (by have := r.2.2.1; simp only [f, frameOfId]; omega) (by have := r.2.1; simp only [f, frameOfId]; omega)
    (by have := r.1; simp only [f, frameOfId]; omega) hb

-- non-vacuity
example : decodeBasic (renderBasic "2024-01-01-00:00:00.000".toList (frameOfId 0x19F80123 [1, 0xAB]))
    = .ok (frameOfId 0x19F80123 [1, 0xAB]) := by decide +kernel
example : decodeYd ("12:00:01.5 T ".toList ++ ((encodeYd 0x19F80123 [1, 0xAB]).dropLast.dropLast).map lowerHex)
    = .ok (frameOfId 0x19F80123 [1, 0xAB]) := by decide +kernel

end N2k.Wire
