/-
C20 — the serial (USB) stream resynchronises after noise with bounded buffering.
Model: `N2k/Model/Serial.lean` = the buffer algorithm of `WaveShareNmea2000Gateway._receive_impl`
after the repairs `024dc88` (bounded buffer) and the checksum-based resynchronisation (tie: T3; the checksum
itself is the T2 translation), and `Wire.decodeUsb` for the checksum gate.
Property theorems only; helpers in `N2k/Lemmas/Serial20.lean`.
-/
import N2k.Model.Serial
import N2k.Model.Wire
import N2k.Lemmas.Serial20
namespace N2k.Serial

/-- a well-framed packet: 20 bytes, starts with the marker, and no marker inside after the header
(as the property quantifies) -/
structure Framed (p : Bytes) : Prop where
  len : p.length = 20
  b0 : p.getD 0 0 = 0xaa
  b1 : p.getD 1 0 = 0x55
  inner : findMarker (p.drop 1) = none

def MarkerFree (n : Bytes) : Prop := findMarker n = none

/-- a valid packet of the stream: well framed and with a matching checksum -/
structure Valid (p : Bytes) : Prop extends Framed p where
  sum : windowOk p = true

/-- **Bounded buffering**: after every read, whatever arrives, at most 19 bytes are held back. -/
theorem C20_buffer_bound (buf data : Bytes) : (feed buf data).1.length ≤ 19 := by
  rw [feed_eq_run]; exact run_fst_length _

/-- **Segmentation independence**: splitting the stream into reads in any way changes neither the
packets handed to the decoder nor the bytes held back. -/
theorem C20_chunking (buf : Bytes) (reads : List Bytes) (hbuf : feed buf [] = (buf, [])) :
    feedAll buf reads = feed buf reads.flatten := by
  rw [feed_eq_run, List.append_nil] at hbuf
  rw [feed_eq_run]; exact feedAll_eq_run buf reads hbuf

/-- the hypothesis of `C20_chunking` holds for the empty buffer and for every buffer the client can
ever hold (whatever `feed` leaves behind is a fixed point of an empty read) -/
theorem C20_buffer_normal (buf data : Bytes) :
    feed (feed buf data).1 [] = ((feed buf data).1, []) := by
  rw [feed_eq_run (feed buf data).1, List.append_nil, feed_eq_run]; exact run_normal _

/-- **Marker-free noise loses nothing**: valid packets separated by noise runs that contain no start
marker are all handed to the decoder, in order, and nothing else is. -/
theorem C20_noise_free_lossless (segs : List (Bytes × Bytes)) (tail : Bytes)
    (hn : ∀ s ∈ segs, MarkerFree s.1) (hp : ∀ s ∈ segs, Valid s.2) (ht : MarkerFree tail) :
    (feed [] ((segs.map (fun s => s.1 ++ s.2)).flatten ++ tail)).2 = segs.map (·.2) := by
  rw [feed_eq_run, List.nil_append]
  exact run_lossless segs tail hn
    (fun s hs => let h := hp s hs; isPacket_of h.len h.b0 h.b1 h.inner h.sum) ht

/-- **Resynchronisation**: after ARBITRARY noise (markers included), a run of back-to-back
valid packets is delivered from the second packet on at the latest: the delivered list ends
with `ps.tail` and what precedes it came out of the noise (and possibly the first packet). -/
theorem C20_resync_one (noise : Bytes) (ps : List Bytes) (hp : ∀ p ∈ ps, Valid p) :
    ∃ pre, (feed [] (noise ++ ps.flatten)).2 = pre ++ ps.tail ∨
           (feed [] (noise ++ ps.flatten)).2 = pre ++ ps := by
  rw [feed_eq_run, List.nil_append]
  exact run_resync ps
    (fun p hm => let h := hp p hm; isPacket_of h.len h.b0 h.b1 h.inner h.sum) noise

/-- a position in the stream at which a false packet starts: the marker is there and the 20 bytes from it pass the checksum -/
def falsePacketAt (s : Bytes) (k : Nat) : Prop :=
  (s.drop k).take 2 = [0xaa, 0x55] ∧ 20 ≤ (s.drop k).length ∧ windowOk ((s.drop k).take 20) = true

/-- **Resynchronisation, sharper**: noise of any content — markers included — loses NO packet, unless a marker
inside the noise happens to start 20 bytes that pass the checksum (1 chance in 256 per marker): then the client
cannot tell that window from a packet.  Every window that starts inside the noise fails its checksum ⇒ every
packet of the run is handed to the decoder, and nothing else is. -/
theorem C20_resync_none (noise : Bytes) (ps : List Bytes) (hp : ∀ p ∈ ps, Valid p)
    (hnf : ∀ k, k < noise.length → ¬ falsePacketAt (noise ++ ps.flatten) k) :
    (feed [] (noise ++ ps.flatten)).2 = ps := by
  rw [feed_eq_run, List.nil_append]
  exact run_resync_none ps
    (fun p hm => let h := hp p hm; isPacket_of h.len h.b0 h.b1 h.inner h.sum) noise
    (fun k hk => hnf k hk)

/-- only windows that pass the client's checksum test are handed to the decoder -/
theorem C20_only_valid_windows (buf data : Bytes) : ∀ w ∈ (feed buf data).2, windowOk w = true ∧ w.length = 20 := by
  rw [feed_eq_run]; exact run_only_valid _

/-- **Checksum gate**: a 20-byte window whose checksum byte does not match is never decoded. -/
theorem C20_checksum_gate (pkt : Bytes) (h : Straight.checksum pkt ≠ pkt.getD 19 0) :
    ∀ f, Wire.decodeUsb pkt ≠ .ok f := by
  intro f hf; exact h (decodeUsb_ok_checksum hf)

/-- what "the checksum" is: the low byte of the sum of bytes 2..18 (all of frame type, format, id,
length, data and the reserved byte). Stated about the T2 translation of `calculate_canbus_checksum`,
so a change of the summed range breaks this theorem. -/
theorem C20_checksum_covers (pkt : Bytes) :
    Straight.checksum pkt = ((pkt.drop 2).take 17).sum % 256 := by
  unfold Straight.checksum
  exact Nat.and_two_pow_sub_one_eq_mod _ 8

-- non-vacuity
example : Valid (Wire.encodeUsb 0x19F80123 [1, 2, 3]) := by
  refine ⟨⟨by decide +kernel, by decide +kernel, by decide +kernel, by decide +kernel⟩, by decide +kernel⟩
-- a marker in the noise followed by a valid packet: the false window fails its checksum and the packet is NOT lost
example : (feed [] ([0xaa, 0x55, 1, 2, 3] ++ Wire.encodeUsb 0x19F80123 [1, 2, 3] ++ Wire.encodeUsb 0x19F80123 [4])).2
    = [Wire.encodeUsb 0x19F80123 [1, 2, 3], Wire.encodeUsb 0x19F80123 [4]] := by decide +kernel
example : (feed [] ([0x11, 0xaa] ++ Wire.encodeUsb 0x19F80123 [1, 2, 3] ++ [0xaa])).2 = [Wire.encodeUsb 0x19F80123 [1, 2, 3]]
    ∧ (feed [] ([0x11, 0xaa] ++ Wire.encodeUsb 0x19F80123 [1, 2, 3] ++ [0xaa])).1 = [0xaa] := by decide +kernel

end N2k.Serial
