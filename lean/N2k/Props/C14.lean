/-
C14 — close() is final and status notifications are faithful.
Model: the client LTS (tie: trace validation with close() injected at every step of every session
shape).  PARTIAL w.r.t. the runtime as C13.  Helpers in `N2k/Lemmas/Client13.lean`.
-/
import N2k.Model.Client
import N2k.Lemmas.Client13
namespace N2k.Client

/-- **CLOSED is absorbing**: no event moves the client out of CLOSED -/
theorem C14_closed_absorbing (s s' : CS) (e : Ev) (hc : s.st = .closed) (h : step s e = some s') : s'.st = .closed := by
  exact L13.runTrace_closed (evs := [e]) hc (by simp [runTrace, h])

theorem C14_closed_forever (s s' : CS) (evs : List Ev) (hc : s.st = .closed) (h : runTrace s evs = some s') : s'.st = .closed := by
  exact L13.runTrace_closed hc h

/-- once CLOSED, no connection attempt starts: neither a new connect call, nor one already in flight, nor a retry -/
theorem C14_no_attempt_after_closed (s : CS) (hc : s.st = .closed) : step s .implStart = none := by
  simp only [L13.step_eq_none, stepCore]
  split <;> simp [L13.guard_eq_none, hc]

/-- … and no further status is ever reported -/
theorem C14_no_status_after_closed (s : CS) (t : CSt) (hc : s.st = .closed) : step s (.status t) = none := by
  simp [L13.step_eq_none, stepCore, L13.guard_eq_none, hc]

/-- a connection that completes after close() is shut, not used: once CLOSED no receive task is started -/
theorem C14_no_receiver_after_closed (s : CS) (c : Nat) (hc : s.st = .closed) : step s (.recvStart c) = none := by
  simp [step, stepCore, guard, hc]

/-- the status events of a trace, in order -/
def statusEvents : List Ev → List CSt
  | [] => []
  | .status t :: es => t :: statusEvents es
  | _ :: es => statusEvents es

def noRepeat : List CSt → Prop
  | a :: b :: rest => a ≠ b ∧ noRepeat (b :: rest)
  | _ => True

private theorem noRepeat_snoc (t : CSt) : ∀ (l : List CSt) (a : CSt), noRepeat (a :: l) → l.getLast?.getD a ≠ t →
    noRepeat (a :: (l ++ [t]))
  | [], a, _, h => ⟨by simpa using h, trivial⟩
  | b :: l, a, h, h' => ⟨h.1, noRepeat_snoc t l b h.2 (by simpa [List.getLast?_cons] using h')⟩

/-- **Status notifications are faithful**: the status log is exactly the sequence of state changes,
in order, never twice in a row the same state, and the current state is the last one reported -/
theorem C14_status_faithful (evs : List Ev) (s : CS) (h : runTrace init evs = some s) :
    s.statusLog = statusEvents evs ∧ noRepeat (.disconnected :: s.statusLog) ∧
    s.st = (s.statusLog.getLast?).getD .disconnected := by
  have key : ∀ (evs : List Ev) (s s' : CS), runTrace s evs = some s' →
      s.st = (s.statusLog.getLast?).getD .disconnected → noRepeat (.disconnected :: s.statusLog) →
      s'.statusLog = s.statusLog ++ statusEvents evs ∧ noRepeat (.disconnected :: s'.statusLog) ∧
      s'.st = (s'.statusLog.getLast?).getD .disconnected := by
    intro evs
    induction evs with
    | nil => intro s s' h h1 h2; obtain rfl := L13.runTrace_nil.1 h; simp [statusEvents, h1, h2]
    | cons e es ih =>
      intro s s' h i1 i2
      obtain ⟨t, h1, h2⟩ := L13.runTrace_cons.1 h
      rcases L13.step_status_frame h1 with ⟨u, rfl, h3, -, h4, h5⟩ | ⟨h3, h4, h5⟩
      · obtain ⟨a, b⟩ := ih t s' h2 (by simp [h4, h5]) (by rw [h5]; exact noRepeat_snoc u _ _ i2 (by rw [← i1]; exact Ne.symm h3))
        exact ⟨by simp [a, h5, statusEvents], b⟩
      · obtain ⟨a, b⟩ := ih t s' h2 (by rw [h4, h5]; exact i1) (by rw [h5]; exact i2)
        refine ⟨?_, b⟩
        rw [a, h5]
        cases e <;> first | rfl | exact absurd rfl (h3 _)
  simpa [init] using key evs init s h rfl ⟨⟩

/-- **After close() returns**: the state is CLOSED, the link has been shut, and no receive task is alive —
unless close() was called from inside the receive task itself (from the status callback that task runs):
then that task is the caller; it is not cancelled and can only end (`C14_inner_close_receiver_only_exits`) -/
theorem C14_close_returns (s s' : CS) (h : step s .closeReturn = some s') :
    s.st = .closed ∧ (s.recv = none ∨ s.closeFromRecv = true) ∧ (∀ c, s.conn = some c → c ∈ s.writerClosed) ∧ s'.closeReturned = true := by
  obtain ⟨t, ht, rfl⟩ := L13.step_eq_some.1 h
  simp only [stepCore, L13.guard_eq_some, Bool.and_eq_true, Bool.or_eq_true, decide_eq_true_eq, Option.isNone_iff_eq_none] at ht
  obtain ⟨⟨⟨⟨⟨h1, h2⟩, h3⟩, -⟩, h4⟩, rfl⟩ := ht
  refine ⟨h2, h3, ?_, rfl⟩
  intro c hc
  simpa [hc] using h4

/-- … and the reconnect task has ended (close() cancels it), unless close() was called from inside it — from the status
callback its connect() runs — in which case it is the caller and makes no further attempt (`C14_no_attempt_after_closed`) -/
theorem C14_close_ends_reconnect (s s' : CS) (h : step s .closeReturn = some s') :
    s.reconn = 0 ∨ s.closeFromReconn = true := by
  obtain ⟨t, ht, rfl⟩ := L13.step_eq_some.1 h
  simp only [stepCore, L13.guard_eq_some, Bool.and_eq_true, Bool.or_eq_true, decide_eq_true_eq, Option.isNone_iff_eq_none] at ht
  obtain ⟨⟨⟨⟨⟨-, -⟩, -⟩, h5⟩, -⟩, rfl⟩ := ht
  exact h5

/-- a reconnect task that still gets to its connect() call once the client is CLOSED makes no attempt: the call returns at once -/
theorem C14_reconnect_after_closed_is_inert (s s' : CS) (hc : s.st = .closed) (h : step s .reconnCall = some s') :
    step s' .implStart = none := by
  have : s'.st = .closed := C14_closed_absorbing s s' _ hc h
  exact C14_no_attempt_after_closed s' this

/-- after a close() from inside the receive task, that task performs no further read iteration (it can only exit),
in every continuation the model accepts -/
theorem C14_inner_close_receiver_only_exits (s s' : CS) (e : Ev) (hf : s.closeFromRecv = true) (h : step s e = some s') :
    (∀ c p, e ≠ .recvIter c p) ∧ s'.closeFromRecv = true := by
  obtain ⟨t, ht, rfl⟩ := L13.step_eq_some.1 h
  constructor
  · intro c p he
    subst he
    simp [stepCore, L13.guard_eq_some, hf] at ht
  · cases e <;> simp only [stepCore] at ht <;> (repeat' split at ht) <;>
      first
        | (obtain ⟨_, rfl⟩ := L13.guard_eq_some.1 ht; simp [hf])
        | (cases ht; simp [hf])
        | (simp at ht)

/-- … and from then on no receive callback runs -/
theorem C14_quiet_after_close (s s' : CS) (evs : List Ev) (hc : s.closeReturned = true) (h : runTrace s evs = some s') :
    s'.closeReturned = true ∧ s'.cbCount = s.cbCount := by
  exact L13.runTrace_quiet hc h

-- non-vacuity: close while connected
example : (runTrace init [.connCall, .implStart, .implOk 1, .status .connected, .connReturn, .recvStart 1, .closeCall, .status .closed,
    .writerClose 1, .sleep 10, .recvExit 1 true, .sleep 10, .closeReturn]).map (fun s => (s.st, s.closeReturned, s.statusLog)) =
    some (.closed, true, [.connected, .closed]) := by decide +kernel

-- non-vacuity: the user closes from the status callback at the first fault (the callback runs inside the receive task)
example : (runTrace init [.connCall, .implStart, .implOk 1, .status .connected, .connReturn, .recvStart 1, .envEof 1, .writerClose 1, .status .disconnected,
    .closeCallInRecv, .status .closed, .writerClose 1, .closeReturn, .recvExit 1 false]).map (fun s => (s.st, s.closeReturned, s.recv, s.statusLog)) =
    some (.closed, true, none, [.connected, .disconnected, .closed]) := by decide +kernel

end N2k.Client
