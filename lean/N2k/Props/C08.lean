/-
C08 — proprietary PGN definitions are selected exactly by their match fields.
* table theorem (kernel): the 24 generated dispatchers are what `Spec.compileDisp` produces from the
  database groups (`Tables.disps_eq_compiled`), regenerated from /repo on every run (T1);
* generic theorem: the if-chain semantics of a compiled dispatcher IS `Spec.select`.
Helpers in `N2k/Lemmas/Disp08.lean`.
-/
import N2k.Model.Spec
import N2k.Model.Interp
import N2k.Tables.TMisc
import N2k.Lemmas.Disp08
namespace N2k
open N2k.Spec

/-- running the compiled dispatcher = selecting by match fields -/
theorem C08_dispatch_is_select (g : List PgnDef) (name : String) (d : Disp)
    (h : compileDisp g = some (name, d)) (data : Nat) :
    runDisp d data = (select g data).map (suffix g) := by
  exact runDisp_compiled g name d h data

/-- every dispatcher of the shipped code is the compiled dispatcher of a database group, hence selects by `Spec.select` -/
theorem C08_code_dispatch (name : String) (d : Disp) (h : (name, d) ∈ Gen.disps) :
    ∃ g ∈ groupsOf Gen.dbPgns, compileDisp g = some (name, d) ∧
      ∀ data, runDisp d data = (select g data).map (suffix g) := by
  rw [Tables.disps_eq_compiled, List.mem_filterMap] at h
  obtain ⟨g, hg, hc⟩ := h
  exact ⟨g, hg, hc, fun data => runDisp_compiled g name d hc data⟩

/-- two payloads that agree on every match-field position select the same definition -/
theorem C08_only_match_bits (g : List PgnDef) (data data' : Nat)
    (h : ∀ p ∈ g, ∀ c ∈ condsOf p, condHolds data c = condHolds data' c) :
    select g data = select g data' := by
  exact select_congr g data data' h

/-- a payload never appears under a non-fallback definition whose match values it does not carry -/
theorem C08_selected_carries_match_values (g : List PgnDef) (data : Nat) (p : PgnDef)
    (h : select g data = some p) (hf : p.fallback = false) : matchesDef p data = true := by
  have := List.find?_some (select_nonfallback g data p h hf)
  simpa using this

/-- the selected definition is the FIRST matching one in database order -/
theorem C08_first_in_order (g : List PgnDef) (data : Nat) (p : PgnDef)
    (h : select g data = some p) (hf : p.fallback = false) :
    ∃ pre post, g.filter (fun q => !q.fallback) = pre ++ p :: post ∧ ∀ q ∈ pre, matchesDef q data = false := by
  obtain ⟨-, pre, post, heq, hpre⟩ := List.find?_eq_some_iff_append.mp (select_nonfallback g data p h hf)
  exact ⟨pre, post, heq, fun q hq => by simpa using hpre q hq⟩

/-- the fallback is used exactly when no non-fallback definition matches; with no fallback nothing is decoded -/
theorem C08_fallback (g : List PgnDef) (data : Nat)
    (h : ∀ p ∈ g, p.fallback = false → matchesDef p data = false) :
    select g data = (g.filter (·.fallback)).getLast? := by
  exact select_fallback g data h

-- non-vacuity: PGN 129808 (two definitions, the second without match fields) after the repair
example : (Gen.disps.filter (·.1 = "129808")).map (fun d => runDisp d.2 0) = [some "129808_dscCallInformation"] := by
  decide +kernel
example : (Gen.disps.filter (·.1 = "129808")).map (fun d => runDisp d.2 (112 <<< 8)) = [some "129808_dscDistressCallInformation"] := by
  decide +kernel

end N2k
