/-
C11 — messages carry the identity of their source's latest address claim.
Model: `N2k/Model/Decoder.lean` (tie: T3).  Helpers in `N2k/Lemmas/Dec11.lean`.
-/
import N2k.Model.Decoder
import N2k.Lemmas.Dec11
namespace N2k.Dec

/-- a claim from one address never changes another address's identity -/
theorem C11_claim_updates_only_src (G : GenLayer) (cfg : Config) (st : State) (i : Input) (a : Nat)
    (ha : a ≠ i.src) : lookupSrc (step G cfg st i).1.sources a = lookupSrc st.sources a :=
  step_sources_other G cfg st i a ha

/-- only address claims change the source map at all -/
theorem C11_only_claims_update (G : GenLayer) (cfg : Config) (st : State) (i : Input)
    (hG : ∀ pgn d m, G.decode pgn d = some (.ok m) → m.pgn = pgn) (hne : i.pgn ≠ isoClaimPgn) :
    (step G cfg st i).1.sources = st.sources :=
  step_sources_nonclaim G cfg st i hG hne

/-- **Identity**: every returned message carries exactly the identity the source map holds for its
source address right after the step (the latest claim's identity, or none if it never claimed) -/
theorem C11_identity (G : GenLayer) (hG : ∀ pgn d m, G.decode pgn d = some (.ok m) → m.pgn = pgn)
    (cfg : Config) (st : State) (i : Input) (o : OutMsg)
    (h : (step G cfg st i).2 = .msg o) :
    o.src = i.src ∧ o.iso = lookupSrc (step G cfg st i).1.sources i.src := by
  exact identity_of_genok G cfg st i o hG h

/-- the identity stored by a claim is decoded from that claim (or is the stored one with the same NAME);
the NAME is the first 64 bits of the payload -/
theorem C11_claim_identity (G : GenLayer) (cfg : Config) (st : State) (i : Input) (m : Msg)
    (hp : i.pgn = isoClaimPgn) (hk : G.isFast isoClaimPgn = .single)
    (hd : G.decode i.pgn (leNat i.data) = some (.ok m)) (hm : m.pgn = isoClaimPgn) (n : IsoName)
    (hn : mkIsoName m (leNat i.data % 18446744073709551616) = some n) :
    ∃ n', lookupSrc (step G cfg st i).1.sources i.src = some n' ∧ n'.name = leNat i.data % 18446744073709551616 ∧
      (n' = n ∨ lookupSrc st.sources i.src = some n') :=
  step_claim_identity G cfg st i m hp hk hd hm n hn

/-- **Manufacturer lists**: once a source has claimed, a non-claim message from it is returned only
if the claimed manufacturer passes the exclude/include lists -/
theorem C11_manufacturer_filter (G : GenLayer) (cfg : Config) (st : State) (i : Input) (o : OutMsg) (n : IsoName)
    (hne : i.pgn ≠ isoClaimPgn) (hs : lookupSrc st.sources i.src = some n)
    (h : (step G cfg st i).2 = .msg o) : manuPasses cfg n = true :=
  step_manufacturer G cfg st i o n hne hs h

/-- an unknown manufacturer (no name for the code) passes no include list; a listed manufacturer is excluded in any letter case -/
theorem C11_unknown_manufacturer (cfg : Config) (n : IsoName) (hn : n.manufacturer = none)
    (hi : cfg.includeManu ≠ []) : manuPasses cfg n = false :=
  manuPasses_unknown cfg n hn hi

/-- **Discovery window**: with network mapping on, nothing from an unclaimed source is returned during the window -/
theorem C11_discovery (G : GenLayer) (cfg : Config) (st : State) (i : Input)
    (hb : cfg.buildMap = true) (hw : i.inWindow = true) (hne : i.pgn ≠ isoClaimPgn)
    (hs : lookupSrc st.sources i.src = none) : step G cfg st i = (st, .none) :=
  step_discovery G cfg st i hb hw hne hs

/-- **No leak, for every history**: whatever the order of claims and data, every non-claim message
returned from a source that has an identity at that moment passes the manufacturer lists -/
theorem C11_no_leak (G : GenLayer) (hG : ∀ pgn d m, G.decode pgn d = some (.ok m) → m.pgn = pgn)
    (cfg : Config) (st : State) (h : List Input) (k : Nat) (i : Input) (o : OutMsg)
    (hi : h[k]? = some i) (ho : (run G cfg st h).2[k]? = some (.msg o)) (hne : i.pgn ≠ isoClaimPgn)
    (n : IsoName) (hn : o.iso = some n) : manuPasses cfg n = true :=
  run_no_leak G hG cfg st h k i o hi ho hne n hn

/-- **The identity's numbers are the bits of the claim's NAME**: unique number = bits 0..20, device instance =
bits 32..39, system instance = bits 56..59 — every bit pattern is data (an all-ones sub-field is not "absent") -/
theorem C11_identity_bits (m : Msg) (name : Nat) (n : IsoName) (h : mkIsoName m name = some n) :
    n.name = name ∧ n.uniqueNumber = ((name % 2 ^ 21 : Nat) : Int) ∧ n.deviceInstance = ((name / 2 ^ 32 % 256 : Nat) : Int) ∧
    n.systemInstance = ((name / 2 ^ 56 % 16 : Nat) : Int) := by
  unfold mkIsoName at h
  simp only [Option.bind_eq_bind, Option.pure_def, Option.bind_eq_some_iff] at h
  obtain ⟨_, _, _, _, _, _, _, _, _, _, _, _, _, _, _, _, _, _, _, _, h⟩ := h
  simp only [Option.some.injEq] at h
  subst h
  refine ⟨rfl, ?_, ?_, ?_⟩ <;> simp only [Nat.reducePow]

-- non-vacuity: instance byte 15, unique number 2097151, system instance 15 survive
example : (2097151 + 15 * 2 ^ 32 + 15 * 2 ^ 56) / 2 ^ 32 % 256 = 15 ∧ (2097151 + 15 * 2 ^ 32 + 15 * 2 ^ 56) % 2 ^ 21 = 2097151 := by decide

end N2k.Dec
