/-
C07, fast-packet clause — "a fast-packet message delivered frame by frame through a frame-level
format equals the same payload delivered pre-assembled through a format that carries whole messages".

The frame-level formats (EByte, USB, Yacht Devices, canboat plain per frame) hand each frame to the
decoding core with `already_combined = False`; the whole-message formats (Actisense, canboat plain
combined) hand the payload with `already_combined = True` (`C07.lean`: all of them extract the same
addressing).  Whether the core reassembles is decided by the generated `is_fast_pgn_<pgn>()`.
So the clause needs (1) the shipped `is_fast` table is what the database says (T1, kernel-checked),
(2) for a PGN the table calls fast, frame-wise delivery = pre-assembled delivery (decoder model).
-/
import N2k.Model.Layer
import N2k.Gen.All
import N2k.Tables.TMisc
import N2k.Lemmas.Dec16
import N2k.Props.C16
namespace N2k.Dec
open N2k N2k.Gen N2k.Spec

/-- what the database's `Type` demands of `is_fast_pgn_<pgn>()` -/
def kindOfType (t : String) : FastKind :=
  if t = "Fast" then .fast else if t = "Single" then .single else .raises

/-- the generated layer of the shipped `pgns.py` (regenerated from /repo on every run) -/
def shipped : GenLayer := mkLayer ⟨masterDict, masterFlagsDict, masterIndirectDict, revDicts⟩ decFns disps fasts

/-- (1a) the shipped `is_fast_pgn_*` functions are exactly the ones the database compiles to -/
theorem C07_fast_table : fasts = (groupsOf dbPgns).filterMap compileFast := Tables.fasts_eq_compiled

/-- (1b) for EVERY definition of the database, `is_fast_pgn_<its PGN>()` answers what its `Type` says
(in particular all definitions sharing a PGN agree on the type) -/
theorem C07_db_fast_kinds : dbPgns.all (fun p => decide (fastKindOf fasts p.pgn = kindOfType p.ptype)) = true := by
  decide +kernel

theorem C07_db_fast_kind (p : PgnDef) (hp : p ∈ dbPgns) : shipped.isFast p.pgn = kindOfType p.ptype := by
  have h := List.all_eq_true.mp C07_db_fast_kinds p hp
  simpa [shipped, mkLayer] using h

/-- (1c) a PGN outside the database has no `is_fast` function (it is reported as unsupported, in every format) -/
theorem C07_outside_db : fasts.all (fun e => dbPgns.any (fun p => p.pgn = e.pgn)) = true := by decide +kernel

/-- (2) **frame by frame = pre-assembled**, for every fast-packet definition of the database, every
decoder configuration, every decoder state (any history) in which the stream's record does not
already hold this sequence counter, every payload of up to 223 bytes, every sequence counter:
delivering the frames one by one (frame-level format) returns nothing until the last frame, and at
the last frame exactly what the pre-assembled payload returns (whole-message format). -/
theorem C07_framewise_eq_combined (cfg : Config) (st : State) (p : PgnDef) (hp : p ∈ dbPgns) (ht : p.ptype = "Fast")
    (prio src dst seq : Nat) (w : Bool) (P : List Nat) (hs : seq < 8) (hP : P.length ≤ 223)
    (h0 : ∀ x, Fast.lookup st.table (p.pgn, src, dst) = some x → x.seq ≠ seq) :
    let ins := framesInputs p.pgn prio src dst w (Fast.frames seq P)
    let combinedIn : Input := { pgn := p.pgn, prio := prio, src := src, dst := dst, data := P, combined := true, inWindow := w }
    let outs := (run shipped cfg st ins).2
    outs.dropLast.all (· = Out.none) = true ∧
    outs.getLast? = some (step shipped cfg st combinedIn).2 := by
  have hf : shipped.isFast p.pgn = .fast := by
    rw [C07_db_fast_kind p hp, ht]; rfl
  exact fast_probe_aux shipped cfg st p.pgn prio src dst seq w P hf hs hP h0

/-- (3) a single-frame definition is decoded from the frame alone, identically with and without the
`already_combined` flag — so the five formats agree on single-frame messages once they agree on the frame -/
theorem C07_single_combined_irrelevant (cfg : Config) (st : State) (p : PgnDef) (hp : p ∈ dbPgns) (ht : p.ptype = "Single")
    (i : Input) (hi : i.pgn = p.pgn) :
    step shipped cfg st { i with combined := true } = step shipped cfg st { i with combined := false } := by
  have hf : shipped.isFast p.pgn = .single := by
    rw [C07_db_fast_kind p hp, ht]; rfl
  have hc : ∀ b payload iso, callDecode shipped cfg st { i with combined := b } payload iso = callDecode shipped cfg st i payload iso := by
    intros; rfl
  rw [← hi] at hf
  simp only [step, hf, Bool.false_eq_true, if_false, if_true, hc]

-- non-vacuity: the database has fast definitions, e.g. 129029 (GNSS position data); 127510 is one of the 8-byte ones
example : (dbPgns.filter (fun p => p.ptype = "Fast")).length > 100 := by decide +kernel
example : shipped.isFast 129029 = .fast ∧ shipped.isFast 127510 = .fast ∧ shipped.isFast 127250 = .single ∧ shipped.isFast 1 = .unknown := by
  decide +kernel

end N2k.Dec
