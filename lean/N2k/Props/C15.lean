/-
C15 — JSON round-trips to an equivalent, re-encodable message; dump is faithful.
Model: `N2k/Model/Json.lean` (the JSON data model of `to_json`/`from_json`; `orjson`'s text layer is
a trusted parameter exercised by the correspondence) and the dump log of `N2k/Model/Decoder.lean`.
Known finding (recorded, not repaired): NaN/±inf float values are serialised as `null`, so their value
is not preserved (no encodable definition has a FLOAT field, so re-encoding is not affected).
Helpers in `N2k/Lemmas/Json15.lean`.
-/
import N2k.Model.Json
import N2k.Lemmas.Json15
namespace N2k.Json
open N2k N2k.Dec

/-- **Header and addressing survive**: PGN, id, description, source, destination, priority -/
theorem C15_header (pq ft : List String) (o : OutMsg) :
    let j := toJson pq ft o
    j.pgn = o.msg.pgn ∧ j.id = o.msg.id ∧ j.desc = o.msg.desc ∧ j.src = o.src ∧ j.dst = o.dst ∧ j.prio = o.prio ∧
    j.hashKey = o.hashKey := by
  exact ⟨rfl, rfl, rfl, rfl, rfl, rfl, rfl⟩

/-- **Fields survive**: same number and order of fields; per field the same id, and value / raw value
as their JSON views (binary as hex, dates and times as ISO text) -/
theorem C15_fields (pq ft : List String) (o : OutMsg) :
    (fromJson (toJson pq ft o)).map (fun f => (f.fmeta.id, f.value, f.raw)) =
      o.msg.fields.map (fun f => (f.fmeta.id, unview (view f.value), unview (view f.raw))) := by
  simp only [fromJson, toJson, List.map_map]
  rfl

/-- the JSON view loses nothing of an integer, a finite float, (ASCII) text or an absent value -/
def plain : PyVal → Prop
  | .none | .int _ | .flt _ | .str _ => True
  | _ => False

theorem C15_plain_exact (v : PyVal) (h : plain v) : unview (view v) = v := by
  cases v <;> first | rfl | exact h.elim

/-- what the encoder reads of a field, per encoder kind, is preserved by the JSON trip for the values a
decoder produces: numbers/reserved read `value` (plain), lookups read the integer `raw`, dates read an
integer `raw` or (both absent), times/durations read a numeric `raw` or (both absent) -/
def encodableShape (f : Field) : EncKind → Prop
  | .number _ _ _ _ => plain f.value
  | .reserved => plain f.value
  | .lookup _ => (∃ z, f.raw = .int z)
  | .date _ => (∃ z, f.raw = .int z) ∨ (f.raw = .none ∧ f.value = .none)
  | .time _ _ _ => (∃ z, f.raw = .int z) ∨ (∃ q, f.raw = .flt q) ∨ (f.raw = .none ∧ f.value = .none)
  | _ => False

def tripField (f : Field) : Field := { f with value := unview (view f.value), raw := unview (view f.raw) }

/-- **Re-encoding the parsed message gives the same bytes**: step by step the encoder computes the same integer -/
theorem C15_reencode_value (env : Env) (f : Field) (k : EncKind) (h : encodableShape f k) :
    encValue env (tripField f) k = encValue env f k := by
  cases k with
  | number _ _ _ _ => exact encValue_number_congr env _ _ _ _ _ _ (C15_plain_exact _ h)
  | reserved => exact encValue_reserved_congr env _ _ (C15_plain_exact _ h)
  | lookup e =>
    obtain ⟨z, hz⟩ := h
    exact encValue_raw_congr env f (tripField f) _ (by simp [tripField, hz, view, unview]) (by simp [hz]) trivial
  | date b =>
    rcases h with ⟨z, hz⟩ | ⟨hr, hv⟩
    · exact encValue_raw_congr env f (tripField f) _ (by simp [tripField, hz, view, unview]) (by simp [hz]) trivial
    · exact encValue_raw_congr env f (tripField f) _ (by simp [tripField, hr, view, unview])
        (fun _ => by simp [tripField, hv, view, unview]) trivial
  | time r b s =>
    rcases h with ⟨z, hz⟩ | ⟨q, hz⟩ | ⟨hr, hv⟩
    · exact encValue_raw_congr env f (tripField f) _ (by simp [tripField, hz, view, unview]) (by simp [hz]) trivial
    · exact encValue_raw_congr env f (tripField f) _ (by simp [tripField, hz, view, unview]) (by simp [hz]) trivial
    · exact encValue_raw_congr env f (tripField f) _ (by simp [tripField, hr, view, unview])
        (fun _ => by simp [tripField, hv, view, unview]) trivial
  | float => exact h.elim
  | unsupported _ => exact h.elim
  | unrecognised _ => exact h.elim

/-- the dump log: with dumping on, exactly the returned messages that match the dump filter (all if
the filter is empty), in order; with dumping off, nothing -/
def visibleMsgs : List Out → List OutMsg
  | [] => []
  | .msg m :: os => m :: visibleMsgs os
  | _ :: os => visibleMsgs os

theorem C15_dump (G : GenLayer) (cfg : Config) (h : List Input) :
    (run G cfg {} h).1.dump =
      if cfg.dumpOn then (visibleMsgs (run G cfg {} h).2).filter (fun o => dumpMatches cfg o) else [] := by
  have hv : ∀ l, visibleMsgs l = outMsgs l := by
    intro l
    induction l with
    | nil => rfl
    | cons o os ih => cases o <;> simp [visibleMsgs, outMsgs, ih]
  rw [run_dump, hv]
  simp

-- non-vacuity
example : view (.bytes [0, 171]) = .str [48, 48, 97, 98] ∧ view (.date 19000) = .str ("2022-01-08".toList.map Char.toNat) := by decide +kernel

end N2k.Json
