/-
C12 — gateway clients deliver every decodable frame once, in order, for any chunking.
* Framing is a function of the concatenated stream, not of the reads: `Reader.feed13` / `feedLines`
  (EByte / text clients, assumption: StreamReader.readexactly/readline consume the concatenation)
  and `Serial.feed` (the serial client's own buffer algorithm, C20_chunking).
* The receive queue delivers in FIFO order, each message once, whatever the callback does.
Tie: T3 — the packets the real clients hand to their decoder under every segmentation class vs the
framing models; the callback log vs a reference decoder on the stream's packets.
PARTIAL w.r.t. the runtime: real TCP segmentation and asyncio internals are represented only
through the real StreamReader object.  Helpers in `N2k/Lemmas/Client19.lean`.
-/
import N2k.Model.Client
import N2k.Model.Reader
import N2k.Lemmas.Client19
import N2k.Props.C20
namespace N2k.Reader

/-- **EByte: segmentation independence** — packets taken and bytes held back do not depend on how the stream was split into reads -/
theorem C12_ebyte_chunking (reads : List Bytes) : feedAll feed13 [] reads = feed13 [] reads.flatten := by
  rw [feedAll13_eq_run _ _ (run13_short (by simp)), feed13_eq_run]

/-- … and they are exactly the stream's 13-byte packets -/
theorem C12_ebyte_packets (ps : List Bytes) (tail : Bytes) (hp : ∀ p ∈ ps, p.length = 13) (ht : tail.length < 13) :
    feed13 [] (ps.flatten ++ tail) = (tail, ps) := by
  rw [feed13_eq_run, List.nil_append, run13_packets_append hp, run13_short ht]; simp

/-- **Text clients: segmentation independence** -/
theorem C12_lines_chunking (reads : List Bytes) : feedAll feedLines [] reads = feedLines [] reads.flatten := by
  rw [feedAllL_eq_run _ _ (runL_none (by rfl)), feedLines_eq_run]

/-- … and the lines taken are exactly the stream's newline-terminated lines -/
theorem C12_lines_packets (ls : List Bytes) (tail : Bytes)
    (hl : ∀ l ∈ ls, ∃ body, l = body ++ [10] ∧ 10 ∉ body) (ht : 10 ∉ tail) :
    feedLines [] (ls.flatten ++ tail) = (tail, ls) := by
  rw [feedLines_eq_run, List.nil_append, runL_lines_append hl, runL_none (findNl_eq_none.2 ht)]; simp

/-! ### the text clients with the reader's line limit (`readuntil` + the client's overrun handling, `feedLim`) -/

/-- **Refinement**: the buffer-based receive loop (`readuntil` with its limit, the client's `readexactly(e.consumed)` and its
in-overlong-line flag) hands the decoder exactly the lines the byte-at-a-time automaton emits, for every chunk of data from every pair of
related stable states, and ends in related stable states -/
theorem C12_lim_refines (limit : Nat) (s a : LState) (data : Bytes) (hr : Rel s a) (hs : Stable limit s) (ha : Stable limit a) :
    (feedLim limit s data).2 = (autoRun limit a data).2 ∧
    Rel (feedLim limit s data).1 (autoRun limit a data).1 ∧
    Stable limit (feedLim limit s data).1 ∧ Stable limit (autoRun limit a data).1 :=
  feedLim_refines limit s a data hr hs ha

/-- **Segmentation independence with the limit**: however the transport splits the stream into reads, the lines handed to the decoder are
the lines the automaton emits for the whole stream — in particular the same for every segmentation -/
theorem C12_lim_chunking (limit : Nat) (reads : List Bytes) :
    (feedAllLim limit {} reads).2 = (autoRun limit {} reads.flatten).2 :=
  feedAllLim_auto limit reads

theorem C12_lim_chunking' (limit : Nat) (reads reads' : List Bytes) (h : reads.flatten = reads'.flatten) :
    (feedAllLim limit {} reads).2 = (feedAllLim limit {} reads').2 := by
  rw [C12_lim_chunking, C12_lim_chunking, h]

/-- … and these are exactly the stream's newline-terminated lines whose body is not longer than the limit: an overlong line is dropped
whole — also the part of it that arrives later — and costs no other line -/
theorem C12_lim_packets (limit : Nat) (ls : List Bytes) (tail : Bytes)
    (hl : ∀ l ∈ ls, ∃ body, l = body ++ [10] ∧ 10 ∉ body) (ht : 10 ∉ tail) :
    (autoRun limit {} (ls.flatten ++ tail)).2 = ls.filter (fun l => l.length ≤ limit + 1) :=
  autoRun_lines limit ls tail hl ht

/-- **Nothing is left to deliver when the stream ends**: after every feed the loop is in a stable state (`C12_lim_refines`), and in a
stable state a receive call finds no line — it waits, and at the end of the stream `readuntil` hands the client the unterminated rest, which
is not a line and is not decoded.  So the lines of `C12_lim_packets` are all there is, whether or not the stream goes on -/
theorem C12_lim_eof (limit fuel : Nat) (st : LState) (h : Stable limit st) :
    stepLim limit st = none ∧ (drainLim limit fuel st []).2 = [] := by
  have h1 : findNl st.buf = none := findNl_eq_none.2 h.1
  have h2 : ¬ limit < st.buf.length := Nat.not_lt.2 h.2
  have hs : stepLim limit st = none := by simp [stepLim, h1, h2]
  refine ⟨hs, ?_⟩
  cases fuel with
  | zero => simp [drainLim]
  | succ n => simp [drainLim, hs]

-- non-vacuity: limit 3; "abcdefg\nhi\n" in one read and cut inside the overlong line
example : (feedAllLim 3 {} [[97, 98, 99, 100, 101, 102, 103, 10, 104, 105, 10]]).2 = [[104, 105, 10]] := by decide
example : (feedAllLim 3 {} [[97, 98, 99, 100, 101], [102, 103, 10, 104, 105, 10]]).2 = [[104, 105, 10]] := by decide
example : (feedAllLim 3 {} [[97, 98], [99, 10, 104, 105, 10]]).2 = [[97, 98, 99, 10], [104, 105, 10]] := by decide

end N2k.Reader

namespace N2k.Client

/-- **Queue: every queued message is delivered once, in order** — at every point of every accepted
run, what has been delivered followed by what is still queued is exactly what was put, in order -/
theorem C12_queue_fifo (evs : List QEv) (s : QS) (h : qrun {} evs = some s) : s.delivered ++ s.queue = s.puts :=
  qrun_inv evs h rfl

/-- a callback that raises (or is slow) is indistinguishable, for the queue, from one that succeeds -/
theorem C12_callback_failure_irrelevant (s : QS) : qstep s (.cbEnd true) = qstep s (.cbEnd false) :=
  rfl

/-- the serial client's framing is segmentation independent as well (C20) -/
theorem C12_serial_chunking (reads : List Serial.Bytes) : Serial.feedAll [] reads = Serial.feed [] reads.flatten :=
  Serial.C20_chunking [] reads (by decide)

-- non-vacuity
example : Reader.feed13 [] ((List.range 13) ++ (List.range 13).map (· + 20) ++ [1, 2]) = ([1, 2], [List.range 13, (List.range 13).map (· + 20)]) := by decide +kernel
example : (qrun {} [.put 1, .put 2, .cbStart 1, .cbEnd true, .cbStart 2]).map (·.delivered) = some [1, 2] := by decide +kernel

end N2k.Client
