/-
C09 — encoding never silently corrupts a value.
Per-kind theorems on the encoder model (`Codec.encodeNumber`, `Interp.runEnc`), composed with the
table theorems (shipped encoders = `Spec.compileEnc` of the database).
The full property does NOT hold on this code base for non-NUMBER kinds: a LOOKUP/RESERVED/DATE/TIME
raw value that does not fit its field is masked, not rejected, and NUMBER values in the reserved
codes between the database maximum and the top code encode to a payload the decoder rejects — both
recorded in known_findings.json.  What is proved: NUMBER fields (nearest tick, range rejection,
absent), missing fields, field locality, and exactness of the other kinds WHEN the given raw fits
(`_partial`: the explicit `fits` hypotheses are the named gap).
Helpers in `N2k/Lemmas/Enc02.lean`.
-/
import N2k.Model.Spec
import N2k.Model.Interp
import N2k.Lemmas.F64
import N2k.Lemmas.Enc02
import N2k.Props.C02
namespace N2k
open N2k.Spec

/-- representable interval of a NUMBER field (the top code is reserved for "not available") -/
def numLo (len : Nat) (signed : Bool) : Int := if signed then -((2 ^ (len - 1) : Nat) : Int) else 0
def numHi (len : Nat) (signed : Bool) : Int :=
  if signed then ((2 ^ (len - 1) : Nat) : Int) - 2 else if len = 1 then 1 else ((2 ^ len : Nat) : Int) - 2

/-- the scaled quotient the encoder rounds: `(value − offset) / resolution` in binary64 -/
def quotient (x : Num) (res ofs : Lit) : Rat := pyDiv (subLit x ofs) (litNum res)

/-- **A number is encoded as the nearest tick, inside the representable range**: if encoding
succeeds with `n`, then `n` is within half a step of the scaled value and the encoded integer, read
back as a (signed) field value, lies in the representable interval — never wrapped, never clipped.
The interval is that of the EFFECTIVE signedness (`effSigned`, see `C01_effSigned`): a field with an
Offset is stored excess-K, i.e. unsigned whatever the database's Signed flag says. -/
theorem C09_number_nearest_tick (x : Num) (len : Nat) (signed : Bool) (res ofs : Lit) (n : Int)
    (hl : 1 ≤ len) (hres : res.val ≠ 0)
    (h : encodeNumber (numVal x) len signed res ofs = .ok n) :
    ∃ z : Int, |((z : Int) : Rat) - quotient x res ofs| ≤ 1 / 2 ∧
      numLo len (effSigned signed ofs) ≤ z ∧ z ≤ numHi len (effSigned signed ofs) ∧
      contrib n len = contrib z len ∧ 0 ≤ n ∧ n < ((2 ^ len : Nat) : Int) := by
  exact Enc02.encodeNumber_nearest x len signed res ofs n hl hres h

/-- **Out of range is rejected**: a value whose nearest tick is outside the representable interval
(of the effective signedness) is an error (one step beyond either end, far out, negative for unsigned). -/
theorem C09_number_range_rejected (x : Num) (len : Nat) (signed : Bool) (res ofs : Lit) (hres : res.val ≠ 0)
    (h : rhe (quotient x res ofs) < numLo len (effSigned signed ofs) ∨
      numHi len (effSigned signed ofs) < rhe (quotient x res ofs)) :
    encodeNumber (numVal x) len signed res ofs = .error .range := by
  exact Enc02.encodeNumber_range_rejected x len signed res ofs hres h

/-- non-finite numbers are rejected -/
theorem C09_number_nonfinite (len : Nat) (signed : Bool) (res ofs : Lit) :
    encodeNumber .nan len signed res ofs = .error .notFinite ∧
    ∀ b, encodeNumber (.inf b) len signed res ofs = .error .notFinite := by
  exact ⟨rfl, fun _ => rfl⟩

/-- **absent ↦ absent**: no value encodes to the pattern that decodes to no value -/
theorem C09_absent (data off len : Nat) (signed : Bool) (res mn mx ofs : Lit) (n : Int)
    (hl : 2 ≤ len) (hs : signed = true → 4 ≤ len)
    (h : encodeNumber .none len signed res ofs = .ok n)
    (hbits : Straight.decode_int data off len = contrib n len) :
    decodeNumber data off len signed res mn mx ofs = .ok none := by
  exact Enc02.absent_dec data off len signed res mn mx ofs n hl (fun h' => hs (Dec01.effSigned_le _ _ h')) h hbits

/-- **A missing field is an error**: if some step of the encoder names a field the message does not
have, encoding fails (with the missing-field error or an earlier one) — never a payload. -/
theorem C09_missing_field (env : Env) (fn : EncFn) (fs : List Field) (id name : String) (k : EncKind) (mask off : Nat)
    (hstep : EncStep.field id name k mask off ∈ fn.steps) (hmiss : getField fs id = none) :
    ∀ bytes, runEnc env fn fs ≠ .ok bytes := by
  exact Enc02.runEnc_missing env fn fs id name k mask off hstep hmiss

/-- the integer accumulated by the encoder steps -/
def encInt (env : Env) (fn : EncFn) (fs : List Field) : Except EncErr Nat := runSteps env fs 0 fn.steps

/-- **Locality**: changing one field's value changes only that field's bits. Two messages that differ
only in the field `id` and both encode: the accumulated payload integers agree on the bit range
of every OTHER step whose range is disjoint from `id`'s steps. -/
theorem C09_one_field_locality (env : Env) (fn : EncFn) (fs fs' : List Field) (id : String)
    (hsame : ∀ j, j ≠ id → getField fs j = getField fs' j)
    (a b : Nat) (ha : encInt env fn fs = .ok a) (hb : encInt env fn fs' = .ok b)
    (id' name' : String) (k' : EncKind) (len' off' : Nat)
    (hstep : EncStep.field id' name' k' (2 ^ len' - 1) off' ∈ fn.steps) (hne : id' ≠ id)
    (hdisj : ∀ s ∈ fn.steps, ∀ i n kk l o, s = EncStep.field i n kk (2 ^ l - 1) o → (i = id' ∧ l = len' ∧ o = off') ∨ o + l ≤ off' ∨ off' + len' ≤ o)
    (hmasks : ∀ s ∈ fn.steps, ∀ i n kk mk o, s = EncStep.field i n kk mk o → ∃ l, mk = 2 ^ l - 1) :
    Straight.decode_int a off' len' = Straight.decode_int b off' len' := by
  have _ := hstep
  refine Enc02.runSteps_local env fs fs' id hsame off' len' fn.steps 0 0 a b hmasks ?_ rfl ha hb
  intro s hs i n kk l o e
  rcases hdisj s hs i n kk l o e with ⟨h, -, -⟩ | h
  · exact Or.inl (h ▸ hne)
  · exact Or.inr h

/-- **Exact kinds, when the raw fits** (`_partial`: without `hfit` the value is masked, see the
known findings): a LOOKUP / DATE raw or a RESERVED value in `0 ≤ v < 2^len` is stored unchanged -/
theorem C09_raw_exact_partial (v : Nat) (len : Nat) (hfit : v < 2 ^ len) : contrib (v : Int) len = v := by
  exact Enc02.ctr_nat v len hfit

/-- **A DATE given by value** (no raw value): a day count outside `0 .. 2^bits − 2` is rejected, one inside is
stored unchanged (the top code is "not available") — never masked -/
theorem C09_date_value (env : Env) (fm : FieldMeta) (d : Int) (bits : Nat) :
    encValue env ⟨fm, .date d, .none⟩ (.date bits) =
      if d < 0 ∨ d > ((2 ^ bits : Nat) : Int) - 2 then .error .range else .ok d := rfl

-- witness of the gap (documented as a known finding): a RESERVED value that does not fit is wrapped
example : contrib 300 8 = 44 := by decide
-- non-vacuity of C09_number_range_rejected: 655.35 V does not fit 16 bits at 0.01 V (signed)
example : encodeNumber (.flt (rne (65535 / 100))) 16 true ⟨1, -2, true⟩ (Lit.ofInt 0) = .error .range := by decide +kernel

-- the power fields (32 bits, offset -2000000000, database flag Signed) are encoded excess-K over the whole
-- database range: the maximum 2294967292 W is raw 0xFFFFFFFC, 147483648 W is raw 0x80000000; one step beyond
-- either end of the representable interval 0 .. 0xFFFFFFFE is rejected (the reserved codes 0xFFFFFFFD/E above
-- the database maximum are still accepted: the known finding named in the header)
example : encodeNumber (.int 2294967292) 32 true (Lit.ofInt 1) (Lit.ofInt (-2000000000)) = .ok 0xFFFFFFFC := by decide +kernel
example : encodeNumber (.int 147483648) 32 true (Lit.ofInt 1) (Lit.ofInt (-2000000000)) = .ok 0x80000000 := by decide +kernel
example : encodeNumber (.int (-2000000000)) 32 true (Lit.ofInt 1) (Lit.ofInt (-2000000000)) = .ok 0 := by decide +kernel
example : encodeNumber (.int 2294967295) 32 true (Lit.ofInt 1) (Lit.ofInt (-2000000000)) = .error .range := by decide +kernel
example : encodeNumber (.int (-2000000001)) 32 true (Lit.ofInt 1) (Lit.ofInt (-2000000000)) = .error .range := by decide +kernel
example : encodeNumber .none 32 true (Lit.ofInt 1) (Lit.ofInt (-2000000000)) = .ok 0xFFFFFFFF := by decide +kernel

end N2k
