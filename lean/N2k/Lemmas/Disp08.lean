/- helper lemmas for Props/C08.lean -/
import N2k.Model.Spec
import N2k.Model.Interp
namespace N2k
open N2k.Spec

theorem condHolds_eq_spec : N2k.condHolds = N2k.Spec.condHolds := rfl

/-- the guard of a compiled arm is `matchesDef` -/
theorem armGuard_eq (_g : List PgnDef) (p : PgnDef) (data : Nat) :
    ((condsOf p).isEmpty || (!(condsOf p).isEmpty && (condsOf p).all (N2k.condHolds data)))
      = matchesDef p data := by
  unfold matchesDef
  rw [condHolds_eq_spec]
  cases h : condsOf p <;> simp

theorem runDisp_compiled (g : List PgnDef) (name : String) (d : Disp)
    (h : compileDisp g = some (name, d)) (data : Nat) :
    runDisp d data = (select g data).map (suffix g) := by
  unfold compileDisp at h
  cases g with
  | nil => simp at h
  | cons p0 rest =>
    simp only at h
    split at h
    · simp only [Option.some.injEq, Prod.mk.injEq] at h
      obtain ⟨-, rfl⟩ := h
      unfold runDisp select
      simp only [List.find?_map]
      have hfun : ((fun a : Arm => a.always || (!a.conds.isEmpty && a.conds.all (N2k.condHolds data))) ∘
          (fun p => ({ conds := condsOf p, always := (condsOf p).isEmpty, target := suffix (p0 :: rest) p } : Arm)))
          = fun p => matchesDef p data := by
        funext p
        exact armGuard_eq (p0 :: rest) p data
      rw [hfun]
      cases List.find? (fun p => matchesDef p data) (List.filter (fun p => !p.fallback) (p0 :: rest)) <;> simp
    · simp at h

theorem select_nonfallback (g : List PgnDef) (data : Nat) (p : PgnDef)
    (h : select g data = some p) (hf : p.fallback = false) :
    (g.filter (fun q => !q.fallback)).find? (fun q => matchesDef q data) = some p := by
  unfold select at h
  split at h
  · rename_i q hq
    rw [hq, h]
  · have hm := List.mem_of_getLast? h
    simp [List.mem_filter, hf] at hm

theorem all_congr_mem {α} (l : List α) (p q : α → Bool) (h : ∀ a ∈ l, p a = q a) :
    l.all p = l.all q := by
  induction l with
  | nil => rfl
  | cons a l ih =>
    simp only [List.all_cons]
    rw [h a (by simp), ih (fun b hb => h b (by simp [hb]))]

theorem find?_congr_mem {α} (l : List α) (p q : α → Bool) (h : ∀ a ∈ l, p a = q a) :
    l.find? p = l.find? q := by
  induction l with
  | nil => rfl
  | cons a l ih =>
    simp only [List.find?_cons]
    rw [h a (by simp), ih (fun b hb => h b (by simp [hb]))]

theorem select_congr (g : List PgnDef) (data data' : Nat)
    (h : ∀ p ∈ g, ∀ c ∈ condsOf p, N2k.Spec.condHolds data c = N2k.Spec.condHolds data' c) :
    select g data = select g data' := by
  have hm : ∀ p ∈ g, matchesDef p data = matchesDef p data' := by
    intro p hp
    unfold matchesDef
    exact all_congr_mem _ _ _ (h p hp)
  unfold select
  have : (g.filter (fun p => !p.fallback)).find? (fun p => matchesDef p data)
       = (g.filter (fun p => !p.fallback)).find? (fun p => matchesDef p data') := by
    apply find?_congr_mem
    intro p hp
    exact hm p (List.mem_filter.mp hp).1
  rw [this]

theorem select_fallback (g : List PgnDef) (data : Nat)
    (h : ∀ p ∈ g, p.fallback = false → matchesDef p data = false) :
    select g data = (g.filter (·.fallback)).getLast? := by
  unfold select
  have : (g.filter (fun p => !p.fallback)).find? (fun p => matchesDef p data) = none := by
    rw [List.find?_eq_none]
    intro p hp
    rw [List.mem_filter] at hp
    simp [h p hp.1 (by simpa using hp.2)]
  rw [this]

end N2k
