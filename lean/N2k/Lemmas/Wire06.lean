/- helper lemmas for Props/C06.lean and Props/C07.lean -/
import N2k.Model.Wire
namespace N2k.Wire
open N2k.Straight

/-! ### binary formats -/

theorem ofBE_be4 (n : Nat) (h : n < 2^32) : ofBE (be4 n) = n := by
  simp only [ofBE, be4, List.foldl]; omega

theorem ofLE_le4 (n : Nat) (h : n < 2^32) : ofLE (le4 n) = n := by
  simp only [ofLE, le4]; omega

theorem take_len_append (a b : List Nat) : (a ++ b).take a.length = a := by simp

theorem encodeEbyte_length (id : Nat) (data : Bytes) (h : data.length ≤ 8) :
    (encodeEbyte id data).length = 13 := by
  simp [encodeEbyte, be4]; omega

theorem decodeTcp_encodeEbyte (id : Nat) (data : Bytes) (hid : id < 2^32) (h : data.length ≤ 8) :
    decodeTcp (encodeEbyte id data) = .ok (frameOfId id data) := by
  have h1 : (data.length % 16 + 128) % 16 = data.length := by omega
  have h2 := ofBE_be4 id hid
  simp only [be4] at h2
  simp [decodeTcp, encodeEbyte, be4, h1, h2]

theorem encodeUsb_length (id : Nat) (data : Bytes) (h : data.length ≤ 8) :
    (encodeUsb id data).length = 20 := by
  simp [encodeUsb, le4]; omega


theorem checksum_append_of_len (body : Bytes) (x : Bytes) (h : body.length = 19) :
    checksum (body ++ x) = checksum body := by
  simp only [checksum]
  rw [List.drop_append_of_le_length (by omega), List.take_append_of_le_length (by simp; omega)]

def usbBody (id : Nat) (data : Bytes) : Bytes :=
  [0xaa, 0x55, 1, 2, 1] ++ le4 id ++ [data.length] ++ data ++ List.replicate (8 - data.length) 0 ++ [0]

theorem usbBody_length (id : Nat) (data : Bytes) (h : data.length ≤ 8) : (usbBody id data).length = 19 := by
  simp [usbBody, le4]; omega

theorem encodeUsb_eq (id : Nat) (data : Bytes) : encodeUsb id data = usbBody id data ++ [checksum (usbBody id data)] := rfl

theorem encodeUsb_checksum (id : Nat) (data : Bytes) (h : data.length ≤ 8) :
    (encodeUsb id data).getD 19 0 = checksum (encodeUsb id data) := by
  rw [encodeUsb_eq, checksum_append_of_len _ _ (usbBody_length id data h)]
  have := usbBody_length id data h
  simp [List.getD, this]

theorem decodeUsb_ok (pkt rest : Bytes) (hp : pkt = 0xaa :: 0x55 :: rest) (hl : pkt.length = 20)
    (hc : checksum pkt = pkt.getD 19 0) :
    decodeUsb pkt = .ok (frameOfId (ofLE ((pkt.drop 5).take 4)) ((pkt.drop 10).take (pkt.getD 9 0))) := by
  rw [hp] at hl hc ⊢
  simp only [decodeUsb]
  rw [if_neg (by simp), if_neg (by simp [hl]), if_neg (by simp [hc])]

theorem encodeUsb_shape (id : Nat) (data : Bytes) :
    encodeUsb id data = 0xaa :: 0x55 :: 1 :: 2 :: 1 :: (le4 id ++ data.length :: (data ++ (List.replicate (8 - data.length) 0 ++ [0, checksum (usbBody id data)]))) := by
  simp [encodeUsb_eq, usbBody]

theorem decodeUsb_encodeUsb (id : Nat) (data : Bytes) (hid : id < 2^32) (h : data.length ≤ 8) :
    decodeUsb (encodeUsb id data) = .ok (frameOfId id data) := by
  have hl : (encodeUsb id data).length = 20 := by simp [encodeUsb, le4]; omega
  rw [decodeUsb_ok _ _ (encodeUsb_shape id data) hl (encodeUsb_checksum id data h).symm]
  have h2 := ofLE_le4 id hid
  simp only [le4] at h2
  simp [encodeUsb_shape, le4, h2]

theorem usb_single_corruption (pkt : Bytes) (hl : pkt.length = 20)
    (h0 : pkt.getD 0 0 = 0xaa) (h1 : pkt.getD 1 0 = 0x55) (hb : ∀ b ∈ pkt, b < 256)
    (hc : pkt.getD 19 0 = checksum pkt)
    (i : Nat) (hi : 2 ≤ i ∧ i ≤ 19) (v : Nat) (hv : v < 256) (hne : v ≠ pkt.getD i 0) :
    decodeUsb (pkt.set i v) = .none := by
  match pkt, hl with
  | [a0, a1, a2, a3, a4, a5, a6, a7, a8, a9, a10, a11, a12, a13, a14, a15, a16, a17, a18, a19], _ =>
    simp only [List.getD_cons_zero, List.getD_cons_succ] at h0 h1
    subst h0 h1
    simp only [checksum, Nat.and_two_pow_sub_one_eq_mod _ 8, List.drop_succ_cons, List.drop_zero, List.take_succ_cons, List.take_zero, List.sum_cons, List.sum_nil, List.getD_cons_zero, List.getD_cons_succ] at hc
    simp only [List.mem_cons, List.not_mem_nil, or_false, forall_eq_or_imp, forall_eq] at hb
    obtain ⟨hi1, hi2⟩ := hi
    have : i = 2 ∨ i = 3 ∨ i = 4 ∨ i = 5 ∨ i = 6 ∨ i = 7 ∨ i = 8 ∨ i = 9 ∨ i = 10 ∨ i = 11 ∨ i = 12 ∨ i = 13 ∨ i = 14 ∨ i = 15 ∨ i = 16 ∨ i = 17 ∨ i = 18 ∨ i = 19 := by omega
    rcases this with h|h|h|h|h|h|h|h|h|h|h|h|h|h|h|h|h|h <;> subst h <;>
      simp only [List.set_cons_succ, List.set_cons_zero, decodeUsb, checksum, Nat.and_two_pow_sub_one_eq_mod _ 8, List.drop_succ_cons, List.drop_zero, List.take_succ_cons, List.take_zero, List.sum_cons, List.sum_nil, List.getD_cons_zero, List.getD_cons_succ, List.length_cons, List.length_nil] at hne ⊢ <;>
      rw [if_neg (by simp), if_neg (by simp), if_pos (by omega)]

/-! ### text formats -/

/-! ### tokens joined by a separator -/
def joinSep (sep : Char) : List (List Char) → List Char
  | [] => []
  | [t] => t
  | t :: t' :: ts => t ++ sep :: joinSep sep (t' :: ts)

theorem intercalate_eq_joinSep (sep : Char) (l : List (List Char)) :
    List.intercalate [sep] l = joinSep sep l := by
  induction l with
  | nil => rfl
  | cons t ts ih =>
    cases ts with
    | nil => simp [joinSep, List.intercalate]
    | cons t' ts => rw [List.intercalate_cons_cons, ih]; simp [joinSep]

theorem map_joinSep (f : Char → Char) (sep : Char) (l : List (List Char)) :
    (joinSep sep l).map f = joinSep (f sep) (l.map (List.map f)) := by
  induction l with
  | nil => rfl
  | cons t ts ih =>
    cases ts with
    | nil => simp [joinSep]
    | cons t' ts => simp only [joinSep, List.map_append, List.map_cons, ih]

/-! ### splitSpaces -/
theorem ss_go_tok (t : List Char) (h : ' ' ∉ t) (cur : List Char) (acc : List (List Char)) (rest : List Char) :
    splitSpaces.go cur acc (t ++ rest) = splitSpaces.go (t.reverse ++ cur) acc rest := by
  induction t generalizing cur with
  | nil => simp
  | cons c t ih =>
    simp only [List.mem_cons, not_or] at h
    simp only [List.cons_append, splitSpaces.go]
    rw [if_neg (fun e => h.1 e.symm), ih h.2]; simp

theorem ss_go_sep (t : List Char) (h : ' ' ∉ t) (hne : t ≠ []) (acc : List (List Char)) (rest : List Char) :
    splitSpaces.go [] acc (t ++ ' ' :: rest) = splitSpaces.go [] (t :: acc) rest := by
  rw [ss_go_tok t h]
  simp [splitSpaces.go, hne]

theorem ss_go_end (t : List Char) (h : ' ' ∉ t) (hne : t ≠ []) (acc : List (List Char)) :
    splitSpaces.go [] acc t = acc.reverse ++ [t] := by
  have := ss_go_tok t h [] acc []
  rw [List.append_nil] at this
  rw [this]
  simp [splitSpaces.go, hne]

theorem ss_go_join (toks : List (List Char)) (h : ∀ t ∈ toks, ' ' ∉ t ∧ t ≠ []) (hn : toks ≠ [])
    (acc : List (List Char)) : splitSpaces.go [] acc (joinSep ' ' toks) = acc.reverse ++ toks := by
  induction toks generalizing acc with
  | nil => exact absurd rfl hn
  | cons t ts ih =>
    cases ts with
    | nil => simp only [joinSep]; exact ss_go_end t (h t (by simp)).1 (h t (by simp)).2 acc
    | cons t' ts =>
      simp only [joinSep]
      rw [ss_go_sep t (h t (by simp)).1 (h t (by simp)).2, ih (fun x hx => h x (by simp [hx])) (by simp)]
      simp

/-! ### splitOn -/
theorem so_go_tok (sep : Char) (t : List Char) (h : sep ∉ t) (cur : List Char) (acc : List (List Char)) (rest : List Char) :
    splitOn.go sep cur acc (t ++ rest) = splitOn.go sep (t.reverse ++ cur) acc rest := by
  induction t generalizing cur with
  | nil => simp
  | cons c t ih =>
    simp only [List.mem_cons, not_or] at h
    simp only [List.cons_append, splitOn.go]
    rw [if_neg (fun e => h.1 e.symm), ih h.2]; simp

theorem so_go_sep (sep : Char) (t : List Char) (h : sep ∉ t) (acc : List (List Char)) (rest : List Char) :
    splitOn.go sep [] acc (t ++ sep :: rest) = splitOn.go sep [] (t :: acc) rest := by
  rw [so_go_tok sep t h]
  simp [splitOn.go]

theorem so_go_end (sep : Char) (t : List Char) (h : sep ∉ t) (acc : List (List Char)) :
    splitOn.go sep [] acc t = acc.reverse ++ [t] := by
  have := so_go_tok sep t h [] acc []
  rw [List.append_nil] at this
  rw [this]
  simp [splitOn.go]

theorem so_go_join (sep : Char) (toks : List (List Char)) (h : ∀ t ∈ toks, sep ∉ t) (hn : toks ≠ [])
    (acc : List (List Char)) : splitOn.go sep [] acc (joinSep sep toks) = acc.reverse ++ toks := by
  induction toks generalizing acc with
  | nil => exact absurd rfl hn
  | cons t ts ih =>
    cases ts with
    | nil => simp only [joinSep]; exact so_go_end sep t (h t (by simp)) acc
    | cons t' ts =>
      simp only [joinSep]
      rw [so_go_sep sep t (h t (by simp)), ih (fun x hx => h x (by simp [hx])) (by simp)]
      simp


end N2k.Wire
