/- helper lemmas for Props/C06.lean and Props/C07.lean -/
import N2k.Model.Wire
namespace N2k.Wire
open N2k.Straight

/-! ### binary formats -/

theorem ofBE_be4 (n : Nat) (h : n < 2^32) : ofBE (be4 n) = n := by
  simp only [ofBE, be4, List.foldl]; omega

theorem ofLE_le4 (n : Nat) (h : n < 2^32) : ofLE (le4 n) = n := by
  simp only [ofLE, le4]; omega

theorem encodeEbyte_length (id : Nat) (data : Bytes) (h : data.length ≤ 8) :
    (encodeEbyte id data).length = 13 := by
  simp [encodeEbyte, be4]; omega

theorem decodeTcp_encodeEbyte (id : Nat) (data : Bytes) (hid : id < 2^32) (h : data.length ≤ 8) :
    decodeTcp (encodeEbyte id data) = .ok (frameOfId id data) := by
  have h1 : (data.length % 16 + 128) % 16 = data.length := by omega
  have h2 := ofBE_be4 id hid
  simp only [be4] at h2
  simp [decodeTcp, encodeEbyte, be4, h1, h2]

theorem encodeUsb_length (id : Nat) (data : Bytes) (h : data.length ≤ 8) :
    (encodeUsb id data).length = 20 := by
  simp [encodeUsb, le4]; omega


theorem checksum_append_of_len (body : Bytes) (x : Bytes) (h : body.length = 19) :
    checksum (body ++ x) = checksum body := by
  simp only [checksum]
  rw [List.drop_append_of_le_length (by omega), List.take_append_of_le_length (by simp; omega)]

def usbBody (id : Nat) (data : Bytes) : Bytes :=
  [0xaa, 0x55, 1, 2, 1] ++ le4 id ++ [data.length] ++ data ++ List.replicate (8 - data.length) 0 ++ [0]

theorem usbBody_length (id : Nat) (data : Bytes) (h : data.length ≤ 8) : (usbBody id data).length = 19 := by
  simp [usbBody, le4]; omega

theorem encodeUsb_eq (id : Nat) (data : Bytes) : encodeUsb id data = usbBody id data ++ [checksum (usbBody id data)] := rfl

theorem encodeUsb_checksum (id : Nat) (data : Bytes) (h : data.length ≤ 8) :
    (encodeUsb id data).getD 19 0 = checksum (encodeUsb id data) := by
  rw [encodeUsb_eq, checksum_append_of_len _ _ (usbBody_length id data h)]
  have := usbBody_length id data h
  simp [List.getD, this]

theorem decodeUsb_ok (pkt rest : Bytes) (hp : pkt = 0xaa :: 0x55 :: rest) (hl : pkt.length = 20)
    (hc : checksum pkt = pkt.getD 19 0) :
    decodeUsb pkt = .ok (frameOfId (ofLE ((pkt.drop 5).take 4)) ((pkt.drop 10).take (pkt.getD 9 0))) := by
  rw [hp] at hl hc ⊢
  simp only [decodeUsb]
  rw [if_neg (by simp), if_neg (by simp [hl]), if_neg (by simp [hc])]

theorem encodeUsb_shape (id : Nat) (data : Bytes) :
    encodeUsb id data = 0xaa :: 0x55 :: 1 :: 2 :: 1 :: (le4 id ++ data.length :: (data ++ (List.replicate (8 - data.length) 0 ++ [0, checksum (usbBody id data)]))) := by
  simp [encodeUsb_eq, usbBody]

theorem decodeUsb_encodeUsb (id : Nat) (data : Bytes) (hid : id < 2^32) (h : data.length ≤ 8) :
    decodeUsb (encodeUsb id data) = .ok (frameOfId id data) := by
  have hl : (encodeUsb id data).length = 20 := by simp [encodeUsb, le4]; omega
  rw [decodeUsb_ok _ _ (encodeUsb_shape id data) hl (encodeUsb_checksum id data h).symm]
  have h2 := ofLE_le4 id hid
  simp only [le4] at h2
  simp [encodeUsb_shape, le4, h2]

theorem usb_single_corruption (pkt : Bytes) (hl : pkt.length = 20)
    (h0 : pkt.getD 0 0 = 0xaa) (h1 : pkt.getD 1 0 = 0x55) (hb : ∀ b ∈ pkt, b < 256)
    (hc : pkt.getD 19 0 = checksum pkt)
    (i : Nat) (hi : 2 ≤ i ∧ i ≤ 19) (v : Nat) (hv : v < 256) (hne : v ≠ pkt.getD i 0) :
    decodeUsb (pkt.set i v) = .none := by
  match pkt, hl with
  | [a0, a1, a2, a3, a4, a5, a6, a7, a8, a9, a10, a11, a12, a13, a14, a15, a16, a17, a18, a19], _ =>
    simp only [List.getD_cons_zero, List.getD_cons_succ] at h0 h1
    subst h0 h1
    simp only [checksum, Nat.and_two_pow_sub_one_eq_mod _ 8, List.drop_succ_cons, List.drop_zero, List.take_succ_cons, List.take_zero, List.sum_cons, List.sum_nil, List.getD_cons_zero, List.getD_cons_succ] at hc
    simp only [List.mem_cons, List.not_mem_nil, or_false, forall_eq_or_imp, forall_eq] at hb
    obtain ⟨hi1, hi2⟩ := hi
    have : i = 2 ∨ i = 3 ∨ i = 4 ∨ i = 5 ∨ i = 6 ∨ i = 7 ∨ i = 8 ∨ i = 9 ∨ i = 10 ∨ i = 11 ∨ i = 12 ∨ i = 13 ∨ i = 14 ∨ i = 15 ∨ i = 16 ∨ i = 17 ∨ i = 18 ∨ i = 19 := by omega
    rcases this with h|h|h|h|h|h|h|h|h|h|h|h|h|h|h|h|h|h <;> subst h <;>
      simp only [List.set_cons_succ, List.set_cons_zero, decodeUsb, checksum, Nat.and_two_pow_sub_one_eq_mod _ 8, List.drop_succ_cons, List.drop_zero, List.take_succ_cons, List.take_zero, List.sum_cons, List.sum_nil, List.getD_cons_zero, List.getD_cons_succ, List.length_cons, List.length_nil] at hne ⊢ <;>
      rw [if_neg (by simp), if_neg (by simp), if_pos (by omega)]

/-! ### text formats -/

/-! ### tokens joined by a separator -/
def joinSep (sep : Char) : List (List Char) → List Char
  | [] => []
  | [t] => t
  | t :: t' :: ts => t ++ sep :: joinSep sep (t' :: ts)

theorem intercalate_eq_joinSep (sep : Char) (l : List (List Char)) :
    List.intercalate [sep] l = joinSep sep l := by
  induction l with
  | nil => rfl
  | cons t ts ih =>
    cases ts with
    | nil => simp [joinSep, List.intercalate]
    | cons t' ts => rw [List.intercalate_cons_cons, ih]; simp [joinSep]

theorem map_joinSep (f : Char → Char) (sep : Char) (l : List (List Char)) :
    (joinSep sep l).map f = joinSep (f sep) (l.map (List.map f)) := by
  induction l with
  | nil => rfl
  | cons t ts ih =>
    cases ts with
    | nil => simp [joinSep]
    | cons t' ts => simp only [joinSep, List.map_append, List.map_cons, ih]

/-! ### splitSpaces -/
theorem ss_go_tok (t : List Char) (h : ' ' ∉ t) (cur : List Char) (acc : List (List Char)) (rest : List Char) :
    splitSpaces.go cur acc (t ++ rest) = splitSpaces.go (t.reverse ++ cur) acc rest := by
  induction t generalizing cur with
  | nil => simp
  | cons c t ih =>
    simp only [List.mem_cons, not_or] at h
    simp only [List.cons_append, splitSpaces.go]
    rw [if_neg (fun e => h.1 e.symm), ih h.2]; simp

theorem ss_go_sep (t : List Char) (h : ' ' ∉ t) (hne : t ≠ []) (acc : List (List Char)) (rest : List Char) :
    splitSpaces.go [] acc (t ++ ' ' :: rest) = splitSpaces.go [] (t :: acc) rest := by
  rw [ss_go_tok t h]
  simp [splitSpaces.go, hne]

theorem ss_go_end (t : List Char) (h : ' ' ∉ t) (hne : t ≠ []) (acc : List (List Char)) :
    splitSpaces.go [] acc t = acc.reverse ++ [t] := by
  have := ss_go_tok t h [] acc []
  rw [List.append_nil] at this
  rw [this]
  simp [splitSpaces.go, hne]

theorem ss_go_join (toks : List (List Char)) (h : ∀ t ∈ toks, ' ' ∉ t ∧ t ≠ []) (hn : toks ≠ [])
    (acc : List (List Char)) : splitSpaces.go [] acc (joinSep ' ' toks) = acc.reverse ++ toks := by
  induction toks generalizing acc with
  | nil => exact absurd rfl hn
  | cons t ts ih =>
    cases ts with
    | nil => simp only [joinSep]; exact ss_go_end t (h t (by simp)).1 (h t (by simp)).2 acc
    | cons t' ts =>
      simp only [joinSep]
      rw [ss_go_sep t (h t (by simp)).1 (h t (by simp)).2, ih (fun x hx => h x (by simp [hx])) (by simp)]
      simp

/-! ### splitOn -/
theorem so_go_tok (sep : Char) (t : List Char) (h : sep ∉ t) (cur : List Char) (acc : List (List Char)) (rest : List Char) :
    splitOn.go sep cur acc (t ++ rest) = splitOn.go sep (t.reverse ++ cur) acc rest := by
  induction t generalizing cur with
  | nil => simp
  | cons c t ih =>
    simp only [List.mem_cons, not_or] at h
    simp only [List.cons_append, splitOn.go]
    rw [if_neg (fun e => h.1 e.symm), ih h.2]; simp

theorem so_go_sep (sep : Char) (t : List Char) (h : sep ∉ t) (acc : List (List Char)) (rest : List Char) :
    splitOn.go sep [] acc (t ++ sep :: rest) = splitOn.go sep [] (t :: acc) rest := by
  rw [so_go_tok sep t h]
  simp [splitOn.go]

theorem so_go_end (sep : Char) (t : List Char) (h : sep ∉ t) (acc : List (List Char)) :
    splitOn.go sep [] acc t = acc.reverse ++ [t] := by
  have := so_go_tok sep t h [] acc []
  rw [List.append_nil] at this
  rw [this]
  simp [splitOn.go]

theorem so_go_join (sep : Char) (toks : List (List Char)) (h : ∀ t ∈ toks, sep ∉ t) (hn : toks ≠ [])
    (acc : List (List Char)) : splitOn.go sep [] acc (joinSep sep toks) = acc.reverse ++ toks := by
  induction toks generalizing acc with
  | nil => exact absurd rfl hn
  | cons t ts ih =>
    cases ts with
    | nil => simp only [joinSep]; exact so_go_end sep t (h t (by simp)) acc
    | cons t' ts =>
      simp only [joinSep]
      rw [so_go_sep sep t (h t (by simp)), ih (fun x hx => h x (by simp [hx])) (by simp)]
      simp



/-! ### hex digits -/
/-- an upper-case hex digit character -/
def HexCh (c : Char) : Prop := ∃ k, k < 16 ∧ c = hexDigit k

theorem hexCh_hexDigit (k : Nat) : HexCh (hexDigit k) := by
  by_cases h : k < 16
  · exact ⟨k, h, rfl⟩
  · refine ⟨0, by omega, ?_⟩
    have h16 : ("0123456789ABCDEF".toList).length ≤ k := by
      have : ("0123456789ABCDEF".toList).length = 16 := by decide
      omega
    simp only [hexDigit, List.getD, List.getElem?_eq_none h16, Option.getD_none]
    decide

theorem hexCh_zero : HexCh '0' := ⟨0, by omega, by decide⟩

theorem hexDigit_facts : ∀ k, k < 16 → hexVal (hexDigit k) = some k ∧ hexDigit k ≠ ' ' ∧ hexDigit k ≠ ','
    ∧ hexDigit k ≠ '\r' ∧ hexDigit k ≠ '\n' := by decide

theorem hexVal_hexDigit (k : Nat) (h : k < 16) : hexVal (hexDigit k) = some k := (hexDigit_facts k h).1

theorem HexCh.ne_space {c : Char} (h : HexCh c) : c ≠ ' ' := by
  obtain ⟨k, hk, rfl⟩ := h; exact (hexDigit_facts k hk).2.1
theorem HexCh.ne_comma {c : Char} (h : HexCh c) : c ≠ ',' := by
  obtain ⟨k, hk, rfl⟩ := h; exact (hexDigit_facts k hk).2.2.1
theorem HexCh.ne_cr {c : Char} (h : HexCh c) : c ≠ '\r' := by
  obtain ⟨k, hk, rfl⟩ := h; exact (hexDigit_facts k hk).2.2.2.1
theorem HexCh.ne_lf {c : Char} (h : HexCh c) : c ≠ '\n' := by
  obtain ⟨k, hk, rfl⟩ := h; exact (hexDigit_facts k hk).2.2.2.2

/-- all characters of the list are upper-case hex digits -/
def AllHex (s : List Char) : Prop := ∀ c ∈ s, HexCh c

theorem AllHex.not_mem {s : List Char} (h : AllHex s) {c : Char} (hc : ¬ HexCh c) : c ∉ s :=
  fun hm => hc (h c hm)

theorem not_hexCh_space : ¬ HexCh ' ' := fun h => h.ne_space rfl
theorem not_hexCh_comma : ¬ HexCh ',' := fun h => h.ne_comma rfl
theorem not_hexCh_cr : ¬ HexCh '\r' := fun h => h.ne_cr rfl
theorem not_hexCh_lf : ¬ HexCh '\n' := fun h => h.ne_lf rfl

theorem allHex_toHexAux (fuel n : Nat) (acc : List Char) (h : AllHex acc) : AllHex (toHexAux fuel n acc) := by
  induction fuel generalizing n acc with
  | zero => exact h
  | succ f ih =>
    unfold toHexAux
    split
    · intro c hc
      rcases List.mem_cons.1 hc with rfl | hc
      · exact hexCh_hexDigit n
      · exact h c hc
    · apply ih
      intro c hc
      rcases List.mem_cons.1 hc with rfl | hc
      · exact hexCh_hexDigit _
      · exact h c hc

theorem allHex_toHex (k n : Nat) : AllHex (toHex k n) := by
  intro c hc
  simp only [toHex, List.mem_append, List.mem_replicate] at hc
  rcases hc with ⟨_, rfl⟩ | hc
  · exact hexCh_zero
  · exact allHex_toHexAux 64 n [] (fun _ h => absurd h (by simp)) c hc

theorem allHex_byteHex (b : Nat) : AllHex (byteHex b) := by
  intro c hc
  simp only [byteHex, List.mem_cons, List.not_mem_nil, or_false] at hc
  rcases hc with rfl | rfl <;> exact hexCh_hexDigit _

theorem toHexAux_ne_nil (fuel n : Nat) (acc : List Char) (h : fuel ≠ 0 ∨ acc ≠ []) : toHexAux fuel n acc ≠ [] := by
  induction fuel generalizing n acc with
  | zero => simpa [toHexAux] using h
  | succ f ih =>
    unfold toHexAux
    split
    · simp
    · exact ih _ _ (Or.inr (by simp))

theorem toHex_ne_nil (k n : Nat) : toHex k n ≠ [] := by
  simp only [toHex, ne_eq, List.append_eq_nil_iff, not_and]
  intro _
  exact toHexAux_ne_nil 64 n [] (Or.inl (by decide))

/-! ### parseHex -/
/-- the fold step of `parseHex` -/
def hexStep (acc : Option Nat) (c : Char) : Option Nat :=
  match acc, hexVal c with
  | some a, some v => some (a * 16 + v)
  | _, _ => none

theorem parseHex_eq (s : List Char) (h : s ≠ []) : parseHex s = s.foldl hexStep (some 0) := by
  unfold parseHex
  rw [if_neg (by simpa using h)]
  rfl

theorem foldl_hexStep_digit (a k : Nat) (hk : k < 16) (rest : List Char) :
    (hexDigit k :: rest).foldl hexStep (some a) = rest.foldl hexStep (some (a * 16 + k)) := by
  simp only [List.foldl_cons, hexStep, hexVal_hexDigit k hk]

theorem foldl_hexStep_toHexAux (fuel n : Nat) (acc : List Char) (h : n < 16 ^ fuel) :
    (toHexAux fuel n acc).foldl hexStep (some 0) = acc.foldl hexStep (some n) := by
  induction fuel generalizing n acc with
  | zero =>
    have : n = 0 := by simpa using h
    subst this; rfl
  | succ f ih =>
    unfold toHexAux
    split
    · next h16 => rw [foldl_hexStep_digit 0 n h16]; simp
    · rw [ih (n / 16) _ (by rw [Nat.pow_succ] at h; omega), foldl_hexStep_digit _ _ (Nat.mod_lt _ (by decide))]
      congr 2; omega

theorem foldl_hexStep_zeros (m : Nat) (s : List Char) :
    (List.replicate m '0' ++ s).foldl hexStep (some 0) = s.foldl hexStep (some 0) := by
  induction m with
  | zero => simp
  | succ m ih =>
    rw [List.replicate_succ, List.cons_append, List.foldl_cons]
    have : hexStep (some 0) '0' = some 0 := by decide
    rw [this, ih]

theorem parseHex_toHex (k n : Nat) (h : n < 16 ^ 64) : parseHex (toHex k n) = some n := by
  rw [parseHex_eq _ (toHex_ne_nil k n)]
  simp only [toHex]
  rw [foldl_hexStep_zeros, foldl_hexStep_toHexAux 64 n [] h]
  rfl

theorem parseHex_byteHex : ∀ b, b < 256 → parseHex (byteHex b) = some b := by decide +kernel

theorem byteHex_ne_nil (b : Nat) : byteHex b ≠ [] := by simp [byteHex]

theorem allSome_byteHex (data : Bytes) (hb : ∀ b ∈ data, b < 256) :
    allSome ((data.map byteHex).map parseHex) = some data := by
  induction data with
  | nil => rfl
  | cons b bs ih =>
    simp only [List.map_cons, parseHex_byteHex b (hb b (by simp)), allSome,
      ih (fun x hx => hb x (by simp [hx]))]
    rfl

theorem pairs_byteHex (data : Bytes) : pairs (data.map byteHex).flatten = some (data.map byteHex) := by
  induction data with
  | nil => rfl
  | cons b bs ih => simp [byteHex, pairs, ih]



theorem dropLast2 {α} (x : List α) (a b : α) : (x ++ [a, b]).dropLast.dropLast = x := by
  have : x ++ [a, b] = (x ++ [a]) ++ [b] := by simp
  rw [this, List.dropLast_concat, List.dropLast_concat]

/-- space-free, non-empty tokens -/
def Tok (t : List Char) : Prop := ' ' ∉ t ∧ t ≠ []

theorem splitSpaces_line (toks : List (List Char)) (h : ∀ t ∈ toks, Tok t) (hn : toks ≠ []) :
    splitSpaces (joinSep ' ' toks) = toks := by
  unfold splitSpaces
  rw [ss_go_join toks h hn]; rfl

theorem allHex_tok {t : List Char} (h : AllHex t) (hn : t ≠ []) : Tok t :=
  ⟨h.not_mem not_hexCh_space, hn⟩

/-- what `decodeYd` does on a line of well-formed tokens -/
theorem decodeYd_tokens (ts dir idTok : List Char) (toks : List (List Char)) (id : Nat) (data : Bytes)
    (hts : validHms ts = true) (hsp : ' ' ∉ ts) (hne : ts ≠ []) (hdir : dir = ['R'] ∨ dir = ['T'])
    (hid : Tok idTok) (hidp : parseHex idTok = some id)
    (htoks : ∀ t ∈ toks, Tok t) (hn : toks ≠ [])
    (hp : allSome (toks.map parseHex) = some data) (hb : ∀ b ∈ data, b < 256) :
    decodeYd (ts ++ [' '] ++ dir ++ [' '] ++ (idTok ++ [' '] ++ joinSep ' ' toks)) = .ok (frameOfId id data) := by
  have hdirT : Tok dir := by rcases hdir with rfl | rfl <;> exact ⟨by decide, by decide⟩
  have e : ts ++ [' '] ++ dir ++ [' '] ++ (idTok ++ [' '] ++ joinSep ' ' toks)
      = joinSep ' ' (ts :: dir :: idTok :: toks) := by
    cases toks with
    | nil => exact absurd rfl hn
    | cons t toks => simp [joinSep]
  have hall : ∀ t ∈ ts :: dir :: idTok :: toks, Tok t := by
    intro t ht
    simp only [List.mem_cons] at ht
    rcases ht with rfl | rfl | rfl | ht
    · exact ⟨hsp, hne⟩
    · exact hdirT
    · exact hid
    · exact htoks t ht
  rw [e]
  unfold decodeYd
  rw [splitSpaces_line _ hall (by simp)]
  cases toks with
  | nil => exact absurd rfl hn
  | cons b0 bs =>
    have hd : ¬ (dir ≠ ['R'] ∧ dir ≠ ['T']) := by
      rcases hdir with rfl | rfl <;> simp
    have hall : (data.all (· < 256)) = true := by
      simp only [List.all_eq_true, decide_eq_true_eq]; exact hb
    simp only [hd, hts, hidp, hp, hall, if_true, if_false, not_true_eq_false]

theorem encodeYd_body (id : Nat) (data : Bytes) :
    (encodeYd id data).dropLast.dropLast = toHex 8 id ++ [' '] ++ joinSep ' ' (data.map byteHex) := by
  unfold encodeYd
  rw [dropLast2, intercalate_eq_joinSep]

theorem allHex_joinSep_space (toks : List (List Char)) (h : ∀ t ∈ toks, AllHex t) :
    ∀ c ∈ joinSep ' ' toks, c = ' ' ∨ HexCh c := by
  induction toks with
  | nil => intro c hc; simp [joinSep] at hc
  | cons t ts ih =>
    cases ts with
    | nil => intro c hc; exact Or.inr (h t (by simp) c (by simpa [joinSep] using hc))
    | cons t' ts =>
      intro c hc
      simp only [joinSep, List.mem_append, List.mem_cons] at hc
      rcases hc with hc | rfl | hc
      · exact Or.inr (h t (by simp) c hc)
      · exact Or.inl rfl
      · exact ih (fun x hx => h x (by simp [hx])) c hc

theorem yd_line (id : Nat) (data : Bytes) :
    ∃ body, encodeYd id data = body ++ ['\r', '\n'] ∧ '\r' ∉ body ∧ '\n' ∉ body := by
  refine ⟨toHex 8 id ++ [' '] ++ joinSep ' ' (data.map byteHex), ?_, ?_, ?_⟩
  · unfold encodeYd; rw [intercalate_eq_joinSep]
  all_goals
    intro hm
    simp only [List.mem_append, List.mem_cons, List.not_mem_nil, or_false] at hm
    rcases hm with (hm | hm) | hm
    · first
      | exact not_hexCh_cr (allHex_toHex 8 id _ hm)
      | exact not_hexCh_lf (allHex_toHex 8 id _ hm)
    · exact absurd hm (by decide)
    · rcases allHex_joinSep_space (data.map byteHex) (by
        intro t ht; simp only [List.mem_map] at ht; obtain ⟨b, _, rfl⟩ := ht; exact allHex_byteHex b) _ hm with h | h
      · exact absurd h (by decide)
      · first
        | exact not_hexCh_cr h
        | exact not_hexCh_lf h

theorem tok_byteHex_all (data : Bytes) : ∀ t ∈ data.map byteHex, Tok t := by
  intro t ht
  simp only [List.mem_map] at ht
  obtain ⟨b, _, rfl⟩ := ht
  exact allHex_tok (allHex_byteHex b) (byteHex_ne_nil b)

theorem yd_rt (id : Nat) (data : Bytes) (hid : id < 2^32) (hd : 1 ≤ data.length)
    (hb : ∀ b ∈ data, b < 256) (ts dir : List Char) (hts : validHms ts = true) (hsp : ' ' ∉ ts)
    (hne : ts ≠ []) (hdir : dir = ['R'] ∨ dir = ['T']) :
    decodeYd (ts ++ [' '] ++ dir ++ [' '] ++ (encodeYd id data).dropLast.dropLast) = .ok (frameOfId id data) := by
  rw [encodeYd_body]
  refine decodeYd_tokens ts dir _ _ id data hts hsp hne hdir (allHex_tok (allHex_toHex 8 id) (toHex_ne_nil 8 id))
    (parseHex_toHex 8 id (by omega)) (tok_byteHex_all data) ?_ (allSome_byteHex data hb) hb
  cases data with
  | nil => simp at hd
  | cons b bs => simp



/-! ### case-insensitivity (generic in the character map) -/
theorem foldl_hexStep_map (f : Char → Char) (hf : ∀ k, k < 16 → hexVal (f (hexDigit k)) = some k ∧ f (hexDigit k) ≠ ' ')
    (t : List Char) (ht : AllHex t) (a : Option Nat) : (t.map f).foldl hexStep a = t.foldl hexStep a := by
  induction t generalizing a with
  | nil => rfl
  | cons c t ih =>
    obtain ⟨k, hk, rfl⟩ := ht c (by simp)
    simp only [List.map_cons, List.foldl_cons]
    rw [ih (fun x hx => ht x (by simp [hx]))]
    congr 1
    simp only [hexStep, (hf k hk).1, hexVal_hexDigit k hk]

theorem parseHex_map (f : Char → Char) (hf : ∀ k, k < 16 → hexVal (f (hexDigit k)) = some k ∧ f (hexDigit k) ≠ ' ')
    (t : List Char) (ht : AllHex t) (hn : t ≠ []) : parseHex (t.map f) = parseHex t := by
  rw [parseHex_eq _ hn, parseHex_eq _ (by simpa using hn), foldl_hexStep_map f hf t ht]

theorem tok_map (f : Char → Char) (hf : ∀ k, k < 16 → hexVal (f (hexDigit k)) = some k ∧ f (hexDigit k) ≠ ' ')
    (t : List Char) (ht : AllHex t) (hn : t ≠ []) : Tok (t.map f) := by
  refine ⟨?_, by simpa using hn⟩
  intro hm
  simp only [List.mem_map] at hm
  obtain ⟨c, hc, e⟩ := hm
  obtain ⟨k, hk, rfl⟩ := ht c hc
  exact (hf k hk).2 e

theorem yd_rt_map (f : Char → Char) (hf0 : f ' ' = ' ')
    (hf : ∀ k, k < 16 → hexVal (f (hexDigit k)) = some k ∧ f (hexDigit k) ≠ ' ')
    (id : Nat) (data : Bytes) (hid : id < 2^32) (hd : 1 ≤ data.length)
    (hb : ∀ b ∈ data, b < 256) (ts dir : List Char) (hts : validHms ts = true) (hsp : ' ' ∉ ts)
    (hne : ts ≠ []) (hdir : dir = ['R'] ∨ dir = ['T']) :
    decodeYd (ts ++ [' '] ++ dir ++ [' '] ++ ((encodeYd id data).dropLast.dropLast).map f) = .ok (frameOfId id data) := by
  rw [encodeYd_body]
  simp only [List.map_append, List.map_cons, List.map_nil, map_joinSep, hf0]
  refine decodeYd_tokens ts dir _ _ id data hts hsp hne hdir (tok_map f hf _ (allHex_toHex 8 id) (toHex_ne_nil 8 id))
    ((parseHex_map f hf _ (allHex_toHex 8 id) (toHex_ne_nil 8 id)).trans (parseHex_toHex 8 id (by omega))) ?_ ?_ ?_ hb
  · intro t ht
    simp only [List.mem_map] at ht
    obtain ⟨_, ⟨b, _, rfl⟩, rfl⟩ := ht
    exact tok_map f hf _ (allHex_byteHex b) (byteHex_ne_nil b)
  · cases data with
    | nil => simp at hd
    | cons b bs => simp
  · rw [← allSome_byteHex data hb]
    congr 1
    simp only [List.map_map]
    apply List.map_congr_left
    intro b _
    exact parseHex_map f hf _ (allHex_byteHex b) (byteHex_ne_nil b)

/-! ### Actisense -/
def actStamp : List Char := ['A','0','0','0','0','0','1','.','0','0','0']

theorem actStamp_eq : "A000001.000 ".toList = actStamp ++ [' '] := by decide

theorem allHex_flatten (toks : List (List Char)) (h : ∀ t ∈ toks, AllHex t) : AllHex toks.flatten := by
  intro c hc
  simp only [List.mem_flatten] at hc
  obtain ⟨t, ht, hc⟩ := hc
  exact h t ht c hc

theorem ss_go_join_sp (toks : List (List Char)) (h : ∀ t ∈ toks, ' ' ∉ t ∧ t ≠ []) (hn : toks ≠ [])
    (acc : List (List Char)) : splitSpaces.go [] acc (joinSep ' ' toks ++ [' ']) = acc.reverse ++ toks := by
  induction toks generalizing acc with
  | nil => exact absurd rfl hn
  | cons t ts ih =>
    cases ts with
    | nil =>
      simp only [joinSep]
      rw [ss_go_sep t (h t (by simp)).1 (h t (by simp)).2]
      simp [splitSpaces.go]
    | cons t' ts =>
      simp only [joinSep, List.append_assoc, List.cons_append]
      rw [ss_go_sep t (h t (by simp)).1 (h t (by simp)).2, ih (fun x hx => h x (by simp [hx])) (by simp)]
      simp

/-- a trailing space (an empty last token) is dropped -/
theorem splitSpaces_line_sp (toks : List (List Char)) (h : ∀ t ∈ toks, Tok t) (hn : toks ≠ []) :
    splitSpaces (joinSep ' ' toks ++ [' ']) = toks := by
  unfold splitSpaces
  rw [ss_go_join_sp toks h hn]; rfl

/-- what `decodeActisenseToks` does on the encoder's tokens -/
theorem decodeActisenseToks_enc (prio dst src pgn : Nat) (data : Bytes) (hp : prio < 16) (hd : dst < 256)
    (hs : src < 256) (hg : pgn < 2^24) (hb : ∀ b ∈ data, b < 256) :
    decodeActisenseToks ['0','0','0','0','0','1','.','0','0','0'] (toHex 5 (src * 4096 + dst * 16 + prio))
        (toHex 5 pgn) (data.map byteHex).flatten =
      .ok { pgn := pgn, prio := prio, src := src, dst := dst, data := data } := by
  have h1 : splitOn '.' ['0','0','0','0','0','1','.','0','0','0'] = [['0','0','0','0','0','1'], ['0','0','0']] := by decide
  have h2 : parseDec ['0','0','0','0','0','1'] = some 1 := by decide
  have h3 : parseDec ['0','0','0'] = some 0 := by decide
  simp only [decodeActisenseToks, h1, h2, h3, parseHex_toHex 5 _ (show src * 4096 + dst * 16 + prio < 16^64 by omega),
    parseHex_toHex 5 pgn (show pgn < 16^64 by omega), pairs_byteHex, Option.bind_some, allSome_byteHex data hb]
  simp
  omega

theorem actisense_rt (prio dst src pgn : Nat) (data : Bytes) (hp : prio < 16) (hd : dst < 256)
    (hs : src < 256) (hg : pgn < 2^24) (hb : ∀ b ∈ data, b < 256) :
    decodeActisense ("A000001.000 ".toList ++ encodeActisense prio dst src pgn data) =
      .ok { pgn := pgn, prio := prio, src := src, dst := dst, data := data } := by
  have htok : ∀ t ∈ [actStamp, toHex 5 (src * 4096 + dst * 16 + prio), toHex 5 pgn], Tok t := by
    intro t ht
    simp only [List.mem_cons, List.not_mem_nil, or_false] at ht
    rcases ht with rfl | rfl | rfl
    · exact ⟨by decide, by decide⟩
    · exact allHex_tok (allHex_toHex _ _) (toHex_ne_nil _ _)
    · exact allHex_tok (allHex_toHex _ _) (toHex_ne_nil _ _)
  cases data with
  | nil =>
    -- empty payload: the line ends with a space, the data token is missing
    have e : "A000001.000 ".toList ++ encodeActisense prio dst src pgn [] =
        joinSep ' ' [actStamp, toHex 5 (src * 4096 + dst * 16 + prio), toHex 5 pgn] ++ [' '] := by
      rw [actStamp_eq]
      simp only [encodeActisense, joinSep, Nat.mod_eq_of_lt hp, Nat.mod_eq_of_lt hd, Nat.mod_eq_of_lt hs,
        Nat.mod_eq_of_lt (show pgn < 16777216 from hg), List.append_assoc, List.cons_append, List.nil_append,
        List.map_nil, List.flatten_nil, List.append_nil]
    rw [e, decodeActisense, splitSpaces_line_sp _ htok (by simp)]
    exact decodeActisenseToks_enc prio dst src pgn [] hp hd hs hg hb
  | cons b bs =>
    have e : "A000001.000 ".toList ++ encodeActisense prio dst src pgn (b :: bs) =
        joinSep ' ' [actStamp, toHex 5 (src * 4096 + dst * 16 + prio), toHex 5 pgn, ((b :: bs).map byteHex).flatten] := by
      rw [actStamp_eq]
      simp only [encodeActisense, joinSep, Nat.mod_eq_of_lt hp, Nat.mod_eq_of_lt hd, Nat.mod_eq_of_lt hs,
        Nat.mod_eq_of_lt (show pgn < 16777216 from hg), List.append_assoc, List.cons_append, List.nil_append]
    have hdat : Tok ((b :: bs).map byteHex).flatten := by
      refine allHex_tok (allHex_flatten _ ?_) (by simp [byteHex])
      intro t ht; simp only [List.mem_map] at ht; obtain ⟨b, _, rfl⟩ := ht; exact allHex_byteHex b
    rw [e, decodeActisense, splitSpaces_line _ (by
      intro t ht
      simp only [List.mem_cons, List.not_mem_nil, or_false] at ht
      rcases ht with rfl | rfl | rfl | rfl
      · exact htok _ (by simp)
      · exact htok _ (by simp)
      · exact htok _ (by simp)
      · exact hdat) (by simp)]
    exact decodeActisenseToks_enc prio dst src pgn (b :: bs) hp hd hs hg hb



/-! ### decimal rendering (`"%d"`) and canboat plain text -/
/-- the `"%d"` rendering (same recursion as `toDecAux`/`toDec` of Props/C07) -/
def decAux : Nat → Nat → List Char → List Char
  | 0, _, acc => acc
  | fuel + 1, n, acc => if n < 10 then Char.ofNat (48 + n) :: acc else decAux fuel (n / 10) (Char.ofNat (48 + n % 10) :: acc)
def dec (n : Nat) : List Char := decAux 40 n []

theorem decDigit_facts : ∀ d, d < 10 → isDigit (Char.ofNat (48 + d)) = true ∧ (Char.ofNat (48 + d)).toNat - 48 = d
    ∧ Char.ofNat (48 + d) ≠ ',' := by decide

/-- decimal digits only -/
def AllDig (s : List Char) : Prop := ∀ c ∈ s, isDigit c = true ∧ c ≠ ','

theorem allDig_cons {d : Nat} (hd : d < 10) {acc : List Char} (h : AllDig acc) : AllDig (Char.ofNat (48 + d) :: acc) := by
  intro c hc
  rcases List.mem_cons.1 hc with rfl | hc
  · exact ⟨(decDigit_facts d hd).1, (decDigit_facts d hd).2.2⟩
  · exact h c hc

theorem allDig_decAux (fuel n : Nat) (acc : List Char) (h : AllDig acc) : AllDig (decAux fuel n acc) := by
  induction fuel generalizing n acc with
  | zero => exact h
  | succ f ih =>
    unfold decAux
    split
    · next h10 => exact allDig_cons h10 h
    · exact ih _ _ (allDig_cons (Nat.mod_lt _ (by decide)) h)

theorem decAux_ne_nil (fuel n : Nat) (acc : List Char) (h : fuel ≠ 0 ∨ acc ≠ []) : decAux fuel n acc ≠ [] := by
  induction fuel generalizing n acc with
  | zero => simpa [decAux] using h
  | succ f ih =>
    unfold decAux
    split
    · simp
    · exact ih _ _ (Or.inr (by simp))

theorem foldl_decAux (fuel n : Nat) (acc : List Char) (h : n < 10 ^ fuel) :
    (decAux fuel n acc).foldl (fun a c => a * 10 + (c.toNat - 48)) 0 =
      acc.foldl (fun a c => a * 10 + (c.toNat - 48)) n := by
  induction fuel generalizing n acc with
  | zero =>
    have : n = 0 := by simpa using h
    subst this; rfl
  | succ f ih =>
    unfold decAux
    split
    · next h10 => simp only [List.foldl_cons, (decDigit_facts n h10).2.1]; simp
    · rw [ih (n / 10) _ (by rw [Nat.pow_succ] at h; omega)]
      simp only [List.foldl_cons, (decDigit_facts (n % 10) (Nat.mod_lt _ (by decide))).2.1]
      congr 1; omega

theorem allDig_dec (n : Nat) : AllDig (dec n) := allDig_decAux 40 n [] (fun _ h => absurd h (by simp))

theorem comma_not_mem_dec (n : Nat) : ',' ∉ dec n := fun h => (allDig_dec n _ h).2 rfl

theorem parseDec_dec (n : Nat) (h : n < 10 ^ 40) : parseDec (dec n) = some n := by
  unfold parseDec
  have h1 : (dec n).isEmpty = false := by
    have := decAux_ne_nil 40 n [] (Or.inl (by decide))
    simpa [dec] using this
  have h2 : (dec n).all isDigit = true := by
    simp only [List.all_eq_true]; exact fun c hc => (allDig_dec n c hc).1
  rw [if_neg (by simp [h1, h2])]
  simp only [dec]
  rw [foldl_decAux 40 n [] h]; rfl

theorem splitOn_line (sep : Char) (toks : List (List Char)) (h : ∀ t ∈ toks, sep ∉ t) (hn : toks ≠ []) :
    splitOn sep (joinSep sep toks) = toks := by
  unfold splitOn
  rw [so_go_join sep toks h hn]; rfl

/-- what `decodeBasic` does on a line of well-formed fields -/
theorem decodeBasic_tokens (ts p g s d l : List Char) (toks : List (List Char)) (prio pgn src dst : Nat)
    (data : Bytes) (hts : validStamp ts = true) (hc : ',' ∉ ts)
    (hp : ',' ∉ p) (hp' : parseDec p = some prio) (hg : ',' ∉ g) (hg' : parseDec g = some pgn)
    (hs : ',' ∉ s) (hs' : parseDec s = some src) (hd : ',' ∉ d) (hd' : parseDec d = some dst)
    (hl : ',' ∉ l) (len : Nat) (hl' : parseDec l = some len)
    (htoks : ∀ t ∈ toks, ',' ∉ t) (hn : toks ≠ [])
    (hdata : allSome ((toks.take len).map parseHex) = some data) (hb : ∀ b ∈ data, b < 256) :
    decodeBasic (ts ++ [','] ++ p ++ [','] ++ g ++ [','] ++ s ++ [','] ++ d ++ [','] ++ l ++ [','] ++ joinSep ',' toks)
      = .ok { pgn := pgn, prio := prio, src := src, dst := dst, data := data } := by
  have e : ts ++ [','] ++ p ++ [','] ++ g ++ [','] ++ s ++ [','] ++ d ++ [','] ++ l ++ [','] ++ joinSep ',' toks
      = joinSep ',' (ts :: p :: g :: s :: d :: l :: toks) := by
    cases toks with
    | nil => exact absurd rfl hn
    | cons t toks => simp [joinSep]
  have hall : ∀ t ∈ ts :: p :: g :: s :: d :: l :: toks, ',' ∉ t := by
    intro t ht
    simp only [List.mem_cons] at ht
    rcases ht with rfl | rfl | rfl | rfl | rfl | rfl | ht
    · exact hc
    · exact hp
    · exact hg
    · exact hs
    · exact hd
    · exact hl
    · exact htoks t ht
  rw [e]
  unfold decodeBasic
  rw [splitOn_line ',' _ hall (by simp)]
  have hall : (data.all (· < 256)) = true := by
    simp only [List.all_eq_true, decide_eq_true_eq]; exact hb
  have he : toks.isEmpty = false := by cases toks with
    | nil => exact absurd rfl hn
    | cons t toks => rfl
  simp only [he, hts, hp', hg', hs', hd', hl', hdata, hall, if_true, if_false, not_true_eq_false]
  simp

/-- canboat plain-text round trip, for field values the `"%d"` model can render (fuel 40) -/
theorem basic_rt (f : Frame) (hprio : f.prio < 10 ^ 40) (hpgn : f.pgn < 10 ^ 40) (hsrc : f.src < 10 ^ 40)
    (hdst : f.dst < 10 ^ 40) (hlen : f.data.length < 10 ^ 40) (hd : 1 ≤ f.data.length)
    (hb : ∀ b ∈ f.data, b < 256) (ts : List Char) (hts : validStamp ts = true) (hc : ',' ∉ ts) :
    decodeBasic (ts ++ [','] ++ dec f.prio ++ [','] ++ dec f.pgn ++ [','] ++ dec f.src ++ [','] ++ dec f.dst ++ [','] ++
      dec f.data.length ++ [','] ++ List.intercalate [','] (f.data.map byteHex)) = .ok f := by
  rw [intercalate_eq_joinSep]
  refine decodeBasic_tokens ts _ _ _ _ _ _ f.prio f.pgn f.src f.dst f.data hts hc
    (comma_not_mem_dec _) (parseDec_dec _ hprio) (comma_not_mem_dec _) (parseDec_dec _ hpgn)
    (comma_not_mem_dec _) (parseDec_dec _ hsrc) (comma_not_mem_dec _) (parseDec_dec _ hdst)
    (comma_not_mem_dec _) f.data.length (parseDec_dec _ hlen) ?_ ?_
    (by rw [← List.map_take, List.take_length]; exact allSome_byteHex _ hb) hb
  · intro t ht
    simp only [List.mem_map] at ht
    obtain ⟨b, _, rfl⟩ := ht
    exact (allHex_byteHex b).not_mem not_hexCh_comma
  · cases hdat : f.data with
    | nil => simp [hdat] at hd
    | cons b bs => simp


end N2k.Wire
