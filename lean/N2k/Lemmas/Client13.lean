/- helper lemmas for the client properties -/
import N2k.Model.Client
import N2k.Model.Reader
/- everything here lives in `N2k.Client.L13` so that it cannot clash with `Lemmas/Client19.lean` -/
namespace N2k.Client.L13

theorem guard_eq_some {b : Bool} {s s' : CS} : guard b s = some s' ↔ b = true ∧ s' = s := by
  unfold guard; split <;> simp_all [eq_comm]

theorem guard_eq_none {b : Bool} {s : CS} : guard b s = none ↔ b = false := by
  unfold guard; split <;> simp_all

theorem step_eq_some {s s' : CS} {e : Ev} :
    step s e = some s' ↔ ∃ t, stepCore s e = some t ∧ s' = { t with prev := some e } := by
  unfold step
  cases stepCore s e <;> simp [eq_comm]

theorem step_eq_none {s : CS} {e : Ev} : step s e = none ↔ stepCore s e = none := by
  unfold step; simp

theorem runTrace_nil {s s' : CS} : runTrace s [] = some s' ↔ s' = s := by
  simp [runTrace, eq_comm]

theorem runTrace_cons {s s' : CS} {e : Ev} {es : List Ev} :
    runTrace s (e :: es) = some s' ↔ ∃ t, step s e = some t ∧ runTrace t es = some s' := by
  simp [runTrace, Option.bind_eq_some_iff]

theorem runTrace_append (s : CS) (a b : List Ev) :
    runTrace s (a ++ b) = (runTrace s a).bind (fun t => runTrace t b) := by
  induction a generalizing s with
  | nil => simp [runTrace]
  | cons e es ih =>
    simp only [List.cons_append, runTrace]
    cases step s e <;> simp [ih]

/-! ### frame lemmas -/

/-- only `.status` touches `st` / `statusLog`, and it reports a change out of a non-CLOSED state -/
theorem stepCore_status_frame {s t : CS} {e : Ev} (h : stepCore s e = some t) :
    (∃ u, e = .status u ∧ u ≠ s.st ∧ s.st ≠ .closed ∧ t.st = u ∧ t.statusLog = s.statusLog ++ [u]) ∨
    ((∀ u, e ≠ .status u) ∧ t.st = s.st ∧ t.statusLog = s.statusLog) := by
  cases e <;> simp only [stepCore] at h <;> (try split at h) <;>
    simp only [guard_eq_some, Option.some.injEq, reduceCtorEq] at h <;>
    (try (first | (obtain ⟨_, rfl⟩ := h) | subst h)) <;> (try split) <;> simp_all

theorem step_status_frame {s s' : CS} {e : Ev} (h : step s e = some s') :
    (∃ u, e = .status u ∧ u ≠ s.st ∧ s.st ≠ .closed ∧ s'.st = u ∧ s'.statusLog = s.statusLog ++ [u]) ∨
    ((∀ u, e ≠ .status u) ∧ s'.st = s.st ∧ s'.statusLog = s.statusLog) := by
  obtain ⟨t, ht, rfl⟩ := step_eq_some.1 h
  exact stepCore_status_frame (t := t) ht

/-- only `.recvStart` / `.recvExit` touch `recv` -/
theorem stepCore_recv_frame {s t : CS} {e : Ev} (h : stepCore s e = some t) :
    (∃ c, e = .recvStart c ∧ s.recv = none ∧ s.conn = some c ∧ t.recv = some c) ∨
    (∃ c b, e = .recvExit c b ∧ s.recv = some c ∧ t.recv = none) ∨
    ((∀ c, e ≠ .recvStart c) ∧ (∀ c b, e ≠ .recvExit c b) ∧ t.recv = s.recv) := by
  cases e <;> simp only [stepCore] at h <;> (try split at h) <;>
    simp only [guard_eq_some, Option.some.injEq, reduceCtorEq] at h <;>
    (try (first | (obtain ⟨_, rfl⟩ := h) | subst h)) <;> (try split) <;> simp_all

theorem step_recv_frame {s s' : CS} {e : Ev} (h : step s e = some s') :
    (∃ c, e = .recvStart c ∧ s.recv = none ∧ s.conn = some c ∧ s'.recv = some c) ∨
    (∃ c b, e = .recvExit c b ∧ s.recv = some c ∧ s'.recv = none) ∨
    ((∀ c, e ≠ .recvStart c) ∧ (∀ c b, e ≠ .recvExit c b) ∧ s'.recv = s.recv) := by
  obtain ⟨t, ht, rfl⟩ := step_eq_some.1 h
  exact stepCore_recv_frame (t := t) ht

/-- once `close()` has returned, it stays returned and no callback runs -/
theorem stepCore_quiet {s t : CS} {e : Ev} (hc : s.closeReturned = true) (h : stepCore s e = some t) :
    t.closeReturned = true ∧ t.cbCount = s.cbCount := by
  cases e <;> simp only [stepCore] at h <;> (try split at h) <;>
    simp only [guard_eq_some, Option.some.injEq, reduceCtorEq] at h <;>
    (try (first | (obtain ⟨_, rfl⟩ := h) | subst h)) <;> (try split) <;> simp_all

theorem step_quiet {s s' : CS} {e : Ev} (hc : s.closeReturned = true) (h : step s e = some s') :
    s'.closeReturned = true ∧ s'.cbCount = s.cbCount := by
  obtain ⟨t, ht, rfl⟩ := step_eq_some.1 h
  exact stepCore_quiet (t := t) hc ht

theorem runTrace_quiet {s s' : CS} {evs : List Ev} (hc : s.closeReturned = true)
    (h : runTrace s evs = some s') : s'.closeReturned = true ∧ s'.cbCount = s.cbCount := by
  induction evs generalizing s with
  | nil => obtain rfl := runTrace_nil.1 h; exact ⟨hc, rfl⟩
  | cons e es ih =>
    obtain ⟨t, h1, h2⟩ := runTrace_cons.1 h
    obtain ⟨a, b⟩ := step_quiet hc h1
    obtain ⟨a', b'⟩ := ih a h2
    exact ⟨a', b'.trans b⟩

theorem runTrace_closed {s s' : CS} {evs : List Ev} (hc : s.st = .closed)
    (h : runTrace s evs = some s') : s'.st = .closed := by
  induction evs generalizing s with
  | nil => obtain rfl := runTrace_nil.1 h; exact hc
  | cons e es ih =>
    obtain ⟨t, h1, h2⟩ := runTrace_cons.1 h
    refine ih ?_ h2
    rcases step_status_frame h1 with ⟨u, _, _, hne, _⟩ | ⟨_, h3, _⟩
    · exact absurd hc hne
    · rw [h3, hc]


/-! ### the recovery run (C13) -/

/-- the connect holding (or about to take) the lock is ready for attempt number `j + 1`; the call was made by the
application (`.connCall`) or by the reconnect task (`.reconnCall`) -/
def Ready (s : CS) (j : Nat) : Prop :=
  s.st = .disconnected ∧ s.calls > 0 ∧
  ((s.connActive = true ∧ s.implPending = false ∧ s.lastFailed = true ∧ s.slept = true ∧ s.tryNo = j) ∨
   (s.connActive = false ∧ (s.prev = some .connCall ∨ s.prev = some .reconnCall) ∧ j = 0))

/-- what the retry loop leaves alone -/
def Kept (s s' : CS) : Prop :=
  s'.nextConn = s.nextConn ∧ s'.statusLog = s.statusLog ∧ s'.recv = s.recv ∧
  s'.reconn = s.reconn ∧ s'.reconnCalled = s.reconnCalled ∧ s'.writerClosed = s.writerClosed

theorem Kept.refl (s : CS) : Kept s s := ⟨rfl, rfl, rfl, rfl, rfl, rfl⟩

theorem Kept.trans {a b c : CS} (h1 : Kept a b) (h2 : Kept b c) : Kept a c :=
  ⟨h2.1.trans h1.1, h2.2.1.trans h1.2.1, h2.2.2.1.trans h1.2.2.1, h2.2.2.2.1.trans h1.2.2.2.1,
   h2.2.2.2.2.1.trans h1.2.2.2.2.1, h2.2.2.2.2.2.trans h1.2.2.2.2.2⟩

def retryBlock (i : Nat) : List Ev := [Ev.implStart, .implFail, .sleep (backoff (i + 1))]

theorem ready_block {s : CS} {j : Nat} (h : Ready s j) :
    ∃ s', runTrace s (retryBlock j) = some s' ∧ Ready s' (j + 1) ∧ Kept s s' := by
  obtain ⟨h1, h2, ⟨h3, h4, h5, h6, h7⟩ | ⟨h3, h4 | h4, h5⟩⟩ := h
  · simp [retryBlock, runTrace, step, stepCore, guard, Ready, Kept, *]
  · simp [retryBlock, runTrace, step, stepCore, guard, Ready, Kept, *]
  · simp [retryBlock, runTrace, step, stepCore, guard, Ready, Kept, *]

theorem ready_loop {s : CS} (k : Nat) (h : Ready s 0) :
    ∃ s', runTrace s ((List.range k).flatMap retryBlock) = some s' ∧ Ready s' k ∧ Kept s s' := by
  induction k with
  | zero => exact ⟨s, by simp [runTrace], h, Kept.refl s⟩
  | succ k ih =>
    obtain ⟨t, h1, h2, a⟩ := ih
    obtain ⟨t', h1', h2', b⟩ := ready_block h2
    refine ⟨t', ?_, h2', a.trans b⟩
    simp [List.range_succ, List.flatMap_append, runTrace_append, h1, h1']

theorem ready_final {s : CS} {j : Nat} (h : Ready s j) (hr : s.recv = none) :
    ∃ s', runTrace s [.implStart, .implOk s.nextConn, .status .connected, .connReturn, .recvStart s.nextConn] = some s' ∧
      s'.st = .connected ∧ s'.recv = some s.nextConn ∧ s'.statusLog = s.statusLog ++ [.connected] ∧
      s'.conn = some s.nextConn := by
  obtain ⟨h1, h2, ⟨h3, h4, h5, h6, h7⟩ | ⟨h3, h4 | h4, h5⟩⟩ := h
  · simp [runTrace, step, stepCore, guard, *]
  · simp [runTrace, step, stepCore, guard, *]
  · simp [runTrace, step, stepCore, guard, *]

theorem recovers {s : CS} (k : Nat) (hst : s.st = .disconnected) (ha : s.connActive = false)
    (hr : s.recv = none) :
    ∃ s', runTrace s ([.connCall] ++ (List.range k).flatMap retryBlock ++
        [.implStart, .implOk s.nextConn, .status .connected, .connReturn, .recvStart s.nextConn]) = some s' ∧
      s'.st = .connected ∧ s'.recv = some s.nextConn ∧
      s'.statusLog = s.statusLog ++ [.connected] ∧ s'.conn = some s.nextConn := by
  have h0 : ∃ t, step s .connCall = some t ∧ Ready t 0 ∧ t.nextConn = s.nextConn ∧
      t.statusLog = s.statusLog ∧ t.recv = s.recv := by
    simp [step, stepCore, Ready, *]
  obtain ⟨t, h1, h2, a1, a2, a3⟩ := h0
  obtain ⟨t', h1', h2', b1, b2, b3, -⟩ := ready_loop k h2
  obtain ⟨u, hu, c1, c2, c3, c4⟩ := ready_final h2' (by rw [b3, a3, hr])
  refine ⟨u, ?_, c1, ?_, ?_, ?_⟩
  · rw [List.append_assoc, List.singleton_append, runTrace_cons]
    refine ⟨t, h1, ?_⟩
    rw [runTrace_append, h1', Option.bind_some, ← b1.trans a1]
    simpa [b1, a1] using hu
  · rw [c2, b1, a1]
  · rw [c3, b2, a2]
  · rw [c4, b1, a1]

/-! ### recovery after a fault on an established link: the connect call is made by the reconnect task -/

/-- the fault is seen, the link is shut, DISCONNECTED is reported, the receive task ends, the reconnect task starts, waits and
calls connect(): the state is then ready for the first attempt -/
theorem fault_prefix {s : CS} {c : Nat} (hst : s.st = .connected) (hc : s.conn = some c) (hr : s.recv = some c)
    (ha : s.connActive = false) (hre : s.reconn = 0) :
    ∃ t, runTrace s [.envEof c, .writerClose c, .status .disconnected, .recvExit c false, .reconnStart, .reconnSleep 500,
        .reconnCall] = some t ∧ Ready t 0 ∧ t.nextConn = s.nextConn ∧ t.statusLog = s.statusLog ++ [.disconnected] ∧
      t.recv = none ∧ t.reconn = 1 ∧ t.reconnCalled = true ∧ c ∈ t.writerClosed := by
  simp [runTrace, step, stepCore, guard, Ready, *]

/-- the accepted attempt when the connect call was made by the reconnect task: that task ends once the call has returned -/
theorem ready_final_reconn {s : CS} {j : Nat} (h : Ready s j) (hr : s.recv = none) (hre : s.reconn = 1)
    (hrc : s.reconnCalled = true) :
    ∃ s', runTrace s [.implStart, .implOk s.nextConn, .status .connected, .connReturn, .reconnEnd,
        .recvStart s.nextConn] = some s' ∧
      s'.st = .connected ∧ s'.recv = some s.nextConn ∧ s'.statusLog = s.statusLog ++ [.connected] ∧
      s'.conn = some s.nextConn ∧ s'.writerClosed = s.writerClosed ∧ s'.reconn = 0 := by
  obtain ⟨h1, h2, ⟨h3, h4, h5, h6, h7⟩ | ⟨h3, h4 | h4, h5⟩⟩ := h
  · simp [runTrace, step, stepCore, guard, *]
  · simp [runTrace, step, stepCore, guard, *]
  · simp [runTrace, step, stepCore, guard, *]

theorem recovers_after_fault {s : CS} {c : Nat} (k : Nat) (hst : s.st = .connected) (hc : s.conn = some c)
    (hr : s.recv = some c) (ha : s.connActive = false) (hre : s.reconn = 0) :
    ∃ s', runTrace s ([.envEof c, .writerClose c, .status .disconnected, .recvExit c false, .reconnStart, .reconnSleep 500,
          .reconnCall] ++ (List.range k).flatMap retryBlock ++
        [.implStart, .implOk s.nextConn, .status .connected, .connReturn, .reconnEnd, .recvStart s.nextConn]) = some s' ∧
      s'.st = .connected ∧ s'.recv = some s.nextConn ∧
      s'.statusLog = s.statusLog ++ [.disconnected, .connected] ∧ s'.conn = some s.nextConn ∧ c ∈ s'.writerClosed ∧
      s'.reconn = 0 := by
  obtain ⟨t, h1, h2, a1, a2, a3, a4, a5, a6⟩ := fault_prefix hst hc hr ha hre
  obtain ⟨t', h1', h2', b1, b2, b3, b4, b5, b6⟩ := ready_loop k h2
  obtain ⟨u, hu, c1, c2, c3, c4, c5, c6⟩ :=
    ready_final_reconn h2' (by rw [b3, a3]) (by rw [b4, a4]) (by rw [b5, a5])
  refine ⟨u, ?_, c1, ?_, ?_, ?_, ?_, c6⟩
  · rw [List.append_assoc, runTrace_append, h1, Option.bind_some, runTrace_append, h1', Option.bind_some,
      ← b1.trans a1]
    exact hu
  · rw [c2, b1, a1]
  · rw [c3, b2, a2, List.append_assoc]; rfl
  · rw [c4, b1, a1]
  · rw [c5, b6]; exact a6

/-! ### the reconnect task (C13) -/

/-- only the four `reconn*` events look at or touch `reconn` / `reconnSlept`; a call uses up the wait (the task may wait more
than once before a call) -/
theorem stepCore_reconn_frame {s t : CS} {e : Ev} (h : stepCore s e = some t) :
    (e = .reconnStart ∧ s.reconn = 0 ∧ t.reconn = 1 ∧ t.reconnSlept = false) ∨
    (∃ ms, e = .reconnSleep ms ∧ 500 ≤ ms ∧ s.reconn = 1 ∧ t.reconn = 1 ∧ t.reconnSlept = true) ∨
    (e = .reconnEnd ∧ s.reconn = 1 ∧ t.reconn = 0 ∧ t.reconnSlept = s.reconnSlept) ∨
    (e = .reconnCall ∧ s.reconn = 1 ∧ s.reconnSlept = true ∧ t.reconn = 1 ∧ t.reconnSlept = false) ∨
    (e ≠ .reconnStart ∧ (∀ ms, e ≠ .reconnSleep ms) ∧ e ≠ .reconnEnd ∧ e ≠ .reconnCall ∧
      t.reconn = s.reconn ∧ t.reconnSlept = s.reconnSlept) := by
  cases e <;> simp only [stepCore] at h <;> (try split at h) <;>
    simp only [guard_eq_some, Option.some.injEq, reduceCtorEq] at h <;>
    (try (first | (obtain ⟨_, rfl⟩ := h) | subst h)) <;> (try split) <;> simp_all

theorem step_reconn_frame {s s' : CS} {e : Ev} (h : step s e = some s') :
    (e = .reconnStart ∧ s.reconn = 0 ∧ s'.reconn = 1 ∧ s'.reconnSlept = false) ∨
    (∃ ms, e = .reconnSleep ms ∧ 500 ≤ ms ∧ s.reconn = 1 ∧ s'.reconn = 1 ∧ s'.reconnSlept = true) ∨
    (e = .reconnEnd ∧ s.reconn = 1 ∧ s'.reconn = 0 ∧ s'.reconnSlept = s.reconnSlept) ∨
    (e = .reconnCall ∧ s.reconn = 1 ∧ s.reconnSlept = true ∧ s'.reconn = 1 ∧ s'.reconnSlept = false) ∨
    (e ≠ .reconnStart ∧ (∀ ms, e ≠ .reconnSleep ms) ∧ e ≠ .reconnEnd ∧ e ≠ .reconnCall ∧
      s'.reconn = s.reconn ∧ s'.reconnSlept = s.reconnSlept) := by
  obtain ⟨t, ht, rfl⟩ := step_eq_some.1 h
  exact stepCore_reconn_frame (t := t) ht

/-- from a state in which the reconnect task has not waited, a `reconnCall` at position `m` of an accepted run is preceded
by a `reconnSleep` of at least 500 ms -/
theorem sleep_before_call {es : List Ev} {s s' : CS} {m : Nat} (hs : s.reconnSlept = false)
    (h : runTrace s es = some s') (hm : es[m]? = some .reconnCall) :
    ∃ k ms, k < m ∧ es[k]? = some (.reconnSleep ms) ∧ 500 ≤ ms := by
  induction es generalizing s m with
  | nil => simp at hm
  | cons e es ih =>
    obtain ⟨t, h1, h2⟩ := runTrace_cons.1 h
    cases m with
    | zero =>
      simp only [List.getElem?_cons_zero, Option.some.injEq] at hm
      subst hm
      rcases step_reconn_frame h1 with ⟨h3, -⟩ | ⟨_, h3, -⟩ | ⟨h3, -⟩ | ⟨-, -, h3, -⟩ | ⟨-, -, -, h3, -⟩
      · cases h3
      · cases h3
      · cases h3
      · rw [hs] at h3; cases h3
      · exact absurd rfl h3
    | succ m =>
      rw [List.getElem?_cons_succ] at hm
      cases hsl : t.reconnSlept with
      | false =>
        obtain ⟨k, ms, hk, he, hms⟩ := ih hsl h2 hm
        exact ⟨k + 1, ms, Nat.succ_lt_succ hk, by rw [List.getElem?_cons_succ]; exact he, hms⟩
      | true =>
        rcases step_reconn_frame h1 with ⟨-, -, -, h3⟩ | ⟨ms, rfl, h3, -⟩ | ⟨-, -, -, h3⟩ | ⟨-, -, -, -, h3⟩ |
            ⟨-, -, -, -, -, h3⟩
        · rw [hsl] at h3; cases h3
        · exact ⟨0, ms, Nat.succ_pos _, rfl, h3⟩
        · rw [hsl, hs] at h3; cases h3
        · rw [hsl] at h3; cases h3
        · rw [hsl, hs] at h3; cases h3

/-- between two `reconnCall`s of an accepted run lies a `reconnSleep` of at least 500 ms -/
theorem sleep_between_calls {es : List Ev} {s s' : CS} {i j : Nat} (h : runTrace s es = some s') (hij : i < j)
    (hi : es[i]? = some .reconnCall) (hj : es[j]? = some .reconnCall) :
    ∃ k ms, i < k ∧ k < j ∧ es[k]? = some (.reconnSleep ms) ∧ 500 ≤ ms := by
  induction es generalizing s i j with
  | nil => simp at hi
  | cons e es ih =>
    obtain ⟨t, h1, h2⟩ := runTrace_cons.1 h
    cases j with
    | zero => omega
    | succ j =>
      rw [List.getElem?_cons_succ] at hj
      cases i with
      | zero =>
        simp only [List.getElem?_cons_zero, Option.some.injEq] at hi
        subst hi
        have hsl : t.reconnSlept = false := by
          rcases step_reconn_frame h1 with ⟨h3, -⟩ | ⟨_, h3, -⟩ | ⟨h3, -⟩ | ⟨-, -, -, -, h3⟩ | ⟨-, -, -, h3, -⟩
          · cases h3
          · cases h3
          · cases h3
          · exact h3
          · exact absurd rfl h3
        obtain ⟨k, ms, hk, he, hms⟩ := sleep_before_call hsl h2 hj
        exact ⟨k + 1, ms, Nat.succ_pos _, Nat.succ_lt_succ hk, by rw [List.getElem?_cons_succ]; exact he, hms⟩
      | succ i =>
        rw [List.getElem?_cons_succ] at hi
        obtain ⟨k, ms, hk1, hk2, he, hms⟩ := ih h2 (Nat.lt_of_succ_lt_succ hij) hi hj
        exact ⟨k + 1, ms, Nat.succ_lt_succ hk1, Nat.succ_lt_succ hk2, by rw [List.getElem?_cons_succ]; exact he, hms⟩

theorem step_reconn_le {s s' : CS} {e : Ev} (hs : s.reconn ≤ 1) (h : step s e = some s') : s'.reconn ≤ 1 := by
  rcases step_reconn_frame h with ⟨-, -, h1, -⟩ | ⟨_, -, -, -, h1, -⟩ | ⟨-, -, h1, -⟩ | ⟨-, -, -, h1, -⟩ | ⟨-, -, -, -, h1, -⟩ <;>
    omega

theorem runTrace_reconn_le {s s' : CS} {evs : List Ev} (hs : s.reconn ≤ 1) (h : runTrace s evs = some s') :
    s'.reconn ≤ 1 := by
  induction evs generalizing s with
  | nil => obtain rfl := runTrace_nil.1 h; exact hs
  | cons e es ih =>
    obtain ⟨t, h1, h2⟩ := runTrace_cons.1 h
    exact ih (step_reconn_le hs h1) h2

/-- what an accepted trace `evs` ending in `s` says about the reconnect task: at most one is alive, and while one is
alive the trace splits at its start — no later start — with its ≥ 500 ms wait after that point once it has waited -/
def ReconnInv (evs : List Ev) (s : CS) : Prop :=
  s.reconn ≤ 1 ∧
  (s.reconn = 1 → ∃ pre post, evs = pre ++ Ev.reconnStart :: post ∧ Ev.reconnStart ∉ post ∧
    (s.reconnSlept = true → ∃ ms, 500 ≤ ms ∧ Ev.reconnSleep ms ∈ post))

theorem reconnInv_step {evs : List Ev} {s s' : CS} {e : Ev} (hi : ReconnInv evs s) (h : step s e = some s') :
    ReconnInv (evs ++ [e]) s' := by
  refine ⟨step_reconn_le hi.1 h, fun h1 => ?_⟩
  -- an event other than `reconnStart` that keeps the task alive extends the tail
  have ext : e ≠ .reconnStart → s.reconn = 1 →
      (s'.reconnSlept = true → s.reconnSlept = true ∨ ∃ ms, 500 ≤ ms ∧ e = .reconnSleep ms) →
      ∃ pre post, evs ++ [e] = pre ++ Ev.reconnStart :: post ∧ Ev.reconnStart ∉ post ∧
        (s'.reconnSlept = true → ∃ ms, 500 ≤ ms ∧ Ev.reconnSleep ms ∈ post) := by
    intro hne hs hsl
    obtain ⟨pre, post, rfl, hp, hw⟩ := hi.2 hs
    refine ⟨pre, post ++ [e], by simp, ?_, fun h2 => ?_⟩
    · simp only [List.mem_append, List.mem_singleton, not_or]
      exact ⟨hp, fun h3 => hne h3.symm⟩
    · rcases hsl h2 with h3 | ⟨ms, h3, rfl⟩
      · obtain ⟨ms, h4, h5⟩ := hw h3
        exact ⟨ms, h4, List.mem_append_left _ h5⟩
      · exact ⟨ms, h3, by simp⟩
  rcases step_reconn_frame h with ⟨rfl, -, -, h2⟩ | ⟨ms, rfl, h2, h3, -, -⟩ | ⟨-, -, h2, -⟩ |
      ⟨rfl, h2, h3, -, -⟩ | ⟨h2, -, -, -, h3, h4⟩
  · exact ⟨evs, [], rfl, by simp, fun h3 => by rw [h2] at h3; cases h3⟩
  · exact ext (by simp) h3 (fun _ => Or.inr ⟨ms, h2, rfl⟩)
  · omega
  · exact ext (by simp) h2 (fun _ => Or.inl h3)
  · exact ext h2 (h3 ▸ h1) (fun h5 => Or.inl (h4 ▸ h5))

theorem reconnInv_run {pre evs : List Ev} {s s' : CS} (hi : ReconnInv pre s) (h : runTrace s evs = some s') :
    ReconnInv (pre ++ evs) s' := by
  induction evs generalizing pre s with
  | nil => obtain rfl := runTrace_nil.1 h; simpa using hi
  | cons e es ih =>
    obtain ⟨t, h1, h2⟩ := runTrace_cons.1 h
    have := ih (reconnInv_step hi h1) h2
    simpa using this

theorem reconnInv_init {evs : List Ev} {s : CS} (h : runTrace init evs = some s) : ReconnInv evs s := by
  have h0 : ReconnInv [] init := ⟨by simp [init], fun h => by simp [init] at h⟩
  simpa using reconnInv_run h0 h

end N2k.Client.L13
