/- helper lemmas for Props/C01.lean -/
import N2k.Model.Spec
import N2k.Model.Interp
namespace N2k.Dec01
open N2k N2k.Spec

/-! ### codecs -/

theorem decode_int_bits (data o l : Nat) : Straight.decode_int data o l = data / 2 ^ o % 2 ^ l := by
  simp only [Straight.decode_int, Nat.shiftRight_eq_div_pow, Nat.shiftLeft_eq, Nat.one_mul, Nat.and_two_pow_sub_one_eq_mod]

theorem ite3_ne {ε α} (a b : Prop) [Decidable a] [Decidable b] (e1 e2 : ε) (v : α) :
    (if a then Except.error e1 else if b then Except.error e2 else Except.ok (some v)) ≠ Except.ok none := by
  by_cases a <;> by_cases b <;> simp [*]

/-- the signedness `decode_number` / `encode_number` actually use: a field with an Offset is stored
excess-K, so its raw count is unsigned whatever the database's Signed flag says -/
def _root_.N2k.effSigned (signed : Bool) (ofs : Lit) : Bool := if ofs.val = 0 then signed else false

theorem pow10_zero : pow10 0 = 1 := by decide +kernel
theorem rat_sub_zero (a : Rat) : a - 0 = a := by rw [Rat.sub_eq_add_neg, Rat.neg_zero, Rat.add_zero]

theorem ofInt_val (o : Int) : (Lit.ofInt o).val = (o : Rat) := by
  simp only [Lit.ofInt, Lit.val, Lit.exact, pow10_zero, Bool.false_eq_true, if_false, Rat.mul_one]

theorem effSigned_zero (signed : Bool) : effSigned signed (Lit.ofInt 0) = signed := by
  simp only [effSigned, ofInt_val]; rfl

theorem effSigned_of_val_eq_zero (signed : Bool) (ofs : Lit) (h : ofs.val = 0) : effSigned signed ofs = signed := by
  simp only [effSigned, if_pos h]

theorem effSigned_of_val_ne_zero (signed : Bool) (ofs : Lit) (h : ofs.val ≠ 0) : effSigned signed ofs = false := by
  simp only [effSigned, if_neg h]

theorem effSigned_unsigned (ofs : Lit) : effSigned false ofs = false := by
  unfold effSigned; split <;> rfl

/-- `effSigned` is the database flag or `false` -/
theorem effSigned_le (signed : Bool) (ofs : Lit) (h : effSigned signed ofs = true) : signed = true := by
  unfold effSigned at h; split at h
  · exact h
  · cases h

theorem effSigned_ofInt (signed : Bool) (o : Int) :
    effSigned signed (Lit.ofInt o) = if o = 0 then signed else false := by
  simp only [effSigned, ofInt_val]
  by_cases h : o = 0
  · subst h; rfl
  · rw [if_neg h, if_neg]
    intro h'
    exact h (Rat.intCast_inj.mp h')

/-- `decodeNumber` with the effective signedness made explicit -/
theorem decodeNumber_eff (data off len : Nat) (signed : Bool) (res mn mx ofs : Lit) :
    decodeNumber data off len signed res mn mx ofs =
      (let s := effSigned signed ofs
       let n := Straight.decode_int data off len
       let z : Int := if s then signExtend n len else (n : Int)
       if naCode len s = some z then .ok none
       else
         let v := addLit (mulLit z res) ofs
         let tol : Rat :=
           if res.isFloat then
             maxR (rne (absR res.val / 2)) (rne (rne (absR v.toRat) * relTol))
           else 0
         let lo : Rat := if res.isFloat ∨ mn.isFloat then rne (rne mn.val - tol) else mn.val - tol
         let hi : Rat := if res.isFloat ∨ mx.isFloat then rne (rne mx.val + tol) else mx.val + tol
         if v.toRat < lo then .error .below
         else if v.toRat > hi then .error .above
         else .ok (some v)) := rfl

theorem decodeNumber_na (data off len : Nat) (signed : Bool) (res mn mx ofs : Lit) :
    decodeNumber data off len signed res mn mx ofs = .ok none ↔
      naCode len (effSigned signed ofs) =
        some (if effSigned signed ofs then signExtend (Straight.decode_int data off len) len
              else ((Straight.decode_int data off len : Nat) : Int)) := by
  rw [decodeNumber_eff]
  simp only []
  generalize effSigned signed ofs = s
  generalize (if s = true then signExtend (Straight.decode_int data off len) len
              else ((Straight.decode_int data off len : Nat) : Int)) = z
  by_cases h : naCode len s = some z
  · rw [if_pos h]; exact ⟨fun _ => h, fun _ => rfl⟩
  · rw [if_neg h]
    exact ⟨fun hh => absurd hh (ite3_ne _ _ _ _ _), fun hh => absurd hh h⟩

theorem decodeNumber_total_int (data off len : Nat) (signed : Bool) (r mn mx o : Int)
    (z : Int) (hz : z = (if effSigned signed (Lit.ofInt o) then signExtend (Straight.decode_int data off len) len
                          else ((Straight.decode_int data off len : Nat) : Int)))
    (hna : naCode len (effSigned signed (Lit.ofInt o)) ≠ some z) (h1 : mn ≤ z * r + o) (h2 : z * r + o ≤ mx) :
    decodeNumber data off len signed (Lit.ofInt r) (Lit.ofInt mn) (Lit.ofInt mx) (Lit.ofInt o) = .ok (some (.int (z * r + o))) := by
  rw [decodeNumber_eff]
  simp only []
  rw [← hz, if_neg hna]
  simp only [Lit.ofInt, mulLit, addLit, Lit.val, Lit.exact, pow10_zero, Bool.false_eq_true, if_false, or_self,
    Num.toRat, Rat.mul_one, Rat.add_zero, rat_sub_zero, gt_iff_lt, Rat.intCast_lt_intCast]
  rw [if_neg (by omega), if_neg (by omega)]

/-! ### statement interpreter -/

theorem runStmts_cons_ok {env : Env} {data off : Nat} {done : List Field} {s : DecStmt} {rest : List DecStmt}
    {out : List Field}
    (h : runStmts env data off done (s :: rest) = .ok out) :
    ∃ v raw off2 done2 off3,
      runOp env data (match s.off with | some o => o | none => off) done s.op = .ok (v, raw, off2) ∧
      (done2 = done ++ [⟨s.fmeta, v, raw⟩] ∨
        ∃ p val, s.patch = some p ∧ done2 = setValue (done ++ [⟨s.fmeta, v, raw⟩]) p.target val) ∧
      runStmts env data off3 done2 rest = .ok out := by
  rw [runStmts] at h
  simp only [bind, Except.bind, pure, Except.pure, throw, throwThe, MonadExceptOf.throw] at h
  split at h
  · cases h
  · rename_i r hop
    obtain ⟨v, raw, off2⟩ := r
    refine ⟨v, raw, off2, ?_⟩
    split at h
    · exact ⟨_, _, hop, Or.inl rfl, h⟩
    · rename_i p hp
      split at h
      · split at h
        · cases h
        · rename_i d2 hd2
          split at hd2
          · cases hd2
            exact ⟨_, _, hop, Or.inr ⟨p, _, hp, rfl⟩, h⟩
          · cases hd2
          · cases hd2
      · cases h

theorem setValue_length (l : List Field) (k : Nat) (v : PyVal) : (setValue l k v).length = l.length := by
  simp [setValue]

theorem setValue_getElem? (l : List Field) (k : Nat) (v : PyVal) (i : Nat) :
    (setValue l k v)[i]? = l[i]?.map (fun f => if i = k then { f with value := v } else f) := by
  simp [setValue, List.getElem?_mapIdx]

theorem setValue_map_fmeta (l : List Field) (k : Nat) (v : PyVal) :
    (setValue l k v).map (·.fmeta) = l.map (·.fmeta) := by
  apply List.ext_getElem?
  intro i
  simp only [List.getElem?_map, setValue_getElem?]
  cases l[i]? with
  | none => rfl
  | some f => simp only [Option.map_some]; split <;> rfl

/-- `b` extends `a`; metadata and raw values are kept, values are kept outside `P` -/
def Ext (P : Nat → Prop) (a b : List Field) : Prop :=
  ∀ i x, a[i]? = some x →
    ∃ y, b[i]? = some y ∧ y.fmeta = x.fmeta ∧ y.raw = x.raw ∧ (¬ P i → y.value = x.value)

theorem Ext.refl (P) (a : List Field) : Ext P a a := fun _ x hx => ⟨x, hx, rfl, rfl, fun _ => rfl⟩

theorem Ext.trans {P} {a b c : List Field} (h1 : Ext P a b) (h2 : Ext P b c) : Ext P a c := by
  intro i x hx
  obtain ⟨y, hy, m1, r1, v1⟩ := h1 i x hx
  obtain ⟨z, hz, m2, r2, v2⟩ := h2 i y hy
  exact ⟨z, hz, m2.trans m1, r2.trans r1, fun hp => (v2 hp).trans (v1 hp)⟩

theorem Ext.append (P) (a : List Field) (x : Field) : Ext P a (a ++ [x]) := by
  intro i y hy
  refine ⟨y, ?_, rfl, rfl, fun _ => rfl⟩
  have hi : i < a.length := (List.getElem?_eq_some_iff.mp hy).1
  rw [List.getElem?_append_left hi]; exact hy

theorem Ext.set {P : Nat → Prop} (a : List Field) (k : Nat) (v : PyVal) (hk : P k) :
    Ext P a (setValue a k v) := by
  intro i x hx
  rw [setValue_getElem?, hx]
  refine ⟨_, rfl, ?_, ?_, ?_⟩
  · simp only; split <;> rfl
  · simp only; split <;> rfl
  · intro hp
    have : i ≠ k := fun e => hp (e ▸ hk)
    simp only [if_neg this]

theorem runStmts_meta (env : Env) (data : Nat) : ∀ (stmts : List DecStmt) (off : Nat) (done out : List Field),
    runStmts env data off done stmts = .ok out →
    out.map (·.fmeta) = done.map (·.fmeta) ++ stmts.map (·.fmeta) := by
  intro stmts
  induction stmts with
  | nil =>
    intro off done out h
    simp only [runStmts, pure, Except.pure, Except.ok.injEq] at h
    simp [h]
  | cons s rest ih =>
    intro off done out h
    obtain ⟨v, raw, off2, done2, off3, -, hd, hr⟩ := runStmts_cons_ok h
    rw [ih off3 done2 out hr]
    rcases hd with rfl | ⟨p, val, -, rfl⟩
    · simp
    · simp [setValue_map_fmeta]

theorem runStmts_inv (env : Env) (data : Nat) (P : Nat → Prop) :
    ∀ (stmts : List DecStmt) (off : Nat) (done out : List Field),
    (∀ s ∈ stmts, ∀ p, s.patch = some p → P p.target) →
    runStmts env data off done stmts = .ok out →
    out.length = done.length + stmts.length ∧ Ext P done out ∧
    ∀ j s, stmts[j]? = some s →
      ∃ done' off1 v raw off' y, done'.length = done.length + j ∧ (∀ o, s.off = some o → off1 = o) ∧
        runOp env data off1 done' s.op = .ok (v, raw, off') ∧ out[done.length + j]? = some y ∧
        y.fmeta = s.fmeta ∧ y.raw = raw ∧ (¬ P (done.length + j) → y.value = v) := by
  intro stmts
  induction stmts with
  | nil =>
    intro off done out _ h
    simp only [runStmts, pure, Except.pure, Except.ok.injEq] at h
    subst h
    exact ⟨rfl, Ext.refl _ _, fun j s hs => by simp at hs⟩
  | cons s rest ih =>
    intro off done out hP h
    obtain ⟨v, raw, off2, done2, off3, hop, hd, hr⟩ := runStmts_cons_ok h
    have hP' : ∀ s ∈ rest, ∀ p, s.patch = some p → P p.target :=
      fun s' hs' => hP s' (List.mem_cons_of_mem _ hs')
    obtain ⟨hlen, hext, hj⟩ := ih off3 done2 out hP' hr
    have hd2 : done2.length = done.length + 1 ∧ Ext P (done ++ [⟨s.fmeta, v, raw⟩]) done2 := by
      rcases hd with rfl | ⟨p, val, hp, rfl⟩
      · exact ⟨by simp, Ext.refl _ _⟩
      · exact ⟨by simp [setValue_length], Ext.set _ _ _ (hP s (List.mem_cons_self ..) p hp)⟩
    obtain ⟨hl2, he2⟩ := hd2
    have hext' : Ext P (done ++ [⟨s.fmeta, v, raw⟩]) out := he2.trans hext
    refine ⟨by simp [hlen, hl2]; omega, (Ext.append P done _).trans hext', ?_⟩
    intro j s' hs'
    cases j with
    | zero =>
      simp only [List.getElem?_cons_zero, Option.some.injEq] at hs'
      subst hs'
      obtain ⟨y, hy, m, r, vv⟩ := hext' done.length ⟨s.fmeta, v, raw⟩ (by simp)
      refine ⟨done, _, v, raw, off2, y, rfl, ?_, hop, hy, m, r, vv⟩
      intro o ho; simp [ho]
    | succ j =>
      simp only [List.getElem?_cons_succ] at hs'
      obtain ⟨done', off1, v', raw', off', y, h1, h2, h3, h4, h5, h6, h7⟩ := hj j s' hs'
      have e : done2.length + j = done.length + (j + 1) := by omega
      rw [e] at h1 h4 h7
      exact ⟨done', off1, v', raw', off', y, h1, h2, h3, h4, h5, h6, h7⟩

/-! ### compiled statements -/

theorem decStmts_map_fmeta : ∀ (fs : List FieldDef) (pend : Pending),
    (decStmts pend fs).map (·.fmeta) = fs.map fieldMeta := by
  intro fs
  induction fs with
  | nil => intro pend; rfl
  | cons f fs ih => intro pend; simp only [decStmts, List.map_cons, ih]

theorem decStmts_getElem? : ∀ (fs : List FieldDef) (pend : Pending) (j : Nat) (f : FieldDef),
    fs[j]? = some f →
    ∃ s, (decStmts pend fs)[j]? = some s ∧ s.off = f.bitOffset ∧ s.op = decOp f ∧ s.fmeta = fieldMeta f := by
  intro fs
  induction fs with
  | nil => intro pend j f h; simp at h
  | cons g fs ih =>
    intro pend j f h
    cases j with
    | zero =>
      simp only [List.getElem?_cons_zero, Option.some.injEq] at h
      subst h
      simp only [decStmts, List.getElem?_cons_zero]
      exact ⟨_, rfl, rfl, rfl, rfl⟩
    | succ j =>
      simp only [List.getElem?_cons_succ] at h
      simp only [decStmts, List.getElem?_cons_succ]
      exact ih _ j f h

theorem decStmts_patch (Q : Nat → Prop) : ∀ (fs : List FieldDef) (pend : Pending),
    (∀ o e k, pend = some (o, e, k) → Q k) →
    (∀ f ∈ fs, f.ftype = "INDIRECT_LOOKUP" → Q (f.order - 1)) →
    ∀ s ∈ decStmts pend fs, ∀ p, s.patch = some p → Q p.target := by
  intro fs
  induction fs with
  | nil => intro pend _ _ s hs; simp [decStmts] at hs
  | cons f fs ih =>
    intro pend hpend hfs s hs p hp
    simp only [decStmts, List.mem_cons] at hs
    have hpend' : ∀ o e k,
        (if f.ftype = "INDIRECT_LOOKUP" then
          match f.indirectOrder, f.indirectEnum with
          | some o, some e => some (o, e, f.order - 1)
          | _, _ => pend
        else pend) = some (o, e, k) → Q k := by
      intro o e k h
      split at h
      · rename_i hind
        split at h
        · simp only [Option.some.injEq, Prod.mk.injEq] at h
          rw [← h.2.2]; exact hfs f (List.mem_cons_self ..) hind
        · exact hpend o e k h
      · exact hpend o e k h
    rcases hs with rfl | hs
    · simp only at hp
      split at hp
      · rename_i o e k hk
        split at hp
        · simp only [Option.some.injEq] at hp
          subst hp
          exact hpend' o e k hk
        · cases hp
      · cases hp
    · exact ih _ hpend' (fun g hg => hfs g (List.mem_cons_of_mem _ hg)) s hs p hp

theorem orders_of_all (fs : List FieldDef)
    (h : (fs.mapIdx (fun i f => f.order == i + 1)).all id = true) :
    ∀ j f, fs[j]? = some f → f.order = j + 1 := by
  intro j f hf
  rw [List.all_eq_true] at h
  have := h (f.order == j + 1) (by
    rw [List.mem_iff_getElem?]
    exact ⟨j, by simp [List.getElem?_mapIdx, hf]⟩)
  simpa using this

theorem runDec_ok {env : Env} {g : List PgnDef} {p : PgnDef} {data : Nat} {m : Msg}
    (h : runDec env (compileDec g p) data = .ok m) :
    ∃ fs, runStmts env data 0 [] (decStmts none p.fields) = .ok fs ∧
      m = { pgn := p.pgn, id := p.id, desc := p.desc, ttlMs := p.interval, fields := fs } := by
  simp only [runDec, compileDec, bind, Except.bind, pure, Except.pure] at h
  split at h
  · cases h
  · rename_i fs hfs
    simp only [Except.ok.injEq] at h
    exact ⟨fs, hfs, h.symm⟩

theorem compiled_field {env : Env} {g : List PgnDef} {p : PgnDef} {data : Nat} {m : Msg}
    (h : runDec env (compileDec g p) data = .ok m)
    (hord : ∀ j f, p.fields[j]? = some f → f.order = j + 1)
    {i : Nat} {f : FieldDef} (hf : p.fields[i]? = some f) {o : Nat} (ho : f.bitOffset = some o) :
    ∃ fld v off' done, m.fields[i]? = some fld ∧ done.length = i ∧
      runOp env data o done (decOp f) = .ok (v, fld.raw, off') ∧
      (f.ftype ≠ "INDIRECT_LOOKUP" → fld.value = v) := by
  obtain ⟨fs, hrun, rfl⟩ := runDec_ok h
  let P : Nat → Prop := fun k => ∃ f', p.fields[k]? = some f' ∧ f'.ftype = "INDIRECT_LOOKUP"
  have hP : ∀ s ∈ decStmts none p.fields, ∀ q, s.patch = some q → P q.target := by
    apply decStmts_patch P
    · intro o e k hk; cases hk
    · intro f' hf' hind
      obtain ⟨j, hj⟩ := List.mem_iff_getElem?.mp hf'
      have := hord j f' hj
      exact ⟨f', by rw [this]; simpa using hj, hind⟩
  obtain ⟨-, -, hj⟩ := runStmts_inv env data P _ 0 [] fs hP hrun
  obtain ⟨s, hs, hoff, hop, -⟩ := decStmts_getElem? p.fields none i f hf
  obtain ⟨done', off1, v, raw, off', y, h1, h2, h3, h4, -, h6, h7⟩ := hj i s hs
  simp only [List.length_nil, Nat.zero_add] at h1 h4 h7
  have : off1 = o := h2 o (hoff.trans ho)
  subst this
  subst h6
  rw [hop] at h3
  refine ⟨y, v, off', done', h4, h1, h3, ?_⟩
  intro hne
  apply h7
  rintro ⟨f', hf'', hind⟩
  rw [hf] at hf''
  cases hf''
  exact hne hind

theorem decOp_indirect {f : FieldDef} {l : Nat} (hind : f.ftype = "INDIRECT_LOOKUP")
    (hl : f.bitLength = some l) : decOp f = .indirect l := by
  simp [decOp, hind, withLen, hl]

theorem compiled_indirect_raw {env : Env} {g : List PgnDef} {p : PgnDef} {data : Nat} {m : Msg}
    (h : runDec env (compileDec g p) data = .ok m)
    (hord : ∀ j f, p.fields[j]? = some f → f.order = j + 1)
    {i : Nat} {f : FieldDef} (hf : p.fields[i]? = some f) {o l : Nat} (ho : f.bitOffset = some o)
    (hl : f.bitLength = some l) (hind : f.ftype = "INDIRECT_LOOKUP") :
    ∃ fld, m.fields[i]? = some fld ∧ fld.raw = .int (Straight.decode_int data o l) := by
  obtain ⟨fld, v, off', done, h1, -, h3, -⟩ := compiled_field h hord hf ho
  refine ⟨fld, h1, ?_⟩
  rw [decOp_indirect hind hl] at h3
  simp only [runOp, pure, Except.pure, Except.ok.injEq, Prod.mk.injEq] at h3
  exact h3.2.1.symm

end N2k.Dec01
