/- helper lemmas for Props/C01.lean -/
import N2k.Model.Spec
import N2k.Model.Interp
namespace N2k

end N2k
