/-
helper lemmas for Props/C01Float.lean: `decode_number` with a decimal (binary64) resolution never rejects a
value whose exact decimal product lies inside the exact database range.

The argument: `v = rne (rne z * rne r)` is within ~3 ulp of the exact product `x = z·r`, `rne x` within 1 ulp,
and the tolerance `rne (rne |v| · 1e-15)` is ~9 ulp of `|x|`; the rest is monotonicity and idempotence of `rne`.
Overflow is not modelled (see `Model/Num.lean`), so only lower bounds (normal range) are needed.
-/
import N2k.Model.Codec
import N2k.Lemmas.F64
import N2k.Lemmas.Dec01
namespace N2k.Dec01F
open N2k

/-! ### small facts -/

theorem absR_eq (q : ℚ) : absR q = |q| := by
  unfold absR
  split_ifs with h
  · rw [abs_of_neg h]
  · rw [abs_of_nonneg (not_lt.mp h)]

theorem le_maxR_right (a b : ℚ) : b ≤ maxR a b := by
  unfold maxR
  split_ifs with h
  · exact le_refl _
  · exact not_lt.mp h

theorem rne_val (l : Lit) : rne l.val = rne l.exact := by
  unfold Lit.val
  split_ifs
  · exact rne_idem _
  · rfl

theorem pow2_m53 : pow2 (-53) = 1 / 9007199254740992 := by rw [pow2_eq]; norm_num

/-- relative error of `rne` with the unit roundoff as a numeral, normal range given as `2^-1022 ≤ |q|` -/
theorem rne_rel (q : ℚ) (h : pow2 (-1022) ≤ |q|) :
    |rne q - q| ≤ 1 / 9007199254740992 * |q| := by
  have hq : q ≠ 0 := by
    intro h0
    rw [h0, abs_zero] at h
    exact absurd (pow2_pos _) (not_lt.mpr h)
  have := rne_err q (ilog2_ge_of_le _ _ h) hq
  rwa [pow2_m53] at this

/-- a rounded normal number keeps at least half of its magnitude -/
theorem rne_abs_ge_half (q : ℚ) (h : pow2 (-1022) ≤ |q|) : |q| / 2 ≤ |rne q| := by
  have e := rne_rel q h
  have t := abs_sub_abs_le_abs_sub q (rne q)
  rw [abs_sub_comm] at t
  have : 0 ≤ |q| := abs_nonneg _
  linarith

/-- `2^-1022` is far below `2^-400` -/
theorem eps_small : pow2 (-1022) * 2 ^ 200 ≤ pow2 (-400) := by
  have h1 : pow2 (-1022) ≤ pow2 (-600) := pow2_le_pow2 (by norm_num)
  have h2 : pow2 (-600) = pow2 (-400) * pow2 (-200) := by rw [← pow2_add]; norm_num
  have h3 : pow2 (-200) * 2 ^ 200 = 1 := by rw [pow2_eq]; norm_num
  have hp := pow2_pos (-400)
  calc pow2 (-1022) * 2 ^ 200 ≤ pow2 (-600) * 2 ^ 200 :=
        mul_le_mul_of_nonneg_right h1 (by norm_num)
    _ = pow2 (-400) * (pow2 (-200) * 2 ^ 200) := by rw [h2]; ring
    _ = pow2 (-400) := by rw [h3, mul_one]

theorem eps_le_one : pow2 (-1022) ≤ 1 := by
  have h1 : pow2 (-1022) ≤ pow2 0 := pow2_le_pow2 (by norm_num)
  have h2 : pow2 0 = 1 := by rw [pow2_eq]; norm_num
  rwa [h2] at h1

theorem eps_le_relarg : pow2 (-1022) ≤ |(1:ℚ) / 1000000000000000| := by
  have h1 : pow2 (-1022) ≤ pow2 (-50) := pow2_le_pow2 (by norm_num)
  have h2 : pow2 (-50) = 1 / 1125899906842624 := by rw [pow2_eq]; norm_num
  rw [h2] at h1
  rw [abs_of_pos (by norm_num)]
  refine le_trans h1 ?_
  norm_num

/-- `1e-15` as a double is at least 8.9 units roundoff -/
theorem relTol_ge : 89 / 10 * (1 / 9007199254740992) ≤ relTol := by
  have e := rne_rel ((1:ℚ) / 1000000000000000) eps_le_relarg
  rw [abs_of_pos (by norm_num : (0:ℚ) < 1 / 1000000000000000)] at e
  have := (abs_le.mp e).1
  unfold relTol
  norm_num at this ⊢
  linarith

/-! ### the error analysis, over abstract reals -/

/-- three roundings on the way to `v`, one on the way to `X`, three in the tolerance `t`:
the tolerance covers the distance -/
theorem core (u z r Z R v X a rt t : ℚ) (hu0 : 0 ≤ u) (hu : u ≤ 1 / 1000)
    (hZ : |Z - z| ≤ u * |z|) (hR : |R - r| ≤ u * |r|)
    (hv : |v - Z * R| ≤ u * |Z * R|) (hX : |X - z * r| ≤ u * |z * r|)
    (ha : |a - (|v|)| ≤ u * |v|) (hrt : 89 / 10 * u ≤ rt)
    (ht : |t - a * rt| ≤ u * |a * rt|) :
    |X - v| ≤ t := by
  have hz0 : 0 ≤ |z| := abs_nonneg _
  have hr0 : 0 ≤ |r| := abs_nonneg _
  set A := |z| * |r| with hA
  have hA0 : 0 ≤ A := mul_nonneg hz0 hr0
  set w := u * A with hw
  have hw0 : 0 ≤ w := mul_nonneg hu0 hA0
  have hwA : w ≤ A / 1000 := by
    have := mul_le_mul_of_nonneg_right hu hA0
    linarith
  have huw : u * w ≤ w / 1000 := by
    have := mul_le_mul_of_nonneg_right hu hw0
    linarith
  -- |Z| ≤ (1+u)|z|
  have hZa : |Z| ≤ |z| + u * |z| := by
    have := abs_sub_abs_le_abs_sub Z z
    linarith
  -- |Z R - z r|
  have e1 : |Z * R - z * r| ≤ 2 * w + u * w := by
    have hsplit : Z * R - z * r = Z * (R - r) + (Z - z) * r := by ring
    rw [hsplit]
    have t1 : |Z * (R - r)| ≤ (|z| + u * |z|) * (u * |r|) := by
      rw [abs_mul]
      exact mul_le_mul hZa hR (abs_nonneg _) (by positivity)
    have t2 : |(Z - z) * r| ≤ u * |z| * |r| := by
      rw [abs_mul]
      exact mul_le_mul_of_nonneg_right hZ hr0
    have t3 := abs_add_le (Z * (R - r)) ((Z - z) * r)
    have : (|z| + u * |z|) * (u * |r|) + u * |z| * |r| = 2 * w + u * w := by
      rw [hw, hA]; ring
    linarith
  have hzr : |z * r| = A := abs_mul z r
  have e1' : |Z * R| ≤ A + 2 * w + u * w := by
    have := abs_sub_abs_le_abs_sub (Z * R) (z * r)
    rw [hzr] at this
    linarith
  -- |v - Z R|
  have e2 : |v - Z * R| ≤ w + 3 * (u * w) := by
    have h1 : u * |Z * R| ≤ u * (A + 2 * w + u * w) := mul_le_mul_of_nonneg_left e1' hu0
    have h2 : u * (u * w) ≤ u * w := by
      have : u ≤ 1 := by linarith
      exact mul_le_of_le_one_left (mul_nonneg hu0 hw0) this
    have h3 : u * (A + 2 * w + u * w) = w + 2 * (u * w) + u * (u * w) := by rw [hw]; ring
    linarith
  have e3 : |v - z * r| ≤ 3 * w + 4 * (u * w) := by
    have := abs_sub_le v (Z * R) (z * r)
    linarith
  have e4 : |X - v| ≤ 4 * w + 4 * (u * w) := by
    have h := abs_sub_le X (z * r) v
    rw [abs_sub_comm (z * r) v] at h
    rw [hzr] at hX
    linarith
  -- lower bound for |v|
  have hvlo : A - (3 * w + 4 * (u * w)) ≤ |v| := by
    have := abs_sub_abs_le_abs_sub (z * r) v
    rw [abs_sub_comm (z * r) v, hzr] at this
    linarith
  have hvhi : |v| ≤ A + (3 * w + 4 * (u * w)) := by
    have := abs_sub_abs_le_abs_sub v (z * r)
    rw [hzr] at this
    linarith
  -- lower bound for a
  have halo : 99 / 100 * A ≤ a := by
    have h1 := (abs_le.mp ha).1
    have h2 : u * |v| ≤ u * (A + (3 * w + 4 * (u * w))) := mul_le_mul_of_nonneg_left hvhi hu0
    have h3 : u * (A + (3 * w + 4 * (u * w))) = w + 3 * (u * w) + 4 * (u * (u * w)) := by
      rw [hw]; ring
    have h4 : u * (u * w) ≤ u * w := by
      have : u ≤ 1 := by linarith
      exact mul_le_of_le_one_left (mul_nonneg hu0 hw0) this
    linarith
  have ha0 : 0 ≤ a := le_trans (by positivity) halo
  have hrt0 : 0 ≤ rt := le_trans (by positivity) hrt
  -- a * rt
  have hprod : 99 / 100 * A * (89 / 10 * u) ≤ a * rt :=
    mul_le_mul halo hrt (by positivity) ha0
  have hprod' : 88 / 10 * w ≤ a * rt := by
    have : 99 / 100 * A * (89 / 10 * u) = 8811 / 1000 * w := by rw [hw]; ring
    linarith
  have hart0 : 0 ≤ a * rt := mul_nonneg ha0 hrt0
  rw [abs_of_nonneg hart0] at ht
  have htlo : a * rt - u * (a * rt) ≤ t := by
    have := (abs_le.mp ht).1
    linarith
  have hu' : u * (a * rt) ≤ (a * rt) / 1000 := by
    have := mul_le_mul_of_nonneg_right hu hart0
    linarith
  linarith

/-! ### the tolerance covers the rounding of the product -/

theorem tol_covers (z : ℤ) (r : ℚ) (hr : pow2 (-400) ≤ r) :
    |rne ((z:ℚ) * r) - rne (rne (z:ℚ) * rne r)|
      ≤ rne (rne (absR (rne (rne (z:ℚ) * rne r))) * relTol) := by
  by_cases hz : z = 0
  · subst hz
    simp [rne_zero, absR_eq]
  have hP := pow2_pos (-400)
  have hε := eps_small
  have hε0 := pow2_pos (-1022)
  have hε1 := eps_le_one
  set P := pow2 (-400) with hPdef
  set ε := pow2 (-1022) with hεdef
  have hεP : ε ≤ P / 2 ^ 100 := by
    have : (0:ℚ) < 2 ^ 200 := by norm_num
    rw [le_div_iff₀ (by norm_num)]
    nlinarith
  have hrpos : 0 < r := lt_of_lt_of_le hP hr
  have hz1 : (1:ℚ) ≤ |(z:ℚ)| := by
    have : (1:ℤ) ≤ |z| := Int.one_le_abs hz
    exact_mod_cast this
  -- normal-range facts
  have nz : ε ≤ |(z:ℚ)| := le_trans hε1 hz1
  have nr : ε ≤ |r| := by rw [abs_of_pos hrpos]; linarith [hεP, hP, hr, div_le_self hP.le (by norm_num : (1:ℚ) ≤ 2 ^ 100)]
  have hZh := rne_abs_ge_half (z:ℚ) nz
  have hRh := rne_abs_ge_half r nr
  rw [abs_of_pos hrpos] at hRh
  have hZR : P / 4 ≤ |rne (z:ℚ) * rne r| := by
    rw [abs_mul]
    have : (1/2 : ℚ) * (P / 2) ≤ |rne (z:ℚ)| * |rne r| :=
      mul_le_mul (by linarith) (by linarith) (by positivity) (abs_nonneg _)
    linarith
  have hsmall : ∀ k : ℚ, 0 < k → k ≤ 2 ^ 100 → ε ≤ P / k := by
    intro k hk0 hk
    refine le_trans hεP ?_
    exact div_le_div_of_nonneg_left hP.le hk0 hk
  have nZR : ε ≤ |rne (z:ℚ) * rne r| := le_trans (hsmall 4 (by norm_num) (by norm_num)) hZR
  have hvh := rne_abs_ge_half _ nZR
  set v := rne (rne (z:ℚ) * rne r) with hvdef
  have hv8 : P / 8 ≤ |v| := by linarith
  have nv : ε ≤ |(|v|)| := by
    rw [abs_abs]; exact le_trans (hsmall 8 (by norm_num) (by norm_num)) hv8
  have hah := rne_abs_ge_half _ nv
  rw [abs_abs] at hah
  have ha0 : 0 ≤ rne |v| := rne_nonneg (abs_nonneg _)
  rw [abs_of_nonneg ha0] at hah
  have hrt := relTol_ge
  have hrt0 : 0 ≤ relTol := le_trans (by norm_num) hrt
  have hart : P / 16 * (89 / 10 * (1 / 9007199254740992)) ≤ rne |v| * relTol :=
    mul_le_mul (by linarith) hrt (by norm_num) ha0
  have nart : ε ≤ |rne |v| * relTol| := by
    rw [abs_of_nonneg (mul_nonneg ha0 hrt0)]
    refine le_trans (hsmall (2 ^ 60) (by norm_num) (by norm_num)) (le_trans ?_ hart)
    have : P / 16 * (89 / 10 * (1 / 9007199254740992)) = P * (89 / 1441151880758558720) := by ring
    rw [this, div_eq_mul_inv]
    exact mul_le_mul_of_nonneg_left (by norm_num) hP.le
  have nx : ε ≤ |(z:ℚ) * r| := by
    rw [abs_mul, abs_of_pos hrpos]
    have : 1 * r ≤ |(z:ℚ)| * r := mul_le_mul_of_nonneg_right hz1 hrpos.le
    have := abs_of_pos hrpos ▸ nr
    linarith
  rw [absR_eq]
  have ea := rne_rel |v| nv
  rw [abs_abs] at ea
  exact core (1 / 9007199254740992) (z:ℚ) r (rne (z:ℚ)) (rne r) v (rne ((z:ℚ) * r)) (rne |v|) relTol _
    (by norm_num) (by norm_num)
    (rne_rel _ nz) (rne_rel _ nr) (rne_rel _ nZR) (rne_rel _ nx) ea hrt (rne_rel _ nart)

/-! ### `decode_number` -/

theorem pow10_zero : pow10 0 = 1 := by rw [pow10_eq]; norm_num

theorem ofInt_zero_val : (Lit.ofInt 0).val = 0 := by
  simp [Lit.ofInt, Lit.val, Lit.exact]

/-- a positive mantissa with exponent ≥ -100 is at least `2^-400` -/
theorem exact_ge (res : Lit) (hpos : 0 < res.m) (he : -100 ≤ res.e) : pow2 (-400) ≤ res.exact := by
  unfold Lit.exact
  have h1 : (1:ℚ) ≤ (res.m : ℚ) := by exact_mod_cast hpos
  have h2 : pow10 (-100) ≤ pow10 res.e := by
    simp only [pow10_eq]; exact zpow_le_zpow_right₀ (by norm_num) he
  have h3 : pow2 (-400) ≤ pow10 (-100) := by
    have hp : (10:ℚ) ^ (100:ℕ) ≤ 2 ^ (400:ℕ) := by
      calc (10:ℚ) ^ (100:ℕ) ≤ (2 ^ 4) ^ (100:ℕ) := pow_le_pow_left₀ (by norm_num) (by norm_num) 100
        _ = 2 ^ (400:ℕ) := by rw [← pow_mul]
    rw [pow2_eq, pow10_eq, show (-400:ℤ) = -((400:ℕ):ℤ) by norm_num,
      show (-100:ℤ) = -((100:ℕ):ℤ) by norm_num, zpow_neg, zpow_neg, zpow_natCast, zpow_natCast]
    exact inv_anti₀ (by positivity) hp
  have h4 := pow10_pos res.e
  calc pow2 (-400) ≤ pow10 res.e := le_trans h3 h2
    _ = 1 * pow10 res.e := (one_mul _).symm
    _ ≤ (res.m : ℚ) * pow10 res.e := mul_le_mul_of_nonneg_right h1 h4.le

theorem decodeNumber_total_float (data off len : Nat) (signed : Bool) (res mn mx : Lit)
    (z : Int) (hz : z = (if signed then signExtend (Straight.decode_int data off len) len
                          else ((Straight.decode_int data off len : Nat) : Int)))
    (hna : naCode len signed ≠ some z)
    (hf : res.isFloat = true) (hpos : 0 < res.m) (hres : -100 ≤ res.e)
    (h1 : mn.exact ≤ (z : Rat) * res.exact) (h2 : (z : Rat) * res.exact ≤ mx.exact) :
    decodeNumber data off len signed res mn mx (Lit.ofInt 0) =
      .ok (some (.flt (rne (rne (z : Rat) * res.val)))) := by
  -- no Offset: the effective signedness is the database flag
  simp only [Dec01.decodeNumber_eff, Dec01.effSigned_zero]
  rw [← hz]
  have hval : res.val = rne res.exact := by unfold Lit.val; rw [if_pos hf]
  have hcov := tol_covers z res.exact (exact_ge res hpos hres)
  rw [← hval] at hcov
  set v := rne (rne (z : Rat) * res.val) with hvdef
  have hvv : rne v = v := rne_idem _
  simp only [if_neg hna, mulLit_float z res hf, addLit, ofInt_zero_val, rne_zero, add_zero, hf,
    true_or, if_true, Num.toRat, ← hvdef, hvv, rne_val]
  set t := rne (rne (absR v) * relTol) with htdef
  set tol := maxR (rne (absR res.val / 2)) t with htol
  have htt : t ≤ tol := le_maxR_right _ _
  have hc := abs_le.mp hcov
  have hlo : rne (rne mn.exact - tol) ≤ v := by
    rw [← hvv]
    apply rne_mono
    have := rne_mono h1
    linarith [hc.2]
  have hhi : v ≤ rne (rne mx.exact + tol) := by
    rw [← hvv]
    apply rne_mono
    have := rne_mono h2
    linarith [hc.1]
  rw [if_neg (not_lt.mpr hlo), if_neg (not_lt.mpr hhi)]

end N2k.Dec01F
