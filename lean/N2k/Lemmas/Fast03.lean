/- helper lemmas for Props/C03.lean -/
import N2k.Model.Fast
namespace N2k.Fast

/-! ### chunks -/

theorem chunks_nil {α : Type _} (n : Nat) : chunks n ([] : List α) = [] := by
  rw [chunks]

theorem chunks_of_ne_nil {α : Type _} (n : Nat) (hn : 0 < n) (l : List α) (hl : l ≠ []) :
    chunks n l = l.take n :: chunks n (l.drop n) := by
  cases l with
  | nil => exact absurd rfl hl
  | cons x xs =>
    rw [chunks]
    have : n ≠ 0 := by omega
    simp [this]

theorem chunks_length {α : Type _} (n : Nat) (hn : 0 < n) :
    ∀ (k : Nat) (l : List α), l.length = k → (chunks n l).length = (l.length + (n - 1)) / n := by
  intro k
  induction k using Nat.strongRecOn with
  | ind k ih =>
    intro l hk
    by_cases hl : l = []
    · subst hl
      rw [chunks_nil]
      simp
      exact (Nat.div_eq_of_lt (by omega)).symm
    · rw [chunks_of_ne_nil n hn l hl]
      have hpos : 0 < l.length := List.length_pos_iff.mpr hl
      simp only [List.length_cons]
      rw [ih (l.drop n).length (by simp; omega) (l.drop n) rfl]
      simp only [List.length_drop]
      by_cases hle : l.length ≤ n
      · have h1 : l.length - n + (n - 1) < n := by omega
        rw [Nat.div_eq_of_lt h1]
        have h2 : l.length + (n - 1) = (l.length - 1) + n := by omega
        rw [h2, Nat.add_div_right _ hn, Nat.div_eq_of_lt (by omega)]
      · have h2 : l.length + (n - 1) = (l.length - n + (n - 1)) + n := by omega
        rw [h2, Nat.add_div_right _ hn]

theorem chunks_getElem? {α : Type _} (n : Nat) (hn : 0 < n) :
    ∀ (j : Nat) (l : List α),
      (chunks n l)[j]? = if n * j < l.length then some ((l.drop (n * j)).take n) else none := by
  intro j
  induction j with
  | zero =>
    intro l
    by_cases hl : l = []
    · subst hl; simp [chunks_nil]
    · rw [chunks_of_ne_nil n hn l hl]
      have hpos : 0 < l.length := List.length_pos_iff.mpr hl
      simp [hpos]
  | succ j ih =>
    intro l
    by_cases hl : l = []
    · subst hl; simp [chunks_nil]
    · rw [chunks_of_ne_nil n hn l hl]
      simp only [List.getElem?_cons_succ]
      rw [ih]
      simp only [List.length_drop, List.drop_drop]
      have e : n + n * j = n * (j + 1) := by rw [Nat.mul_succ]; omega
      have e' : n * j + n = n * (j + 1) := by rw [Nat.mul_succ]
      by_cases hc : n * (j + 1) < l.length
      · have hc' : n * j < l.length - n := by omega
        simp only [hc, hc', if_true]
        first
          | rw [e]
          | rw [e']
      · have hc' : ¬ n * j < l.length - n := by omega
        simp only [hc, hc', if_false]

/-! ### restFrames -/

theorem restFrames_length (seq : Nat) : ∀ (cs : List Bytes) (i : Nat),
    (restFrames seq i cs).length = cs.length := by
  intro cs
  induction cs with
  | nil => intro i; rfl
  | cons c cs ih => intro i; simp [restFrames, ih]

theorem restFrames_getElem? (seq : Nat) : ∀ (cs : List Bytes) (i j : Nat),
    (restFrames seq i cs)[j]? = cs[j]?.map (fun c => (seq * 32 + (i + j)) :: c) := by
  intro cs
  induction cs with
  | nil => intro i j; simp [restFrames]
  | cons c cs ih =>
    intro i j
    cases j with
    | zero => simp [restFrames]
    | succ j =>
      simp only [restFrames, List.getElem?_cons_succ]
      rw [ih]
      have : i + 1 + j = i + (j + 1) := by omega
      rw [this]

theorem restFrames_mem_length (seq : Nat) : ∀ (cs : List Bytes) (i : Nat),
    (∀ c ∈ cs, c.length ≤ 7) → ∀ f ∈ restFrames seq i cs, f.length ≤ 8 := by
  intro cs
  induction cs with
  | nil => intro i _ f hf; simp [restFrames] at hf
  | cons c cs ih =>
    intro i hc f hf
    simp only [restFrames, List.mem_cons] at hf
    rcases hf with hf | hf
    · subst hf
      have := hc c (by simp)
      simp only [List.length_cons]; omega
    · exact ih (i + 1) (fun c' hc' => hc c' (by simp [hc'])) f hf

theorem chunks_mem_length {α : Type _} (n : Nat) (hn : 0 < n) (l : List α) :
    ∀ c ∈ chunks n l, c.length ≤ n := by
  intro c hc
  obtain ⟨j, hj⟩ := List.getElem?_of_mem hc
  rw [chunks_getElem? n hn] at hj
  split at hj
  · cases hj
    simp only [List.length_take]
    omega
  · cases hj

/-! ### frames -/

theorem frames_length (seq : Nat) (P : Bytes) :
    (frames seq P).length = 1 + (P.length - 6 + 6) / 7 := by
  simp only [frames, List.length_cons, restFrames_length]
  rw [chunks_length 7 (by omega) _ _ rfl]
  simp only [List.length_drop]
  omega

/-! ### bit facts -/

theorem seq_of_byte (seq i : Nat) (hs : seq < 8) (hi : i < 32) : (seq * 32 + i) / 32 % 8 = seq := by
  omega

theorem fc_of_byte (seq i : Nat) (hi : i < 32) : (seq * 32 + i) % 32 = i := by
  omega

/-! ### insertFrame / hasFrame -/

theorem insertFrame_append (i : Nat) (d : Bytes) : ∀ (fs : List (Nat × Bytes)),
    (∀ p ∈ fs, p.1 < i) → insertFrame i d fs = fs ++ [(i, d)] := by
  intro fs
  induction fs with
  | nil => intro _; rfl
  | cons p fs ih =>
    intro h
    obtain ⟨j, e⟩ := p
    have hj : j < i := h (j, e) (by simp)
    have : ¬ i < j := by omega
    simp only [insertFrame, this, if_false, List.cons_append]
    rw [ih (fun p hp => h p (by simp [hp]))]

theorem hasFrame_false (i : Nat) : ∀ (fs : List (Nat × Bytes)),
    (∀ p ∈ fs, p.1 < i) → hasFrame i fs = false := by
  intro fs h
  simp only [hasFrame, List.any_eq_false, beq_iff_eq]
  intro p hp
  have := h p hp
  omega

/-! ### run -/

theorem run_cons (r : Option Rec) (f : Bytes) (fs : List Bytes) :
    run r (f :: fs) =
      ((run (match (step r f).2 with | .complete _ => none | _ => (step r f).1) fs).1,
        (step r f).2 :: (run (match (step r f).2 with | .complete _ => none | _ => (step r f).1) fs).2) := by
  rfl

theorem run_cons_stored (r r1 : Option Rec) (f : Bytes) (fs : List Bytes)
    (h : step r f = (r1, .stored)) :
    run r (f :: fs) = ((run r1 fs).1, .stored :: (run r1 fs).2) := by
  rw [run_cons, h]

theorem run_cons_complete (r r1 : Option Rec) (f : Bytes) (fs : List Bytes) (p : Bytes)
    (h : step r f = (r1, .complete p)) :
    run r (f :: fs) = ((run none fs).1, .complete p :: (run none fs).2) := by
  rw [run_cons, h]

theorem run_append : ∀ (a b : List Bytes) (r : Option Rec),
    run r (a ++ b) = ((run (run r a).1 b).1, (run r a).2 ++ (run (run r a).1 b).2) := by
  intro a
  induction a with
  | nil => intro b r; rfl
  | cons f fs ih =>
    intro b r
    rw [List.cons_append, run_cons, run_cons, ih]
    rfl

/-! ### step -/

theorem startsNew_of_seq_ne (r0 : Option Rec) (seq : Nat) (rest : Bytes)
    (h0 : ∀ x, r0 = some x → x.seq ≠ seq) : startsNew r0 seq rest = true := by
  cases r0 with
  | none => simp [startsNew]
  | some x =>
    cases rest with
    | nil => simp [startsNew]
    | cons t p =>
      have hx : ¬ x.seq = seq := h0 x rfl
      simp [startsNew, hx]

theorem step_first_new (r0 : Option Rec) (seq : Nat) (hs : seq < 8) (total : Nat) (payload : Bytes)
    (h0 : startsNew r0 seq (total :: payload) = true) :
    step r0 (seq * 32 :: total :: payload) =
      (let r' : Rec := { len := total, seq := seq, stored := payload.length, frames := [(0, payload)] }
       if r'.stored ≥ r'.len then (some r', .complete (combined r')) else (some r', .stored)) := by
  have e1 : seq * 32 / 32 % 8 = seq := by omega
  have e2 : seq * 32 % 32 = 0 := by omega
  simp only [step, e1, e2, h0, ne_eq, not_true_eq_false, false_and, if_false, and_self, if_true]

theorem step_first (r0 : Option Rec) (seq : Nat) (hs : seq < 8) (total : Nat) (payload : Bytes)
    (h0 : ∀ x, r0 = some x → x.seq ≠ seq) :
    step r0 (seq * 32 :: total :: payload) =
      (let r' : Rec := { len := total, seq := seq, stored := payload.length, frames := [(0, payload)] }
       if r'.stored ≥ r'.len then (some r', .complete (combined r')) else (some r', .stored)) :=
  step_first_new r0 seq hs total payload (startsNew_of_seq_ne r0 seq _ h0)

theorem step_next (r : Rec) (i : Nat) (c : Bytes) (hs : r.seq < 8) (hi : 0 < i) (hi32 : i < 32)
    (hlen : r.len ≠ 0) (hlt : ∀ p ∈ r.frames, p.1 < i) :
    step (some r) ((r.seq * 32 + i) :: c) =
      (let r' : Rec := { r with stored := r.stored + c.length, frames := r.frames ++ [(i, c)] }
       if r'.stored ≥ r'.len then (some r', .complete (combined r')) else (some r', .stored)) := by
  have e1 : (r.seq * 32 + i) / 32 % 8 = r.seq := by omega
  have e2 : (r.seq * 32 + i) % 32 = i := by omega
  have hi0 : i ≠ 0 := by omega
  simp only [step, e1, e2, ne_eq, hi0, not_false_eq_true, hlen, and_false, if_false,
    not_true_eq_false, hasFrame_false i r.frames hlt, insertFrame_append i c r.frames hlt,
    Bool.false_eq_true, false_and]

/-! ### feeding the remaining frames -/

def flat (r : Rec) : Bytes := (r.frames.map (·.2)).flatten

theorem run_rest (seq L : Nat) (hs : seq < 8) :
    ∀ (n : Nat) (Q : Bytes) (i : Nat) (r : Rec), Q.length = n → Q ≠ [] → r.seq = seq → r.len = L →
      (∀ p ∈ r.frames, p.1 < i) → r.stored = (flat r).length → r.stored + Q.length = L →
      0 < i → i + (Q.length + 6) / 7 ≤ 32 →
      run (some r) (restFrames seq i (chunks 7 Q)) =
        (none, List.replicate ((Q.length + 6) / 7 - 1) Out.stored ++ [Out.complete (flat r ++ Q)]) := by
  intro n
  induction n using Nat.strongRecOn with
  | ind n ih =>
    intro Q i r hn hQ hseq hlen hlt hst hsum hi hi32
    have hpos : 0 < Q.length := List.length_pos_iff.mpr hQ
    rw [chunks_of_ne_nil 7 (by omega) Q hQ]
    simp only [restFrames]
    have hstep := step_next r i (Q.take 7) (by omega) hi (by omega) (by omega) hlt
    rw [hseq] at hstep
    by_cases hle : Q.length ≤ 7
    · -- last frame
      have htake : Q.take 7 = Q := List.take_of_length_le hle
      have hdrop : Q.drop 7 = [] := List.drop_of_length_le hle
      rw [htake] at hstep
      have hge : r.stored + Q.length ≥ r.len := by omega
      simp only [hge, if_true] at hstep
      rw [htake, hdrop, chunks_nil]
      simp only [restFrames]
      rw [run_cons_complete _ _ _ _ _ hstep]
      have h0 : (Q.length + 6) / 7 - 1 = 0 := by omega
      rw [h0]
      simp only [run, List.replicate_zero, List.nil_append, combined, List.map_append,
        List.map_cons, List.map_nil, List.flatten_append, List.flatten_cons, List.flatten_nil,
        List.append_nil]
      have hl : ((r.frames.map (·.2)).flatten ++ Q).length ≤ r.len := by
        simp only [List.length_append]
        simp only [flat] at hst
        omega
      rw [List.take_of_length_le hl]
      rfl
    · -- more frames follow
      have hlt7 : ¬ (r.stored + (Q.take 7).length ≥ r.len) := by
        simp only [List.length_take]; omega
      simp only [hlt7, if_false] at hstep
      rw [run_cons_stored _ _ _ _ hstep]
      have hQ' : Q.drop 7 ≠ [] := by
        intro h
        have := congrArg List.length h
        simp only [List.length_drop, List.length_nil] at this
        omega
      have hdl : (Q.drop 7).length = Q.length - 7 := List.length_drop
      have htl : (Q.take 7).length = 7 := by simp only [List.length_take]; omega
      rw [ih (Q.drop 7).length (by omega) (Q.drop 7) (i + 1)
        { len := r.len, seq := seq, stored := r.stored + (Q.take 7).length,
          frames := r.frames ++ [(i, Q.take 7)] } rfl hQ' rfl hlen
        (by
          intro p hp
          simp only [List.mem_append, List.mem_singleton] at hp
          rcases hp with hp | hp
          · have := hlt p hp; omega
          · subst hp; simp)
        (by
          simp only [flat, List.map_append, List.map_cons, List.map_nil, List.flatten_append,
            List.flatten_cons, List.flatten_nil, List.append_nil, List.length_append]
          simp only [flat] at hst
          omega)
        (by simp only []; omega) (by omega) (by omega)]
      have hk : (Q.length + 6) / 7 - 1 = ((Q.drop 7).length + 6) / 7 - 1 + 1 := by omega
      rw [hk, List.replicate_succ]
      simp only [flat, List.map_append, List.map_cons, List.map_nil, List.flatten_append,
        List.flatten_cons, List.flatten_nil, List.append_nil, List.append_assoc,
        List.take_append_drop, List.cons_append]

theorem run_frames_new (seq : Nat) (P : Bytes) (hs : seq < 8) (hP : P.length ≤ 223)
    (r0 : Option Rec) (h0 : startsNew r0 seq (P.length :: P.take 6) = true) :
    run r0 (frames seq P) =
      (none, List.replicate ((frames seq P).length - 1) Out.stored ++ [Out.complete P]) := by
  rw [frames_length]
  simp only [frames]
  have hstep := step_first_new r0 seq hs P.length (P.take 6) h0
  by_cases hle : P.length ≤ 6
  · have htake : P.take 6 = P := List.take_of_length_le hle
    have hdrop : P.drop 6 = [] := List.drop_of_length_le hle
    rw [htake] at hstep
    simp only [ge_iff_le, Nat.le_refl, if_true] at hstep
    rw [htake, hdrop, chunks_nil]
    simp only [restFrames]
    rw [run_cons_complete _ _ _ _ _ hstep]
    have h0 : 1 + (P.length - 6 + 6) / 7 - 1 = 0 := by omega
    rw [h0]
    simp [run, combined]
  · have htl : (P.take 6).length = 6 := by simp only [List.length_take]; omega
    have hlt : ¬ ((P.take 6).length ≥ P.length) := by omega
    simp only [hlt, if_false] at hstep
    rw [run_cons_stored _ _ _ _ hstep]
    have hQ : P.drop 6 ≠ [] := by
      intro h
      have := congrArg List.length h
      simp only [List.length_drop, List.length_nil] at this
      omega
    have hdl : (P.drop 6).length = P.length - 6 := List.length_drop
    rw [run_rest seq P.length hs (P.drop 6).length (P.drop 6) 1
      { len := P.length, seq := seq, stored := (P.take 6).length, frames := [(0, P.take 6)] }
      rfl hQ rfl rfl
      (by intro p hp; simp only [List.mem_singleton] at hp; subst hp; simp)
      (by simp [flat])
      (by simp only []; omega) (by omega) (by omega)]
    have hk : 1 + (P.length - 6 + 6) / 7 - 1 = ((P.drop 6).length + 6) / 7 - 1 + 1 := by omega
    rw [hk, List.replicate_succ]
    simp [flat]

theorem run_frames (seq : Nat) (P : Bytes) (hs : seq < 8) (hP : P.length ≤ 223)
    (r0 : Option Rec) (h0 : ∀ x, r0 = some x → x.seq ≠ seq) :
    run r0 (frames seq P) =
      (none, List.replicate ((frames seq P).length - 1) Out.stored ++ [Out.complete P]) :=
  run_frames_new seq P hs hP r0 (startsNew_of_seq_ne r0 seq _ h0)

/-! ### sequences of messages -/
theorem run_frames_append (seq : Nat) (P : Bytes) (hs : seq < 8) (hP : P.length ≤ 223)
    (rest : List Bytes) :
    run none (frames seq P ++ rest) =
      ((run none rest).1,
        List.replicate ((frames seq P).length - 1) Out.stored ++ Out.complete P :: (run none rest).2) := by
  rw [run_append, run_frames seq P hs hP none (by intro x hx; cases hx)]
  simp

theorem frames_getElem?_succ (seq : Nat) (P : Bytes) (j : Nat) :
    (frames seq P)[j + 1]? =
      if 6 + 7 * j < P.length then some ((seq * 32 + (j + 1)) :: (P.drop (6 + 7 * j)).take 7)
      else none := by
  simp only [frames, List.getElem?_cons_succ, restFrames_getElem?, chunks_getElem? 7 (by omega),
    List.length_drop, List.drop_drop]
  by_cases h : 6 + 7 * j < P.length
  · have h' : 7 * j < P.length - 6 := by omega
    simp only [h, h', if_true, Option.map_some]
    have : 1 + j = j + 1 := by omega
    rw [this]
  · have h' : ¬ 7 * j < P.length - 6 := by omega
    simp only [h, h', if_false, Option.map_none]

end N2k.Fast
