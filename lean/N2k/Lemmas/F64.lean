/-
Facts about the rational model of IEEE binary64 arithmetic in `N2k.Model.Num`:
`pow2`/`pow10` are the usual powers, `ilog2` is ⌊log₂⌋, `rhe` is within 1/2,
`rne` has relative error 2^-53 in the normal range, is odd, monotone and
idempotent, fixes integers up to 2^53, and decode-then-encode of a scaled
integer is the identity (`scale_roundtrip*`).
-/
import N2k.Model.Num
import Mathlib.Algebra.Order.Floor.Ring
import Mathlib.Data.Rat.Floor
import Mathlib.Tactic.Linarith
import Mathlib.Tactic.Positivity
import Mathlib.Tactic.NormNum
import Mathlib.Tactic.Ring
import Mathlib.Tactic.FieldSimp
import Mathlib.Algebra.Order.Field.Power

namespace N2k

/-! ### powers -/

theorem pow2_eq (e : Int) : pow2 e = (2:ℚ) ^ e := by
  unfold pow2
  split_ifs with h
  · obtain ⟨n, rfl⟩ := Int.eq_ofNat_of_zero_le h
    simp
  · obtain ⟨n, rfl⟩ : ∃ n : ℕ, e = -(n:ℤ) := ⟨(-e).toNat, by omega⟩
    simp

theorem pow10_eq (e : Int) : pow10 e = (10:ℚ) ^ e := by
  unfold pow10
  split_ifs with h
  · obtain ⟨n, rfl⟩ := Int.eq_ofNat_of_zero_le h
    simp
  · obtain ⟨n, rfl⟩ : ∃ n : ℕ, e = -(n:ℤ) := ⟨(-e).toNat, by omega⟩
    simp

theorem pow2_pos (e : Int) : 0 < pow2 e := by
  rw [pow2_eq]; positivity

theorem pow10_pos (e : Int) : 0 < pow10 e := by
  rw [pow10_eq]; positivity

theorem pow2_add (a b : Int) : pow2 (a + b) = pow2 a * pow2 b := by
  simp only [pow2_eq]; exact zpow_add₀ (by norm_num) a b

theorem pow2_le_pow2 {a b : Int} (h : a ≤ b) : pow2 a ≤ pow2 b := by
  simp only [pow2_eq]; exact zpow_le_zpow_right₀ (by norm_num) h

theorem pow2_lt_pow2_iff {a b : Int} : pow2 a < pow2 b ↔ a < b := by
  simp only [pow2_eq]; exact zpow_lt_zpow_iff_right₀ (by norm_num)

/-! ### ilog2 -/

private theorem natlog (n : Nat) (hn : n ≠ 0) :
    (2:ℚ)^(Nat.log2 n) ≤ n ∧ (n:ℚ) < 2^(Nat.log2 n + 1) := by
  constructor
  · exact_mod_cast Nat.log2_self_le hn
  · exact_mod_cast Nat.lt_log2_self (n := n)

theorem ilog2_spec_zpow (q : ℚ) (hq : 0 < q) :
    (2:ℚ) ^ (ilog2 q) ≤ q ∧ q < (2:ℚ) ^ (ilog2 q + 1) := by
  have hn : 0 < q.num := Rat.num_pos.mpr hq
  have hnn : q.num.natAbs ≠ 0 := by omega
  have hd : q.den ≠ 0 := q.den_nz
  obtain ⟨n1, n2⟩ := natlog _ hnn
  obtain ⟨d1, d2⟩ := natlog _ hd
  set a := Nat.log2 q.num.natAbs with ha
  set b := Nat.log2 q.den with hb
  have hqe : q = (q.num.natAbs : ℚ) / (q.den : ℚ) := by
    have : ((q.num.natAbs : ℤ) : ℚ) = (q.num : ℚ) := by
      rw [Int.natAbs_of_nonneg hn.le]
    rw [← Int.cast_natCast, this]; exact (Rat.num_div_den q).symm
  have hdpos : (0:ℚ) < q.den := by exact_mod_cast Nat.pos_of_ne_zero hd
  have two_pos : ∀ k : ℤ, (0:ℚ) < 2 ^ k := fun k => by positivity
  have up : q < (2:ℚ)^((a:ℤ) - b + 1) := by
    rw [hqe, div_lt_iff₀ hdpos]
    calc (q.num.natAbs : ℚ) < 2^(a+1) := n2
      _ = 2^((a:ℤ) - b + 1) * 2^b := by
          rw [← zpow_natCast, ← zpow_natCast, ← zpow_add₀ (by norm_num)]; congr 1; push_cast; ring
      _ ≤ 2^((a:ℤ) - b + 1) * q.den := by
          apply mul_le_mul_of_nonneg_left d1 (two_pos _).le
  have lo : (2:ℚ)^((a:ℤ) - b - 1) ≤ q := by
    rw [hqe, le_div_iff₀ hdpos]
    calc (2:ℚ)^((a:ℤ) - b - 1) * q.den ≤ 2^((a:ℤ) - b - 1) * 2^(b+1) := by
          apply mul_le_mul_of_nonneg_left d2.le (two_pos _).le
      _ = 2^a := by
          rw [← zpow_natCast, ← zpow_natCast, ← zpow_add₀ (by norm_num)]; congr 1; push_cast; ring
      _ ≤ q.num.natAbs := n1
  unfold ilog2
  simp only [pow2_eq, ← ha, ← hb]
  split_ifs with h
  · constructor
    · exact lo
    · have : (a:ℤ) - b - 1 + 1 = (a:ℤ) - b := by ring
      rw [this]; exact h
  · exact ⟨not_lt.mp h, up⟩

theorem ilog2_spec (q : ℚ) (hq : 0 < q) :
    pow2 (ilog2 q) ≤ q ∧ q < pow2 (ilog2 q + 1) := by
  simp only [pow2_eq]; exact ilog2_spec_zpow q hq

/-- `pow2 e ≤ q` gives `e ≤ ilog2 q`; discharges normal-range side conditions. -/
theorem ilog2_ge_of_le (q : ℚ) (e : ℤ) (h : pow2 e ≤ q) : e ≤ ilog2 q := by
  have hq : 0 < q := lt_of_lt_of_le (pow2_pos e) h
  have h2 := (ilog2_spec q hq).2
  have : pow2 e < pow2 (ilog2 q + 1) := lt_of_le_of_lt h h2
  have := pow2_lt_pow2_iff.mp this
  omega

/-- `q < pow2 e` gives `ilog2 q < e`. -/
theorem ilog2_lt_of_lt (q : ℚ) (e : ℤ) (hq : 0 < q) (h : q < pow2 e) : ilog2 q < e := by
  have h1 := (ilog2_spec q hq).1
  exact pow2_lt_pow2_iff.mp (lt_of_le_of_lt h1 h)

theorem ilog2_mono {a b : ℚ} (ha : 0 < a) (h : a ≤ b) : ilog2 a ≤ ilog2 b :=
  ilog2_ge_of_le b _ (le_trans (ilog2_spec a ha).1 h)

/-! ### rhe -/

theorem rhe_err (m : ℚ) : |((rhe m : Int) : ℚ) - m| ≤ 1/2 := by
  have h1 : ((m.floor : Int) : ℚ) ≤ m := Int.floor_le m
  have h2 : m < (m.floor : ℚ) + 1 := Int.lt_floor_add_one m
  simp only [rhe]
  split_ifs <;> (rw [abs_le]; constructor <;> push_cast <;> linarith)

theorem rhe_eq_of_close (y : ℚ) (n : ℤ) (h : |y - n| < 1/2) : rhe y = n := by
  rw [abs_lt] at h
  have hr := rhe_err y
  rw [abs_le] at hr
  have : |(((rhe y : ℤ) : ℚ)) - n| < 1 := by
    rw [abs_lt]; constructor <;> linarith [h.1, h.2, hr.1, hr.2]
  have h2 : |((rhe y - n : ℤ) : ℚ)| < 1 := by push_cast; exact this
  rw [← Int.cast_abs] at h2
  have h3 : |rhe y - n| < 1 := by exact_mod_cast h2
  have := Int.abs_lt_one_iff.mp h3
  omega

theorem rhe_int (n : ℤ) : rhe (n : ℚ) = n := by
  apply rhe_eq_of_close
  simp

theorem rhe_mono {x y : ℚ} (h : x ≤ y) : rhe x ≤ rhe y := by
  by_contra hc
  rw [not_le] at hc
  have hx := abs_le.mp (rhe_err x)
  have hy := abs_le.mp (rhe_err y)
  have h1 : ((rhe y : ℤ) : ℚ) + 1 ≤ rhe x := by exact_mod_cast hc
  have : x = y := by linarith [hx.1, hx.2, hy.1, hy.2]
  subst this
  exact lt_irrefl _ hc

/-! ### rneP: structure -/

theorem rneP_zero (p : ℕ) (emin : ℤ) : rneP p emin 0 = 0 := by simp [rneP]

theorem rneP_of_pos (p : ℕ) (emin : ℤ) {q : ℚ} (hq : 0 < q) :
    rneP p emin q = rnePosP p emin q := by
  simp [rneP, hq.ne', not_lt.mpr hq.le]

theorem rneP_of_neg (p : ℕ) (emin : ℤ) {q : ℚ} (hq : q < 0) :
    rneP p emin q = -rnePosP p emin (-q) := by
  simp [rneP, hq.ne, hq]

theorem rneP_neg (p : ℕ) (emin : ℤ) (q : ℚ) : rneP p emin (-q) = -rneP p emin q := by
  rcases lt_trichotomy q 0 with h | h | h
  · rw [rneP_of_neg p emin h, rneP_of_pos p emin (by linarith : 0 < -q), neg_neg]
  · subst h; simp [rneP_zero]
  · rw [rneP_of_pos p emin h, rneP_of_neg p emin (by linarith : -q < 0), neg_neg]

/-- `rnePosP` in `zpow` form. -/
theorem rnePosP_eq (p : ℕ) (emin : ℤ) (a : ℚ) :
    rnePosP p emin a =
      ((rhe (a / (2:ℚ) ^ (max (ilog2 a) emin - ((p:ℤ) - 1))) : ℤ) : ℚ)
        * (2:ℚ) ^ (max (ilog2 a) emin - ((p:ℤ) - 1)) := by
  simp only [rnePosP, pow2_eq]

theorem rnePosP_err (p : ℕ) (emin : ℤ) (a : ℚ) (ha : 0 < a) (hn : emin ≤ ilog2 a) :
    |rnePosP p emin a - a| ≤ (2:ℚ)^(-(p:ℤ)) * a := by
  obtain ⟨l1, _⟩ := ilog2_spec_zpow a ha
  rw [rnePosP_eq, max_eq_left hn]
  set e := ilog2 a
  set t : ℤ := e - ((p:ℤ) - 1) with ht
  have up : (0:ℚ) < 2^t := by positivity
  have h := rhe_err (a / 2^t)
  have key : ((rhe (a / 2^t) : ℤ) : ℚ) * 2^t - a
        = (((rhe (a / 2^t) : ℤ) : ℚ) - a / 2^t) * 2^t := by
    field_simp
  rw [key, abs_mul, abs_of_pos up]
  calc |((rhe (a / 2^t) : ℤ) : ℚ) - a / 2^t| * 2^t
        ≤ 1/2 * 2^t := by apply mul_le_mul_of_nonneg_right h up.le
    _ = 2^(-(p:ℤ)) * 2^e := by
        rw [show (1/2:ℚ) = 2^(-1:ℤ) by norm_num, ← zpow_add₀ (by norm_num), ← zpow_add₀ (by norm_num)]
        congr 1; rw [ht]; ring
    _ ≤ 2^(-(p:ℤ)) * a := by apply mul_le_mul_of_nonneg_left l1 (by positivity)

theorem rneP_err (p : ℕ) (emin : ℤ) (q : ℚ) (hn : emin ≤ ilog2 |q|) (hq : q ≠ 0) :
    |rneP p emin q - q| ≤ (2:ℚ)^(-(p:ℤ)) * |q| := by
  rcases lt_or_gt_of_ne hq with h | h
  · have := rnePosP_err p emin (-q) (by linarith) (by rwa [abs_of_neg h] at hn)
    rw [rneP_of_neg p emin h, abs_of_neg h]
    have e : -rnePosP p emin (-q) - q = -(rnePosP p emin (-q) - -q) := by ring
    rw [e, abs_neg]; exact this
  · have := rnePosP_err p emin q h (by rwa [abs_of_pos h] at hn)
    rwa [rneP_of_pos p emin h, abs_of_pos h]

/-! ### rneP: representable values, idempotence, monotonicity -/

/-- `x = k · 2^e` with `|k| ≤ 2^p` and `e` at least the subnormal exponent. -/
def IsFloatP (p : ℕ) (emin : ℤ) (x : ℚ) : Prop :=
  ∃ k e : ℤ, |k| ≤ 2 ^ p ∧ emin - ((p:ℤ) - 1) ≤ e ∧ x = (k:ℚ) * pow2 e

theorem rnePosP_form (p : ℕ) (emin : ℤ) (a : ℚ) (ha : 0 < a) :
    ∃ k : ℤ, 0 ≤ k ∧ k ≤ 2 ^ p ∧
      rnePosP p emin a = (k:ℚ) * (2:ℚ) ^ (max (ilog2 a) emin - ((p:ℤ) - 1)) := by
  obtain ⟨_, l2⟩ := ilog2_spec_zpow a ha
  refine ⟨rhe (a / (2:ℚ) ^ (max (ilog2 a) emin - ((p:ℤ) - 1))), ?_, ?_, rnePosP_eq p emin a⟩
  · have : rhe ((0:ℤ):ℚ) ≤ rhe (a / (2:ℚ) ^ (max (ilog2 a) emin - ((p:ℤ) - 1))) := by
      apply rhe_mono; push_cast; positivity
    rwa [rhe_int] at this
  · set E := max (ilog2 a) emin with hE
    have hE1 : ilog2 a + 1 ≤ E + 1 := by have := le_max_left (ilog2 a) emin; omega
    have h1 : a < (2:ℚ) ^ (E + 1) := lt_of_lt_of_le l2 (zpow_le_zpow_right₀ (by norm_num) hE1)
    have up : (0:ℚ) < 2 ^ (E - ((p:ℤ) - 1)) := by positivity
    have h2 : a / (2:ℚ) ^ (E - ((p:ℤ) - 1)) ≤ (((2:ℤ) ^ p : ℤ) : ℚ) := by
      rw [div_le_iff₀ up]
      push_cast
      rw [← zpow_natCast, ← zpow_add₀ (by norm_num)]
      have : (p:ℤ) + (E - ((p:ℤ) - 1)) = E + 1 := by ring
      rw [this]; exact h1.le
    have := rhe_mono h2
    rwa [rhe_int] at this

theorem rnePosP_nonneg (p : ℕ) (emin : ℤ) (a : ℚ) (ha : 0 < a) : 0 ≤ rnePosP p emin a := by
  obtain ⟨k, hk0, _, h⟩ := rnePosP_form p emin a ha
  rw [h]
  have : (0:ℚ) ≤ k := by exact_mod_cast hk0
  positivity

theorem rneP_nonneg (p : ℕ) (emin : ℤ) {q : ℚ} (hq : 0 ≤ q) : 0 ≤ rneP p emin q := by
  rcases hq.eq_or_lt with h | h
  · subst h; rw [rneP_zero]
  · rw [rneP_of_pos p emin h]; exact rnePosP_nonneg p emin q h

theorem rneP_nonpos (p : ℕ) (emin : ℤ) {q : ℚ} (hq : q ≤ 0) : rneP p emin q ≤ 0 := by
  have := rneP_nonneg p emin (by linarith : 0 ≤ -q)
  rw [rneP_neg] at this
  linarith

theorem rneP_isFloatP (p : ℕ) (emin : ℤ) (q : ℚ) : IsFloatP p emin (rneP p emin q) := by
  rcases lt_trichotomy q 0 with h | h | h
  · obtain ⟨k, hk0, hk, hf⟩ := rnePosP_form p emin (-q) (by linarith)
    refine ⟨-k, max (ilog2 (-q)) emin - ((p:ℤ) - 1), ?_, ?_, ?_⟩
    · rw [abs_neg, abs_of_nonneg hk0]; exact hk
    · have := le_max_right (ilog2 (-q)) emin; omega
    · rw [rneP_of_neg p emin h, hf, pow2_eq]; push_cast; ring
  · subst h
    exact ⟨0, emin - ((p:ℤ) - 1), by simp, le_refl _, by simp [rneP_zero]⟩
  · obtain ⟨k, hk0, hk, hf⟩ := rnePosP_form p emin q h
    refine ⟨k, max (ilog2 q) emin - ((p:ℤ) - 1), ?_, ?_, ?_⟩
    · rw [abs_of_nonneg hk0]; exact hk
    · have := le_max_right (ilog2 q) emin; omega
    · rw [rneP_of_pos p emin h, hf, pow2_eq]

private theorem rnePosP_fix_lt (p : ℕ) (emin : ℤ) (k e : ℤ) (hk0 : 0 < k) (hk : k < 2 ^ p)
    (he : emin - ((p:ℤ) - 1) ≤ e) :
    rnePosP p emin ((k:ℚ) * (2:ℚ) ^ e) = (k:ℚ) * (2:ℚ) ^ e := by
  have hkq : (0:ℚ) < k := by exact_mod_cast hk0
  have ha : (0:ℚ) < (k:ℚ) * (2:ℚ) ^ e := by positivity
  obtain ⟨l1, _⟩ := ilog2_spec_zpow _ ha
  rw [rnePosP_eq]
  set a := (k:ℚ) * (2:ℚ) ^ e with hadef
  set L := ilog2 a
  -- L < p + e
  have hL : L < (p:ℤ) + e := by
    have h1 : (2:ℚ) ^ L < (2:ℚ) ^ ((p:ℤ) + e) := by
      calc (2:ℚ) ^ L ≤ a := l1
        _ < (2:ℚ) ^ p * (2:ℚ) ^ e := by
            rw [hadef]
            apply mul_lt_mul_of_pos_right _ (by positivity)
            exact_mod_cast hk
        _ = (2:ℚ) ^ ((p:ℤ) + e) := by
            rw [← zpow_natCast, ← zpow_add₀ (by norm_num)]
    exact (zpow_lt_zpow_iff_right₀ (by norm_num)).mp h1
  set t : ℤ := max L emin - ((p:ℤ) - 1) with ht
  have hte : t ≤ e := by
    have : max L emin ≤ e + ((p:ℤ) - 1) := max_le (by omega) (by omega)
    omega
  obtain ⟨m, hm⟩ : ∃ m : ℕ, e = t + m := ⟨(e - t).toNat, by omega⟩
  have up : (0:ℚ) < 2 ^ t := by positivity
  have hdiv : a / (2:ℚ) ^ t = (((k * 2 ^ m : ℤ)) : ℚ) := by
    rw [hadef, hm, zpow_add₀ (by norm_num), zpow_natCast]
    push_cast
    field_simp
  rw [hdiv, rhe_int, hadef, hm, zpow_add₀ (by norm_num), zpow_natCast]
  push_cast
  ring

theorem rnePosP_fix (p : ℕ) (hp : 1 ≤ p) (emin : ℤ) (k e : ℤ) (hk0 : 0 < k) (hk : k ≤ 2 ^ p)
    (he : emin - ((p:ℤ) - 1) ≤ e) :
    rnePosP p emin ((k:ℚ) * (2:ℚ) ^ e) = (k:ℚ) * (2:ℚ) ^ e := by
  rcases hk.lt_or_eq with h | h
  · exact rnePosP_fix_lt p emin k e hk0 h he
  · obtain ⟨p', rfl⟩ : ∃ p', p = p' + 1 := ⟨p - 1, by omega⟩
    have hrew : (k:ℚ) * (2:ℚ) ^ e = (((2:ℤ) ^ p' : ℤ) : ℚ) * (2:ℚ) ^ (e + 1) := by
      rw [h, zpow_add₀ (by norm_num)]; push_cast; ring
    rw [hrew]
    apply rnePosP_fix_lt
    · positivity
    · exact pow_lt_pow_right₀ (by norm_num) (by omega)
    · omega

theorem rneP_of_isFloatP (p : ℕ) (hp : 1 ≤ p) (emin : ℤ) {x : ℚ} (hx : IsFloatP p emin x) :
    rneP p emin x = x := by
  obtain ⟨k, e, hk, he, rfl⟩ := hx
  rw [pow2_eq]
  have up : (0:ℚ) < 2 ^ e := by positivity
  rcases lt_trichotomy k 0 with h | h | h
  · have hkq : (k:ℚ) < 0 := by exact_mod_cast h
    have hneg : (k:ℚ) * (2:ℚ) ^ e = -(((-k : ℤ) : ℚ) * (2:ℚ) ^ e) := by push_cast; ring
    have hpos : (0:ℚ) < ((-k : ℤ) : ℚ) * (2:ℚ) ^ e := by
      have : (0:ℚ) < ((-k : ℤ) : ℚ) := by push_cast; linarith
      positivity
    rw [hneg, rneP_neg, rneP_of_pos p emin hpos,
      rnePosP_fix p hp emin (-k) e (by omega) (by rw [abs_of_neg h] at hk; exact hk) he]
  · subst h; simp [rneP_zero]
  · have hkq : (0:ℚ) < k := by exact_mod_cast h
    have hpos : (0:ℚ) < (k:ℚ) * (2:ℚ) ^ e := by positivity
    rw [rneP_of_pos p emin hpos,
      rnePosP_fix p hp emin k e h (by rw [abs_of_pos h] at hk; exact hk) he]

theorem rneP_idem (p : ℕ) (hp : 1 ≤ p) (emin : ℤ) (q : ℚ) :
    rneP p emin (rneP p emin q) = rneP p emin q :=
  rneP_of_isFloatP p hp emin (rneP_isFloatP p emin q)

theorem rnePosP_mono (p : ℕ) (hp : 1 ≤ p) (emin : ℤ) {a b : ℚ} (ha : 0 < a) (hab : a ≤ b) :
    rnePosP p emin a ≤ rnePosP p emin b := by
  have hb : 0 < b := lt_of_lt_of_le ha hab
  have hL : ilog2 a ≤ ilog2 b := ilog2_mono ha hab
  have hE : max (ilog2 a) emin ≤ max (ilog2 b) emin := max_le_max hL (le_refl _)
  rcases hE.eq_or_lt with h | h
  · rw [rnePosP_eq, rnePosP_eq, h]
    set t := max (ilog2 b) emin - ((p:ℤ) - 1)
    have up : (0:ℚ) < 2 ^ t := by positivity
    apply mul_le_mul_of_nonneg_right _ up.le
    have : rhe (a / 2 ^ t) ≤ rhe (b / 2 ^ t) :=
      rhe_mono (div_le_div_of_nonneg_right hab up.le)
    exact_mod_cast this
  · -- different binades: rnePosP a ≤ 2^(Ea+1) ≤ 2^Eb ≤ rnePosP b
    obtain ⟨p', rfl⟩ : ∃ p', p = p' + 1 := ⟨p - 1, by omega⟩
    set Ea := max (ilog2 a) emin with hEa
    set Eb := max (ilog2 b) emin with hEb
    have hEbL : Eb = ilog2 b := by
      have h1 : emin ≤ Ea := le_max_right _ _
      rcases max_choice (ilog2 b) emin with h2 | h2
      · exact h2
      · omega
    obtain ⟨ka, _, hka, hfa⟩ := rnePosP_form (p' + 1) emin a ha
    have hcast : (((p' + 1 : ℕ) : ℤ) - 1) = (p' : ℤ) := by push_cast; ring
    rw [hcast] at hfa
    have h1 : rnePosP (p' + 1) emin a ≤ (2:ℚ) ^ (Ea + 1) := by
      rw [hfa]
      have hkq : (ka:ℚ) ≤ (2:ℚ) ^ (p' + 1) := by exact_mod_cast hka
      calc (ka:ℚ) * (2:ℚ) ^ (Ea - p') ≤ (2:ℚ) ^ (p' + 1) * (2:ℚ) ^ (Ea - p') :=
            mul_le_mul_of_nonneg_right hkq (by positivity)
        _ = (2:ℚ) ^ (Ea + 1) := by
            rw [← zpow_natCast, ← zpow_add₀ (by norm_num)]; congr 1; push_cast; ring
    have h2 : (2:ℚ) ^ (Ea + 1) ≤ (2:ℚ) ^ Eb := zpow_le_zpow_right₀ (by norm_num) (by omega)
    have h3 : (2:ℚ) ^ Eb ≤ rnePosP (p' + 1) emin b := by
      rw [rnePosP_eq, ← hEb, hcast]
      have up : (0:ℚ) < 2 ^ (Eb - (p':ℤ)) := by positivity
      have hl : (2:ℚ) ^ Eb ≤ b := by rw [hEbL]; exact (ilog2_spec_zpow b hb).1
      have h4 : (((2:ℤ) ^ p' : ℤ) : ℚ) ≤ b / 2 ^ (Eb - (p':ℤ)) := by
        rw [le_div_iff₀ up]
        push_cast
        rw [← zpow_natCast, ← zpow_add₀ (by norm_num)]
        have : (p':ℤ) + (Eb - p') = Eb := by ring
        rw [this]; exact hl
      have h5 := rhe_mono h4
      rw [rhe_int] at h5
      have h6 : ((2:ℚ) ^ p') ≤ ((rhe (b / 2 ^ (Eb - (p':ℤ))) : ℤ) : ℚ) := by exact_mod_cast h5
      calc (2:ℚ) ^ Eb = (2:ℚ) ^ p' * (2:ℚ) ^ (Eb - (p':ℤ)) := by
            rw [← zpow_natCast, ← zpow_add₀ (by norm_num)]; congr 1; ring
        _ ≤ _ := mul_le_mul_of_nonneg_right h6 up.le
    linarith

theorem rneP_mono (p : ℕ) (hp : 1 ≤ p) (emin : ℤ) {a b : ℚ} (hab : a ≤ b) :
    rneP p emin a ≤ rneP p emin b := by
  rcases le_total 0 a with ha | ha
  · rcases ha.eq_or_lt with h | h
    · subst h; rw [rneP_zero]; exact rneP_nonneg p emin hab
    · rw [rneP_of_pos p emin h, rneP_of_pos p emin (lt_of_lt_of_le h hab)]
      exact rnePosP_mono p hp emin h hab
  · rcases le_total 0 b with hb | hb
    · exact le_trans (rneP_nonpos p emin ha) (rneP_nonneg p emin hb)
    · rcases hb.eq_or_lt with h | h
      · subst h; rw [rneP_zero]; exact rneP_nonpos p emin ha
      · have ha' : a < 0 := lt_of_le_of_lt hab h
        rw [rneP_of_neg p emin h, rneP_of_neg p emin ha']
        have := rnePosP_mono p hp emin (by linarith : 0 < -b) (by linarith : -b ≤ -a)
        linarith

/-! ### binary64 -/

theorem rne_zero : rne 0 = 0 := rneP_zero 53 (-1022)

theorem rne_neg (q : ℚ) : rne (-q) = -rne q := rneP_neg 53 (-1022) q

theorem rne_err (q : ℚ) (hn : -1022 ≤ ilog2 |q|) (hq : q ≠ 0) :
    |rne q - q| ≤ pow2 (-53) * |q| := by
  rw [pow2_eq]; exact rneP_err 53 (-1022) q hn hq

theorem rne_nonneg {q : ℚ} (hq : 0 ≤ q) : 0 ≤ rne q := rneP_nonneg 53 (-1022) hq

theorem rne_nonpos {q : ℚ} (hq : q ≤ 0) : rne q ≤ 0 := rneP_nonpos 53 (-1022) hq

theorem rne_mono {a b : ℚ} (h : a ≤ b) : rne a ≤ rne b := rneP_mono 53 (by norm_num) (-1022) h

/-- `x = k · 2^e` with `|k| ≤ 2^53`, `e ≥ -1074`: a binary64 value (overflow not modelled). -/
def IsF64 (x : ℚ) : Prop := ∃ k e : ℤ, |k| ≤ 2 ^ 53 ∧ -1074 ≤ e ∧ x = (k:ℚ) * pow2 e

theorem isF64_iff (x : ℚ) : IsF64 x ↔ IsFloatP 53 (-1022) x := by
  unfold IsF64 IsFloatP
  constructor
  · rintro ⟨k, e, hk, he, hx⟩; exact ⟨k, e, hk, by push_cast; omega, hx⟩
  · rintro ⟨k, e, hk, he, hx⟩; exact ⟨k, e, hk, by push_cast at he; omega, hx⟩

theorem rne_isF64 (q : ℚ) : IsF64 (rne q) := (isF64_iff _).mpr (rneP_isFloatP 53 (-1022) q)

theorem rne_of_isF64 {x : ℚ} (hx : IsF64 x) : rne x = x :=
  rneP_of_isFloatP 53 (by norm_num) (-1022) ((isF64_iff x).mp hx)

theorem rne_idem (q : ℚ) : rne (rne q) = rne q := rne_of_isF64 (rne_isF64 q)

/-- `k · 2^e` with `|k| ≤ 2^53`, `e ≥ -1074` is a fixed point of `rne`. -/
theorem rne_mul_pow2 (k e : ℤ) (hk : |k| ≤ 2 ^ 53) (he : -1074 ≤ e) :
    rne ((k:ℚ) * pow2 e) = (k:ℚ) * pow2 e := rne_of_isF64 ⟨k, e, hk, he, rfl⟩

theorem rne_pow2 (e : ℤ) (he : -1074 ≤ e) : rne (pow2 e) = pow2 e := by
  have := rne_mul_pow2 1 e (by norm_num) he
  simpa using this

theorem rne_int_exact (n : ℤ) (h : |n| ≤ 2 ^ 53) : rne (n : ℚ) = n := by
  have := rne_mul_pow2 n 0 h (by norm_num)
  simpa [pow2_eq] using this

theorem Lit.val_idem (l : Lit) (hf : l.isFloat = true) : rne l.val = l.val := by
  unfold Lit.val; rw [if_pos hf]; exact rne_idem _

/-! ### scaled-integer round trip -/

/-- decode-then-encode of a scaled integer: `round((n*r)/r) = n` for `|n| ≤ 2^48`. -/
theorem scale_roundtrip (n : ℤ) (r : ℚ) (hr : 0 < r) (hn : |(n:ℚ)| ≤ 2^48)
    (h1 : n ≠ 0 → -1022 ≤ ilog2 |(n:ℚ) * r|)
    (h2 : n ≠ 0 → -1022 ≤ ilog2 |rne ((n:ℚ) * r) / r|) :
    rhe (rne (rne ((n:ℚ) * r) / r)) = n := by
  by_cases hz : n = 0
  · subst hz
    simp only [Int.cast_zero, zero_mul, rne_zero, zero_div]
    exact rhe_int 0
  have hnq : (n:ℚ) ≠ 0 := by exact_mod_cast hz
  have hx0 : (n:ℚ) * r ≠ 0 := mul_ne_zero hnq hr.ne'
  have hu0 : pow2 (-53) = (2:ℚ)^(-53:ℤ) := pow2_eq _
  set u : ℚ := pow2 (-53) with hu
  have hu_val : u = 1 / 9007199254740992 := by rw [hu0]; norm_num
  have hu_pos : 0 < u := by rw [hu_val]; norm_num
  have e1 := rne_err ((n:ℚ) * r) (h1 hz) hx0
  set x := rne ((n:ℚ) * r) with hx
  have hxne : x ≠ 0 := by
    intro h0
    rw [h0, zero_sub, abs_neg] at e1
    have : |(n:ℚ) * r| ≤ u * |(n:ℚ) * r| := e1
    have hp : 0 < |(n:ℚ) * r| := abs_pos.mpr hx0
    have hu1 : u < 1 := by rw [hu_val]; norm_num
    nlinarith
  have hy0 : x / r ≠ 0 := div_ne_zero hxne hr.ne'
  have e2 := rne_err (x / r) (h2 hz) hy0
  set y := rne (x / r) with hy
  apply rhe_eq_of_close
  have d1 : |x / r - n| ≤ u * |(n:ℚ)| := by
    have : x / r - n = (x - n * r) / r := by field_simp
    rw [this, abs_div, abs_of_pos hr, div_le_iff₀ hr]
    calc |x - n * r| ≤ u * |(n:ℚ) * r| := e1
      _ = u * |(n:ℚ)| * r := by rw [abs_mul, abs_of_pos hr]; ring
  have d2 : |x / r| ≤ (1 + u) * |(n:ℚ)| := by
    have := abs_sub_abs_le_abs_sub (x / r) (n:ℚ)
    linarith
  have d3 : |y - x / r| ≤ u * ((1 + u) * |(n:ℚ)|) := by
    calc |y - x / r| ≤ u * |x / r| := e2
      _ ≤ u * ((1 + u) * |(n:ℚ)|) := by apply mul_le_mul_of_nonneg_left d2 hu_pos.le
  have tri : |y - n| ≤ |y - x / r| + |x / r - n| := abs_sub_le y (x / r) n
  have habs : 0 ≤ |(n:ℚ)| := abs_nonneg _
  calc |y - n| ≤ |y - x / r| + |x / r - n| := tri
    _ ≤ u * ((1 + u) * |(n:ℚ)|) + u * |(n:ℚ)| := add_le_add d3 d1
    _ = (2 * u + u * u) * |(n:ℚ)| := by ring
    _ ≤ (2 * u + u * u) * 2^48 := by apply mul_le_mul_of_nonneg_left hn (by positivity)
    _ < 1/2 := by rw [hu_val]; norm_num

/-- the two normal-range side conditions of `scale_roundtrip` follow from `2^-1022 ≤ r`. -/
theorem scale_side_conditions (n : ℤ) (r : ℚ) (hr : pow2 (-1022) ≤ r) (hz : n ≠ 0) :
    -1022 ≤ ilog2 |(n:ℚ) * r| ∧ -1022 ≤ ilog2 |rne ((n:ℚ) * r) / r| := by
  have hrpos : 0 < r := lt_of_lt_of_le (pow2_pos _) hr
  have hn1 : (1:ℚ) ≤ |(n:ℚ)| := by
    have : (1:ℤ) ≤ |n| := Int.one_le_abs hz
    exact_mod_cast this
  have hA : pow2 (-1022) ≤ |(n:ℚ) * r| := by
    rw [abs_mul, abs_of_pos hrpos]
    nlinarith
  have c1 : -1022 ≤ ilog2 |(n:ℚ) * r| := ilog2_ge_of_le _ _ hA
  refine ⟨c1, ?_⟩
  have hnq : (n:ℚ) ≠ 0 := by exact_mod_cast hz
  have hx0 : (n:ℚ) * r ≠ 0 := mul_ne_zero hnq hrpos.ne'
  have e1 := rne_err ((n:ℚ) * r) c1 hx0
  have hu_val : pow2 (-53) = 1 / 9007199254740992 := by rw [pow2_eq]; norm_num
  have hsmall : pow2 (-1022) ≤ 1 / 2 := by
    have : pow2 (-1022) ≤ pow2 (-1) := pow2_le_pow2 (by norm_num)
    rw [pow2_eq (-1)] at this
    norm_num at this ⊢
    exact this
  apply ilog2_ge_of_le
  rw [abs_div, abs_of_pos hrpos, le_div_iff₀ hrpos]
  have h3 := abs_sub_abs_le_abs_sub ((n:ℚ) * r) (rne ((n:ℚ) * r))
  rw [abs_sub_comm] at h3
  have h4 : |(n:ℚ) * r| = |(n:ℚ)| * r := by rw [abs_mul, abs_of_pos hrpos]
  rw [hu_val] at e1
  rw [h4] at e1 h3
  have h5 : 0 < |(n:ℚ)| * r := by positivity
  nlinarith

/-- `scale_roundtrip` with a single side condition: the resolution is a normal number. -/
theorem scale_roundtrip_of_normal (n : ℤ) (r : ℚ) (hr : pow2 (-1022) ≤ r)
    (hn : |(n:ℚ)| ≤ 2^48) : rhe (rne (rne ((n:ℚ) * r) / r)) = n :=
  scale_roundtrip n r (lt_of_lt_of_le (pow2_pos _) hr) hn
    (fun hz => (scale_side_conditions n r hr hz).1)
    (fun hz => (scale_side_conditions n r hr hz).2)

/-! ### the same fact in the shape the library uses it -/

theorem mulLit_float (n : ℤ) (res : Lit) (hf : res.isFloat = true) :
    mulLit n res = .flt (rne (rne (n:ℚ) * res.val)) := by
  unfold mulLit; rw [if_pos hf]

theorem pyDiv_flt (x y : ℚ) : pyDiv (.flt x) (.flt y) = rne (rne x / rne y) := rfl

/-- Python `(n * res) / res` for a float literal `res`, with `|n| ≤ 2^48`. -/
theorem pyDiv_mulLit (n : ℤ) (res : Lit) (hf : res.isFloat = true) (hn : |(n:ℚ)| ≤ 2^48) :
    pyDiv (mulLit n res) (.flt res.val) = rne (rne ((n:ℚ) * res.val) / res.val) := by
  have hn53 : |n| ≤ 2 ^ 53 := by
    have : |(n:ℚ)| ≤ 2 ^ 53 := le_trans hn (by norm_num)
    exact_mod_cast this
  rw [mulLit_float n res hf, pyDiv_flt, rne_idem, Lit.val_idem res hf, rne_int_exact n hn53]

/-- `round((n * res) / res) = n` for a positive float literal `res`. -/
theorem scale_roundtrip_lit' (n : ℤ) (res : Lit) (hf : res.isFloat = true) (hr : 0 < res.val)
    (hn : |(n:ℚ)| ≤ 2^48)
    (h1 : n ≠ 0 → -1022 ≤ ilog2 |(n:ℚ) * res.val|)
    (h2 : n ≠ 0 → -1022 ≤ ilog2 |rne ((n:ℚ) * res.val) / res.val|) :
    rhe (pyDiv (mulLit n res) (.flt res.val)) = n := by
  rw [pyDiv_mulLit n res hf hn]
  exact scale_roundtrip n res.val hr hn h1 h2

theorem Lit.val_pos_of_normal (res : Lit) (hf : res.isFloat = true)
    (hres : pow2 (-1022) ≤ res.exact) : pow2 (-1022) ≤ res.val := by
  unfold Lit.val; rw [if_pos hf]
  have := rne_mono hres
  rwa [rne_pow2 _ (by norm_num)] at this

/-- as `scale_roundtrip_lit'`, hypotheses on the exact decimal: positive and normal. -/
theorem scale_roundtrip_lit (n : ℤ) (res : Lit) (hf : res.isFloat = true) (hr : 0 < res.exact)
    (hres : -1022 ≤ ilog2 res.exact) (hn : |(n:ℚ)| ≤ 2^48)
    (h1 : n ≠ 0 → -1022 ≤ ilog2 |(n:ℚ) * res.val|)
    (h2 : n ≠ 0 → -1022 ≤ ilog2 |rne ((n:ℚ) * res.val) / res.val|) :
    rhe (pyDiv (mulLit n res) (.flt res.val)) = n := by
  have hnorm : pow2 (-1022) ≤ res.exact :=
    le_trans (pow2_le_pow2 hres) (ilog2_spec _ hr).1
  have := Lit.val_pos_of_normal res hf hnorm
  exact scale_roundtrip_lit' n res hf (lt_of_lt_of_le (pow2_pos _) this) hn h1 h2

/-- no side conditions beyond: the literal is a normal number and `|n| ≤ 2^48`. -/
theorem scale_roundtrip_lit_of_normal (n : ℤ) (res : Lit) (hf : res.isFloat = true)
    (hres : pow2 (-1022) ≤ res.exact) (hn : |(n:ℚ)| ≤ 2^48) :
    rhe (pyDiv (mulLit n res) (.flt res.val)) = n := by
  rw [pyDiv_mulLit n res hf hn]
  exact scale_roundtrip_of_normal n res.val (Lit.val_pos_of_normal res hf hres) hn

theorem litNum_float (res : Lit) (hf : res.isFloat = true) : litNum res = .flt res.val := by
  unfold litNum; rw [if_pos hf]

/-- integer form of the `|n| ≤ 2^48` hypothesis. -/
theorem abs_cast_le_two_pow (n : ℤ) (k : ℕ) (h : |n| ≤ 2 ^ k) : |(n:ℚ)| ≤ 2 ^ k := by
  exact_mod_cast h

/-! ### binary32 -/

theorem rne32_zero : rne32 0 = 0 := rneP_zero 24 (-126)

theorem rne32_neg (q : ℚ) : rne32 (-q) = -rne32 q := rneP_neg 24 (-126) q

theorem rne32_err (q : ℚ) (hn : -126 ≤ ilog2 |q|) (hq : q ≠ 0) :
    |rne32 q - q| ≤ pow2 (-24) * |q| := by
  rw [pow2_eq]; exact rneP_err 24 (-126) q hn hq

theorem rne32_mono {a b : ℚ} (h : a ≤ b) : rne32 a ≤ rne32 b :=
  rneP_mono 24 (by norm_num) (-126) h

theorem rne32_idem (q : ℚ) : rne32 (rne32 q) = rne32 q := rneP_idem 24 (by norm_num) (-126) q

end N2k
