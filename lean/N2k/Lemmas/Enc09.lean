/-
Helpers for Props/C09Msg.lean: the compiled encoder on an ARBITRARY accepted assignment of field
values — the accumulated integer is the OR of the per-field masked contributions, so reading a
field's range returns that field's own contribution.
-/
import N2k.Lemmas.Enc02
namespace N2k.Enc09
open N2k N2k.Spec N2k.Enc02

/-- the masked contribution of field `f` under the assignment `flds` (0 when the step fails) -/
def val (env : Env) (flds : List Field) (f : FieldDef) : Nat :=
  match f.bitLength, getField flds (fieldId f) with
  | some l, some fld => (match encValue env fld (encKind f l) with | .ok v => ctr v l | .error _ => 0)
  | _, _ => 0

def part (env : Env) (flds : List Field) (f : FieldDef) : Nat × Nat × Nat :=
  (val env flds f, f.bitLength.getD 0, f.bitOffset.getD 0)

/-- the step of `f` succeeds on `flds`, contributing `val` -/
def StepOk (env : Env) (flds : List Field) (f : FieldDef) : Prop :=
  ∃ l o fld v, f.bitLength = some l ∧ f.bitOffset = some o ∧ getField flds (fieldId f) = some fld ∧
    encValue env fld (encKind f l) = .ok v ∧ val env flds f = ctr v l

theorem runSteps_parts (env : Env) (flds : List Field) (p : PgnDef) :
    ∀ (fs : List FieldDef) (a r : Nat),
      (∀ f ∈ fs, ∃ l o, f.bitLength = some l ∧ f.bitOffset = some o) →
      runSteps env flds a (fs.map (encStep p)) = .ok r →
      r = a ||| acc (fs.map (part env flds)) ∧ ∀ f ∈ fs, StepOk env flds f := by
  intro fs
  induction fs with
  | nil =>
    intro a r _ h
    rw [List.map_nil, runSteps] at h
    cases h
    exact ⟨by simp [acc], fun f hf => by cases hf⟩
  | cons f rest ih =>
    intro a r hlay h
    obtain ⟨l, o, hl, ho⟩ := hlay f (List.mem_cons_self ..)
    have hstep : encStep p f = .field (fieldId f) f.name (encKind f l) (2 ^ l - 1) o := by
      simp [encStep, hl, ho]
    rw [List.map_cons, hstep] at h
    obtain ⟨fld, v, hg, hv, hrest⟩ := runSteps_field_ok h
    rw [masked_eq] at hrest
    obtain ⟨hr, hall⟩ := ih _ r (fun g hg' => hlay g (List.mem_cons_of_mem _ hg')) hrest
    have hval : val env flds f = ctr v l := by
      simp only [val, hl, hg, hv]
    refine ⟨?_, ?_⟩
    · have e : acc (List.map (part env flds) (f :: rest)) =
          acc (rest.map (part env flds)) ||| (ctr v l <<< o) := by
        simp only [List.map_cons, part, hl, ho, Option.getD_some, acc, hval]
      rw [hr, e, Nat.or_assoc, Nat.or_comm (_ <<< o)]
    · intro g hg'
      rcases List.mem_cons.mp hg' with rfl | hg''
      · exact ⟨l, o, fld, v, hl, ho, hg, hv, hval⟩
      · exact hall g hg''

theorem disj_parts (env : Env) (flds : List Field) :
    ∀ fs : List FieldDef, rangesDisj fs = true → disj (fs.map (part env flds)) := by
  intro fs
  induction fs with
  | nil => intro _; trivial
  | cons f rest ih =>
    intro h
    rw [rangesDisj, Bool.and_eq_true, List.all_eq_true] at h
    refine ⟨?_, ih h.2⟩
    intro x hx
    obtain ⟨g, hg, rfl⟩ := List.mem_map.mp hx
    have := h.1 g hg
    split at this
    · rename_i o l o' l' e1 e2 e3 e4
      simp only [part, e1, e2, e3, e4, Option.getD_some]
      simpa using this
    · cases this

theorem val_lt (env : Env) (flds : List Field) (f : FieldDef) :
    val env flds f < 2 ^ f.bitLength.getD 0 := by
  unfold val
  split
  · rename_i l fld e1 e2
    split
    · rw [e1]; exact ctr_lt ..
    · exact Nat.two_pow_pos _
  · exact Nat.two_pow_pos _

/-- the integer whose little-endian bytes `runEnc` returns is the accumulated one -/
theorem runEnc_ok {env : Env} {fn : EncFn} {flds : List Field} {bytes : List Nat}
    (h : runEnc env fn flds = .ok bytes) :
    ∃ n, runSteps env flds 0 fn.steps = .ok n ∧ leNat' bytes = n := by
  unfold runEnc at h
  simp only [bind, Except.bind] at h
  cases hr : runSteps env flds 0 fn.steps with
  | error e => rw [hr] at h; cases h
  | ok n =>
    rw [hr] at h
    refine ⟨n, rfl, ?_⟩
    simp only at h
    cases hL : fn.len with
    | some L =>
      rw [hL] at h
      simp only at h
      by_cases hlt : n < 256 ^ L
      · rw [if_pos hlt] at h
        cases h
        rw [leNat'_toLE, Nat.mod_eq_of_lt hlt]
      · rw [if_neg hlt] at h; cases h
    | none =>
      rw [hL] at h
      cases h
      rw [leNat'_toLE, Nat.mod_eq_of_lt]
      rw [pow256]
      exact lt_of_lt_of_le (lt_two_pow_bitLength _) (Nat.pow_le_pow_right (by norm_num) (by omega))

theorem payload_bits (env : Env) (g : List PgnDef) (p : PgnDef)
    (hok : p.fields.all fieldOk = true) (hrd : rangesDisj p.fields = true)
    (flds : List Field) (bytes : List Nat) (henc : runEnc env (compileEnc g p) flds = .ok bytes) :
    ∀ f ∈ p.fields, ∀ o l, f.bitOffset = some o → f.bitLength = some l →
      ∃ fld v, getField flds (fieldId f) = some fld ∧ encValue env fld (encKind f l) = .ok v ∧
        Straight.decode_int (leNat' bytes) o l = ctr v l := by
  obtain ⟨n, hn, hle⟩ := runEnc_ok henc
  rw [List.all_eq_true] at hok
  obtain ⟨hr, hall⟩ := runSteps_parts env flds p p.fields 0 n
    (fun f hf => fieldOk_layout f (hok f hf)) hn
  rw [Nat.zero_or] at hr
  intro f hf o l ho hl
  obtain ⟨l', o', fld, v, hl', ho', hg, hv, hval⟩ := hall f hf
  rw [hl] at hl'; cases hl'
  rw [ho] at ho'; cases ho'
  refine ⟨fld, v, hg, hv, ?_⟩
  have hvs : ∀ x ∈ p.fields.map (part env flds), x.1 < 2 ^ x.2.1 := by
    intro x hx
    obtain ⟨f', -, rfl⟩ := List.mem_map.mp hx
    exact val_lt ..
  have := acc_read _ (disj_parts env flds p.fields hrd) hvs (part env flds f)
    (List.mem_map.mpr ⟨f, hf, rfl⟩)
  simp only [part, ho, hl, Option.getD_some] at this
  rw [hle, hr]
  simpa only [part, hval] using this

end N2k.Enc09
