/- helper lemmas for Props/C20.lean -/
import N2k.Model.Serial
import N2k.Model.Wire
namespace N2k.Serial

/-- arithmetic side goals about list lengths -/
macro "len_omega" : tactic =>
  `(tactic| (try simp only [List.length_append, List.length_cons, List.length_nil,
      List.length_drop] at *; omega))

/-! ### specification of `findMarker` -/

/-- a marker `AA 55` starts at position `i` of `l` -/
def MarkerAt (l : Bytes) (i : Nat) : Prop := l[i]? = some 0xaa ∧ l[i+1]? = some 0x55

theorem markerAt_cons_succ (a : Nat) (l : Bytes) (j : Nat) :
    MarkerAt (a :: l) (j + 1) ↔ MarkerAt l j := by
  simp [MarkerAt]

theorem markerAt_lt {l : Bytes} {i : Nat} (h : MarkerAt l i) : i + 1 < l.length := by
  have := h.2
  rcases Nat.lt_or_ge (i + 1) l.length with h' | h'
  · exact h'
  · rw [List.getElem?_eq_none h'] at this; cases this

theorem findMarker_spec (l : Bytes) :
    match findMarker l with
    | none => ∀ j, ¬ MarkerAt l j
    | some i => MarkerAt l i ∧ ∀ j < i, ¬ MarkerAt l j := by
  fun_induction findMarker l with
  | case1 => intro j h; have := markerAt_lt h; simp at this
  | case2 a => intro j h; have := markerAt_lt h; simp at this
  | case3 a b rest hm =>
    refine ⟨?_, fun j hj => by omega⟩
    simp [MarkerAt, hm.1, hm.2]
  | case4 a b rest hm ih =>
    cases hf : findMarker (b :: rest) with
    | none =>
      rw [hf] at ih
      simp only [Option.map_none]
      intro j
      cases j with
      | zero => intro h; apply hm; simpa [MarkerAt] using h
      | succ j => rw [markerAt_cons_succ]; exact ih j
    | some i =>
      rw [hf] at ih
      simp only [Option.map_some]
      refine ⟨(markerAt_cons_succ a _ i).2 ih.1, ?_⟩
      intro j hj
      cases j with
      | zero => intro h; apply hm; simpa [MarkerAt] using h
      | succ j => rw [markerAt_cons_succ]; exact ih.2 j (by omega)

theorem findMarker_eq_none {l : Bytes} : findMarker l = none ↔ ∀ j, ¬ MarkerAt l j := by
  have := findMarker_spec l
  constructor
  · intro h; rw [h] at this; exact this
  · intro h
    cases hf : findMarker l with
    | none => rfl
    | some i => rw [hf] at this; exact absurd this.1 (h i)

theorem findMarker_eq_some {l : Bytes} {i : Nat} :
    findMarker l = some i ↔ MarkerAt l i ∧ ∀ j < i, ¬ MarkerAt l j := by
  have := findMarker_spec l
  constructor
  · intro h; rw [h] at this; exact this
  · intro ⟨h1, h2⟩
    cases hf : findMarker l with
    | none => rw [hf] at this; exact absurd h1 (this i)
    | some i' =>
      rw [hf] at this
      rcases Nat.lt_trichotomy i i' with h | h | h
      · exact absurd h1 (this.2 i h)
      · rw [h]
      · exact absurd this.1 (h2 i' h)

theorem markerAt_drop (l : Bytes) (k j : Nat) : MarkerAt (l.drop k) j ↔ MarkerAt l (k + j) := by
  simp [MarkerAt, List.getElem?_drop, Nat.add_assoc]

theorem markerAt_append_left {x : Bytes} (y : Bytes) {j : Nat} (h : j + 1 < x.length) :
    MarkerAt (x ++ y) j ↔ MarkerAt x j := by
  simp [MarkerAt, List.getElem?_append_left h, List.getElem?_append_left (Nat.lt_of_succ_lt h)]

/-- dropping a prefix in which no marker starts shifts the first marker -/
theorem findMarker_drop {b : Bytes} {k : Nat} (h : ∀ j < k, ¬ MarkerAt b j) :
    findMarker (b.drop k) = (findMarker b).map (· - k) := by
  cases hf : findMarker b with
  | none =>
    rw [findMarker_eq_none] at hf
    simp only [Option.map_none, findMarker_eq_none]
    intro j; rw [markerAt_drop]; exact hf _
  | some s =>
    rw [findMarker_eq_some] at hf
    have hks : k ≤ s := by
      rcases Nat.lt_or_ge s k with h' | h'
      · exact absurd hf.1 (h s h')
      · exact h'
    simp only [Option.map_some, findMarker_eq_some]
    refine ⟨?_, ?_⟩
    · rw [markerAt_drop]; rw [show k + (s - k) = s by omega]; exact hf.1
    · intro j hj; rw [markerAt_drop]; exact hf.2 _ (by omega)

theorem findMarker_drop_none {l : Bytes} (k : Nat) (h : findMarker l = none) :
    findMarker (l.drop k) = none := by
  rw [findMarker_eq_none] at *
  intro j; rw [markerAt_drop]; exact h _

theorem markerAt_take2 {l : Bytes} {s : Nat} (h : MarkerAt l s) :
    (l.drop s).take 2 = [0xaa, 0x55] := by
  have hlt := markerAt_lt h
  have h1 := h.1
  have h2 := h.2
  rw [List.getElem?_eq_getElem (by omega)] at h1 h2
  rw [List.drop_eq_getElem_cons (by omega), List.drop_eq_getElem_cons (i := s + 1) (by omega)]
  simp only [Option.some.injEq] at h1 h2
  simp [h1, h2]

/-! ### fuel-free semantics of the loop -/

/-- the `while True:` loop without fuel -/
def run (b : Bytes) : Bytes × List Bytes :=
  match findMarker b with
  | none => ((if b.getLast? = some 0xaa then [0xaa] else []), [])
  | some s =>
    if h : s + 20 > b.length then (b.drop s, [])
    else if windowOk ((b.drop s).take 20) = true then
      let r := run (b.drop (s + 20))
      (r.1, (b.drop s).take 20 :: r.2)
    else run (b.drop (s + 2))
termination_by b.length
decreasing_by all_goals (simp only [List.length_drop]; omega)

theorem run_none {b : Bytes} (h : findMarker b = none) :
    run b = ((if b.getLast? = some 0xaa then [0xaa] else []), []) := by
  rw [run, h]

theorem run_short {b : Bytes} {s : Nat} (h : findMarker b = some s) (hl : b.length < s + 20) :
    run b = (b.drop s, []) := by
  rw [run, h]; simp [hl]

theorem run_cut {b : Bytes} {s : Nat} (h : findMarker b = some s) (hl : s + 20 ≤ b.length)
    (hw : windowOk ((b.drop s).take 20) = true) :
    run b = ((run (b.drop (s + 20))).1, (b.drop s).take 20 :: (run (b.drop (s + 20))).2) := by
  rw [run, h]; simp [show ¬ (b.length < s + 20) by omega, hw]

theorem run_skip {b : Bytes} {s : Nat} (h : findMarker b = some s) (hl : s + 20 ≤ b.length)
    (hw : ¬ windowOk ((b.drop s).take 20) = true) :
    run b = run (b.drop (s + 2)) := by
  rw [run, h]; simp [show ¬ (b.length < s + 20) by omega, hw]

/-- every iteration consumes at least two bytes, so half the length (+1) is enough fuel -/
theorem loop_eq_run (fuel : Nat) (b : Bytes) (acc : List Bytes) (h : b.length < 2 * fuel) :
    loop fuel b acc = ((run b).1, acc.reverse ++ (run b).2) := by
  induction fuel generalizing b acc with
  | zero => omega
  | succ n ih =>
    rw [loop]
    cases hf : findMarker b with
    | none => simp [run_none hf]
    | some s =>
      simp only
      by_cases hl : s + 20 > b.length
      · rw [if_pos hl, run_short hf (by omega)]; simp
      · rw [if_neg hl]
        by_cases hw : windowOk ((b.drop s).take 20) = true
        · rw [if_pos hw, run_cut hf (by omega) hw, ih _ _ (by simp only [List.length_drop]; omega)]
          simp
        · rw [if_neg hw, run_skip hf (by omega) hw, ih _ _ (by simp only [List.length_drop]; omega)]

theorem feed_eq_run (buf data : Bytes) : feed buf data = run (buf ++ data) := by
  unfold feed
  simp only
  rw [loop_eq_run _ _ _ (by omega)]
  simp

/-- induction along the iterations of the loop -/
theorem run_induct {P : Bytes → Prop}
    (none : ∀ b, findMarker b = none → P b)
    (short : ∀ b s, findMarker b = some s → b.length < s + 20 → P b)
    (cut : ∀ b s, findMarker b = some s → s + 20 ≤ b.length →
      windowOk ((b.drop s).take 20) = true → P (b.drop (s + 20)) → P b)
    (skip : ∀ b s, findMarker b = some s → s + 20 ≤ b.length →
      ¬ windowOk ((b.drop s).take 20) = true → P (b.drop (s + 2)) → P b) :
    ∀ b, P b := by
  intro b
  induction hn : b.length using Nat.strongRecOn generalizing b with
  | _ n ih =>
    cases hf : findMarker b with
    | none => exact none b hf
    | some s =>
      by_cases hl : b.length < s + 20
      · exact short b s hf hl
      · by_cases hw : windowOk ((b.drop s).take 20) = true
        · exact cut b s hf (by omega) hw
            (ih _ (by subst hn; simp only [List.length_drop]; omega) _ rfl)
        · exact skip b s hf (by omega) hw
            (ih _ (by subst hn; simp only [List.length_drop]; omega) _ rfl)

theorem run_nil : run [] = ([], []) := by
  rw [run_none (by rfl)]; rfl

/-- a prefix in which no marker starts is irrelevant (as long as something is left) -/
theorem run_drop {b : Bytes} {k : Nat} (h : ∀ j < k, ¬ MarkerAt b j) (hk : k < b.length) :
    run (b.drop k) = run b := by
  have hd := findMarker_drop h
  cases hf : findMarker b with
  | none =>
    rw [hf] at hd; simp only [Option.map_none] at hd
    rw [run_none hf, run_none hd, List.getLast?_drop, if_neg (show ¬ b.length ≤ k by omega)]
  | some s =>
    rw [hf] at hd; simp only [Option.map_some] at hd
    have hks : k ≤ s := by
      rcases Nat.lt_or_ge s k with h' | h'
      · exact absurd (findMarker_eq_some.1 hf).1 (h s h')
      · exact h'
    have hwin : ((b.drop k).drop (s - k)).take 20 = (b.drop s).take 20 := by
      rw [List.drop_drop, show k + (s - k) = s by omega]
    by_cases hl : b.length < s + 20
    · rw [run_short hf hl, run_short hd (by simp only [List.length_drop]; omega), List.drop_drop,
        show k + (s - k) = s by omega]
    · by_cases hw : windowOk ((b.drop s).take 20) = true
      · rw [run_cut hf (by omega) hw,
          run_cut hd (by simp only [List.length_drop]; omega) (by rw [hwin]; exact hw),
          List.drop_drop, List.drop_drop, show k + (s - k) = s by omega,
          show k + (s - k + 20) = s + 20 by omega]
      · rw [run_skip hf (by omega) hw,
          run_skip hd (by simp only [List.length_drop]; omega) (by rw [hwin]; exact hw),
          List.drop_drop, show k + (s - k + 2) = s + 2 by omega]

/-! ### bounded buffering, normal buffers, only valid windows -/

theorem run_fst_length (b : Bytes) : (run b).1.length ≤ 19 := by
  induction b using run_induct with
  | none b hf => rw [run_none hf]; split <;> simp
  | short b s hf hl => rw [run_short hf hl]; simp only [List.length_drop]; omega
  | cut b s hf hl hw ih => rw [run_cut hf hl hw]; exact ih
  | skip b s hf hl hw ih => rw [run_skip hf hl hw]; exact ih

theorem run_normal (b : Bytes) : run (run b).1 = ((run b).1, []) := by
  induction b using run_induct with
  | none b hf =>
    rw [run_none hf]
    split
    · rw [run_none (by rfl)]; rfl
    · exact run_nil
  | short b s hf hl =>
    rw [run_short hf hl]
    have hd : findMarker (b.drop s) = some 0 := by
      rw [findMarker_drop (findMarker_eq_some.1 hf).2, hf]; simp
    rw [run_short hd (by simp only [List.length_drop]; omega)]; simp
  | cut b s hf hl hw ih => rw [run_cut hf hl hw]; exact ih
  | skip b s hf hl hw ih => rw [run_skip hf hl hw]; exact ih

theorem run_only_valid (b : Bytes) : ∀ w ∈ (run b).2, windowOk w = true ∧ w.length = 20 := by
  induction b using run_induct with
  | none b hf => rw [run_none hf]; simp
  | short b s hf hl => rw [run_short hf hl]; simp
  | cut b s hf hl hw ih =>
    rw [run_cut hf hl hw]
    intro w hwm
    rcases List.mem_cons.1 hwm with rfl | hwm
    · exact ⟨hw, by simp only [List.length_take, List.length_drop]; omega⟩
    · exact ih w hwm
  | skip b s hf hl hw ih => rw [run_skip hf hl hw]; exact ih

/-! ### segmentation independence -/

theorem findMarker_append_some {x : Bytes} (y : Bytes) {s : Nat} (h : findMarker x = some s) :
    findMarker (x ++ y) = some s := by
  rw [findMarker_eq_some] at *
  have hlt := markerAt_lt h.1
  refine ⟨(markerAt_append_left y hlt).2 h.1, ?_⟩
  intro j hj
  rw [markerAt_append_left y (by omega)]
  exact h.2 j hj

theorem run_append (x y : Bytes) :
    run (x ++ y) = ((run ((run x).1 ++ y)).1, (run x).2 ++ (run ((run x).1 ++ y)).2) := by
  by_cases hy : y = []
  · subst hy; simp [run_normal]
  have hylen : 0 < y.length := List.length_pos_iff.2 hy
  induction x using run_induct with
  | none x hf =>
    rw [run_none hf]
    simp only [List.nil_append]
    have hfree := findMarker_eq_none.1 hf
    split
    · next hlast =>
      obtain ⟨ys, rfl⟩ := List.getLast?_eq_some_iff.1 hlast
      have := run_drop (b := (ys ++ [0xaa]) ++ y) (k := ys.length) (by
        intro j hj
        rw [markerAt_append_left y (by len_omega)]
        exact hfree j) (by len_omega)
      rw [← this]
      simp
    · next hlast =>
      have := run_drop (b := x ++ y) (k := x.length) (by
        intro j hj
        by_cases hj' : j + 1 < x.length
        · rw [markerAt_append_left y hj']; exact hfree j
        · intro hm
          apply hlast
          have h1 := hm.1
          rw [List.getElem?_append_left hj] at h1
          rw [List.getLast?_eq_getElem?, show x.length - 1 = j by omega]
          exact h1) (by len_omega)
      rw [← this]
      simp
  | short x s hf hl =>
    rw [run_short hf hl]
    have hs := findMarker_eq_some.1 hf
    have hlt := markerAt_lt hs.1
    have := run_drop (b := x ++ y) (k := s) (by
      intro j hj
      rw [markerAt_append_left y (by omega)]
      exact hs.2 j hj) (by len_omega)
    rw [← this, List.drop_append_of_le_length (by omega)]
    simp
  | cut x s hf hl hw ih =>
    have hwin : ((x ++ y).drop s).take 20 = (x.drop s).take 20 := by
      rw [List.drop_append_of_le_length (by omega),
        List.take_append_of_le_length (by simp only [List.length_drop]; omega)]
    rw [run_cut (findMarker_append_some y hf) (by len_omega) (by rw [hwin]; exact hw),
      run_cut hf hl hw, hwin, List.drop_append_of_le_length (by omega), ih]
    simp
  | skip x s hf hl hw ih =>
    have hwin : ((x ++ y).drop s).take 20 = (x.drop s).take 20 := by
      rw [List.drop_append_of_le_length (by omega),
        List.take_append_of_le_length (by simp only [List.length_drop]; omega)]
    rw [run_skip (findMarker_append_some y hf) (by len_omega) (by rw [hwin]; exact hw),
      run_skip hf hl hw, List.drop_append_of_le_length (by omega), ih]

theorem feedAll_cons (buf d : Bytes) (ds : List Bytes) :
    feedAll buf (d :: ds)
      = ((feedAll (feed buf d).1 ds).1, (feed buf d).2 ++ (feedAll (feed buf d).1 ds).2) := by
  simp [feedAll]

theorem feedAll_eq_run (buf : Bytes) (reads : List Bytes) (h : run buf = (buf, [])) :
    feedAll buf reads = run (buf ++ reads.flatten) := by
  induction reads generalizing buf with
  | nil => simp [feedAll, h]
  | cons d ds ih =>
    rw [feedAll_cons, feed_eq_run, ih _ (run_normal _), List.flatten_cons, ← List.append_assoc,
      run_append (buf ++ d)]

/-! ### packets -/

/-- a valid packet (same content as `Valid` in `Props/C20.lean`) -/
structure IsPacket (p : Bytes) : Prop where
  len : p.length = 20
  b0 : p[0]? = some 0xaa
  b1 : p[1]? = some 0x55
  inner : findMarker (p.drop 1) = none
  sum : windowOk p = true

theorem isPacket_of {p : Bytes} (len : p.length = 20) (b0 : p.getD 0 0 = 0xaa)
    (b1 : p.getD 1 0 = 0x55) (inner : findMarker (p.drop 1) = none) (sum : windowOk p = true) :
    IsPacket p := by
  refine ⟨len, ?_, ?_, inner, sum⟩
  · match p, len with
    | a :: _, _ => simp at b0; simp [b0]
  · match p, len with
    | _ :: b :: _, _ => simp at b1; simp [b1]

theorem IsPacket.markerAt_zero {p : Bytes} (hp : IsPacket p) (rest : Bytes) :
    MarkerAt (p ++ rest) 0 := by
  constructor
  · rw [List.getElem?_append_left (by have := hp.len; omega)]; exact hp.b0
  · rw [List.getElem?_append_left (by have := hp.len; omega)]; exact hp.b1

/-- the marker of a packet that follows anything -/
theorem IsPacket.markerAt_after {p : Bytes} (hp : IsPacket p) (n rest : Bytes) :
    MarkerAt (n ++ (p ++ rest)) n.length := by
  have := hp.markerAt_zero rest
  constructor
  · rw [List.getElem?_append_right (by omega), Nat.sub_self]; exact this.1
  · rw [List.getElem?_append_right (by omega), show n.length + 1 - n.length = 1 by omega]
    exact this.2

/-- a marker that starts before a packet lies entirely before it (it cannot straddle the boundary: the
packet starts with `AA`, not `55`) -/
theorem IsPacket.marker_before {p : Bytes} (hp : IsPacket p) {n rest : Bytes} {s : Nat}
    (hm : MarkerAt (n ++ (p ++ rest)) s) (hs : s < n.length) : s + 2 ≤ n.length := by
  rcases Nat.lt_or_ge (s + 1) n.length with h | h
  · omega
  · have heq : s + 1 = n.length := by omega
    have h1 := hm.2
    have h2 := (hp.markerAt_after n rest).1
    rw [heq, h2] at h1
    exact absurd h1 (by decide)

theorem run_packet_append {p : Bytes} (hp : IsPacket p) (rest : Bytes) :
    run (p ++ rest) = ((run rest).1, p :: (run rest).2) := by
  have hf : findMarker (p ++ rest) = some 0 :=
    findMarker_eq_some.2 ⟨hp.markerAt_zero rest, fun j hj => by omega⟩
  have hwin : ((p ++ rest).drop 0).take 20 = p := by
    rw [List.drop_zero, List.take_left' hp.len]
  rw [run_cut hf (by have := hp.len; simp; omega) (by rw [hwin]; exact hp.sum), hwin]
  simp only [Nat.zero_add]
  rw [List.drop_left' hp.len]

theorem run_packets_append {ps : List Bytes} (hp : ∀ p ∈ ps, IsPacket p) (t : Bytes) :
    run (ps.flatten ++ t) = ((run t).1, ps ++ (run t).2) := by
  induction ps with
  | nil => simp
  | cons p ps ih =>
    rw [List.flatten_cons, List.append_assoc, run_packet_append (hp p (by simp)),
      ih (fun q hq => hp q (by simp [hq]))]
    simp

theorem run_packets {ps : List Bytes} (hp : ∀ p ∈ ps, IsPacket p) : (run ps.flatten).2 = ps := by
  have := run_packets_append hp []
  simp only [List.append_nil, run_nil] at this
  rw [this]

/-- marker-free noise in front of something that does not start with `55` is skipped -/
theorem run_noise_append {n rest : Bytes} (hn : findMarker n = none)
    (h0 : rest[0]? ≠ some 0x55) (hne : rest ≠ []) : run (n ++ rest) = run rest := by
  have hfree := findMarker_eq_none.1 hn
  have hlen : 0 < rest.length := List.length_pos_iff.2 hne
  have := run_drop (b := n ++ rest) (k := n.length) (by
    intro j hj
    by_cases hj' : j + 1 < n.length
    · rw [markerAt_append_left rest hj']; exact hfree j
    · intro hm
      apply h0
      have h2 := hm.2
      rw [List.getElem?_append_right (by omega), show j + 1 - n.length = 0 by omega] at h2
      exact h2) (by len_omega)
  rw [← this]; simp

theorem IsPacket.head_ne {p : Bytes} (hp : IsPacket p) (rest : Bytes) :
    (p ++ rest)[0]? ≠ some 0x55 ∧ p ++ rest ≠ [] := by
  have h := (hp.markerAt_zero rest).1
  constructor
  · rw [h]; decide
  · intro hnil; rw [hnil] at h; simp at h

theorem run_noise_packet {n p : Bytes} (hn : findMarker n = none) (hp : IsPacket p)
    (rest : Bytes) : run (n ++ p ++ rest) = ((run rest).1, p :: (run rest).2) := by
  rw [List.append_assoc, run_noise_append hn (hp.head_ne rest).1 (hp.head_ne rest).2,
    run_packet_append hp]

theorem run_lossless (segs : List (Bytes × Bytes)) (tail : Bytes)
    (hn : ∀ s ∈ segs, findMarker s.1 = none) (hp : ∀ s ∈ segs, IsPacket s.2)
    (ht : findMarker tail = none) :
    (run ((segs.map (fun s => s.1 ++ s.2)).flatten ++ tail)).2 = segs.map (·.2) := by
  induction segs with
  | nil => simp [run_none ht]
  | cons s segs ih =>
    rw [List.map_cons, List.flatten_cons, List.append_assoc,
      run_noise_packet (hn s (by simp)) (hp s (by simp))]
    simp only [List.map_cons]
    rw [ih (fun q hq => hn q (by simp [hq])) (fun q hq => hp q (by simp [hq]))]

theorem run_noise_packets {n : Bytes} {ps : List Bytes} (hn : findMarker n = none)
    (hp : ∀ p ∈ ps, IsPacket p) : (run (n ++ ps.flatten)).2 = ps := by
  cases ps with
  | nil => simp [run_none hn]
  | cons p ps =>
    have h1 := hp p (by simp)
    rw [List.flatten_cons, run_noise_append hn (h1.head_ne _).1 (h1.head_ne _).2,
      ← List.flatten_cons, run_packets hp]

/-! ### resynchronisation -/

/-- after arbitrary noise the run of packets is delivered from the second packet on at the latest:
a window that fails its checksum only skips its marker (which lies entirely inside the noise); a window
that passes swallows 20 bytes, i.e. ends inside the first packet at the latest, and what is left of that
packet contains no marker. -/
theorem run_resync (ps : List Bytes) (hp : ∀ p ∈ ps, IsPacket p) (noise : Bytes) :
    ∃ pre, (run (noise ++ ps.flatten)).2 = pre ++ ps.tail ∨
           (run (noise ++ ps.flatten)).2 = pre ++ ps := by
  induction hlen : noise.length using Nat.strongRecOn generalizing noise with
  | _ N ih =>
  subst hlen
  cases ps with
  | nil => exact ⟨(run (noise ++ [].flatten)).2, Or.inr (by simp)⟩
  | cons p ps' =>
    have h1 := hp p (by simp)
    have hps' : ∀ q ∈ ps', IsPacket q := fun q hq => hp q (by simp [hq])
    rw [List.flatten_cons]
    -- there is a marker at the start of the first packet
    have hm := h1.markerAt_after noise ps'.flatten
    have hblen : (noise ++ (p ++ ps'.flatten)).length = noise.length + 20 + ps'.flatten.length := by
      simp [h1.len]; omega
    cases hf : findMarker (noise ++ (p ++ ps'.flatten)) with
    | none => exact absurd hm (findMarker_eq_none.1 hf _)
    | some s =>
      have hs := findMarker_eq_some.1 hf
      have hsle : s ≤ noise.length := by
        rcases Nat.lt_or_ge noise.length s with h' | h'
        · exact absurd hm (hs.2 _ h')
        · exact h'
      by_cases hseq : s = noise.length
      · -- the noise is skipped entirely: everything is delivered
        subst hseq
        refine ⟨[], Or.inr ?_⟩
        have := run_drop (b := noise ++ (p ++ ps'.flatten)) (k := noise.length) hs.2 (by omega)
        rw [← this, List.drop_left' rfl, ← List.flatten_cons, run_packets hp]; simp
      · have hslt : s < noise.length := by omega
        have hs2 := h1.marker_before hs.1 hslt
        by_cases hw : windowOk (((noise ++ (p ++ ps'.flatten)).drop s).take 20) = true
        · rw [run_cut hf (by omega) hw]
          by_cases hin : s + 20 ≤ noise.length
          · -- the window ends inside the noise: recurse
            rw [List.drop_append_of_le_length hin]
            obtain ⟨pre, hpre⟩ := ih _ (by simp only [List.length_drop]; omega)
              (noise.drop (s + 20)) rfl
            rw [List.flatten_cons] at hpre
            refine ⟨(((noise ++ (p ++ ps'.flatten)).drop s).take 20) :: pre, ?_⟩
            rcases hpre with hpre | hpre
            · left; rw [hpre]; simp
            · right; rw [hpre]; simp
          · -- the window ends inside the first packet: the rest of it is marker-free noise
            refine ⟨[((noise ++ (p ++ ps'.flatten)).drop s).take 20], Or.inl ?_⟩
            have hk : s + 20 - noise.length ≤ p.length := by have := h1.len; omega
            rw [List.drop_append, List.drop_eq_nil_of_le (by omega), List.nil_append,
              List.drop_append_of_le_length hk]
            have hfree : findMarker (p.drop (s + 20 - noise.length)) = none := by
              have := findMarker_drop_none (s + 20 - noise.length - 1) h1.inner
              rw [List.drop_drop, show 1 + (s + 20 - noise.length - 1) = s + 20 - noise.length by omega]
                at this
              exact this
            rw [run_noise_packets hfree hps']
            simp
        · -- the window fails its checksum: only the marker is skipped, still inside the noise
          rw [run_skip hf (by omega) hw, List.drop_append_of_le_length hs2]
          obtain ⟨pre, hpre⟩ := ih _ (by simp only [List.length_drop]; omega)
            (noise.drop (s + 2)) rfl
          rw [List.flatten_cons] at hpre
          exact ⟨pre, hpre⟩

/-- a false packet starts at position `k` of the stream (same content as `falsePacketAt` in
`Props/C20.lean`) -/
def FalseAt (s : Bytes) (k : Nat) : Prop :=
  (s.drop k).take 2 = [0xaa, 0x55] ∧ 20 ≤ (s.drop k).length ∧ windowOk ((s.drop k).take 20) = true

/-- if no window that starts in the noise passes the checksum, nothing is lost and nothing is invented -/
theorem run_resync_none (ps : List Bytes) (hp : ∀ p ∈ ps, IsPacket p) (noise : Bytes)
    (hnf : ∀ k, k < noise.length → ¬ FalseAt (noise ++ ps.flatten) k) :
    (run (noise ++ ps.flatten)).2 = ps := by
  induction hlen : noise.length using Nat.strongRecOn generalizing noise with
  | _ N ih =>
  subst hlen
  cases hf : findMarker (noise ++ ps.flatten) with
  | none =>
    cases ps with
    | nil => rw [run_none hf]
    | cons p ps' =>
      rw [List.flatten_cons] at hf
      exact absurd ((hp p (by simp)).markerAt_after noise ps'.flatten) (findMarker_eq_none.1 hf _)
  | some s =>
    have hs := findMarker_eq_some.1 hf
    have hslt := markerAt_lt hs.1
    by_cases hsn : s < noise.length
    · have hs2 : s + 2 ≤ noise.length := by
        cases ps with
        | nil => simp at hslt; omega
        | cons p ps' =>
          rw [List.flatten_cons] at hs
          exact (hp p (by simp)).marker_before hs.1 hsn
      by_cases hl : (noise ++ ps.flatten).length < s + 20
      · cases ps with
        | nil => rw [run_short hf hl]
        | cons p ps' =>
          have := (hp p (by simp)).len
          simp only [List.flatten_cons, List.length_append] at hl
          omega
      · by_cases hw : windowOk (((noise ++ ps.flatten).drop s).take 20) = true
        · exact absurd ⟨markerAt_take2 hs.1, by simp only [List.length_drop]; omega, hw⟩ (hnf s hsn)
        · rw [run_skip hf (by omega) hw, List.drop_append_of_le_length hs2]
          apply ih _ (by simp only [List.length_drop]; omega) (noise.drop (s + 2)) _ rfl
          intro k hk hfa
          apply hnf (s + 2 + k) (by simp only [List.length_drop] at hk; omega)
          unfold FalseAt at *
          rw [← List.drop_append_of_le_length hs2, List.drop_drop] at hfa
          exact hfa
    · -- no marker starts in the noise
      have := run_drop (b := noise ++ ps.flatten) (k := noise.length)
        (fun j hj => hs.2 j (by omega)) (by omega)
      rw [← this, List.drop_left' rfl, run_packets hp]

/-! ### checksum gate -/

theorem decodeUsb_ok_checksum {pkt : Bytes} {f : Wire.Frame} (h : Wire.decodeUsb pkt = .ok f) :
    Straight.checksum pkt = pkt.getD 19 0 := by
  unfold Wire.decodeUsb at h
  split at h
  · split at h
    · cases h
    · split at h
      · cases h
      · simp only at h
        split at h
        · cases h
        · next hc => exact Decidable.not_not.1 hc
  · cases h

end N2k.Serial
