/- helper lemmas for Props/C06Yd.lean: every frame the encoder produces is a non-empty list of bytes, and the
Yacht Devices lines built from them decode to the message's own addressing. -/
import N2k.Lemmas.Enc06
namespace N2k.Enc
open N2k N2k.Dec N2k.Gen N2k.Spec N2k.Straight

/-! ### the fast-packet frames are non-empty lists of bytes -/

theorem frames_bytes (seq : Nat) (P : Bytes) (hs : seq < 8) (hP : P.length ≤ 223) (hb : ∀ b ∈ P, b < 256) :
    ∀ f ∈ Fast.frames seq P, 1 ≤ f.length ∧ ∀ b ∈ f, b < 256 := by
  intro f hf
  obtain ⟨j, hj⟩ := List.getElem?_of_mem hf
  cases j with
  | zero =>
    simp only [Fast.frames, List.getElem?_cons_zero, Option.some.injEq] at hj
    subst hj
    refine ⟨by simp, ?_⟩
    intro b hbm
    simp only [List.mem_cons] at hbm
    rcases hbm with rfl | rfl | hbm
    · omega
    · omega
    · exact hb b (List.mem_of_mem_take hbm)
  | succ j =>
    rw [Fast.frames_getElem?_succ] at hj
    by_cases h : 6 + 7 * j < P.length
    · simp only [h, if_true, Option.some.injEq] at hj
      subst hj
      refine ⟨by simp, ?_⟩
      intro b hbm
      simp only [List.mem_cons] at hbm
      rcases hbm with rfl | hbm
      · omega
      · exact hb b (List.mem_of_mem_drop (List.mem_of_mem_take hbm))
    · simp only [h, if_false] at hj
      cases hj

/-! ### the identifier carries the message's own addressing -/

theorem frameOfId_msg (m : MsgIn) (hp : m.prio < 8) (hs : m.src < 256) (hd : m.dst < 256) (hg : m.pgn < 2 ^ 18)
    (hc : if m.pgn / 256 % 256 < 240 then m.pgn % 256 = 0 else m.dst = 255) (f : Bytes) :
    Wire.frameOfId (frameId m) f = msgFrame m f := by
  rw [← sentFrame_canon m hc f]
  unfold Wire.frameOfId Wire.sentFrame frameId
  by_cases hpf : m.pgn / 256 % 256 < 240
  · have hcan : m.pgn % 256 = 0 := by simpa [hpf] using hc
    rw [N2k.C05_build_parse_pdu1 m.pgn m.src m.dst m.prio hp hs hd hg hpf hcan]
    simp [hpf]
  · rw [N2k.C05_build_parse_pdu2 m.pgn m.src m.dst m.prio hp hs hd hg (by omega)]
    simp [hpf]

theorem frameId_lt (m : MsgIn) (hp : m.prio < 8) (hs : m.src < 256) (hd : m.dst < 256) (hg : m.pgn < 2 ^ 18) :
    frameId m < 2 ^ 32 :=
  Nat.lt_trans (N2k.C05_build_lt m.pgn m.src m.dst m.prio hp hs hd hg) (by decide)

/-- the Yacht Devices lines, with the gateway's tokens prepended and CR LF stripped, decode to the frames -/
theorem yd_lines_decode (m : MsgIn) (hp : m.prio < 8) (hs : m.src < 256) (hd : m.dst < 256) (hg : m.pgn < 2 ^ 18)
    (hc : if m.pgn / 256 % 256 < 240 then m.pgn % 256 = 0 else m.dst = 255)
    (ts dir : List Char) (hts : Wire.validHms ts = true) (hsp : ' ' ∉ ts) (hne : ts ≠ [])
    (hdir : dir = ['R'] ∨ dir = ['T'])
    (frs : List Bytes) (hfr : ∀ f ∈ frs, 1 ≤ f.length ∧ ∀ b ∈ f, b < 256) :
    (frs.map (Wire.encodeYd (frameId m))).map
        (fun l => Wire.decodeYd (ts ++ [' '] ++ dir ++ [' '] ++ l.dropLast.dropLast)) =
      (frs.map (msgFrame m)).map Wire.Res.ok := by
  simp only [List.map_map]
  apply List.map_congr_left
  intro f hf
  simp only [Function.comp]
  rw [Wire.C06_yd_rt (frameId m) f (frameId_lt m hp hs hd hg) (hfr f hf).1 (hfr f hf).2 ts dir hts hsp hne hdir,
    frameOfId_msg m hp hs hd hg hc f]

theorem encodeYd_inv (L : EncLayer) (seq seq' : Nat) (m : MsgIn) (lines : List (List Char))
    (he : encodeYd L seq m = .ok (seq', lines)) :
    ∃ frs, encodeFrames L seq m = .ok (seq', frs) ∧ lines = frs.map (Wire.encodeYd (frameId m)) := by
  unfold encodeYd at he
  cases hF : encodeFrames L seq m with
  | raised => rw [hF] at he; cases he
  | unmodelled => rw [hF] at he; cases he
  | ok r =>
    obtain ⟨s, frs⟩ := r
    rw [hF] at he
    cases he
    exact ⟨frs, rfl, rfl⟩

/-- every frame of an accepted `_encode` call on the shipped-style layer is a non-empty list of bytes,
provided a single-frame payload is not empty -/
theorem encodeFrames_bytes (env : Env) (encFns : List EncFn) (fasts : List FastEntry) (seq seq' : Nat) (m : MsgIn)
    (frs : List Bytes) (hs : seq < 8)
    (h1 : (mkEncLayer env encFns fasts).isFast m.pgn ≠ .fast →
      ∀ B, callEncode (mkEncLayer env encFns fasts) m = .ok B → 1 ≤ B.length)
    (he : encodeFrames (mkEncLayer env encFns fasts) seq m = .ok (seq', frs)) :
    ∀ f ∈ frs, 1 ≤ f.length ∧ ∀ b ∈ f, b < 256 := by
  obtain ⟨_, _, _, B, hB, hcase⟩ := encodeFrames_inv _ seq seq' m frs he
  have hb := callEncode_mk_bytes env encFns fasts m B hB
  rcases hcase with ⟨_, hP, _, hfr⟩ | ⟨hnf, _, _, hfr⟩
  · subst hfr
    exact frames_bytes seq B hs hP hb
  · have := h1 hnf B hB
    subst hfr
    intro f hf
    simp only [List.mem_singleton] at hf
    subst hf
    exact ⟨this, hb⟩

end N2k.Enc
