/- helper lemmas for Props/C11.lean -/
import N2k.Model.Decoder
namespace N2k.Dec

/-! ### the source map -/

theorem lookupSrc_filter_ne (s : List (Nat × IsoName)) (a b : Nat) (h : b ≠ a) :
    lookupSrc (s.filter (·.1 ≠ a)) b = lookupSrc s b := by
  induction s with
  | nil => rfl
  | cons p rest ih =>
    obtain ⟨c, n⟩ := p
    by_cases hc : c = a
    · have hcb : c ≠ b := fun e => h (e.symm.trans hc)
      rw [List.filter_cons_of_neg (by simp [hc]), ih]
      simp [lookupSrc, hcb]
    · rw [List.filter_cons_of_pos (by simp [hc])]
      simp only [lookupSrc, ih]

theorem lookupSrc_setSrc (s : List (Nat × IsoName)) (a b : Nat) (n : IsoName) :
    lookupSrc (setSrc s a n) b = if b = a then some n else lookupSrc s b := by
  by_cases h : b = a
  · subst h; simp [setSrc, lookupSrc]
  · have h' : ¬ a = b := fun e => h e.symm
    rw [if_neg h, setSrc, lookupSrc, if_neg h', lookupSrc_filter_ne s a b h]

theorem lookupSrc_setSrc_self (s : List (Nat × IsoName)) (a : Nat) (n : IsoName) :
    lookupSrc (setSrc s a n) a = some n := by simp [lookupSrc_setSrc]

theorem lookupSrc_setSrc_ne (s : List (Nat × IsoName)) (a b : Nat) (n : IsoName) (h : b ≠ a) :
    lookupSrc (setSrc s a n) b = lookupSrc s b := by simp [lookupSrc_setSrc, h]

/-! ### `IsoName` construction -/

theorem mkIsoName_name (m : Msg) (name : Nat) (n : IsoName) (h : mkIsoName m name = some n) :
    n.name = name := by
  unfold mkIsoName at h
  simp only [Option.bind_eq_bind, Option.pure_def, Option.bind_eq_some_iff] at h
  obtain ⟨_, _, _, _, _, _, _, _, _, _, _, _, _, _, _, _, _, _, _, _, h⟩ := h
  simp only [Option.some.injEq] at h
  rw [← h]

/-! ### the address-claim part of `_call_decode_function` -/

/-- the `claim` computation of `callDecode`, named -/
def claimStep (cfg : Config) (st : State) (i : Input) (m : Msg) (dataInt : Nat) (iso : Option IsoName) :
    Option (State × Option IsoName × Bool) :=
  if m.pgn = isoClaimPgn then
    match lookupSrc st.sources i.src with
    | some old =>
      if old.name = dataInt then some (st, some old, cfg.isoClaimFilter)
      else (mkIsoName m dataInt).map (fun n => ({ st with sources := setSrc st.sources i.src n }, some n, cfg.isoClaimFilter))
    | none => (mkIsoName m dataInt).map (fun n => ({ st with sources := setSrc st.sources i.src n }, some n, cfg.isoClaimFilter))
  else some (st, iso, false)

/-- what one `claimStep` does -/
structure ClaimSpec (st : State) (i : Input) (m : Msg) (dataInt : Nat) (iso : Option IsoName)
    (st1 : State) (iso1 : Option IsoName) : Prop where
  table : st1.table = st.table
  nonclaim : m.pgn ≠ isoClaimPgn → st1 = st ∧ iso1 = iso
  claim : m.pgn = isoClaimPgn →
    ∃ n', iso1 = some n' ∧ lookupSrc st1.sources i.src = some n' ∧ n'.name = dataInt ∧
      ((st1 = st ∧ lookupSrc st.sources i.src = some n') ∨
       (mkIsoName m dataInt = some n' ∧ st1.sources = setSrc st.sources i.src n'))

theorem claimStep_spec (cfg : Config) (st : State) (i : Input) (m : Msg) (dataInt : Nat) (iso : Option IsoName)
    (st1 : State) (iso1 : Option IsoName) (stop : Bool)
    (h : claimStep cfg st i m dataInt iso = some (st1, iso1, stop)) :
    ClaimSpec st i m dataInt iso st1 iso1 := by
  unfold claimStep at h
  by_cases hm : m.pgn = isoClaimPgn
  · have store : ∀ n, mkIsoName m dataInt = some n →
        ClaimSpec st i m dataInt iso { st with sources := setSrc st.sources i.src n } (some n) := by
      intro n hn
      refine ⟨rfl, fun h => absurd hm h, fun _ => ⟨n, rfl, ?_, mkIsoName_name _ _ _ hn, Or.inr ⟨hn, rfl⟩⟩⟩
      simp [lookupSrc_setSrc]
    rw [if_pos hm] at h
    cases hl : lookupSrc st.sources i.src with
    | none =>
      rw [hl] at h
      simp only [Option.map_eq_some_iff] at h
      obtain ⟨n, hn, he⟩ := h
      simp only [Prod.mk.injEq] at he
      obtain ⟨rfl, rfl, _⟩ := he
      exact store n hn
    | some old =>
      rw [hl] at h
      simp only at h
      by_cases ho : old.name = dataInt
      · rw [if_pos ho] at h
        simp only [Option.some.injEq, Prod.mk.injEq] at h
        obtain ⟨rfl, rfl, _⟩ := h
        exact ⟨rfl, fun h => absurd hm h, fun _ => ⟨old, rfl, hl, ho, Or.inl ⟨rfl, hl⟩⟩⟩
      · rw [if_neg ho] at h
        simp only [Option.map_eq_some_iff] at h
        obtain ⟨n, hn, he⟩ := h
        simp only [Prod.mk.injEq] at he
        obtain ⟨rfl, rfl, _⟩ := he
        exact store n hn
  · rw [if_neg hm] at h
    simp only [Option.some.injEq, Prod.mk.injEq] at h
    obtain ⟨rfl, rfl, _⟩ := h
    exact ⟨rfl, fun _ => ⟨rfl, rfl⟩, fun h => absurd h hm⟩

/-- `callDecode` with the claim computation named -/
theorem callDecode_eq (G : GenLayer) (cfg : Config) (st : State) (i : Input) (payload : List Nat)
    (iso : Option IsoName) :
    callDecode G cfg st i payload iso =
      match G.decode i.pgn (leNat payload) with
      | none => (st, .none)
      | some .none => (st, .none)
      | some .raised => (st, .raised)
      | some (.ok m) =>
        match claimStep cfg st i m (leNat payload % 18446744073709551616) iso with
        | none => (st, .raised)
        | some (st1, iso1, stop) =>
          if stop then (st1, .none)
          else
            let id := lower m.id
            if cfg.excludeIds.contains id then (st1, .none)
            else if (!cfg.includeNums.isEmpty || !cfg.includeIds.isEmpty) && !cfg.includeNums.contains i.pgn && !cfg.includeIds.contains id then (st1, .none)
            else
              let hk := if cfg.buildMap then some (hashKey m) else none
              match applyUnits cfg.units m with
              | none => (st1, .raised)
              | some m' =>
                let o : OutMsg := { msg := m', src := i.src, dst := i.dst, prio := i.prio, iso := iso1, hashKey := hk }
                let dumpIt := cfg.dumpOn && ((cfg.dumpNums.isEmpty && cfg.dumpIds.isEmpty) || cfg.dumpNums.contains m.pgn || cfg.dumpIds.contains id)
                (if dumpIt then { st1 with dump := st1.dump ++ [o] } else st1, .msg o) := by
  rfl

theorem callDecode_ok (G : GenLayer) (cfg : Config) (st : State) (i : Input) (payload : List Nat)
    (iso : Option IsoName) (m : Msg) (st1 : State) (iso1 : Option IsoName) (stop : Bool)
    (hd : G.decode i.pgn (leNat payload) = some (.ok m))
    (hc : claimStep cfg st i m (leNat payload % 18446744073709551616) iso = some (st1, iso1, stop)) :
    (callDecode G cfg st i payload iso).1.table = st1.table ∧
    (callDecode G cfg st i payload iso).1.sources = st1.sources ∧
    ∀ o, (callDecode G cfg st i payload iso).2 = .msg o → o.src = i.src ∧ o.iso = iso1 := by
  rw [callDecode_eq, hd]
  simp only
  rw [hc]
  simp only
  split
  · exact ⟨rfl, rfl, fun o h => by cases h⟩
  split
  · exact ⟨rfl, rfl, fun o h => by cases h⟩
  split
  · exact ⟨rfl, rfl, fun o h => by cases h⟩
  split
  · exact ⟨rfl, rfl, fun o h => by cases h⟩
  · refine ⟨?_, ?_, ?_⟩
    · split <;> rfl
    · split <;> rfl
    · intro o h
      simp only [Out.msg.injEq] at h
      subst h
      exact ⟨rfl, rfl⟩

/-- the result of `callDecode`, relationally: either nothing was decoded to a message and the state is
unchanged, or a message `m` was decoded, the claim computation gave `(st1, iso1)`, the final state
differs from `st1` at most in the dump, and a returned message carries `iso1` and the input's source -/
theorem callDecode_spec (G : GenLayer) (cfg : Config) (st : State) (i : Input) (payload : List Nat)
    (iso : Option IsoName) :
    ((callDecode G cfg st i payload iso).1 = st ∧ ∀ o, (callDecode G cfg st i payload iso).2 ≠ .msg o) ∨
    ∃ m st1 iso1, G.decode i.pgn (leNat payload) = some (.ok m) ∧
      ClaimSpec st i m (leNat payload % 18446744073709551616) iso st1 iso1 ∧
      (callDecode G cfg st i payload iso).1.table = st1.table ∧
      (callDecode G cfg st i payload iso).1.sources = st1.sources ∧
      ∀ o, (callDecode G cfg st i payload iso).2 = .msg o → o.src = i.src ∧ o.iso = iso1 := by
  cases hd : G.decode i.pgn (leNat payload) with
  | none => rw [callDecode_eq, hd]; exact Or.inl ⟨rfl, fun o h => by cases h⟩
  | some r =>
    cases r with
    | none => rw [callDecode_eq, hd]; exact Or.inl ⟨rfl, fun o h => by cases h⟩
    | raised => rw [callDecode_eq, hd]; exact Or.inl ⟨rfl, fun o h => by cases h⟩
    | ok m =>
      cases hc : claimStep cfg st i m (leNat payload % 18446744073709551616) iso with
      | none => rw [callDecode_eq, hd]; simp only; rw [hc]; exact Or.inl ⟨rfl, fun o h => by cases h⟩
      | some r =>
        obtain ⟨st1, iso1, stop⟩ := r
        exact Or.inr ⟨m, st1, iso1, rfl, claimStep_spec _ _ _ _ _ _ _ _ _ hc,
          callDecode_ok G cfg st i payload iso m st1 iso1 stop hd hc⟩

/-! ### `_decode` -/

/-- the `pre` computation of `step`, named -/
def preOf (cfg : Config) (st : State) (i : Input) : Option (Option IsoName) :=
  if i.pgn ≠ isoClaimPgn then
    if cfg.excludeNums.contains i.pgn then none
    else if !cfg.includeNums.isEmpty && cfg.includeIds.isEmpty && !cfg.includeNums.contains i.pgn then none
    else
      match lookupSrc st.sources i.src with
      | none => if cfg.buildMap && i.inWindow then none else some none
      | some iso => if manuPasses cfg iso then some (some iso) else none
  else some none

theorem preOf_claim (cfg : Config) (st : State) (i : Input) (h : i.pgn = isoClaimPgn) :
    preOf cfg st i = some none := by
  simp [preOf, h]

theorem preOf_nonclaim (cfg : Config) (st : State) (i : Input) (iso : Option IsoName)
    (hne : i.pgn ≠ isoClaimPgn) (h : preOf cfg st i = some iso) :
    iso = lookupSrc st.sources i.src ∧ ∀ n, iso = some n → manuPasses cfg n = true := by
  unfold preOf at h
  rw [if_pos hne] at h
  split at h
  · cases h
  split at h
  · cases h
  split at h
  · rename_i hl
    split at h
    · cases h
    · cases h; exact ⟨hl.symm, fun n hn => by cases hn⟩
  · rename_i n hl
    split at h
    · rename_i hp
      cases h
      exact ⟨hl.symm, fun n' hn => by cases hn; exact hp⟩
    · cases h

theorem preOf_discovery (cfg : Config) (st : State) (i : Input)
    (hb : cfg.buildMap = true) (hw : i.inWindow = true) (hne : i.pgn ≠ isoClaimPgn)
    (hs : lookupSrc st.sources i.src = none) : preOf cfg st i = none := by
  unfold preOf
  rw [if_pos hne, hs]
  simp [hb, hw]

theorem step_eq (G : GenLayer) (cfg : Config) (st : State) (i : Input) :
    step G cfg st i =
      match preOf cfg st i with
      | none => (st, .none)
      | some iso =>
        match (if i.combined then FastKind.single else G.isFast i.pgn) with
        | .raises => (st, .raised)
        | .unknown => (st, .none)
        | .single => callDecode G cfg st i i.data iso
        | .fast =>
          match Fast.stepK st.table (i.pgn, i.src, i.dst) i.data with
          | (t', o) =>
            match o with
            | .complete payload => callDecode G cfg { st with table := t' } i payload iso
            | .error => ({ st with table := t' }, .raised)
            | _ => ({ st with table := t' }, .none) := by
  rfl

/-- a step either leaves the source map alone and returns no message, or it is a `callDecode` on a
state with the same source map -/
theorem step_cases (G : GenLayer) (cfg : Config) (st : State) (i : Input) :
    ((step G cfg st i).1.sources = st.sources ∧ ∀ o, (step G cfg st i).2 ≠ .msg o) ∨
    ∃ iso st' payload, preOf cfg st i = some iso ∧ st'.sources = st.sources ∧
      step G cfg st i = callDecode G cfg st' i payload iso ∧
      (i.combined = true ∨ G.isFast i.pgn = .single → payload = i.data) := by
  rw [step_eq]
  cases hp : preOf cfg st i with
  | none => exact Or.inl ⟨rfl, fun o h => by cases h⟩
  | some iso =>
    simp only
    split
    · exact Or.inl ⟨rfl, fun o h => by cases h⟩
    · exact Or.inl ⟨rfl, fun o h => by cases h⟩
    · exact Or.inr ⟨iso, st, i.data, rfl, rfl, rfl, fun _ => rfl⟩
    · split
      · rename_i hk _ _ _
        refine Or.inr ⟨iso, _, _, rfl, ?_, rfl, ?_⟩
        · rfl
        · intro h
          exfalso
          rcases h with h | h
          · simp [h] at hk
          · by_cases hc : i.combined = true <;> simp [hc, h] at hk
      · exact Or.inl ⟨rfl, fun o h => by cases h⟩
      · exact Or.inl ⟨rfl, fun o h => by cases h⟩

/-- the step, relationally (source map and returned message only) -/
theorem step_spec (G : GenLayer) (cfg : Config) (st : State) (i : Input) :
    ((step G cfg st i).1.sources = st.sources ∧ ∀ o, (step G cfg st i).2 ≠ .msg o) ∨
    ∃ iso st' payload m st1 iso1, preOf cfg st i = some iso ∧ st'.sources = st.sources ∧
      (i.combined = true ∨ G.isFast i.pgn = .single → payload = i.data) ∧
      G.decode i.pgn (leNat payload) = some (.ok m) ∧
      ClaimSpec st' i m (leNat payload % 18446744073709551616) iso st1 iso1 ∧
      (step G cfg st i).1.sources = st1.sources ∧
      ∀ o, (step G cfg st i).2 = .msg o → o.src = i.src ∧ o.iso = iso1 := by
  rcases step_cases G cfg st i with h | ⟨iso, st', payload, hp, hs, he, hpay⟩
  · exact Or.inl h
  · rw [he]
    rcases callDecode_spec G cfg st' i payload iso with ⟨h1, h2⟩ | ⟨m, st1, iso1, hd, hc, _, hsrc, ho⟩
    · exact Or.inl ⟨by rw [h1, hs], h2⟩
    · exact Or.inr ⟨iso, st', payload, m, st1, iso1, hp, hs, hpay, hd, hc, hsrc, ho⟩

/-! ### one-step facts -/

theorem ClaimSpec.sources_cases {st : State} {i : Input} {m : Msg} {d : Nat} {iso : Option IsoName}
    {st1 : State} {iso1 : Option IsoName} (h : ClaimSpec st i m d iso st1 iso1) :
    st1.sources = st.sources ∨ (m.pgn = isoClaimPgn ∧ ∃ n, st1.sources = setSrc st.sources i.src n) := by
  by_cases hm : m.pgn = isoClaimPgn
  · obtain ⟨n', _, _, _, h' | h'⟩ := h.claim hm
    · exact Or.inl (by rw [h'.1])
    · exact Or.inr ⟨hm, n', h'.2⟩
  · exact Or.inl (by rw [(h.nonclaim hm).1])

theorem step_sources_other (G : GenLayer) (cfg : Config) (st : State) (i : Input) (a : Nat)
    (ha : a ≠ i.src) : lookupSrc (step G cfg st i).1.sources a = lookupSrc st.sources a := by
  rcases step_spec G cfg st i with ⟨h, _⟩ | ⟨iso, st', payload, m, st1, iso1, _, hs, _, _, hc, hsrc, _⟩
  · rw [h]
  · rw [hsrc, ← hs]
    rcases hc.sources_cases with h | ⟨_, n, h⟩
    · rw [h]
    · rw [h, lookupSrc_setSrc_ne _ _ _ _ ha]

theorem step_sources_nonclaim (G : GenLayer) (cfg : Config) (st : State) (i : Input)
    (hG : ∀ pgn d m, G.decode pgn d = some (.ok m) → m.pgn = pgn) (hne : i.pgn ≠ isoClaimPgn) :
    (step G cfg st i).1.sources = st.sources := by
  rcases step_spec G cfg st i with ⟨h, _⟩ | ⟨iso, st', payload, m, st1, iso1, _, hs, _, hd, hc, hsrc, _⟩
  · exact h
  · have hm : m.pgn ≠ isoClaimPgn := by rw [hG _ _ _ hd]; exact hne
    rw [hsrc, (hc.nonclaim hm).1, hs]

/-- `C11_identity` under the hypothesis that the generated layer decodes address-claim frames to
address-claim messages (implied by `∀ pgn d m, G.decode pgn d = some (.ok m) → m.pgn = pgn`);
without it the statement is false, see the report -/
theorem identity_of_claimok (G : GenLayer) (cfg : Config) (st : State) (i : Input) (o : OutMsg)
    (hG : ∀ d m, G.decode isoClaimPgn d = some (.ok m) → m.pgn = isoClaimPgn)
    (h : (step G cfg st i).2 = .msg o) :
    o.src = i.src ∧ o.iso = lookupSrc (step G cfg st i).1.sources i.src := by
  rcases step_spec G cfg st i with ⟨_, h'⟩ | ⟨iso, st', payload, m, st1, iso1, hp, hs, _, hd, hc, hsrc, ho⟩
  · exact absurd h (h' o)
  · obtain ⟨h1, h2⟩ := ho o h
    refine ⟨h1, ?_⟩
    rw [h2, hsrc]
    by_cases hm : m.pgn = isoClaimPgn
    · obtain ⟨n', e1, e2, _⟩ := hc.claim hm
      rw [e1, e2]
    · obtain ⟨e1, e2⟩ := hc.nonclaim hm
      have hne : i.pgn ≠ isoClaimPgn := by
        intro hi
        rw [hi] at hd
        exact hm (hG _ _ hd)
      rw [e1, e2, hs]
      exact (preOf_nonclaim cfg st i iso hne hp).1

theorem identity_of_genok (G : GenLayer) (cfg : Config) (st : State) (i : Input) (o : OutMsg)
    (hG : ∀ pgn d m, G.decode pgn d = some (.ok m) → m.pgn = pgn)
    (h : (step G cfg st i).2 = .msg o) :
    o.src = i.src ∧ o.iso = lookupSrc (step G cfg st i).1.sources i.src :=
  identity_of_claimok G cfg st i o (fun d m hd => hG _ d m hd) h

theorem claimStep_isSome (cfg : Config) (st : State) (i : Input) (m : Msg) (d : Nat) (iso : Option IsoName)
    (n : IsoName) (hm : m.pgn = isoClaimPgn) (hn : mkIsoName m d = some n) :
    ∃ st1 iso1 stop, claimStep cfg st i m d iso = some (st1, iso1, stop) := by
  unfold claimStep
  rw [if_pos hm, hn]
  split
  · split
    · exact ⟨_, _, _, rfl⟩
    · exact ⟨_, _, _, rfl⟩
  · exact ⟨_, _, _, rfl⟩

theorem step_claim_identity (G : GenLayer) (cfg : Config) (st : State) (i : Input) (m : Msg)
    (hp : i.pgn = isoClaimPgn) (hk : G.isFast isoClaimPgn = .single)
    (hd : G.decode i.pgn (leNat i.data) = some (.ok m)) (hm : m.pgn = isoClaimPgn) (n : IsoName)
    (hn : mkIsoName m (leNat i.data % 18446744073709551616) = some n) :
    ∃ n', lookupSrc (step G cfg st i).1.sources i.src = some n' ∧ n'.name = leNat i.data % 18446744073709551616 ∧
      (n' = n ∨ lookupSrc st.sources i.src = some n') := by
  have hstep : step G cfg st i = callDecode G cfg st i i.data none := by
    rw [step_eq, preOf_claim cfg st i hp, hp, hk]
    simp
  obtain ⟨st1, iso1, stop, hc⟩ := claimStep_isSome cfg st i m (leNat i.data % 18446744073709551616) none n hm hn
  obtain ⟨_, hsrc, _⟩ := callDecode_ok G cfg st i i.data none m st1 iso1 stop hd hc
  obtain ⟨n', _, e2, e3, e4⟩ := (claimStep_spec _ _ _ _ _ _ _ _ _ hc).claim hm
  refine ⟨n', by rw [hstep, hsrc, e2], e3, ?_⟩
  rcases e4 with ⟨_, h⟩ | ⟨h, _⟩
  · exact Or.inr h
  · rw [hn] at h
    exact Or.inl (Option.some.inj h).symm

theorem step_manufacturer (G : GenLayer) (cfg : Config) (st : State) (i : Input) (o : OutMsg) (n : IsoName)
    (hne : i.pgn ≠ isoClaimPgn) (hs : lookupSrc st.sources i.src = some n)
    (h : (step G cfg st i).2 = .msg o) : manuPasses cfg n = true := by
  rcases step_spec G cfg st i with ⟨_, h'⟩ | ⟨iso, _, _, _, _, _, hp, _⟩
  · exact absurd h (h' o)
  · obtain ⟨e, hpass⟩ := preOf_nonclaim cfg st i iso hne hp
    exact hpass n (by rw [e, hs])

theorem manuPasses_unknown (cfg : Config) (n : IsoName) (hn : n.manufacturer = none)
    (hi : cfg.includeManu ≠ []) : manuPasses cfg n = false := by
  simp [manuPasses, hn, hi]

theorem step_discovery (G : GenLayer) (cfg : Config) (st : State) (i : Input)
    (hb : cfg.buildMap = true) (hw : i.inWindow = true) (hne : i.pgn ≠ isoClaimPgn)
    (hs : lookupSrc st.sources i.src = none) : step G cfg st i = (st, .none) := by
  rw [step_eq, preOf_discovery cfg st i hb hw hne hs]

/-- a non-claim message carries the identity its source had before the step, which passed the lists -/
theorem step_no_leak (G : GenLayer) (hG : ∀ pgn d m, G.decode pgn d = some (.ok m) → m.pgn = pgn)
    (cfg : Config) (st : State) (i : Input) (o : OutMsg)
    (ho : (step G cfg st i).2 = .msg o) (hne : i.pgn ≠ isoClaimPgn)
    (n : IsoName) (hn : o.iso = some n) : manuPasses cfg n = true := by
  rcases step_spec G cfg st i with ⟨_, h'⟩ | ⟨iso, st', payload, m, st1, iso1, hp, _, _, hd, hc, _, hmsg⟩
  · exact absurd ho (h' o)
  · have hm : m.pgn ≠ isoClaimPgn := by rw [hG _ _ _ hd]; exact hne
    have e : o.iso = iso := by rw [(hmsg o ho).2, (hc.nonclaim hm).2]
    exact (preOf_nonclaim cfg st i iso hne hp).2 n (by rw [← e, hn])

theorem run_cons (G : GenLayer) (cfg : Config) (st : State) (i : Input) (is : List Input) :
    (run G cfg st (i :: is)).2 = (step G cfg st i).2 :: (run G cfg (step G cfg st i).1 is).2 := rfl

theorem run_no_leak (G : GenLayer) (hG : ∀ pgn d m, G.decode pgn d = some (.ok m) → m.pgn = pgn)
    (cfg : Config) (st : State) (h : List Input) (k : Nat) (i : Input) (o : OutMsg)
    (hi : h[k]? = some i) (ho : (run G cfg st h).2[k]? = some (.msg o)) (hne : i.pgn ≠ isoClaimPgn)
    (n : IsoName) (hn : o.iso = some n) : manuPasses cfg n = true := by
  induction h generalizing st k with
  | nil => simp at hi
  | cons j js ih =>
    rw [run_cons] at ho
    cases k with
    | zero =>
      simp only [List.getElem?_cons_zero, Option.some.injEq] at hi ho
      subst hi
      exact step_no_leak G hG cfg st j o ho hne n hn
    | succ k =>
      simp only [List.getElem?_cons_succ] at hi ho
      exact ih _ k hi ho

end N2k.Dec
