/-
Lemma kit turning `&&& >>> <<< |||` on `Nat` into `% / * +` so that `omega` can finish.
Core Lean only.
-/
namespace N2k

theorem and_mask (x n : Nat) (m : Nat) (h : m = 2^n - 1) : x &&& m = x % 2^n := by
  subst h; exact Nat.and_two_pow_sub_one_eq_mod x n

theorem shl_or (a b i : Nat) (h : b < 2^i) : (a <<< i) ||| b = a * 2^i + b := by
  rw [← Nat.shiftLeft_add_eq_or_of_lt h, Nat.shiftLeft_eq]

theorem or_disj (x y k : Nat) (hx : x % 2^k = 0) (hy : y < 2^k) : x ||| y = x + y := by
  have : x = (x / 2^k) <<< k := by
    rw [Nat.shiftLeft_eq]; exact (Nat.div_mul_cancel (Nat.dvd_of_mod_eq_zero hx)).symm
  rw [this, ← Nat.shiftLeft_add_eq_or_of_lt hy]

theorem or8 (x y : Nat) (hx : x % 256 = 0) (hy : y < 256) : x ||| y = x + y := or_disj x y 8 hx hy
theorem or16 (x y : Nat) (hx : x % 65536 = 0) (hy : y < 65536) : x ||| y = x + y := or_disj x y 16 hx hy
theorem or26 (x y : Nat) (hx : x % 67108864 = 0) (hy : y < 67108864) : x ||| y = x + y := or_disj x y 26 hx hy

/-- masks → `%`, shifts → `/` and `*`, OR of disjoint bit-fields → `+` -/
macro "arith_bits" : tactic => `(tactic|
  (try simp only [and_mask _ 8 255 (by decide), and_mask _ 18 262143 (by decide), and_mask _ 3 7 (by decide),
             and_mask _ 2 3 (by decide), and_mask _ 4 15 (by decide), and_mask _ 5 31 (by decide),
             and_mask _ 24 16777215 (by decide),
             Nat.shiftRight_eq_div_pow, Nat.shiftLeft_eq] at *
   try simp (disch := omega) only [or8, or16, or26] at *))

end N2k
