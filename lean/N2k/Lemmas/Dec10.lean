/- helper lemmas for Props/C10.lean -/
import N2k.Model.Decoder
import N2k.Lemmas.Fast04
namespace N2k.Dec
namespace L10

/-! ### local copies of the property's vocabulary (definitionally the same as in Props/C10.lean) -/

def perm (u : UserConfig) (pgn : Nat) (id : String) : Bool :=
  !(nums u.excludePgns).contains pgn && !(ids u.excludePgns).contains (lower id) &&
  (((nums u.includePgns).isEmpty && (ids u.includePgns).isEmpty) ||
    (nums u.includePgns).contains pgn || (ids u.includePgns).contains (lower id))

def unf (u : UserConfig) : UserConfig := { u with excludePgns := [], includePgns := [] }

def vis : Out → Option OutMsg
  | .msg m => some m
  | _ => none

def sel (u : UserConfig) (o : Option OutMsg) : Option OutMsg :=
  o.bind (fun m => if perm u m.msg.pgn m.msg.id then some m else none)

/-! ### `mkConfig`, field by field -/

def fltOf (u : UserConfig) : Bool :=
  (nums u.excludePgns).contains isoClaimPgn || (ids u.excludePgns).contains isoClaimId ||
    ((!(nums u.includePgns).isEmpty || !(ids u.includePgns).isEmpty) &&
      !(nums u.includePgns).contains isoClaimPgn && !(ids u.includePgns).contains isoClaimId)

/-- the configuration `mkConfig u` builds when it does not reject -/
def cfgOf (u : UserConfig) : Config :=
  { excludeNums := if fltOf u then (nums u.excludePgns).filter (· ≠ isoClaimPgn) else nums u.excludePgns
    excludeIds := if fltOf u then (ids u.excludePgns).filter (· ≠ isoClaimId) else ids u.excludePgns
    includeNums := nums u.includePgns, includeIds := ids u.includePgns
    excludeManu := u.excludeManu.map lower, includeManu := u.includeManu.map lower
    units := u.units.map (fun p => (p.1, lower p.2))
    dumpOn := u.dumpOn, dumpNums := nums u.dumpPgns, dumpIds := ids u.dumpPgns
    buildMap := u.buildMap, isoClaimFilter := fltOf u }

theorem mkConfig_some {u : UserConfig} {cfg : Config} (h : mkConfig u = some cfg) : cfg = cfgOf u := by
  unfold mkConfig at h
  split at h
  · cases h
  · exact (Option.some.inj h).symm

/-- the configuration with all PGN filters removed -/
def noFilter (cfg : Config) : Config :=
  { cfg with excludeNums := [], excludeIds := [], includeNums := [], includeIds := [], isoClaimFilter := false }

theorem cfgOf_unf (u : UserConfig) : cfgOf (unf u) = noFilter (cfgOf u) := by
  simp [cfgOf, unf, noFilter, fltOf, nums, ids]

theorem mkConfig_both {u : UserConfig} (h1 : u.excludePgns ≠ []) (h2 : u.includePgns ≠ []) :
    mkConfig u = none := by
  unfold mkConfig
  cases he : u.excludePgns with
  | nil => exact absurd he h1
  | cons a l =>
    cases hi : u.includePgns with
    | nil => exact absurd hi h2
    | cons b l' => simp

theorem step_excluded (G : GenLayer) (cfg : Config) (st : State) (i : Input)
    (hne : i.pgn ≠ isoClaimPgn) (hex : cfg.excludeNums.contains i.pgn = true) :
    step G cfg st i = (st, .none) := by
  unfold step
  simp only [ne_eq, hne, not_false_eq_true, if_true, hex]

/-! ### `callDecode` split into its filter-independent and filter-dependent parts -/

theorem applyUnits_pgn_id {units : List (String × String)} {m m' : Msg}
    (h : applyUnits units m = some m') : m'.pgn = m.pgn ∧ m'.id = m.id := by
  unfold applyUnits at h
  split at h
  · cases h; exact ⟨rfl, rfl⟩
  · cases hm : m.fields.mapM (convertField units) with
    | none => simp [hm] at h
    | some fs =>
      simp only [hm, Option.map_some, Option.some.injEq] at h
      subst h; exact ⟨rfl, rfl⟩

/-- source map and identity after the address-claim handling (no filter involved) -/
def claimCore (srcs : List (Nat × IsoName)) (i : Input) (m : Msg) (d : Nat) (iso : Option IsoName) :
    Option (List (Nat × IsoName) × Option IsoName) :=
  if m.pgn = isoClaimPgn then
    match lookupSrc srcs i.src with
    | some old =>
      if old.name = d then some (srcs, some old)
      else (mkIsoName m d).map (fun n => (setSrc srcs i.src n, some n))
    | none => (mkIsoName m d).map (fun n => (setSrc srcs i.src n, some n))
  else some (srcs, iso)

/-- the filter tests of `callDecode` on a decoded message -/
def blocked (cfg : Config) (i : Input) (m : Msg) : Bool :=
  (decide (m.pgn = isoClaimPgn) && cfg.isoClaimFilter) || cfg.excludeIds.contains (lower m.id) ||
  ((!cfg.includeNums.isEmpty || !cfg.includeIds.isEmpty) && !cfg.includeNums.contains i.pgn &&
    !cfg.includeIds.contains (lower m.id))

/-- the message `callDecode` builds once the filters let it through -/
def outMsg (cfg : Config) (i : Input) (m m' : Msg) (iso1 : Option IsoName) : OutMsg :=
  { msg := m', src := i.src, dst := i.dst, prio := i.prio, iso := iso1,
    hashKey := if cfg.buildMap then some (hashKey m) else none }

def dumpIt (cfg : Config) (m : Msg) : Bool :=
  cfg.dumpOn && ((cfg.dumpNums.isEmpty && cfg.dumpIds.isEmpty) || cfg.dumpNums.contains m.pgn ||
    cfg.dumpIds.contains (lower m.id))

def finish0 (cfg : Config) (st1 : State) (i : Input) (m : Msg) (iso1 : Option IsoName) (stop : Bool) :
    State × Out :=
  if stop then (st1, .none)
  else
    if cfg.excludeIds.contains (lower m.id) then (st1, .none)
    else if (!cfg.includeNums.isEmpty || !cfg.includeIds.isEmpty) && !cfg.includeNums.contains i.pgn &&
        !cfg.includeIds.contains (lower m.id) then (st1, .none)
    else
      match applyUnits cfg.units m with
      | none => (st1, .raised)
      | some m' =>
        (if dumpIt cfg m then { st1 with dump := st1.dump ++ [outMsg cfg i m m' iso1] } else st1,
          .msg (outMsg cfg i m m' iso1))

def finish (cfg : Config) (st1 : State) (i : Input) (m : Msg) (iso1 : Option IsoName) : State × Out :=
  if blocked cfg i m then (st1, .none)
  else
    match applyUnits cfg.units m with
    | none => (st1, .raised)
    | some m' =>
      (if dumpIt cfg m then { st1 with dump := st1.dump ++ [outMsg cfg i m m' iso1] } else st1,
        .msg (outMsg cfg i m m' iso1))

theorem finish0_eq (cfg : Config) (st1 : State) (i : Input) (m : Msg) (iso1 : Option IsoName) :
    finish0 cfg st1 i m iso1 (decide (m.pgn = isoClaimPgn) && cfg.isoClaimFilter) = finish cfg st1 i m iso1 := by
  unfold finish0 finish blocked
  generalize (decide (m.pgn = isoClaimPgn) && cfg.isoClaimFilter) = a
  generalize cfg.excludeIds.contains (lower m.id) = b
  generalize ((!cfg.includeNums.isEmpty || !cfg.includeIds.isEmpty) && !cfg.includeNums.contains i.pgn &&
    !cfg.includeIds.contains (lower m.id)) = c
  cases a <;> cases b <;> cases c <;> rfl

def callDecode' (G : GenLayer) (cfg : Config) (st : State) (i : Input) (payload : List Nat)
    (iso : Option IsoName) : State × Out :=
  match G.decode i.pgn (leNat payload) with
  | none => (st, .none)
  | some .none => (st, .none)
  | some .raised => (st, .raised)
  | some (.ok m) =>
    match claimCore st.sources i m (leNat payload % 18446744073709551616) iso with
    | none => (st, .raised)
    | some (s1, iso1) => finish cfg { st with sources := s1 } i m iso1

theorem callDecode_eq (G : GenLayer) (cfg : Config) (st : State) (i : Input) (payload : List Nat)
    (iso : Option IsoName) : callDecode G cfg st i payload iso = callDecode' G cfg st i payload iso := by
  unfold callDecode callDecode'
  cases hd : G.decode i.pgn (leNat payload) with
  | none => rfl
  | some r =>
    cases r with
    | none => rfl
    | raised => rfl
    | ok m =>
      simp only [claimCore, ← finish0_eq]
      by_cases hc : m.pgn = isoClaimPgn
      · simp only [if_pos hc, decide_eq_true hc, Bool.true_and]
        cases hl : lookupSrc st.sources i.src with
        | none =>
          cases hn : mkIsoName m (leNat payload % 18446744073709551616) with
          | none => rfl
          | some n => rfl
        | some old =>
          by_cases hnm : old.name = leNat payload % 18446744073709551616
          · simp only [hnm, if_true]
            rfl
          · simp only [hnm, if_false]
            cases hn : mkIsoName m (leNat payload % 18446744073709551616) with
            | none => rfl
            | some n => rfl
      · simp only [if_neg hc, decide_eq_false hc, Bool.false_and]
        rfl

theorem finish_table (cfg : Config) (st1 : State) (i : Input) (m : Msg) (iso1 : Option IsoName) :
    (finish cfg st1 i m iso1).1.table = st1.table := by
  unfold finish
  split
  · rfl
  · split
    · rfl
    · dsimp only
      split <;> rfl

theorem finish_sources (cfg : Config) (st1 : State) (i : Input) (m : Msg) (iso1 : Option IsoName) :
    (finish cfg st1 i m iso1).1.sources = st1.sources := by
  unfold finish
  split
  · rfl
  · split
    · rfl
    · dsimp only
      split <;> rfl

theorem finish_vis (cfg : Config) (st1 : State) (i : Input) (m : Msg) (iso1 : Option IsoName) :
    vis (finish cfg st1 i m iso1).2 =
      if blocked cfg i m then none else (applyUnits cfg.units m).map (fun m' => outMsg cfg i m m' iso1) := by
  unfold finish
  split
  · rfl
  · split
    · next h => rw [h]; rfl
    · next h => rw [h]; rfl

theorem blocked_noFilter (cfg : Config) (i : Input) (m : Msg) : blocked (noFilter cfg) i m = false := by
  simp [blocked, noFilter]

theorem sel_map_outMsg (u : UserConfig) (cfg : Config) (i : Input) (m : Msg) (iso1 : Option IsoName) :
    sel u ((applyUnits cfg.units m).map (fun m' => outMsg cfg i m m' iso1)) =
      if perm u m.pgn m.id then (applyUnits cfg.units m).map (fun m' => outMsg cfg i m m' iso1) else none := by
  cases h : applyUnits cfg.units m with
  | none => simp [sel]
  | some m' =>
    obtain ⟨h1, h2⟩ := applyUnits_pgn_id h
    simp only [sel, Option.map_some, Option.bind_some, outMsg, h1, h2]

theorem outMsg_noFilter (cfg : Config) (i : Input) (m m' : Msg) (iso1 : Option IsoName) :
    outMsg (noFilter cfg) i m m' iso1 = outMsg cfg i m m' iso1 := rfl

theorem units_noFilter (cfg : Config) : (noFilter cfg).units = cfg.units := rfl

/-- the filtered and the unfiltered `finish` -/
theorem finish_sim (u : UserConfig) (cfg : Config) (stF stU : State) (i : Input) (m : Msg)
    (iso1 : Option IsoName) (hb : blocked cfg i m = !perm u m.pgn m.id) :
    vis (finish cfg stF i m iso1).2 = sel u (vis (finish (noFilter cfg) stU i m iso1).2) := by
  rw [finish_vis, finish_vis, blocked_noFilter, hb]
  simp only [outMsg_noFilter, units_noFilter, Bool.false_eq_true, if_false]
  rw [sel_map_outMsg]
  cases perm u m.pgn m.id <;> rfl

theorem finish_sel_none (u : UserConfig) (cfg : Config) (st : State) (i : Input) (m : Msg)
    (iso1 : Option IsoName) (hp : perm u m.pgn m.id = false) :
    sel u (vis (finish cfg st i m iso1).2) = none := by
  rw [finish_vis]
  split
  · rfl
  · rw [sel_map_outMsg, hp]; rfl

theorem callDecode_table (G : GenLayer) (cfg : Config) (st : State) (i : Input) (p : List Nat)
    (iso : Option IsoName) : (callDecode G cfg st i p iso).1.table = st.table := by
  rw [callDecode_eq]
  unfold callDecode'
  split
  · rfl
  · rfl
  · rfl
  · split
    · rfl
    · rw [finish_table]

theorem claimCore_nonclaim {srcs : List (Nat × IsoName)} {i : Input} {m : Msg} {d : Nat}
    {iso : Option IsoName} (h : m.pgn ≠ isoClaimPgn) : claimCore srcs i m d iso = some (srcs, iso) := by
  simp [claimCore, h]

theorem callDecode_sources_nonclaim (G : GenLayer) (cfg : Config) (st : State) (i : Input) (p : List Nat)
    (iso : Option IsoName) (h : ∀ m, G.decode i.pgn (leNat p) = some (.ok m) → m.pgn ≠ isoClaimPgn) :
    (callDecode G cfg st i p iso).1.sources = st.sources := by
  rw [callDecode_eq]
  unfold callDecode'
  split
  · rfl
  · rfl
  · rfl
  · next m hd =>
    rw [claimCore_nonclaim (h m hd)]
    simp only [finish_sources]

theorem callDecode_sel_none (G : GenLayer) (u : UserConfig) (cfg : Config) (st : State) (i : Input)
    (p : List Nat) (iso : Option IsoName)
    (h : ∀ m, G.decode i.pgn (leNat p) = some (.ok m) → perm u m.pgn m.id = false) :
    sel u (vis (callDecode G cfg st i p iso).2) = none := by
  rw [callDecode_eq]
  unfold callDecode'
  split
  · rfl
  · rfl
  · rfl
  · next m hd =>
    split
    · rfl
    · exact finish_sel_none u cfg _ i m _ (h m hd)

/-- the filtered and the unfiltered `callDecode` from states with the same source map -/
theorem callDecode_sim (G : GenLayer) (u : UserConfig) (cfg : Config) (stF stU : State) (i : Input)
    (p : List Nat) (iso : Option IsoName) (hs : stF.sources = stU.sources)
    (hb : ∀ m, G.decode i.pgn (leNat p) = some (.ok m) → blocked cfg i m = !perm u m.pgn m.id) :
    (callDecode G cfg stF i p iso).1.sources = (callDecode G (noFilter cfg) stU i p iso).1.sources ∧
    vis (callDecode G cfg stF i p iso).2 = sel u (vis (callDecode G (noFilter cfg) stU i p iso).2) := by
  rw [callDecode_eq, callDecode_eq]
  unfold callDecode'
  cases hd : G.decode i.pgn (leNat p) with
  | none => exact ⟨hs, rfl⟩
  | some r =>
    cases r with
    | none => exact ⟨hs, rfl⟩
    | raised => exact ⟨hs, rfl⟩
    | ok m =>
      dsimp only
      rw [hs]
      cases hc : claimCore stU.sources i m (leNat p % 18446744073709551616) iso with
      | none => exact ⟨hs, rfl⟩
      | some r =>
        obtain ⟨s1, iso1⟩ := r
        dsimp only
        exact ⟨by rw [finish_sources, finish_sources], finish_sim u cfg _ _ i m iso1 (hb m hd)⟩

/-! ### `step` split into the pre-filter and the rest -/

/-- the PGN is dropped by the numeric pre-filters of `step` -/
def pf (cfg : Config) (pgn : Nat) : Bool :=
  decide (pgn ≠ isoClaimPgn) && (cfg.excludeNums.contains pgn ||
    (!cfg.includeNums.isEmpty && cfg.includeIds.isEmpty && !cfg.includeNums.contains pgn))

def preOf (cfg : Config) (srcs : List (Nat × IsoName)) (i : Input) : Option (Option IsoName) :=
  if i.pgn ≠ isoClaimPgn then
    if cfg.excludeNums.contains i.pgn then none
    else if !cfg.includeNums.isEmpty && cfg.includeIds.isEmpty && !cfg.includeNums.contains i.pgn then none
    else
      match lookupSrc srcs i.src with
      | none => if cfg.buildMap && i.inWindow then none else some none
      | some iso => if manuPasses cfg iso then some (some iso) else none
  else some none

def body (G : GenLayer) (cfg : Config) (st : State) (i : Input) (iso : Option IsoName) : State × Out :=
  match (if i.combined then FastKind.single else G.isFast i.pgn) with
  | .raises => (st, .raised)
  | .unknown => (st, .none)
  | .single => callDecode G cfg st i i.data iso
  | .fast =>
    match (Fast.stepK st.table (i.pgn, i.src, i.dst) i.data).2 with
    | .complete payload =>
      callDecode G cfg { st with table := (Fast.stepK st.table (i.pgn, i.src, i.dst) i.data).1 } i payload iso
    | .error => ({ st with table := (Fast.stepK st.table (i.pgn, i.src, i.dst) i.data).1 }, .raised)
    | _ => ({ st with table := (Fast.stepK st.table (i.pgn, i.src, i.dst) i.data).1 }, .none)

theorem step_eq (G : GenLayer) (cfg : Config) (st : State) (i : Input) :
    step G cfg st i =
      match preOf cfg st.sources i with
      | none => (st, .none)
      | some iso => body G cfg st i iso := rfl

theorem preOf_pf {cfg : Config} {srcs : List (Nat × IsoName)} {i : Input} (h : pf cfg i.pgn = true) :
    preOf cfg srcs i = none := by
  unfold pf at h
  simp only [Bool.and_eq_true, decide_eq_true_eq, Bool.or_eq_true] at h
  obtain ⟨h1, h2⟩ := h
  unfold preOf
  rw [if_pos h1]
  rcases h2 with h2 | h2
  · rw [if_pos h2]
  · split
    · rfl
    · rw [if_pos (by simpa using h2)]

theorem preOf_noFilter {cfg : Config} {srcs : List (Nat × IsoName)} {i : Input} (h : pf cfg i.pgn = false) :
    preOf (noFilter cfg) srcs i = preOf cfg srcs i := by
  unfold preOf
  by_cases hc : i.pgn = isoClaimPgn
  · simp [hc]
  · have hc' : i.pgn ≠ isoClaimPgn := hc
    unfold pf at h
    rw [decide_eq_true hc', Bool.true_and, Bool.or_eq_false_iff] at h
    obtain ⟨h1, h2⟩ := h
    rw [if_pos hc, if_pos hc, h1, h2]
    simp only [noFilter, List.contains_nil, List.isEmpty_nil, Bool.not_true, Bool.false_and,
      Bool.false_eq_true, if_false]
    rfl

open Fast.L04 in
/-- one configuration, a PGN none of whose messages is permitted and which is no address claim:
no visible output, same source map, only the input's own reassembly record may change -/
theorem body_gen (G : GenLayer) (u : UserConfig) (cfg : Config) (st : State) (i : Input)
    (iso : Option IsoName)
    (hnc : ∀ d m, G.decode i.pgn d = some (.ok m) → m.pgn ≠ isoClaimPgn)
    (hp : ∀ d m, G.decode i.pgn d = some (.ok m) → perm u m.pgn m.id = false) :
    (body G cfg st i iso).1.sources = st.sources ∧ sel u (vis (body G cfg st i iso).2) = none ∧
    ∀ k : Fast.Key, k ≠ (i.pgn, i.src, i.dst) →
      Fast.lookup (body G cfg st i iso).1.table k = Fast.lookup st.table k := by
  unfold body
  split
  · exact ⟨rfl, rfl, fun _ _ => rfl⟩
  · exact ⟨rfl, rfl, fun _ _ => rfl⟩
  · exact ⟨callDecode_sources_nonclaim G cfg st i _ iso (fun m => hnc _ m),
      callDecode_sel_none G u cfg st i _ iso (fun m => hp _ m),
      fun _ _ => by rw [callDecode_table]⟩
  · have ht : ∀ k : Fast.Key, k ≠ (i.pgn, i.src, i.dst) →
        Fast.lookup (Fast.stepK st.table (i.pgn, i.src, i.dst) i.data).1 k = Fast.lookup st.table k := by
      intro k hk
      rw [lookup_stepK, if_neg hk]
    split
    · exact ⟨callDecode_sources_nonclaim G cfg _ i _ iso (fun m => hnc _ m),
        callDecode_sel_none G u cfg _ i _ iso (fun m => hp _ m),
        fun k hk => by rw [callDecode_table]; exact ht k hk⟩
    · exact ⟨rfl, rfl, ht⟩
    · exact ⟨rfl, rfl, ht⟩

open Fast.L04 in
/-- filtered against unfiltered on a PGN that passes the numeric pre-filters -/
theorem body_sim (G : GenLayer) (u : UserConfig) (cfg : Config) (stF stU : State) (i : Input)
    (iso : Option IsoName) (hs : stF.sources = stU.sources)
    (hk : Fast.lookup stF.table (i.pgn, i.src, i.dst) = Fast.lookup stU.table (i.pgn, i.src, i.dst))
    (hb : ∀ p m, G.decode i.pgn (leNat p) = some (.ok m) → blocked cfg i m = !perm u m.pgn m.id) :
    (body G cfg stF i iso).1.sources = (body G (noFilter cfg) stU i iso).1.sources ∧
    vis (body G cfg stF i iso).2 = sel u (vis (body G (noFilter cfg) stU i iso).2) ∧
    ∀ k : Fast.Key, Fast.lookup stF.table k = Fast.lookup stU.table k →
      Fast.lookup (body G cfg stF i iso).1.table k = Fast.lookup (body G (noFilter cfg) stU i iso).1.table k := by
  unfold body
  split
  · exact ⟨hs, rfl, fun _ h => h⟩
  · exact ⟨hs, rfl, fun _ h => h⟩
  · have := callDecode_sim G u cfg stF stU i i.data iso hs (hb _)
    exact ⟨this.1, this.2, fun k h => by rw [callDecode_table, callDecode_table]; exact h⟩
  · have ho : (Fast.stepK stF.table (i.pgn, i.src, i.dst) i.data).2 =
        (Fast.stepK stU.table (i.pgn, i.src, i.dst) i.data).2 := by
      rw [stepK_out, stepK_out, hk]
    have ht : ∀ k : Fast.Key, Fast.lookup stF.table k = Fast.lookup stU.table k →
        Fast.lookup (Fast.stepK stF.table (i.pgn, i.src, i.dst) i.data).1 k =
          Fast.lookup (Fast.stepK stU.table (i.pgn, i.src, i.dst) i.data).1 k := by
      intro k h
      rw [lookup_stepK, lookup_stepK, hk, h]
    rw [ho]
    split
    · next payload _ =>
      have := callDecode_sim G u cfg
        { stF with table := (Fast.stepK stF.table (i.pgn, i.src, i.dst) i.data).1 }
        { stU with table := (Fast.stepK stU.table (i.pgn, i.src, i.dst) i.data).1 } i payload iso hs (hb _)
      exact ⟨this.1, this.2, fun k h => by rw [callDecode_table, callDecode_table]; exact ht k h⟩
    · exact ⟨hs, rfl, ht⟩
    · exact ⟨hs, rfl, ht⟩

/-! ### the simulation -/

/-- same source map, same reassembly records for every stream the filtered decoder does not pre-filter -/
def Rel (cfg : Config) (stF stU : State) : Prop :=
  stF.sources = stU.sources ∧
  ∀ k : Fast.Key, pf cfg k.1 = false → Fast.lookup stF.table k = Fast.lookup stU.table k

/-- what the simulation needs to know about the layer and the configuration -/
structure Hyp (G : GenLayer) (u : UserConfig) (cfg : Config) : Prop where
  pgn_eq : ∀ pgn d m, G.decode pgn d = some (.ok m) → m.pgn = pgn
  pre : ∀ pgn id, pf cfg pgn = true → perm u pgn id = false
  blk : ∀ (i : Input) d m, pf cfg i.pgn = false → G.decode i.pgn d = some (.ok m) →
    blocked cfg i m = !perm u m.pgn m.id

theorem step_sim (G : GenLayer) (u : UserConfig) (cfg : Config) (H : Hyp G u cfg) (stF stU : State)
    (i : Input) (hR : Rel cfg stF stU) :
    Rel cfg (step G cfg stF i).1 (step G (noFilter cfg) stU i).1 ∧
    vis (step G cfg stF i).2 = sel u (vis (step G (noFilter cfg) stU i).2) := by
  obtain ⟨hs, ht⟩ := hR
  rw [step_eq, step_eq]
  cases hpf : pf cfg i.pgn with
  | true =>
    rw [preOf_pf hpf]
    have hnc : i.pgn ≠ isoClaimPgn := by
      intro e
      simp [pf, e] at hpf
    cases hp : preOf (noFilter cfg) stU.sources i with
    | none => exact ⟨⟨hs, ht⟩, rfl⟩
    | some iso =>
      obtain ⟨h1, h2, h3⟩ := body_gen G u (noFilter cfg) stU i iso
        (fun d m hd => by rw [H.pgn_eq _ d m hd]; exact hnc)
        (fun d m hd => by rw [H.pgn_eq _ d m hd]; exact H.pre _ _ hpf)
      refine ⟨⟨hs.trans h1.symm, fun k hk => ?_⟩, h2.symm⟩
      dsimp only
      rw [h3 k (fun e => by rw [e, hpf] at hk; cases hk)]
      exact ht k hk
  | false =>
    rw [preOf_noFilter hpf, hs]
    cases hp : preOf cfg stU.sources i with
    | none => exact ⟨⟨hs, ht⟩, rfl⟩
    | some iso =>
      obtain ⟨h1, h2, h3⟩ := body_sim G u cfg stF stU i iso hs (ht _ hpf)
        (fun p m hd => H.blk i _ m hpf hd)
      exact ⟨⟨h1, fun k hk => h3 k (ht k hk)⟩, h2⟩

theorem run_sim (G : GenLayer) (u : UserConfig) (cfg : Config) (H : Hyp G u cfg) (h : List Input) :
    ∀ (stF stU : State), Rel cfg stF stU →
    ((run G cfg stF h).2.map vis = (run G (noFilter cfg) stU h).2.map (fun o => sel u (vis o))) ∧
    (run G cfg stF h).1.sources = (run G (noFilter cfg) stU h).1.sources := by
  induction h with
  | nil => intro stF stU hR; exact ⟨rfl, hR.1⟩
  | cons i is ih =>
    intro stF stU hR
    obtain ⟨h1, h2⟩ := step_sim G u cfg H stF stU i hR
    obtain ⟨h3, h4⟩ := ih _ _ h1
    simp only [run, List.map_cons]
    exact ⟨by rw [h2, h3], h4⟩

theorem Rel_init (cfg : Config) : Rel cfg {} {} := ⟨rfl, fun _ _ => rfl⟩

/-! ### the configuration built by `mkConfig` satisfies the hypotheses -/

theorem contains_filter_ne {α : Type} [DecidableEq α] (l : List α) (c x : α) (h : x ≠ c) :
    (l.filter (· ≠ c)).contains x = l.contains x := by
  rw [Bool.eq_iff_iff]
  simp [List.mem_filter, h]

theorem exN_contains (u : UserConfig) (pgn : Nat) (h : pgn ≠ isoClaimPgn) :
    (cfgOf u).excludeNums.contains pgn = (nums u.excludePgns).contains pgn := by
  unfold cfgOf
  dsimp only
  split
  · exact contains_filter_ne _ _ _ h
  · rfl

theorem exI_contains (u : UserConfig) (id : String) (h : id ≠ isoClaimId) :
    (cfgOf u).excludeIds.contains id = (ids u.excludePgns).contains id := by
  unfold cfgOf
  dsimp only
  split
  · exact contains_filter_ne _ _ _ h
  · rfl

theorem pre_cfgOf (u : UserConfig) (pgn : Nat) (id : String) (h : pf (cfgOf u) pgn = true) :
    perm u pgn id = false := by
  unfold pf at h
  simp only [Bool.and_eq_true, decide_eq_true_eq, Bool.or_eq_true] at h
  obtain ⟨h1, h2⟩ := h
  rw [exN_contains u pgn h1] at h2
  unfold perm
  rcases h2 with h2 | h2
  · rw [h2]; rfl
  · have e1 : (cfgOf u).includeNums = nums u.includePgns := rfl
    have e2 : (cfgOf u).includeIds = ids u.includePgns := rfl
    rw [e1, e2] at h2
    obtain ⟨⟨a, b⟩, c⟩ := h2
    have b' : ids u.includePgns = [] := by simpa using b
    rw [b'] at *
    generalize (nums u.includePgns).isEmpty = x at *
    generalize (nums u.includePgns).contains pgn = y at *
    cases x <;> cases y <;> simp_all

theorem blk_claim (u : UserConfig) (i : Input) (m : Msg) (hi : i.pgn = isoClaimPgn)
    (hm : m.pgn = isoClaimPgn) (hid : lower m.id = isoClaimId) :
    blocked (cfgOf u) i m = !perm u m.pgn m.id := by
  unfold blocked perm
  rw [hi, hm, hid, decide_eq_true rfl, Bool.true_and]
  have e1 : (cfgOf u).includeNums = nums u.includePgns := rfl
  have e2 : (cfgOf u).includeIds = ids u.includePgns := rfl
  have e3 : (cfgOf u).isoClaimFilter = fltOf u := rfl
  rw [e1, e2, e3]
  cases hf : fltOf u with
  | true =>
    rw [Bool.true_or, Bool.true_or]
    unfold fltOf at hf
    revert hf
    generalize (nums u.excludePgns).contains isoClaimPgn = a
    generalize (ids u.excludePgns).contains isoClaimId = b
    generalize (nums u.includePgns).isEmpty = c
    generalize (ids u.includePgns).isEmpty = d
    generalize (nums u.includePgns).contains isoClaimPgn = e
    generalize (ids u.includePgns).contains isoClaimId = f
    cases a <;> cases b <;> cases c <;> cases d <;> cases e <;> cases f <;> simp
  | false =>
    have e4 : (cfgOf u).excludeIds = ids u.excludePgns := by
      unfold cfgOf
      dsimp only
      rw [hf]
      rfl
    rw [e4]
    unfold fltOf at hf
    revert hf
    generalize (nums u.excludePgns).contains isoClaimPgn = a
    generalize (ids u.excludePgns).contains isoClaimId = b
    generalize (nums u.includePgns).isEmpty = c
    generalize (ids u.includePgns).isEmpty = d
    generalize (nums u.includePgns).contains isoClaimPgn = e
    generalize (ids u.includePgns).contains isoClaimId = f
    cases a <;> cases b <;> cases c <;> cases d <;> cases e <;> cases f <;> simp

theorem blk_other (u : UserConfig) (i : Input) (m : Msg) (hi : i.pgn ≠ isoClaimPgn)
    (hm : m.pgn = i.pgn) (hid : lower m.id ≠ isoClaimId) (hpf : pf (cfgOf u) i.pgn = false) :
    blocked (cfgOf u) i m = !perm u m.pgn m.id := by
  unfold pf at hpf
  rw [decide_eq_true hi, Bool.true_and, Bool.or_eq_false_iff, exN_contains u _ hi] at hpf
  unfold blocked perm
  have hm' : ¬ m.pgn = isoClaimPgn := by rw [hm]; exact hi
  rw [exI_contains u _ hid, decide_eq_false hm', Bool.false_and, Bool.false_or, hm, hpf.1]
  have e1 : (cfgOf u).includeNums = nums u.includePgns := rfl
  have e2 : (cfgOf u).includeIds = ids u.includePgns := rfl
  rw [e1, e2]
  generalize (ids u.excludePgns).contains (lower m.id) = b
  generalize (nums u.includePgns).isEmpty = c
  generalize (ids u.includePgns).isEmpty = d
  generalize (nums u.includePgns).contains i.pgn = e
  generalize (ids u.includePgns).contains (lower m.id) = f
  cases b <;> cases c <;> cases d <;> cases e <;> cases f <;> rfl

theorem hyp_cfgOf (G : GenLayer) (u : UserConfig)
    (h1 : ∀ pgn d m, G.decode pgn d = some (.ok m) → m.pgn = pgn)
    (h2 : ∀ d m, G.decode isoClaimPgn d = some (.ok m) → lower m.id = isoClaimId)
    (h3 : ∀ pgn d m, G.decode pgn d = some (.ok m) → lower m.id = isoClaimId → pgn = isoClaimPgn) :
    Hyp G u (cfgOf u) where
  pgn_eq := h1
  pre := fun pgn id h => pre_cfgOf u pgn id h
  blk := by
    intro i d m hpf hd
    have hm := h1 _ d m hd
    by_cases hi : i.pgn = isoClaimPgn
    · rw [hi] at hd
      exact blk_claim u i m hi (by rw [hm, hi]) (h2 d m hd)
    · exact blk_other u i m hi hm (fun e => hi (h3 _ d m hd e)) hpf

/-- the selection theorem, in the vocabulary of this file -/
theorem selection (G : GenLayer) (u : UserConfig)
    (h1 : ∀ pgn d m, G.decode pgn d = some (.ok m) → m.pgn = pgn)
    (h2 : ∀ d m, G.decode isoClaimPgn d = some (.ok m) → lower m.id = isoClaimId)
    (h3 : ∀ pgn d m, G.decode pgn d = some (.ok m) → lower m.id = isoClaimId → pgn = isoClaimPgn)
    (cfg cfg0 : Config) (hc : mkConfig u = some cfg) (hc0 : mkConfig (unf u) = some cfg0) (h : List Input) :
    ((run G cfg {} h).2.map vis = (run G cfg0 {} h).2.map (fun o => sel u (vis o))) ∧
    (run G cfg {} h).1.sources = (run G cfg0 {} h).1.sources := by
  rw [mkConfig_some hc, mkConfig_some hc0, cfgOf_unf]
  exact run_sim G u (cfgOf u) (hyp_cfgOf G u h1 h2 h3) h {} {} (Rel_init _)

end L10
end N2k.Dec
