/- helper lemmas for Props/C18.lean (frame lemmas: `applyUnits_frame` etc. in Dec17.lean) -/
import N2k.Model.Decoder
import N2k.Lemmas.F64
import N2k.Lemmas.Dec11
import N2k.Lemmas.Dec17

/-! ### binary64 rounding: absolute-error bound without a normal-range side condition -/

namespace N2k

theorem rnePosP_err_abs (p : ℕ) (emin : ℤ) (a : ℚ) (ha : 0 < a) :
    |rnePosP p emin a - a| ≤ (2:ℚ)^(-(p:ℤ)) * a + (2:ℚ)^(emin - p) := by
  by_cases hn : emin ≤ ilog2 a
  · have h1 := rnePosP_err p emin a ha hn
    have h2 : (0:ℚ) < (2:ℚ)^(emin - p) := by positivity
    linarith
  · rw [not_le] at hn
    rw [rnePosP_eq, max_eq_right hn.le]
    set t : ℤ := emin - ((p:ℤ) - 1) with ht
    have up : (0:ℚ) < 2^t := by positivity
    have h := rhe_err (a / 2^t)
    have key : ((rhe (a / 2^t) : ℤ) : ℚ) * 2^t - a
          = (((rhe (a / 2^t) : ℤ) : ℚ) - a / 2^t) * 2^t := by
      field_simp
    rw [key, abs_mul, abs_of_pos up]
    have h3 : (0:ℚ) ≤ (2:ℚ)^(-(p:ℤ)) * a := by positivity
    calc |((rhe (a / 2^t) : ℤ) : ℚ) - a / 2^t| * 2^t
          ≤ 1/2 * 2^t := mul_le_mul_of_nonneg_right h up.le
      _ = (2:ℚ)^(emin - p) := by
          rw [show (1/2:ℚ) = 2^(-1:ℤ) by norm_num, ← zpow_add₀ (by norm_num)]
          congr 1; rw [ht]; ring
      _ ≤ _ := by linarith

theorem rneP_err_abs (p : ℕ) (emin : ℤ) (q : ℚ) :
    |rneP p emin q - q| ≤ (2:ℚ)^(-(p:ℤ)) * |q| + (2:ℚ)^(emin - p) := by
  rcases lt_trichotomy q 0 with h | h | h
  · have := rnePosP_err_abs p emin (-q) (by linarith)
    rw [rneP_of_neg p emin h, abs_of_neg h]
    have e : -rnePosP p emin (-q) - q = -(rnePosP p emin (-q) - -q) := by ring
    rw [e, abs_neg]; exact this
  · subst h
    rw [rneP_zero]
    have : (0:ℚ) < (2:ℚ)^(emin - p) := by positivity
    simp only [sub_zero, abs_zero, mul_zero, zero_add]
    exact this.le
  · have := rnePosP_err_abs p emin q h
    rwa [rneP_of_pos p emin h, abs_of_pos h]

/-- absolute-error form of `rne_err`, no side condition (gradual underflow: spacing 2^-1074) -/
theorem rne_err_abs (q : ℚ) : |rne q - q| ≤ pow2 (-53) * |q| + pow2 (-1075) := by
  rw [pow2_eq, pow2_eq]
  exact rneP_err_abs 53 (-1022) q

/-- a cruder form that `linarith` can use: u = 2^-53 -/
theorem rne_err_lin (q B : ℚ) (hB : |q| ≤ B) :
    |rne q - q| ≤ (B + 1) / 9007199254740992 := by
  have h := rne_err_abs q
  have hu : pow2 (-53) = 1 / 9007199254740992 := by rw [pow2_eq]; norm_num
  have ht : pow2 (-1075) ≤ pow2 (-53) := pow2_le_pow2 (by norm_num)
  rw [hu] at h ht
  have : (1:ℚ) / 9007199254740992 * |q| ≤ 1 / 9007199254740992 * B :=
    mul_le_mul_of_nonneg_left hB (by norm_num)
  calc |rne q - q| ≤ 1 / 9007199254740992 * |q| + pow2 (-1075) := h
    _ ≤ 1 / 9007199254740992 * B + 1 / 9007199254740992 := by linarith
    _ = (B + 1) / 9007199254740992 := by ring

end N2k

namespace N2k.Dec

/-! ### Celsius -/

theorem celsius_acc (k : Rat) (hk : rne k = k) (h0 : 0 ≤ k) (h1 : k ≤ 1000000) :
    |kelvinToCelsius (.flt k) - (k - 27315 / 100)| ≤ 1 / 200 + 1 / 1000000000 := by
  have hc0 : lit 27315 (-2) = rne (27315 / 100) := by
    unfold lit; rw [pow10_eq]; norm_num
  unfold kelvinToCelsius fsub toF pyRoundN
  simp only [Num.toRat]
  rw [hk, hc0]
  set c := rne (27315 / 100) with hc
  have e1 := abs_le.mp (rne_err_lin (27315 / 100) 274 (by rw [abs_of_pos] <;> norm_num))
  rw [← hc] at e1
  have e2 := abs_le.mp (rne_err_lin (k - c) 1000275 (by rw [abs_le]; constructor <;> linarith [e1.1, e1.2]))
  set x := rne (k - c) with hx
  have e3 := abs_le.mp (rhe_err (x * ((10 ^ 2 : ℕ) : ℚ)))
  set y : ℚ := ((rhe (x * ((10 ^ 2 : ℕ) : ℚ)) : ℤ) : ℚ) with hy
  have h100 : (((10 ^ 2 : ℕ)) : ℚ) = 100 := by norm_num
  rw [h100] at e3 ⊢
  have e4 := abs_le.mp (rne_err_lin (y / 100) 1000277 (by
    rw [abs_le]; constructor <;> linarith [e1.1, e1.2, e2.1, e2.2, e3.1, e3.2]))
  rw [abs_le]
  constructor <;> linarith [e1.1, e1.2, e2.1, e2.2, e3.1, e3.2, e4.1, e4.2]

/-! ### `convertField` / `applyUnits` / `mkConfig` -/

theorem convertField_untouched (units : List (String × String)) (f : Field)
    (h : ∀ pq u, f.fmeta.pq = some pq → assocGet pq units = some u → conversion pq u f.fmeta.unit = none) :
    convertField units f = some f := by
  unfold convertField
  split
  · rfl
  · rename_i pq hpq
    split
    · rfl
    · rename_i u hu
      rw [h pq u hpq hu]

theorem convertField_absent (units : List (String × String)) (f f' : Field) (hv : f.value = .none)
    (h : convertField units f = some f') : f'.value = .none := by
  unfold convertField at h
  split at h
  · cases h; exact hv
  split at h
  · cases h; exact hv
  split at h
  · cases h; exact hv
  rw [hv] at h
  simp only [Option.some.injEq] at h
  rw [← h]

theorem applyUnits_nil (m : Msg) : applyUnits [] m = some m := rfl

theorem mkConfig_units (u : UserConfig) (cfg : Config) (h : mkConfig u = some cfg) :
    cfg.units = u.units.map (fun p => (p.1, lower p.2)) := by
  unfold mkConfig at h
  split at h
  · cases h
  · simp only [Option.some.injEq] at h
    rw [← h]

/-! ### decoding with preferences = conversion of decoding without -/

theorem claimStep_units (cfg : Config) (st : State) (i : Input) (m : Msg) (d : Nat) (iso : Option IsoName) :
    claimStep { cfg with units := [] } st i m d iso = claimStep cfg st i m d iso := rfl

theorem preOf_units (cfg : Config) (st : State) (i : Input) :
    preOf { cfg with units := [] } st i = preOf cfg st i := rfl

theorem callDecode_units (G : GenLayer) (cfg : Config) (st : State) (i : Input) (payload : List Nat)
    (iso : Option IsoName) :
    (callDecode G cfg st i payload iso).1.table = (callDecode G { cfg with units := [] } st i payload iso).1.table ∧
    (callDecode G cfg st i payload iso).1.sources = (callDecode G { cfg with units := [] } st i payload iso).1.sources ∧
    (match (callDecode G { cfg with units := [] } st i payload iso).2 with
     | .msg o0 =>
       (match applyUnits cfg.units o0.msg with
        | some m' => (callDecode G cfg st i payload iso).2 = .msg { o0 with msg := m' }
        | none => (callDecode G cfg st i payload iso).2 = .raised)
     | other => (callDecode G cfg st i payload iso).2 = other) := by
  have hnil : ∀ m : Msg, applyUnits [] m = some m := fun _ => rfl
  cases hd : G.decode i.pgn (leNat payload) with
  | none => simp [callDecode_eq, hd]
  | some r =>
    cases r with
    | none => simp [callDecode_eq, hd]
    | raised => simp [callDecode_eq, hd]
    | ok m =>
      cases hc : claimStep cfg st i m (leNat payload % 18446744073709551616) iso with
      | none => simp [callDecode_eq, hd, claimStep_units, hc]
      | some r =>
        obtain ⟨st1, iso1, stop⟩ := r
        simp only [callDecode_eq, hd, claimStep_units, hc, hnil]
        split
        · simp
        split
        · simp
        split
        · simp
        cases hu : applyUnits cfg.units m with
        | none =>
          simp only [hu]
          refine ⟨?_, ?_, trivial⟩ <;> split <;> rfl
        | some m' =>
          simp only [hu]
          refine ⟨?_, ?_, trivial⟩ <;> split <;> rfl

theorem step_units (G : GenLayer) (cfg : Config) (st : State) (i : Input) :
    (step G cfg st i).1.table = (step G { cfg with units := [] } st i).1.table ∧
    (step G cfg st i).1.sources = (step G { cfg with units := [] } st i).1.sources ∧
    (match (step G { cfg with units := [] } st i).2 with
     | .msg o0 =>
       (match applyUnits cfg.units o0.msg with
        | some m' => (step G cfg st i).2 = .msg { o0 with msg := m' }
        | none => (step G cfg st i).2 = .raised)
     | other => (step G cfg st i).2 = other) := by
  simp only [step_eq, preOf_units]
  cases preOf cfg st i with
  | none => simp
  | some iso =>
    simp only
    split
    · simp
    · simp
    · exact callDecode_units G cfg st i i.data iso
    · split
      · exact callDecode_units G cfg _ i _ iso
      · simp
      · simp

end N2k.Dec
