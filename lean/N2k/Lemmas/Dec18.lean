/- helper lemmas for Props/C18.lean (frame lemmas: `applyUnits_frame` etc. in Dec17.lean) -/
import N2k.Model.Decoder
import N2k.Lemmas.F64
import N2k.Lemmas.Dec11
import N2k.Lemmas.Dec17

/-! ### binary64 rounding: absolute-error bound without a normal-range side condition -/

namespace N2k

theorem rnePosP_err_abs (p : ℕ) (emin : ℤ) (a : ℚ) (ha : 0 < a) :
    |rnePosP p emin a - a| ≤ (2:ℚ)^(-(p:ℤ)) * a + (2:ℚ)^(emin - p) := by
  by_cases hn : emin ≤ ilog2 a
  · have h1 := rnePosP_err p emin a ha hn
    have h2 : (0:ℚ) < (2:ℚ)^(emin - p) := by positivity
    linarith
  · rw [not_le] at hn
    rw [rnePosP_eq, max_eq_right hn.le]
    set t : ℤ := emin - ((p:ℤ) - 1) with ht
    have up : (0:ℚ) < 2^t := by positivity
    have h := rhe_err (a / 2^t)
    have key : ((rhe (a / 2^t) : ℤ) : ℚ) * 2^t - a
          = (((rhe (a / 2^t) : ℤ) : ℚ) - a / 2^t) * 2^t := by
      field_simp
    rw [key, abs_mul, abs_of_pos up]
    have h3 : (0:ℚ) ≤ (2:ℚ)^(-(p:ℤ)) * a := by positivity
    calc |((rhe (a / 2^t) : ℤ) : ℚ) - a / 2^t| * 2^t
          ≤ 1/2 * 2^t := mul_le_mul_of_nonneg_right h up.le
      _ = (2:ℚ)^(emin - p) := by
          rw [show (1/2:ℚ) = 2^(-1:ℤ) by norm_num, ← zpow_add₀ (by norm_num)]
          congr 1; rw [ht]; ring
      _ ≤ _ := by linarith

theorem rneP_err_abs (p : ℕ) (emin : ℤ) (q : ℚ) :
    |rneP p emin q - q| ≤ (2:ℚ)^(-(p:ℤ)) * |q| + (2:ℚ)^(emin - p) := by
  rcases lt_trichotomy q 0 with h | h | h
  · have := rnePosP_err_abs p emin (-q) (by linarith)
    rw [rneP_of_neg p emin h, abs_of_neg h]
    have e : -rnePosP p emin (-q) - q = -(rnePosP p emin (-q) - -q) := by ring
    rw [e, abs_neg]; exact this
  · subst h
    rw [rneP_zero]
    have : (0:ℚ) < (2:ℚ)^(emin - p) := by positivity
    simp only [sub_zero, abs_zero, mul_zero, zero_add]
    exact this.le
  · have := rnePosP_err_abs p emin q h
    rwa [rneP_of_pos p emin h, abs_of_pos h]

/-- absolute-error form of `rne_err`, no side condition (gradual underflow: spacing 2^-1074) -/
theorem rne_err_abs (q : ℚ) : |rne q - q| ≤ pow2 (-53) * |q| + pow2 (-1075) := by
  rw [pow2_eq, pow2_eq]
  exact rneP_err_abs 53 (-1022) q

/-- a cruder form that `linarith` can use: u = 2^-53 -/
theorem rne_err_lin (q B : ℚ) (hB : |q| ≤ B) :
    |rne q - q| ≤ (B + 1) / 9007199254740992 := by
  have h := rne_err_abs q
  have hu : pow2 (-53) = 1 / 9007199254740992 := by rw [pow2_eq]; norm_num
  have ht : pow2 (-1075) ≤ pow2 (-53) := pow2_le_pow2 (by norm_num)
  rw [hu] at h ht
  have : (1:ℚ) / 9007199254740992 * |q| ≤ 1 / 9007199254740992 * B :=
    mul_le_mul_of_nonneg_left hB (by norm_num)
  calc |rne q - q| ≤ 1 / 9007199254740992 * |q| + pow2 (-1075) := h
    _ ≤ 1 / 9007199254740992 * B + 1 / 9007199254740992 := by linarith
    _ = (B + 1) / 9007199254740992 := by ring

end N2k

namespace N2k.Dec

/-! ### Celsius -/

theorem celsius_acc (k : Rat) (hk : rne k = k) (h0 : 0 ≤ k) (h1 : k ≤ 1000000) :
    |kelvinToCelsius (.flt k) - (k - 27315 / 100)| ≤ 1 / 200 + 1 / 1000000000 := by
  have hc0 : lit 27315 (-2) = rne (27315 / 100) := by
    unfold lit; rw [pow10_eq]; norm_num
  unfold kelvinToCelsius fsub toF pyRoundN
  simp only [Num.toRat]
  rw [hk, hc0]
  set c := rne (27315 / 100) with hc
  have e1 := abs_le.mp (rne_err_lin (27315 / 100) 274 (by rw [abs_of_pos] <;> norm_num))
  rw [← hc] at e1
  have e2 := abs_le.mp (rne_err_lin (k - c) 1000275 (by rw [abs_le]; constructor <;> linarith [e1.1, e1.2]))
  set x := rne (k - c) with hx
  have e3 := abs_le.mp (rhe_err (x * ((10 ^ 2 : ℕ) : ℚ)))
  set y : ℚ := ((rhe (x * ((10 ^ 2 : ℕ) : ℚ)) : ℤ) : ℚ) with hy
  have h100 : (((10 ^ 2 : ℕ)) : ℚ) = 100 := by norm_num
  rw [h100] at e3 ⊢
  have e4 := abs_le.mp (rne_err_lin (y / 100) 1000277 (by
    rw [abs_le]; constructor <;> linarith [e1.1, e1.2, e2.1, e2.2, e3.1, e3.2]))
  rw [abs_le]
  constructor <;> linarith [e1.1, e1.2, e2.1, e2.2, e3.1, e3.2, e4.1, e4.2]

/-! ### the other conversions: two generic error lemmas, then one accuracy theorem each -/

/-- a product with a perturbed constant: `|x·c − x·c₀| ≤ B·e` -/
theorem mul_err (x c c0 B e : ℚ) (hx : |x| ≤ B) (hc : |c - c0| ≤ e) :
    |x * c - x * c0| ≤ B * e := by
  rw [← mul_sub, abs_mul]
  exact mul_le_mul hx hc (abs_nonneg _) (le_trans (abs_nonneg _) hx)

/-- `round(x, k)`: half a unit of the k-th decimal plus one binary64 rounding -/
theorem pyRoundN_err (x B : ℚ) (k : ℕ) (hB : |x| ≤ B) :
    |pyRoundN x k - x| ≤ 1 / (2 * 10 ^ k) + (B + 2) / 9007199254740992 := by
  unfold pyRoundN
  have hDeq : (((10 ^ k : ℕ)) : ℚ) = 10 ^ k := by push_cast; rfl
  rw [hDeq]
  set D : ℚ := 10 ^ k with hD
  have hD1 : (1:ℚ) ≤ D := one_le_pow₀ (by norm_num)
  have hDpos : (0:ℚ) < D := by linarith
  have e3 := rhe_err (x * D)
  set y : ℚ := ((rhe (x * D) : ℤ) : ℚ) with hy
  have h1 : |y / D - x| ≤ 1 / (2 * D) := by
    have e : y / D - x = (y - x * D) / D := by field_simp
    rw [e, abs_div, abs_of_pos hDpos]
    calc |y - x * D| / D ≤ (1 / 2) / D := div_le_div_of_nonneg_right e3 hDpos.le
      _ = 1 / (2 * D) := by field_simp
  have h2 : 1 / (2 * D) ≤ 1 / 2 := one_div_le_one_div_of_le (by norm_num) (by linarith)
  have hB' := abs_le.mp hB
  have h1' := abs_le.mp h1
  have e4 := abs_le.mp (rne_err_lin (y / D) (B + 1) (by
    rw [abs_le]; constructor <;> linarith [h1'.1, h1'.2, hB'.1, hB'.2]))
  rw [abs_le]
  constructor <;> linarith [h1'.1, h1'.2, e4.1, e4.2]

theorem fahrenheit_acc (k : Rat) (hk : rne k = k) (h0 : 0 ≤ k) (h1 : k ≤ 1000000) :
    |kelvinToFahrenheit (.flt k) - ((k - 27315 / 100) * 9 / 5 + 32)| ≤ 1 / 2 + 1 / 1000000 := by
  have hc0 : lit 27315 (-2) = rne (27315 / 100) := by
    unfold lit; rw [pow10_eq]; norm_num
  unfold kelvinToFahrenheit fadd fmul fsub fdiv toF
  simp only [Num.toRat]
  rw [hk, hc0]
  set c := rne (27315 / 100) with hc
  have e1 := abs_le.mp (rne_err_lin (27315 / 100) 274 (by rw [abs_of_pos] <;> norm_num))
  rw [← hc] at e1
  have e2 := abs_le.mp (rne_err_lin (k - c) 1000275 (by rw [abs_le]; constructor <;> linarith [e1.1, e1.2]))
  set x := rne (k - c) with hx
  have e3 := abs_le.mp (rne_err_lin (9 / 5) 2 (by rw [abs_of_pos] <;> norm_num))
  set d := rne (9 / 5) with hd
  have hxB : |x| ≤ 1000276 := by rw [abs_le]; constructor <;> linarith [e1.1, e1.2, e2.1, e2.2]
  have hxB' := abs_le.mp hxB
  have e4 := abs_le.mp (mul_err x d (9 / 5) 1000276 ((2 + 1) / 9007199254740992) hxB (abs_le.mpr e3))
  have e5 := abs_le.mp (rne_err_lin (x * d) 1800498 (by
    rw [abs_le]; constructor <;> linarith [e4.1, e4.2, hxB'.1, hxB'.2]))
  set m := rne (x * d) with hm
  have e6 := abs_le.mp (rne_err_lin (m + 32) 1800532 (by
    rw [abs_le]; constructor <;> linarith [e4.1, e4.2, e5.1, e5.2, hxB'.1, hxB'.2]))
  set a := rne (m + 32) with ha
  have e7 := abs_le.mp (pyRoundN_err a 1800534 0 (by
    rw [abs_le]; constructor <;> linarith [e4.1, e4.2, e5.1, e5.2, e6.1, e6.2, hxB'.1, hxB'.2]))
  norm_num at e7
  rw [abs_le]
  constructor <;> linarith [e1.1, e1.2, e2.1, e2.2, e4.1, e4.2, e5.1, e5.2, e6.1, e6.2, e7.1, e7.2]

theorem psi_acc (p : Rat) (hp : rne p = p) (h0 : -10000000000 ≤ p) (h1 : p ≤ 10000000000) :
    |pascalToPsi (.flt p) - p * 100 / 689476| ≤ 1 / 100000000 := by
  have hc0 : lit 689476 (-2) = rne (689476 / 100) := by
    unfold lit; rw [pow10_eq]; norm_num
  unfold pascalToPsi fdiv toF
  simp only [Num.toRat]
  rw [hp, hc0]
  set c := rne (689476 / 100) with hc
  have e1 := abs_le.mp (rne_err_lin (689476 / 100) 6895 (by rw [abs_of_pos] <;> norm_num))
  rw [← hc] at e1
  have hc1 : (6894:ℚ) ≤ c := by linarith [e1.1]
  have hcpos : (0:ℚ) < c := by linarith
  have hinv : |c⁻¹ - 100 / 689476| ≤ ((6895 + 1) / 9007199254740992) / (6894 * 6894) := by
    have e : c⁻¹ - 100 / 689476 = (689476 / 100 - c) / (c * (689476 / 100)) := by
      field_simp
    rw [e, abs_div, abs_of_pos (show (0:ℚ) < c * (689476 / 100) by positivity)]
    apply div_le_div₀ (by norm_num) _ (by norm_num) _
    · rw [abs_le]; constructor <;> linarith [e1.1, e1.2]
    · exact mul_le_mul hc1 (by norm_num) (by norm_num) hcpos.le
  have hpB : |p| ≤ 10000000000 := abs_le.mpr ⟨h0, h1⟩
  have e2 := abs_le.mp (mul_err p c⁻¹ (100 / 689476) 10000000000 _ hpB hinv)
  rw [div_eq_mul_inv p c]
  have e3 := abs_le.mp (rne_err_lin (p * c⁻¹) 1450400 (by
    rw [abs_le]; constructor <;> linarith [e2.1, e2.2]))
  rw [abs_le]
  constructor <;> linarith [e2.1, e2.2, e3.1, e3.2]

theorem degrees_acc (r : Rat) (hr : rne r = r) (h0 : -10000 ≤ r) (h1 : r ≤ 10000) :
    |radToDegrees (.flt r) - r * 180 / pi64| ≤ 1 / 2 + 1 / 100000000 := by
  unfold radToDegrees fmul toF radToDeg fdiv
  simp only [Num.toRat]
  rw [hr]
  have hR0 : |(180:ℚ) / pi64| ≤ 58 := by
    unfold pi64; rw [abs_of_pos] <;> norm_num
  have e1 := rne_err_lin (180 / pi64) 58 hR0
  set R0 : ℚ := 180 / pi64 with hR0e
  set R := rne R0 with hR
  have hR0' := abs_le.mp hR0
  have hrB : |r| ≤ 10000 := abs_le.mpr ⟨h0, h1⟩
  have e2 := abs_le.mp (mul_err r R R0 10000 _ hrB e1)
  have e3 := abs_le.mp (rne_err_lin (r * R) 580001 (by
    rw [abs_le]; constructor <;> nlinarith [e2.1, e2.2, hR0'.1, hR0'.2]))
  set m := rne (r * R) with hm
  have e4 := abs_le.mp (pyRoundN_err m 580003 0 (by
    rw [abs_le]; constructor <;> nlinarith [e2.1, e2.2, e3.1, e3.2, hR0'.1, hR0'.2]))
  norm_num at e4
  have e : r * 180 / pi64 = r * R0 := by rw [hR0e]; ring
  rw [e, abs_le]
  constructor <;> linarith [e2.1, e2.2, e3.1, e3.2, e4.1, e4.2]

theorem knots_acc (v : Rat) (hv : rne v = v) (h0 : -1000000 ≤ v) (h1 : v ≤ 1000000) :
    |mpsToKnots (.flt v) - v * 3600 / 1852| ≤ 1 / 20 + 1 / 100000000 := by
  unfold mpsToKnots fmul toF fdiv
  simp only [Num.toRat]
  rw [hv]
  have e1 := rne_err_lin (3600 / 1852) 2 (by rw [abs_of_pos] <;> norm_num)
  set K := rne (3600 / 1852) with hK
  have hvB : |v| ≤ 1000000 := abs_le.mpr ⟨h0, h1⟩
  have e2 := abs_le.mp (mul_err v K (3600 / 1852) 1000000 _ hvB e1)
  have e3 := abs_le.mp (rne_err_lin (v * K) 2000000 (by
    rw [abs_le]; constructor <;> linarith [e2.1, e2.2]))
  set m := rne (v * K) with hm
  have e4 := abs_le.mp (pyRoundN_err m 2000002 1 (by
    rw [abs_le]; constructor <;> linarith [e2.1, e2.2, e3.1, e3.2]))
  norm_num at e4
  rw [abs_le]
  constructor <;> linarith [e2.1, e2.2, e3.1, e3.2, e4.1, e4.2]

/-! ### `convertField` / `applyUnits` / `mkConfig` -/

theorem convertField_untouched (units : List (String × String)) (f : Field)
    (h : ∀ pq u, f.fmeta.pq = some pq → assocGet pq units = some u → conversion pq u f.fmeta.unit = none) :
    convertField units f = some f := by
  unfold convertField
  split
  · rfl
  · rename_i pq hpq
    split
    · rfl
    · rename_i u hu
      rw [h pq u hpq hu]

theorem convertField_absent (units : List (String × String)) (f f' : Field) (hv : f.value = .none)
    (h : convertField units f = some f') : f'.value = .none := by
  unfold convertField at h
  split at h
  · cases h; exact hv
  split at h
  · cases h; exact hv
  split at h
  · cases h; exact hv
  rw [hv] at h
  simp only [Option.some.injEq] at h
  rw [← h]

theorem applyUnits_nil (m : Msg) : applyUnits [] m = some m := rfl

theorem mkConfig_units (u : UserConfig) (cfg : Config) (h : mkConfig u = some cfg) :
    cfg.units = u.units.map (fun p => (p.1, lower p.2)) := by
  unfold mkConfig at h
  split at h
  · cases h
  · simp only [Option.some.injEq] at h
    rw [← h]

/-! ### decoding with preferences = conversion of decoding without -/

theorem claimStep_units (cfg : Config) (st : State) (i : Input) (m : Msg) (d : Nat) (iso : Option IsoName) :
    claimStep { cfg with units := [] } st i m d iso = claimStep cfg st i m d iso := rfl

theorem preOf_units (cfg : Config) (st : State) (i : Input) :
    preOf { cfg with units := [] } st i = preOf cfg st i := rfl

theorem callDecode_units (G : GenLayer) (cfg : Config) (st : State) (i : Input) (payload : List Nat)
    (iso : Option IsoName) :
    (callDecode G cfg st i payload iso).1.table = (callDecode G { cfg with units := [] } st i payload iso).1.table ∧
    (callDecode G cfg st i payload iso).1.sources = (callDecode G { cfg with units := [] } st i payload iso).1.sources ∧
    (match (callDecode G { cfg with units := [] } st i payload iso).2 with
     | .msg o0 =>
       (match applyUnits cfg.units o0.msg with
        | some m' => (callDecode G cfg st i payload iso).2 = .msg { o0 with msg := m' }
        | none => (callDecode G cfg st i payload iso).2 = .raised)
     | other => (callDecode G cfg st i payload iso).2 = other) := by
  have hnil : ∀ m : Msg, applyUnits [] m = some m := fun _ => rfl
  cases hd : G.decode i.pgn (leNat payload) with
  | none => simp [callDecode_eq, hd]
  | some r =>
    cases r with
    | none => simp [callDecode_eq, hd]
    | raised => simp [callDecode_eq, hd]
    | ok m =>
      cases hc : claimStep cfg st i m (leNat payload % 18446744073709551616) iso with
      | none => simp [callDecode_eq, hd, claimStep_units, hc]
      | some r =>
        obtain ⟨st1, iso1, stop⟩ := r
        simp only [callDecode_eq, hd, claimStep_units, hc, hnil]
        split
        · simp
        split
        · simp
        split
        · simp
        cases hu : applyUnits cfg.units m with
        | none =>
          simp only [hu]
          refine ⟨?_, ?_, trivial⟩ <;> split <;> rfl
        | some m' =>
          simp only [hu]
          refine ⟨?_, ?_, trivial⟩ <;> split <;> rfl

theorem step_units (G : GenLayer) (cfg : Config) (st : State) (i : Input) :
    (step G cfg st i).1.table = (step G { cfg with units := [] } st i).1.table ∧
    (step G cfg st i).1.sources = (step G { cfg with units := [] } st i).1.sources ∧
    (match (step G { cfg with units := [] } st i).2 with
     | .msg o0 =>
       (match applyUnits cfg.units o0.msg with
        | some m' => (step G cfg st i).2 = .msg { o0 with msg := m' }
        | none => (step G cfg st i).2 = .raised)
     | other => (step G cfg st i).2 = other) := by
  simp only [step_eq, preOf_units]
  cases preOf cfg st i with
  | none => simp
  | some iso =>
    simp only
    split
    · simp
    · simp
    · exact callDecode_units G cfg st i i.data iso
    · split
      · exact callDecode_units G cfg _ i _ iso
      · simp
      · simp

end N2k.Dec
