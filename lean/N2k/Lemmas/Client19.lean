/- helper lemmas for the client properties -/
import N2k.Model.Client
import N2k.Model.Reader

/-! ## framing by the stream reader (C12) -/
namespace N2k.Reader

/-! ### 13-byte packets -/

/-- the `readexactly(13)` loop without fuel -/
def run13 (b : Bytes) : Bytes × List Bytes :=
  if _h : b.length < 13 then (b, [])
  else ((run13 (b.drop 13)).1, b.take 13 :: (run13 (b.drop 13)).2)
termination_by b.length
decreasing_by all_goals (simp only [List.length_drop]; omega)

theorem run13_short {b : Bytes} (h : b.length < 13) : run13 b = (b, []) := by
  rw [run13]; simp [h]

theorem run13_cut {b : Bytes} (h : 13 ≤ b.length) :
    run13 b = ((run13 (b.drop 13)).1, b.take 13 :: (run13 (b.drop 13)).2) := by
  rw [run13]; simp [show ¬ b.length < 13 by omega]

theorem take13_eq_run (fuel : Nat) (b : Bytes) (acc : List Bytes) (h : b.length < 13 * fuel) :
    take13 fuel b acc = ((run13 b).1, acc.reverse ++ (run13 b).2) := by
  induction fuel generalizing b acc with
  | zero => omega
  | succ n ih =>
    rw [take13]
    by_cases hl : b.length < 13
    · rw [if_pos hl, run13_short hl]; simp
    · rw [if_neg hl, run13_cut (by omega), ih _ _ (by simp only [List.length_drop]; omega)]
      simp

theorem feed13_eq_run (buf data : Bytes) : feed13 buf data = run13 (buf ++ data) := by
  unfold feed13
  simp only
  rw [take13_eq_run _ _ _ (by omega)]
  simp

theorem run13_induct {P : Bytes → Prop}
    (short : ∀ b, b.length < 13 → P b)
    (cut : ∀ b, 13 ≤ b.length → P (b.drop 13) → P b) : ∀ b, P b := by
  intro b
  induction hn : b.length using Nat.strongRecOn generalizing b with
  | _ n ih =>
    by_cases hl : b.length < 13
    · exact short b hl
    · exact cut b (by omega) (ih _ (by subst hn; simp only [List.length_drop]; omega) _ rfl)

theorem run13_fst_length (b : Bytes) : (run13 b).1.length < 13 := by
  induction b using run13_induct with
  | short b hl => rw [run13_short hl]; exact hl
  | cut b hl ih => rw [run13_cut hl]; exact ih

theorem run13_normal (b : Bytes) : run13 (run13 b).1 = ((run13 b).1, []) :=
  run13_short (run13_fst_length b)

theorem run13_append (x y : Bytes) :
    run13 (x ++ y) = ((run13 ((run13 x).1 ++ y)).1, (run13 x).2 ++ (run13 ((run13 x).1 ++ y)).2) := by
  induction x using run13_induct with
  | short x hl => rw [run13_short hl]; simp
  | cut x hl ih =>
    rw [run13_cut (b := x ++ y) (by simp only [List.length_append]; omega), run13_cut hl,
      List.drop_append_of_le_length hl, List.take_append_of_le_length hl, ih]
    simp

theorem feedAll_cons (f : Bytes → Bytes → Bytes × List Bytes) (buf d : Bytes) (ds : List Bytes) :
    feedAll f buf (d :: ds)
      = ((feedAll f (f buf d).1 ds).1, (f buf d).2 ++ (feedAll f (f buf d).1 ds).2) := by
  simp [feedAll]

theorem feedAll13_eq_run (buf : Bytes) (reads : List Bytes) (h : run13 buf = (buf, [])) :
    feedAll feed13 buf reads = run13 (buf ++ reads.flatten) := by
  induction reads generalizing buf with
  | nil => simp [feedAll, h]
  | cons d ds ih =>
    rw [feedAll_cons, feed13_eq_run, ih _ (run13_normal _), List.flatten_cons, ← List.append_assoc,
      run13_append (buf ++ d)]

theorem run13_packet_append {p : Bytes} (hp : p.length = 13) (rest : Bytes) :
    run13 (p ++ rest) = ((run13 rest).1, p :: (run13 rest).2) := by
  rw [run13_cut (by simp only [List.length_append]; omega), List.drop_left' hp, List.take_left' hp]

theorem run13_packets_append {ps : List Bytes} (hp : ∀ p ∈ ps, p.length = 13) (t : Bytes) :
    run13 (ps.flatten ++ t) = ((run13 t).1, ps ++ (run13 t).2) := by
  induction ps with
  | nil => simp
  | cons p ps ih =>
    rw [List.flatten_cons, List.append_assoc, run13_packet_append (hp p (by simp)),
      ih (fun q hq => hp q (by simp [hq]))]
    simp

/-! ### lines -/

theorem findNl_lt {b : Bytes} {i : Nat} (h : findNl b = some i) : i < b.length := by
  induction b generalizing i with
  | nil => simp [findNl] at h
  | cons a rest ih =>
    rw [findNl] at h
    split at h
    · cases h; simp
    · cases hf : findNl rest with
      | none => rw [hf] at h; cases h
      | some j =>
        rw [hf] at h; cases h
        have := ih hf
        simp only [List.length_cons]; omega

theorem findNl_eq_none {b : Bytes} : findNl b = none ↔ 10 ∉ b := by
  induction b with
  | nil => simp [findNl]
  | cons a rest ih =>
    rw [findNl]
    by_cases ha : a = 10
    · simp [ha]
    · simp only [if_neg ha, Option.map_eq_none_iff, ih, List.mem_cons, not_or]
      exact ⟨fun h => ⟨fun h' => ha h'.symm, h⟩, fun h => h.2⟩

theorem findNl_append_some {x : Bytes} (y : Bytes) {i : Nat} (h : findNl x = some i) :
    findNl (x ++ y) = some i := by
  induction x generalizing i with
  | nil => simp [findNl] at h
  | cons a rest ih =>
    rw [List.cons_append, findNl]
    rw [findNl] at h
    by_cases ha : a = 10
    · simpa [ha] using h
    · rw [if_neg ha] at h ⊢
      cases hf : findNl rest with
      | none => rw [hf] at h; cases h
      | some j => rw [hf] at h; rw [ih hf]; exact h

theorem findNl_body {body : Bytes} (rest : Bytes) (h : 10 ∉ body) :
    findNl (body ++ 10 :: rest) = some body.length := by
  induction body with
  | nil => simp [findNl]
  | cons a b ih =>
    have ha : a ≠ 10 := fun h' => h (by simp [h'])
    rw [List.cons_append, findNl, if_neg ha, ih (fun h' => h (by simp [h']))]
    simp

/-- the `readline()` loop without fuel -/
def runL (b : Bytes) : Bytes × List Bytes :=
  match h : findNl b with
  | none => (b, [])
  | some i => ((runL (b.drop (i + 1))).1, b.take (i + 1) :: (runL (b.drop (i + 1))).2)
termination_by b.length
decreasing_by all_goals (have := findNl_lt h; simp only [List.length_drop]; omega)

theorem runL_none {b : Bytes} (h : findNl b = none) : runL b = (b, []) := by
  rw [runL]; split <;> simp_all

theorem runL_some {b : Bytes} {i : Nat} (h : findNl b = some i) :
    runL b = ((runL (b.drop (i + 1))).1, b.take (i + 1) :: (runL (b.drop (i + 1))).2) := by
  rw [runL]; split <;> simp_all

theorem takeLines_eq_run (fuel : Nat) (b : Bytes) (acc : List Bytes) (h : b.length < fuel) :
    takeLines fuel b acc = ((runL b).1, acc.reverse ++ (runL b).2) := by
  induction fuel generalizing b acc with
  | zero => omega
  | succ n ih =>
    rw [takeLines]
    cases hf : findNl b with
    | none => simp [runL_none hf]
    | some i =>
      simp only
      have := findNl_lt hf
      rw [runL_some hf, ih _ _ (by simp only [List.length_drop]; omega)]
      simp

theorem feedLines_eq_run (buf data : Bytes) : feedLines buf data = runL (buf ++ data) := by
  unfold feedLines
  simp only
  rw [takeLines_eq_run _ _ _ (by omega)]
  simp

theorem runL_induct {P : Bytes → Prop}
    (none : ∀ b, findNl b = none → P b)
    (cut : ∀ b i, findNl b = some i → P (b.drop (i + 1)) → P b) : ∀ b, P b := by
  intro b
  induction hn : b.length using Nat.strongRecOn generalizing b with
  | _ n ih =>
    cases hf : findNl b with
    | none => exact none b hf
    | some i =>
      have := findNl_lt hf
      exact cut b i hf (ih _ (by subst hn; simp only [List.length_drop]; omega) _ rfl)

theorem runL_fst_none (b : Bytes) : findNl (runL b).1 = none := by
  induction b using runL_induct with
  | none b hf => rw [runL_none hf]; exact hf
  | cut b i hf ih => rw [runL_some hf]; exact ih

theorem runL_normal (b : Bytes) : runL (runL b).1 = ((runL b).1, []) :=
  runL_none (runL_fst_none b)

theorem runL_append (x y : Bytes) :
    runL (x ++ y) = ((runL ((runL x).1 ++ y)).1, (runL x).2 ++ (runL ((runL x).1 ++ y)).2) := by
  induction x using runL_induct with
  | none x hf => rw [runL_none hf]; simp
  | cut x i hf ih =>
    have hlt := findNl_lt hf
    rw [runL_some (findNl_append_some y hf), runL_some hf,
      List.drop_append_of_le_length (by omega), List.take_append_of_le_length (by omega), ih]
    simp

theorem feedAllL_eq_run (buf : Bytes) (reads : List Bytes) (h : runL buf = (buf, [])) :
    feedAll feedLines buf reads = runL (buf ++ reads.flatten) := by
  induction reads generalizing buf with
  | nil => simp [feedAll, h]
  | cons d ds ih =>
    rw [feedAll_cons, feedLines_eq_run, ih _ (runL_normal _), List.flatten_cons, ← List.append_assoc,
      runL_append (buf ++ d)]

theorem runL_line_append {body : Bytes} (h : 10 ∉ body) (rest : Bytes) :
    runL ((body ++ [10]) ++ rest) = ((runL rest).1, (body ++ [10]) :: (runL rest).2) := by
  have hf : findNl ((body ++ [10]) ++ rest) = some body.length := by
    rw [List.append_assoc]; exact findNl_body rest h
  rw [runL_some hf, List.drop_left' (by simp), List.take_left' (by simp)]

theorem runL_lines_append {ls : List Bytes} (hl : ∀ l ∈ ls, ∃ body, l = body ++ [10] ∧ 10 ∉ body)
    (t : Bytes) : runL (ls.flatten ++ t) = ((runL t).1, ls ++ (runL t).2) := by
  induction ls with
  | nil => simp
  | cons l ls ih =>
    obtain ⟨body, rfl, hb⟩ := hl l (by simp)
    rw [List.flatten_cons, List.append_assoc, runL_line_append hb,
      ih (fun q hq => hl q (by simp [hq]))]
    simp

end N2k.Reader

namespace N2k.Client

/-! ## the receive queue (C12) -/

theorem qstep_inv {s s' : QS} {e : QEv} (h : qstep s e = some s')
    (hi : s.delivered ++ s.queue = s.puts) : s'.delivered ++ s'.queue = s'.puts := by
  cases e with
  | put m =>
    simp only [qstep, Option.some.injEq] at h
    subst h
    simp [← hi]
  | cbStart m =>
    simp only [qstep] at h
    split at h
    · next hd tl hq =>
      split at h
      · next hc =>
        simp only [Option.some.injEq] at h
        subst h
        simp only [Bool.and_eq_true, decide_eq_true_eq] at hc
        rw [← hi, hq, hc.2]; simp
      · cases h
    · cases h
  | cbEnd r =>
    simp only [qstep] at h
    split at h
    · simp only [Option.some.injEq] at h; subst h; exact hi
    · cases h

theorem qrun_inv (evs : List QEv) {s0 s : QS} (h : qrun s0 evs = some s)
    (hi : s0.delivered ++ s0.queue = s0.puts) : s.delivered ++ s.queue = s.puts := by
  induction evs generalizing s0 with
  | nil => simp only [qrun, Option.some.injEq] at h; subst h; exact hi
  | cons e es ih =>
    simp only [qrun] at h
    cases hs : qstep s0 e with
    | none => rw [hs] at h; cases h
    | some s1 => rw [hs] at h; exact ih h (qstep_inv hs hi)

/-! ## the send lock (C19) -/

theorem guard_eq_some {b : Bool} {s s' : CS} : guard b s = some s' ↔ b = true ∧ s' = s := by
  unfold guard; cases b <;> simp [eq_comm]

theorem step_eq_some {s s' : CS} {e : Ev} :
    step s e = some s' ↔ ∃ t, stepCore s e = some t ∧ s' = { t with prev := some e } := by
  unfold step; cases stepCore s e <;> simp [eq_comm]

/-! ### contiguity of a list of ids -/

/-- same content as `contiguous` in `Props/C19.lean` -/
def Contig (l : List Nat) : Prop :=
  ∀ a b c x y, l = a ++ [x] ++ b ++ [y] ++ c → x = y → ∀ z ∈ b, z = x

theorem contig_nil : Contig [] := by
  intro a b c x y h; simp at h

theorem contig_snoc {l : List Nat} {x : Nat} (hc : Contig l) (hx : x ∉ l ∨ l.getLast? = some x) :
    Contig (l ++ [x]) := by
  intro a b c u y h huy z hz
  rcases List.eq_nil_or_concat c with rfl | ⟨c', x', rfl⟩
  · -- the second occurrence is the new element
    rw [List.append_nil] at h
    obtain ⟨hl, hxy⟩ := List.append_inj' h rfl
    simp only [List.cons.injEq, and_true] at hxy
    subst hxy; subst huy
    have hmem : u ∈ l := by rw [hl]; simp
    rcases hx with hx | hx
    · exact absurd hmem hx
    · rcases List.eq_nil_or_concat b with rfl | ⟨b', w, rfl⟩
      · simp at hz
      · rw [List.concat_eq_append] at hl hz
        rw [hl, ← List.append_assoc, List.getLast?_concat] at hx
        simp only [Option.some.injEq] at hx
        subst hx
        rcases List.mem_append.1 hz with hz | hz
        · exact hc a b' [] w w (by rw [hl]; simp) rfl z hz
        · simpa using hz
  · rw [List.concat_eq_append, ← List.append_assoc] at h
    obtain ⟨hl, -⟩ := List.append_inj' h rfl
    exact hc a b c' u y hl huy z hz

/-! ### packet indices -/

theorem find?_filter_ne (l : List (Nat × Nat)) {sid sid' : Nat} (h : sid' ≠ sid) :
    (l.filter (·.1 ≠ sid)).find? (·.1 = sid') = l.find? (·.1 = sid') := by
  rw [List.find?_filter]
  congr 1
  funext a
  by_cases ha : a.1 = sid'
  · simp [ha, h]
  · simp [ha]

theorem nextIdx_setIdx (l : List (Nat × Nat)) (sid n sid' : Nat) :
    nextIdx (setIdx l sid n) sid' = if sid' = sid then n else nextIdx l sid' := by
  unfold nextIdx setIdx
  by_cases h : sid' = sid
  · subst h; simp
  · have h' : ¬ sid = sid' := fun e => h e.symm
    rw [if_neg h, List.find?_cons]
    simp only [h', decide_false]
    rw [find?_filter_ne l h]

/-! ### the invariant -/

structure Inv (s : CS) : Prop where
  wireIds : ∀ x ∈ s.wire.map (·.2.1), s.lockHolder = some x ∨ x ∈ s.doneSends ∨ x ∈ s.failedSends
  activeNotDone : ∀ x ∈ s.activeSends, x ∉ s.doneSends
  contig : Contig (s.wire.map (·.2.1))
  last : ∀ h, s.lockHolder = some h → h ∈ s.wire.map (·.2.1) → (s.wire.map (·.2.1)).getLast? = some h
  idx : ∀ sid, nextIdx s.sendNext sid = (s.wire.filter (·.2.1 = sid)).length
  order : ∀ sid, (s.wire.filter (·.2.1 = sid)).map (·.2.2) = List.range (s.wire.filter (·.2.1 = sid)).length
  /-- the link of every written packet is the one recorded for its send at the first packet -/
  link : ∀ e ∈ s.wire, s.sendConn.find? (·.1 = e.2.1) = some (e.2.1, e.1)

/-- all packets of one send are on one link -/
theorem Inv.oneLink {s : CS} (hi : Inv s) :
    ∀ e1 ∈ s.wire, ∀ e2 ∈ s.wire, e1.2.1 = e2.2.1 → e1.1 = e2.1 := by
  intro e1 h1 e2 h2 he
  have a := hi.link e1 h1
  have b := hi.link e2 h2
  rw [he, b] at a
  simp only [Option.some.injEq, Prod.mk.injEq, true_and] at a
  exact a.symm

theorem Inv.of_eq {s t : CS} (hi : Inv s) (h1 : t.activeSends = s.activeSends)
    (h2 : t.doneSends = s.doneSends) (h3 : t.failedSends = s.failedSends)
    (h4 : t.lockHolder = s.lockHolder) (h5 : t.sendNext = s.sendNext) (h6 : t.wire = s.wire)
    (h7 : t.sendConn = s.sendConn) :
    Inv t := by
  refine ⟨?_, ?_, ?_, ?_, ?_, ?_, ?_⟩
  · rw [h6, h4, h2, h3]; exact hi.wireIds
  · rw [h1, h2]; exact hi.activeNotDone
  · rw [h6]; exact hi.contig
  · rw [h6, h4]; exact hi.last
  · rw [h6, h5]; exact hi.idx
  · rw [h6]; exact hi.order
  · rw [h6, h7]; exact hi.link

theorem inv_init : Inv init := by
  refine ⟨?_, ?_, ?_, ?_, ?_, ?_, ?_⟩ <;> simp [init, contig_nil, nextIdx]

/-- every event the model allows preserves the invariant -/
theorem stepCore_inv {s t : CS} {e : Ev} (h : stepCore s e = some t) (hi : Inv s) : Inv t := by
  cases e with
  | sendCall sid =>
    simp only [stepCore, guard_eq_some] at h
    obtain ⟨hg, rfl⟩ := h
    simp at hg
    refine ⟨hi.wireIds, ?_, hi.contig, hi.last, hi.idx, hi.order, hi.link⟩
    intro x hx
    dsimp only at hx ⊢
    rcases List.mem_cons.1 hx with rfl | hx
    · exact hg.2
    · exact hi.activeNotDone x hx
  | write c sid idx =>
    simp only [stepCore, guard_eq_some] at h
    obtain ⟨hg, rfl⟩ := h
    simp at hg
    obtain ⟨⟨⟨⟨⟨hact, hlock⟩, hidx⟩, hconn⟩, hwc⟩, hnf⟩ := hg
    have hlast : sid ∉ s.wire.map (·.2.1) ∨ (s.wire.map (·.2.1)).getLast? = some sid := by
      by_cases hm : sid ∈ s.wire.map (·.2.1)
      · right
        rcases hi.wireIds sid hm with h1 | h1 | h1
        · exact hi.last sid h1 hm
        · exact absurd h1 (hi.activeNotDone sid hact)
        · exact absurd h1 hnf
      · exact Or.inl hm
    refine ⟨?_, hi.activeNotDone, ?_, ?_, ?_, ?_, ?_⟩
    · intro x hx
      dsimp only at hx ⊢
      rw [List.map_append, List.mem_append] at hx
      rcases hx with hx | hx
      · rcases hi.wireIds x hx with h1 | h1 | h1
        · left
          rcases hlock with h2 | h2 <;> rw [h2] at h1
          · cases h1
          · exact h1
        · exact Or.inr (Or.inl h1)
        · exact Or.inr (Or.inr h1)
      · simp at hx; left; rw [hx]
    · dsimp only; rw [List.map_append]; exact contig_snoc hi.contig hlast
    · intro h hh _
      dsimp only at hh ⊢
      cases hh
      simp
    · intro sid'
      dsimp only
      rw [nextIdx_setIdx, List.filter_append]
      by_cases hs : sid' = sid
      · subst hs; simp [← hi.idx, hidx]
      · have hs' : ¬ sid = sid' := fun e => hs e.symm
        simp [hs, hs', hi.idx]
    · intro sid'
      dsimp only
      rw [List.filter_append, List.map_append]
      by_cases hs : sid' = sid
      · subst hs; simp [List.range_succ, hi.order, ← hi.idx, hidx]
      · have hs' : ¬ sid = sid' := fun e => hs e.symm
        simp [hs', hi.order]
    · intro e he
      dsimp only at he ⊢
      rw [List.mem_append] at he
      cases hf : s.sendConn.find? (·.1 = sid) with
      | some p =>
        have hp : p.1 = sid := by simpa using List.find?_some hf
        simp only [linkOk, hf] at hconn
        simp only [Option.isSome_some, if_true]
        rcases he with he | he
        · exact hi.link e he
        · simp only [List.mem_singleton] at he
          subst he
          dsimp only
          have hconn' : p.2 = c := by simpa using hconn
          rw [hf, ← hp, ← hconn']
      | none =>
        simp only [Option.isSome_none, Bool.false_eq_true, if_false]
        rcases he with he | he
        · have hl := hi.link e he
          rw [List.find?_cons]
          by_cases hes : sid = e.2.1
          · rw [← hes, hf] at hl; cases hl
          · simp only [hes, decide_false]; exact hl
        · simp only [List.mem_singleton] at he
          subst he
          simp
  | writeFail c sid =>
    simp only [stepCore, guard_eq_some] at h
    obtain ⟨hg, rfl⟩ := h
    simp at hg
    refine ⟨?_, hi.activeNotDone, hi.contig, ?_, hi.idx, hi.order, hi.link⟩
    · intro x hx
      dsimp only at hx ⊢
      rcases hi.wireIds x hx with h1 | h1 | h1
      · rcases hg.1.2 with h2 | h2 <;> rw [h2] at h1 <;> cases h1
        right; right; simp
      · exact Or.inr (Or.inl h1)
      · exact Or.inr (Or.inr (List.mem_cons_of_mem _ h1))
    · intro h hh; cases hh
  | drainFail c =>
    simp only [stepCore] at h
    split at h
    · next sid hl =>
      obtain ⟨-, rfl⟩ := guard_eq_some.1 h
      refine ⟨?_, hi.activeNotDone, hi.contig, ?_, hi.idx, hi.order, hi.link⟩
      · intro x hx
        dsimp only at hx ⊢
        rcases hi.wireIds x hx with h1 | h1 | h1
        · rw [hl] at h1; cases h1
          right; right; simp
        · exact Or.inr (Or.inl h1)
        · exact Or.inr (Or.inr (List.mem_cons_of_mem _ h1))
      · intro h hh; cases hh
    · cases h
  | sendReturn sid =>
    simp only [stepCore, guard_eq_some] at h
    obtain ⟨hg, rfl⟩ := h
    refine ⟨?_, ?_, hi.contig, ?_, hi.idx, hi.order, hi.link⟩
    · intro x hx
      dsimp only at hx ⊢
      rcases hi.wireIds x hx with h1 | h1 | h1
      · by_cases hxs : x = sid
        · subst hxs; right; left; simp
        · left; rw [h1, if_neg (by simpa using hxs)]
      · exact Or.inr (Or.inl (List.mem_cons_of_mem _ h1))
      · exact Or.inr (Or.inr h1)
    · intro x hx
      dsimp only at hx ⊢
      rw [List.mem_filter] at hx
      intro hd
      rcases List.mem_cons.1 hd with rfl | hd
      · simp at hx
      · exact hi.activeNotDone x hx.1 hd
    · intro h hh hm
      dsimp only at hh hm ⊢
      split at hh
      · cases hh
      · exact hi.last h hh hm
  | _ =>
    simp only [stepCore, guard_eq_some] at h
    repeat' split at h
    all_goals try rw [guard_eq_some] at h
    all_goals first
      | (obtain ⟨-, rfl⟩ := h; exact hi.of_eq rfl rfl rfl rfl rfl rfl rfl)
      | (cases h; exact hi.of_eq rfl rfl rfl rfl rfl rfl rfl)
      | cases h

theorem step_inv {s s' : CS} {e : Ev} (h : step s e = some s') (hi : Inv s) : Inv s' := by
  obtain ⟨t, ht, rfl⟩ := step_eq_some.1 h
  exact (stepCore_inv ht hi).of_eq rfl rfl rfl rfl rfl rfl rfl

theorem runTrace_inv (evs : List Ev) {s0 s : CS} (h : runTrace s0 evs = some s) (hi : Inv s0) :
    Inv s := by
  induction evs generalizing s0 with
  | nil => simp only [runTrace, Option.some.injEq] at h; subst h; exact hi
  | cons e es ih =>
    simp only [runTrace] at h
    cases hs : step s0 e with
    | none => rw [hs] at h; cases h
    | some s1 => rw [hs] at h; exact ih h (step_inv hs hi)

theorem reach_inv {evs : List Ev} {s : CS} (h : runTrace init evs = some s) : Inv s :=
  runTrace_inv evs h inv_init

/-! ### one-step facts -/

theorem step_write {s s' : CS} {c sid idx : Nat} (h : step s (.write c sid idx) = some s') :
    (s.lockHolder = none ∨ s.lockHolder = some sid) ∧ s'.lockHolder = some sid ∧
      idx = nextIdx s.sendNext sid := by
  obtain ⟨t, ht, rfl⟩ := step_eq_some.1 h
  simp only [stepCore, guard_eq_some] at ht
  obtain ⟨hg, rfl⟩ := ht
  simp at hg
  exact ⟨hg.1.1.1.1.2, rfl, hg.1.1.1.2⟩

theorem step_sendBad {s s' : CS} {sid : Nat} (h : step s (.sendBad sid) = some s') :
    s' = { s with prev := some (.sendBad sid) } := by
  obtain ⟨t, ht, rfl⟩ := step_eq_some.1 h
  simp only [stepCore, guard_eq_some] at ht
  obtain ⟨-, rfl⟩ := ht
  rfl

/-- the current link can be shut once a fault has been seen on it -/
theorem step_writerClose_faulted {s : CS} {c : Nat} (hc : s.conn = some c) (hf : c ∈ s.faulted) :
    step s (.writerClose c) =
      some { s with writerClosed := c :: s.writerClosed, prev := some (.writerClose c) } := by
  simp [step, stepCore, guard, hc, hf]

/-- DISCONNECTED can be reported while CONNECTED once the faulted current link has been shut -/
theorem step_status_disconnected_ok {s : CS} {c : Nat} (hst : s.st = .connected) (hf : s.faults > 0)
    (hc : s.conn = some c) (hfl : c ∈ s.faulted) (hw : c ∈ s.writerClosed) :
    (step s (.status .disconnected)).isSome = true := by
  simp [step, stepCore, guard, hst, hc, hf, hfl, hw]

/-- DISCONNECTED is only reported for a fault seen on the current link, after that link has been shut -/
theorem step_status_disconnected {s s' : CS} (h : step s (.status .disconnected) = some s') :
    ∃ c, s.conn = some c ∧ c ∈ s.faulted ∧ c ∈ s'.writerClosed := by
  obtain ⟨t, ht, rfl⟩ := step_eq_some.1 h
  simp only [stepCore, guard_eq_some] at ht
  obtain ⟨hg, rfl⟩ := ht
  simp only [Bool.and_eq_true, decide_eq_true_eq] at hg
  obtain ⟨-, -, hg⟩ := hg
  cases hc : s.conn with
  | none => rw [hc] at hg; cases hg
  | some c =>
    rw [hc] at hg
    simp only [Bool.and_eq_true, List.contains_iff_mem] at hg
    exact ⟨c, rfl, hg.1, hg.2⟩

/-- a packet is only written to a link that has not been shut -/
theorem step_write_open {s s' : CS} {c sid idx : Nat} (h : step s (.write c sid idx) = some s') :
    c ∉ s.writerClosed := by
  obtain ⟨t, ht, rfl⟩ := step_eq_some.1 h
  simp only [stepCore, guard_eq_some] at ht
  obtain ⟨hg, rfl⟩ := ht
  simp at hg
  exact hg.1.2

theorem step_writeFail {s s' : CS} {c sid : Nat} (h : step s (.writeFail c sid) = some s')
    (hst : s.st = .connected) (hc : s.conn = some c) :
    s'.faults > 0 ∧ s'.lockHolder = none ∧
      ∃ s'', step s' (.writerClose c) = some s'' ∧ (step s'' (.status .disconnected)).isSome = true := by
  obtain ⟨t, ht, rfl⟩ := step_eq_some.1 h
  simp only [stepCore, guard_eq_some] at ht
  obtain ⟨-, rfl⟩ := ht
  refine ⟨?_, rfl, ?_⟩
  · show 0 < (if s.conn = some c then s.faults + 1 else s.faults)
    rw [if_pos hc]; exact Nat.succ_pos _
  · refine ⟨_, step_writerClose_faulted (c := c) hc (by simp), ?_⟩
    exact step_status_disconnected_ok (c := c) hst (by simp [hc]) hc (by simp) (by simp)

/-- a write failure on a link that is not the current one: no fault, state and link unchanged, lock released -/
theorem step_writeFail_stale {s s' : CS} {c sid : Nat} (h : step s (.writeFail c sid) = some s')
    (hc : s.conn ≠ some c) :
    s'.faults = s.faults ∧ s'.st = s.st ∧ s'.conn = s.conn ∧ s'.lockHolder = none := by
  obtain ⟨t, ht, rfl⟩ := step_eq_some.1 h
  simp only [stepCore, guard_eq_some] at ht
  obtain ⟨-, rfl⟩ := ht
  refine ⟨?_, rfl, rfl, rfl⟩
  show (if s.conn = some c then s.faults + 1 else s.faults) = s.faults
  rw [if_neg hc]

/-! ### links: a link that was reported CONNECTED and has been replaced is shut -/

structure Inv2 (s : CS) : Prop where
  /-- no connect holds the lock: nothing of an attempt is pending -/
  idle : s.connActive = false → s.okConn = none ∧ s.lastFailed = false ∧ s.implPending = false
  /-- a successful attempt whose report is pending: its link is the current one -/
  okc : ∀ c, s.okConn = some c → s.conn = some c ∧ s.lastFailed = false ∧ s.implPending = false
  pendNF : s.implPending = true → s.lastFailed = false
  /-- while CONNECTED the connect that holds the lock (it is about to return) neither retries nor attempts -/
  connd : s.connActive = true → s.st = .connected → s.lastFailed = false ∧ s.implPending = false
  fresh : ∀ c ∈ s.everConnected, c < s.nextConn
  freshConn : ∀ c, s.conn = some c → c < s.nextConn
  /-- DISCONNECTED after CONNECTED: the link that was given up is shut -/
  disc : s.st = .disconnected → ∀ c, s.conn = some c → c ∈ s.everConnected → c ∈ s.writerClosed
  /-- an attempt is only made when the link it will replace is shut (or was never reported CONNECTED) -/
  pend : s.implPending = true → ∀ c, s.conn = some c → c ∈ s.everConnected → c ∈ s.writerClosed
  main : ∀ c ∈ s.everConnected, s.conn ≠ some c → c ∈ s.writerClosed

theorem Inv2.of_eq {s t : CS} (hi : Inv2 s) (h1 : t.st = s.st) (h2 : t.connActive = s.connActive)
    (h3 : t.implPending = s.implPending) (h4 : t.lastFailed = s.lastFailed) (h5 : t.okConn = s.okConn)
    (h6 : t.nextConn = s.nextConn) (h7 : t.conn = s.conn) (h8 : t.everConnected = s.everConnected)
    (h9 : ∀ c, c ∈ s.writerClosed → c ∈ t.writerClosed) : Inv2 t := by
  refine ⟨?_, ?_, ?_, ?_, ?_, ?_, ?_, ?_, ?_⟩
  · rw [h2, h5, h4, h3]; exact hi.idle
  · rw [h5, h7, h4, h3]; exact hi.okc
  · rw [h3, h4]; exact hi.pendNF
  · rw [h2, h1, h4, h3]; exact hi.connd
  · rw [h8, h6]; exact hi.fresh
  · rw [h7, h6]; exact hi.freshConn
  · rw [h1, h7, h8]; exact fun a c b d => h9 c (hi.disc a c b d)
  · rw [h3, h7, h8]; exact fun a c b d => h9 c (hi.pend a c b d)
  · rw [h7, h8]; exact fun c a b => h9 c (hi.main c a b)

theorem inv2_init : Inv2 init := by
  refine ⟨?_, ?_, ?_, ?_, ?_, ?_, ?_, ?_, ?_⟩ <;> simp [init]

theorem stepCore_inv2 {s t : CS} {e : Ev} (h : stepCore s e = some t) (hi : Inv2 s) : Inv2 t := by
  cases e with
  | connReturn =>
    simp only [stepCore] at h
    split at h
    · obtain ⟨-, rfl⟩ := guard_eq_some.1 h
      exact hi.of_eq rfl rfl rfl rfl rfl rfl rfl rfl (fun _ h => h)
    · -- the connect that held the lock returns (also out of a pending attempt once CLOSED):
      -- nothing of an attempt is left, `implPending` is cleared by the update
      obtain ⟨-, rfl⟩ := guard_eq_some.1 h
      refine ⟨?_, ?_, ?_, ?_, hi.fresh, hi.freshConn, hi.disc, ?_, hi.main⟩
      · intro _; exact ⟨rfl, rfl, rfl⟩
      · intro c hc; cases hc
      · intro hc; cases hc
      · intro hc; cases hc
      · intro hc; cases hc
  | implStart =>
    simp only [stepCore] at h
    split at h
    · next hact =>
      obtain ⟨hg, rfl⟩ := guard_eq_some.1 h
      simp only [Bool.and_eq_true, Bool.not_eq_true', decide_eq_true_eq, ne_eq] at hg
      obtain ⟨⟨⟨hncl, hnp⟩, hlf⟩, hsl⟩ := hg
      have hok : s.okConn = none := by
        cases ho : s.okConn with
        | none => rfl
        | some c => have := (hi.okc c ho).2.1; rw [hlf] at this; cases this
      have hst : s.st = .disconnected := by
        cases hs : s.st with
        | disconnected => rfl
        | connected => have := (hi.connd hact hs).1; rw [hlf] at this; cases this
        | closed => exact absurd hs hncl
      refine ⟨?_, ?_, ?_, ?_, hi.fresh, hi.freshConn, hi.disc, ?_, hi.main⟩
      · intro hc; rw [hact] at hc; cases hc
      · intro c hc; rw [hok] at hc; cases hc
      · intro _; rfl
      · intro _ hc; rw [hst] at hc; cases hc
      · intro _; exact hi.disc hst
    · next hact =>
      obtain ⟨hg, rfl⟩ := guard_eq_some.1 h
      simp only [Bool.and_eq_true, decide_eq_true_eq] at hg
      obtain ⟨⟨hst, -⟩, -⟩ := hg
      have hact' : s.connActive = false := by simpa using hact
      obtain ⟨hok, hlf, -⟩ := hi.idle hact'
      refine ⟨?_, ?_, ?_, ?_, hi.fresh, hi.freshConn, hi.disc, ?_, hi.main⟩
      · intro hc; cases hc
      · intro c hc; rw [hok] at hc; cases hc
      · intro _; exact hlf
      · intro _ hc; rw [hst] at hc; cases hc
      · intro _; exact hi.disc hst
  | implFail =>
    obtain ⟨hg, rfl⟩ := guard_eq_some.1 h
    have hok : s.okConn = none := by
      cases ho : s.okConn with
      | none => rfl
      | some c => have := (hi.okc c ho).2.2; rw [hg] at this; cases this
    have hact : s.connActive = true := by
      cases ha : s.connActive with
      | true => rfl
      | false => have := (hi.idle ha).2.2; rw [hg] at this; cases this
    refine ⟨?_, ?_, ?_, ?_, hi.fresh, hi.freshConn, hi.disc, ?_, hi.main⟩
    · intro hc; rw [hact] at hc; cases hc
    · intro c hc; rw [hok] at hc; cases hc
    · intro hc; cases hc
    · intro _ hc; have := (hi.connd hact hc).2; rw [hg] at this; cases this
    · intro hc; cases hc
  | implOk c =>
    obtain ⟨hg, rfl⟩ := guard_eq_some.1 h
    simp only [Bool.and_eq_true, decide_eq_true_eq] at hg
    obtain ⟨hp, rfl⟩ := hg
    have hact : s.connActive = true := by
      cases ha : s.connActive with
      | true => rfl
      | false => have := (hi.idle ha).2.2; rw [hp] at this; cases this
    have hnew : s.nextConn ∉ s.everConnected := fun hm => Nat.lt_irrefl _ (hi.fresh _ hm)
    refine ⟨?_, ?_, ?_, ?_, ?_, ?_, ?_, ?_, ?_⟩
    · intro hc; rw [hact] at hc; cases hc
    · intro c hc; cases hc; exact ⟨rfl, hi.pendNF hp, rfl⟩
    · intro hc; cases hc
    · intro _ hc; have := (hi.connd hact hc).2; rw [hp] at this; cases this
    · intro c hc; exact Nat.lt_succ_of_lt (hi.fresh c hc)
    · intro c hc; cases hc; exact Nat.lt_succ_self _
    · intro _ c hc hm; cases hc; exact absurd hm hnew
    · intro hc; cases hc
    · intro c hm hne
      by_cases hcc : s.conn = some c
      · exact hi.pend hp c hcc hm
      · exact hi.main c hm hcc
  | status u =>
    obtain ⟨hg, rfl⟩ := guard_eq_some.1 h
    simp only [Bool.and_eq_true, decide_eq_true_eq, ne_eq] at hg
    obtain ⟨⟨hne, hncl⟩, hg⟩ := hg
    cases u with
    | closed =>
      refine ⟨hi.idle, hi.okc, hi.pendNF, ?_, hi.fresh, hi.freshConn, ?_, hi.pend, hi.main⟩
      · intro _ hc; cases hc
      · intro hc; cases hc
    | disconnected =>
      simp only [Bool.and_eq_true, decide_eq_true_eq] at hg
      refine ⟨hi.idle, hi.okc, hi.pendNF, ?_, hi.fresh, hi.freshConn, ?_, hi.pend, hi.main⟩
      · intro _ hc; cases hc
      · intro _ c hc _
        have hg2 := hg.2
        rw [show s.conn = some c from hc] at hg2
        simp only [Bool.and_eq_true, List.contains_iff_mem] at hg2
        exact hg2.2
    | connected =>
      simp only [Bool.and_eq_true] at hg
      obtain ⟨hact, hsome⟩ := hg
      obtain ⟨c, ho⟩ := Option.isSome_iff_exists.1 hsome
      obtain ⟨hconn, hlf, hnp⟩ := hi.okc c ho
      refine ⟨hi.idle, hi.okc, hi.pendNF, ?_, ?_, hi.freshConn, ?_, ?_, ?_⟩
      · intro _ _; exact ⟨hlf, hnp⟩
      · intro x hx
        simp only [ho] at hx
        rcases List.mem_cons.1 hx with rfl | hx
        · exact hi.freshConn _ hconn
        · exact hi.fresh x hx
      · intro hc; cases hc
      · intro hc; rw [show s.implPending = false from hnp] at hc; cases hc
      · intro x hx hne'
        simp only [ho] at hx ⊢
        rcases List.mem_cons.1 hx with rfl | hx
        · exact absurd hconn hne'
        · exact hi.main x hx hne'
  | cfgFail c =>
    obtain ⟨hg, rfl⟩ := guard_eq_some.1 h
    simp only [Bool.and_eq_true, decide_eq_true_eq, ne_eq] at hg
    obtain ⟨⟨hok, hact⟩, hnc⟩ := hg
    obtain ⟨-, -, hnp⟩ := hi.okc c hok
    refine ⟨?_, ?_, ?_, ?_, hi.fresh, hi.freshConn, hi.disc, hi.pend, hi.main⟩
    · intro hc; rw [hact] at hc; cases hc
    · intro c hc; cases hc
    · intro hc; rw [show s.implPending = false from hnp] at hc; cases hc
    · intro _ hc; exact absurd hc hnc
  | writerClose c =>
    obtain ⟨-, rfl⟩ := guard_eq_some.1 h
    exact hi.of_eq rfl rfl rfl rfl rfl rfl rfl rfl (fun _ h => List.mem_cons_of_mem _ h)
  | connCancel =>
    -- the connect that held the lock is cancelled: nothing of an attempt is left; state, link and its history stay,
    -- so `disc` / `main` carry over (a link it had opened and reported is still the current one)
    obtain ⟨-, rfl⟩ := guard_eq_some.1 h
    refine ⟨?_, ?_, ?_, ?_, hi.fresh, hi.freshConn, hi.disc, ?_, hi.main⟩
    · intro _; exact ⟨rfl, rfl, rfl⟩
    · intro c hc; cases hc
    · intro hc; cases hc
    · intro hc; cases hc
    · intro hc; cases hc
  | _ =>
    simp only [stepCore, guard_eq_some] at h
    repeat' split at h
    all_goals try rw [guard_eq_some] at h
    all_goals first
      | (obtain ⟨-, rfl⟩ := h; exact hi.of_eq rfl rfl rfl rfl rfl rfl rfl rfl (fun _ h => h))
      | (cases h; exact hi.of_eq rfl rfl rfl rfl rfl rfl rfl rfl (fun _ h => h))
      | cases h

theorem step_inv2 {s s' : CS} {e : Ev} (h : step s e = some s') (hi : Inv2 s) : Inv2 s' := by
  obtain ⟨t, ht, rfl⟩ := step_eq_some.1 h
  exact (stepCore_inv2 ht hi).of_eq rfl rfl rfl rfl rfl rfl rfl rfl (fun _ h => h)

theorem runTrace_inv2 (evs : List Ev) {s0 s : CS} (h : runTrace s0 evs = some s) (hi : Inv2 s0) :
    Inv2 s := by
  induction evs generalizing s0 with
  | nil => simp only [runTrace, Option.some.injEq] at h; subst h; exact hi
  | cons e es ih =>
    simp only [runTrace] at h
    cases hs : step s0 e with
    | none => rw [hs] at h; cases h
    | some s1 => rw [hs] at h; exact ih h (step_inv2 hs hi)

theorem reach_inv2 {evs : List Ev} {s : CS} (h : runTrace init evs = some s) : Inv2 s :=
  runTrace_inv2 evs h inv2_init

/-! ### faults are only recorded for links that exist -/

theorem linkOk_cases {s : CS} {sid c : Nat} (h : linkOk s sid c = true) :
    (∃ p ∈ s.sendConn, p.2 = c) ∨ s.conn = some c := by
  unfold linkOk at h
  split at h
  · next p hf => exact Or.inl ⟨p, List.mem_of_find?_eq_some hf, by simpa using h⟩
  · exact Or.inr (by simpa using h)

structure Inv3 (s : CS) : Prop where
  conn : ∀ c, s.conn = some c → c < s.nextConn
  sends : ∀ p ∈ s.sendConn, p.2 < s.nextConn
  faulted : ∀ c ∈ s.faulted, c < s.nextConn
  /-- the link of a successful attempt whose report is pending exists -/
  okc : ∀ c, s.okConn = some c → c < s.nextConn

theorem Inv3.linkOk {s : CS} (hi : Inv3 s) {sid c : Nat} (h : linkOk s sid c = true) : c < s.nextConn := by
  rcases linkOk_cases h with ⟨p, hp, rfl⟩ | hc
  · exact hi.sends p hp
  · exact hi.conn c hc

theorem Inv3.of_eq {s t : CS} (hi : Inv3 s) (h1 : t.nextConn = s.nextConn) (h2 : t.conn = s.conn)
    (h3 : t.sendConn = s.sendConn) (h4 : t.faulted = s.faulted)
    (h5 : t.okConn = s.okConn ∨ t.okConn = none) : Inv3 t := by
  refine ⟨?_, ?_, ?_, ?_⟩
  · rw [h2, h1]; exact hi.conn
  · rw [h3, h1]; exact hi.sends
  · rw [h4, h1]; exact hi.faulted
  · rw [h1]
    rcases h5 with h5 | h5
    · rw [h5]; exact hi.okc
    · rw [h5]; intro c hc; cases hc

theorem inv3_init : Inv3 init := by
  refine ⟨?_, ?_, ?_, ?_⟩ <;> simp [init]

theorem Inv3.fault {s : CS} (hi : Inv3 s) {c : Nat} (hc : c < s.nextConn) :
    ∀ x ∈ c :: s.faulted, x < s.nextConn := by
  intro x hx
  rcases List.mem_cons.1 hx with rfl | hx
  · exact hc
  · exact hi.faulted x hx

theorem stepCore_inv3 {s t : CS} {e : Ev} (h : stepCore s e = some t) (hi : Inv3 s) : Inv3 t := by
  cases e with
  | implOk c =>
    obtain ⟨hg, rfl⟩ := guard_eq_some.1 h
    simp only [Bool.and_eq_true, decide_eq_true_eq] at hg
    obtain ⟨-, rfl⟩ := hg
    refine ⟨?_, ?_, ?_, ?_⟩
    · intro x hx; cases hx; exact Nat.lt_succ_self _
    · intro p hp; exact Nat.lt_succ_of_lt (hi.sends p hp)
    · intro x hx; exact Nat.lt_succ_of_lt (hi.faulted x hx)
    · intro x hx; cases hx; exact Nat.lt_succ_self _
  | write c sid idx =>
    obtain ⟨hg, rfl⟩ := guard_eq_some.1 h
    simp only [Bool.and_eq_true] at hg
    have hl := hi.linkOk hg.1.1.2
    refine ⟨hi.conn, ?_, hi.faulted, hi.okc⟩
    intro p hp
    dsimp only at hp ⊢
    split at hp
    · exact hi.sends p hp
    · rcases List.mem_cons.1 hp with rfl | hp
      · exact hl
      · exact hi.sends p hp
  | writeFail c sid =>
    obtain ⟨hg, rfl⟩ := guard_eq_some.1 h
    simp only [Bool.and_eq_true] at hg
    exact ⟨hi.conn, hi.sends, hi.fault (hi.linkOk hg.2), hi.okc⟩
  | drainFail c =>
    simp only [stepCore] at h
    split at h
    · obtain ⟨hg, rfl⟩ := guard_eq_some.1 h
      exact ⟨hi.conn, hi.sends, hi.fault (hi.linkOk hg), hi.okc⟩
    · cases h
  | envEof c =>
    simp only [stepCore, Option.some.injEq] at h
    subst h
    split
    · next hc => exact ⟨hi.conn, hi.sends, hi.fault (hi.conn c hc), hi.okc⟩
    · exact hi
  | envReadErr c =>
    simp only [stepCore, Option.some.injEq] at h
    subst h
    split
    · next hc => exact ⟨hi.conn, hi.sends, hi.fault (hi.conn c hc), hi.okc⟩
    · exact hi
  | abandon c =>
    obtain ⟨hg, rfl⟩ := guard_eq_some.1 h
    simp only [Bool.and_eq_true, decide_eq_true_eq] at hg
    exact ⟨hi.conn, hi.sends, hi.fault (hi.conn c hg.1.1.1.2), hi.okc⟩
  | connGiveUp c =>
    obtain ⟨hg, rfl⟩ := guard_eq_some.1 h
    simp only [Bool.and_eq_true, decide_eq_true_eq] at hg
    exact ⟨hi.conn, hi.sends, hi.fault (hi.conn c hg.2), hi.okc⟩
  | cfgFail c =>
    -- the failed attempt's link is recorded as faulted: it is the link that attempt opened
    obtain ⟨hg, rfl⟩ := guard_eq_some.1 h
    simp only [Bool.and_eq_true, decide_eq_true_eq] at hg
    refine ⟨hi.conn, hi.sends, hi.fault (hi.okc c hg.1.1), ?_⟩
    intro x hx; cases hx
  | _ =>
    simp only [stepCore, guard_eq_some] at h
    repeat' split at h
    all_goals try rw [guard_eq_some] at h
    all_goals first
      | (obtain ⟨-, rfl⟩ := h; exact hi.of_eq rfl rfl rfl rfl (Or.inl rfl))
      | (obtain ⟨-, rfl⟩ := h; exact hi.of_eq rfl rfl rfl rfl (Or.inr rfl))
      | (cases h; exact hi.of_eq rfl rfl rfl rfl (Or.inl rfl))
      | cases h

theorem step_inv3 {s s' : CS} {e : Ev} (h : step s e = some s') (hi : Inv3 s) : Inv3 s' := by
  obtain ⟨t, ht, rfl⟩ := step_eq_some.1 h
  exact (stepCore_inv3 ht hi).of_eq rfl rfl rfl rfl (Or.inl rfl)

theorem runTrace_inv3 (evs : List Ev) {s0 s : CS} (h : runTrace s0 evs = some s) (hi : Inv3 s0) :
    Inv3 s := by
  induction evs generalizing s0 with
  | nil => simp only [runTrace, Option.some.injEq] at h; subst h; exact hi
  | cons e es ih =>
    simp only [runTrace] at h
    cases hs : step s0 e with
    | none => rw [hs] at h; cases h
    | some s1 => rw [hs] at h; exact ih h (step_inv3 hs hi)

theorem reach_inv3 {evs : List Ev} {s : CS} (h : runTrace init evs = some s) : Inv3 s :=
  runTrace_inv3 evs h inv3_init

end N2k.Client

/-! ## the text clients' receive loop with the reader's line limit (C12): `feedLim` refines the byte-at-a-time automaton -/
namespace N2k.Reader

/-- nothing to do until more data arrives: no newline in the buffer and not more than `limit` bytes -/
def Stable (limit : Nat) (st : LState) : Prop := 10 ∉ st.buf ∧ st.buf.length ≤ limit

/-- code-shaped state vs automaton state: the same mode, and outside an overlong line the same line so far (inside one, how much of it the
reader still holds depends on where the reads fell; it is dropped either way) -/
def Rel (s a : LState) : Prop := s.skip = a.skip ∧ (s.skip = false → s.buf = a.buf)

/-- the receive loop with the limit, without fuel: `skip` and the buffer -/
def runLim (limit : Nat) (skip : Bool) (b : Bytes) : LState × List Bytes :=
  match h : findNl b with
  | none => if limit < b.length then ({ buf := [], skip := true }, []) else ({ buf := b, skip := skip }, [])
  | some i =>
    ((runLim limit false (b.drop (i + 1))).1,
      if skip = false ∧ i ≤ limit then b.take (i + 1) :: (runLim limit false (b.drop (i + 1))).2
      else (runLim limit false (b.drop (i + 1))).2)
termination_by b.length
decreasing_by all_goals (have := findNl_lt h; simp only [List.length_drop]; omega)

theorem runLim_none {limit : Nat} {skip : Bool} {b : Bytes} (h : findNl b = none) :
    runLim limit skip b
      = if limit < b.length then ({ buf := [], skip := true }, []) else ({ buf := b, skip := skip }, []) := by
  rw [runLim]; split <;> simp_all

theorem runLim_some {limit : Nat} {skip : Bool} {b : Bytes} {i : Nat} (h : findNl b = some i) :
    runLim limit skip b
      = ((runLim limit false (b.drop (i + 1))).1,
          if skip = false ∧ i ≤ limit then b.take (i + 1) :: (runLim limit false (b.drop (i + 1))).2
          else (runLim limit false (b.drop (i + 1))).2) := by
  rw [runLim]; split <;> simp_all

theorem drainLim_nil (limit fuel : Nat) (k : Bool) (acc : List Bytes) :
    drainLim limit fuel { buf := [], skip := k } acc = ({ buf := [], skip := k }, acc.reverse) := by
  cases fuel <;> simp [drainLim, stepLim, findNl]

theorem findNl_drop {b : Bytes} {i : Nat} (h : findNl b = some i) : findNl (b.drop i) = some 0 := by
  induction b generalizing i with
  | nil => simp [findNl] at h
  | cons a rest ih =>
    rw [findNl] at h
    by_cases ha : a = 10
    · rw [if_pos ha] at h; cases h; simp [findNl, ha]
    · rw [if_neg ha] at h
      cases hf : findNl rest with
      | none => rw [hf] at h; cases h
      | some j => rw [hf] at h; cases h; simpa using ih hf

theorem drainLim_eq_run (limit fuel : Nat) (k : Bool) (b : Bytes) (acc : List Bytes) (h : b.length < fuel) :
    drainLim limit fuel { buf := b, skip := k } acc
      = ((runLim limit k b).1, acc.reverse ++ (runLim limit k b).2) := by
  induction fuel generalizing b k acc with
  | zero => omega
  | succ n ih =>
    rw [drainLim, stepLim]
    cases hf : findNl b with
    | none =>
      simp only [runLim_none hf]
      by_cases hl : limit < b.length
      · simp [hl, drainLim_nil]
      · simp [hl]
    | some i =>
      have hlt := findNl_lt hf
      simp only [runLim_some hf]
      by_cases hl : limit < i
      · have h0 := findNl_drop hf
        simp only [if_pos hl]
        rw [ih _ _ _ (by simp only [List.length_drop]; omega), runLim_some h0]
        simp [show ¬ i ≤ limit by omega]
      · simp only [if_neg hl]
        cases k with
        | true => simp [ih _ _ _ (show (b.drop (i + 1)).length < n by simp only [List.length_drop]; omega)]
        | false =>
          simp [ih _ _ _ (show (b.drop (i + 1)).length < n by simp only [List.length_drop]; omega),
            show i ≤ limit by omega]

theorem feedLim_eq_run (limit : Nat) (s : LState) (data : Bytes) :
    feedLim limit s data = runLim limit s.skip (s.buf ++ data) := by
  unfold feedLim
  simp only
  rw [drainLim_eq_run _ _ _ _ _ (by omega)]
  simp


/-! the automaton -/

theorem autoByte_acc (limit : Nat) (st : LState) (acc : List Bytes) (b : Nat) :
    autoByte limit (st, acc) b
      = ((autoByte limit (st, []) b).1, acc ++ (autoByte limit (st, []) b).2) := by
  obtain ⟨buf, skip⟩ := st
  by_cases hb : b = 10 <;> cases skip <;> by_cases hc : limit < buf.length + 1 <;> simp [autoByte, hb, hc]

theorem foldl_autoByte_acc (limit : Nat) (st : LState) (acc : List Bytes) (data : Bytes) :
    data.foldl (autoByte limit) (st, acc)
      = ((autoRun limit st data).1, acc ++ (autoRun limit st data).2) := by
  unfold autoRun
  induction data generalizing st acc with
  | nil => simp
  | cons b rest ih =>
    simp only [List.foldl_cons]
    rw [autoByte_acc, ih, ih (autoByte limit (st, []) b).1 (autoByte limit (st, []) b).2]
    simp

theorem autoRun_nil (limit : Nat) (st : LState) : autoRun limit st [] = (st, []) := rfl

theorem autoRun_cons (limit : Nat) (st : LState) (b : Nat) (rest : Bytes) :
    autoRun limit st (b :: rest)
      = ((autoRun limit (autoByte limit (st, []) b).1 rest).1,
          (autoByte limit (st, []) b).2 ++ (autoRun limit (autoByte limit (st, []) b).1 rest).2) := by
  conv => lhs; unfold autoRun
  rw [List.foldl_cons, ← foldl_autoByte_acc]

theorem autoRun_append (limit : Nat) (st : LState) (x y : Bytes) :
    autoRun limit st (x ++ y)
      = ((autoRun limit (autoRun limit st x).1 y).1,
          (autoRun limit st x).2 ++ (autoRun limit (autoRun limit st x).1 y).2) := by
  conv => lhs; unfold autoRun
  rw [List.foldl_append, ← foldl_autoByte_acc]
  rfl

/-- a block without newline -/
theorem autoRun_body (limit : Nat) (a : LState) (body : Bytes) (hb : 10 ∉ body) (hl : a.buf.length ≤ limit) :
    autoRun limit a body
      = (if a.skip then a
          else if a.buf.length + body.length ≤ limit then { buf := a.buf ++ body, skip := false }
          else { buf := [], skip := true }, []) := by
  induction body generalizing a with
  | nil =>
    rw [autoRun_nil]
    cases a with
    | mk buf skip => cases skip <;> simp_all
  | cons b rest ih =>
    have hb10 : b ≠ 10 := fun h' => hb (by simp [h'])
    have hr : 10 ∉ rest := fun h' => hb (by simp [h'])
    rw [autoRun_cons]
    cases a with
    | mk buf skip =>
      cases skip with
      | true =>
        have h1 : autoByte limit ({ buf := buf, skip := true }, []) b = ({ buf := buf, skip := true }, []) := by
          simp [autoByte, hb10]
        rw [h1, ih _ hr hl]; simp
      | false =>
        simp only [autoByte, if_neg hb10]
        by_cases hc : limit < (buf ++ [b]).length
        · simp only [Bool.false_eq_true, if_false, if_pos hc]
          rw [ih _ hr (by simp)]
          simp at hc
          simp [show ¬ buf.length + (rest.length + 1) ≤ limit by omega]
        · simp only [Bool.false_eq_true, if_false, if_neg hc]
          rw [ih _ hr (by simpa using hc)]
          simp at hc
          by_cases h2 : buf.length + (rest.length + 1) ≤ limit
          · simp [h2, show buf.length + 1 + rest.length ≤ limit by omega]
          · simp [h2, show ¬ buf.length + 1 + rest.length ≤ limit by omega]

/-- a whole line -/
theorem autoRun_line (limit : Nat) (a : LState) (body : Bytes) (hb : 10 ∉ body) (hl : a.buf.length ≤ limit) :
    autoRun limit a (body ++ [10])
      = ({ buf := [], skip := false },
          if a.skip = false ∧ a.buf.length + body.length ≤ limit then [a.buf ++ body ++ [10]] else []) := by
  rw [autoRun_append, autoRun_body limit a body hb hl]
  cases a with
  | mk buf skip =>
    cases skip with
    | true => simp [autoRun_cons, autoRun_nil, autoByte]
    | false =>
      by_cases h2 : buf.length + body.length ≤ limit
      · simp [h2, autoRun_cons, autoRun_nil, autoByte]
      · simp [h2, autoRun_cons, autoRun_nil, autoByte]


/-! the receive loop refines the automaton -/

theorem split_first_nl (data : Bytes) :
    10 ∉ data ∨ ∃ body rest, data = body ++ 10 :: rest ∧ 10 ∉ body := by
  induction data with
  | nil => simp
  | cons x xs ih =>
    by_cases hx : x = 10
    · exact .inr ⟨[], xs, by simp [hx], by simp⟩
    · rcases ih with h | ⟨body, rest, rfl, hb⟩
      · exact .inl (by simp [h]; exact fun h' => hx h'.symm)
      · exact .inr ⟨x :: body, rest, by simp, by simp [hb]; exact fun h' => hx h'.symm⟩

theorem runLim_refines (limit : Nat) (s a : LState) (data : Bytes) (hr : Rel s a) (hs : Stable limit s)
    (ha : Stable limit a) :
    (runLim limit s.skip (s.buf ++ data)).2 = (autoRun limit a data).2 ∧
    Rel (runLim limit s.skip (s.buf ++ data)).1 (autoRun limit a data).1 ∧
    Stable limit (runLim limit s.skip (s.buf ++ data)).1 ∧ Stable limit (autoRun limit a data).1 := by
  induction hn : data.length using Nat.strongRecOn generalizing s a data with
  | _ n ih =>
    obtain ⟨sb, sk⟩ := s
    obtain ⟨ab, ak⟩ := a
    obtain ⟨hk, hbuf⟩ := hr
    obtain ⟨hs1, hs2⟩ := hs
    obtain ⟨ha1, ha2⟩ := ha
    simp only at hk hbuf hs1 hs2 ha1 ha2
    subst hk
    rcases split_first_nl data with hd | ⟨body, rest, rfl, hb⟩
    · have hf : findNl (sb ++ data) = none := findNl_eq_none.2 (by simp [hs1, hd])
      rw [runLim_none hf, autoRun_body limit _ data hd ha2]
      cases sk with
      | true =>
        by_cases hl : limit < (sb ++ data).length
        · simp only [List.length_append] at hl
          simp [hl, Rel, Stable, ha1, ha2]
        · simp only [List.length_append] at hl
          simp [hl, Rel, Stable, ha1, ha2, hs1, hd]; omega
      | false =>
        obtain rfl := hbuf rfl
        by_cases hl : limit < (sb ++ data).length
        · simp only [List.length_append] at hl
          simp [hl, Rel, Stable, show ¬ sb.length + data.length ≤ limit by omega]
        · simp only [List.length_append] at hl
          simp [hl, Rel, Stable, hs1, hd, show sb.length + data.length ≤ limit by omega]
    · have hf : findNl (sb ++ (body ++ 10 :: rest)) = some (sb ++ body).length := by
        rw [← List.append_assoc]; exact findNl_body rest (by simp [hs1, hb])
      have hdrop : (sb ++ (body ++ 10 :: rest)).drop ((sb ++ body).length + 1) = rest := by
        rw [show sb ++ (body ++ 10 :: rest) = (sb ++ body ++ [10]) ++ rest by simp]
        exact List.drop_left' (by simp; omega)
      have htake : (sb ++ (body ++ 10 :: rest)).take ((sb ++ body).length + 1) = sb ++ body ++ [10] := by
        rw [show sb ++ (body ++ 10 :: rest) = (sb ++ body ++ [10]) ++ rest by simp]
        exact List.take_left' (by simp; omega)
      have hrec := ih rest.length (by subst hn; simp; omega) { buf := [], skip := false } { buf := [], skip := false }
        rest ⟨rfl, fun _ => rfl⟩ ⟨by simp, by simp⟩ ⟨by simp, by simp⟩ rfl
      simp only [List.nil_append] at hrec
      obtain ⟨h1, h2, h3, h4⟩ := hrec
      rw [runLim_some hf, hdrop, htake,
        show body ++ 10 :: rest = (body ++ [10]) ++ rest by simp, autoRun_append,
        autoRun_line limit _ body hb ha2]
      refine ⟨?_, h2, h3, h4⟩
      simp only
      rw [h1]
      cases sk with
      | true => simp
      | false =>
        obtain rfl := hbuf rfl
        by_cases hl : sb.length + body.length ≤ limit
        · simp [hl]
        · simp [hl]

theorem feedLim_refines (limit : Nat) (s a : LState) (data : Bytes) (hr : Rel s a) (hs : Stable limit s)
    (ha : Stable limit a) :
    (feedLim limit s data).2 = (autoRun limit a data).2 ∧
    Rel (feedLim limit s data).1 (autoRun limit a data).1 ∧
    Stable limit (feedLim limit s data).1 ∧ Stable limit (autoRun limit a data).1 := by
  rw [feedLim_eq_run]
  exact runLim_refines limit s a data hr hs ha

theorem feedAllLim_cons (limit : Nat) (st : LState) (d : Bytes) (ds : List Bytes) :
    feedAllLim limit st (d :: ds)
      = ((feedAllLim limit (feedLim limit st d).1 ds).1,
          (feedLim limit st d).2 ++ (feedAllLim limit (feedLim limit st d).1 ds).2) := by
  simp [feedAllLim]

theorem feedAllLim_refines (limit : Nat) (s a : LState) (reads : List Bytes) (hr : Rel s a)
    (hs : Stable limit s) (ha : Stable limit a) :
    (feedAllLim limit s reads).2 = (autoRun limit a reads.flatten).2 := by
  induction reads generalizing s a with
  | nil => simp [feedAllLim, autoRun_nil]
  | cons d ds ih =>
    obtain ⟨h1, h2, h3, h4⟩ := feedLim_refines limit s a d hr hs ha
    rw [feedAllLim_cons, List.flatten_cons, autoRun_append, ih _ _ h2 h3 h4, h1]

theorem feedAllLim_auto (limit : Nat) (reads : List Bytes) :
    (feedAllLim limit {} reads).2 = (autoRun limit {} reads.flatten).2 :=
  feedAllLim_refines limit {} {} reads ⟨rfl, fun _ => rfl⟩ ⟨by simp, by simp⟩ ⟨by simp, by simp⟩

theorem autoRun_lines (limit : Nat) (ls : List Bytes) (tail : Bytes)
    (hl : ∀ l ∈ ls, ∃ body, l = body ++ [10] ∧ 10 ∉ body) (ht : 10 ∉ tail) :
    (autoRun limit {} (ls.flatten ++ tail)).2 = ls.filter (fun l => l.length ≤ limit + 1) := by
  induction ls with
  | nil =>
    rw [List.flatten_nil, List.nil_append, autoRun_body limit {} tail ht (by simp)]
    simp
  | cons l ls ih =>
    obtain ⟨body, rfl, hb⟩ := hl l (by simp)
    have ih' := ih (fun q hq => hl q (by simp [hq]))
    rw [List.flatten_cons, List.append_assoc, autoRun_append, autoRun_line limit {} body hb (by simp)]
    simp only
    rw [show ({ buf := [], skip := false } : LState) = {} from rfl, ih', List.filter_cons]
    by_cases h2 : body.length ≤ limit
    · simp [h2]
    · simp [h2]

end N2k.Reader
