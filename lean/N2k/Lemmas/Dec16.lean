/- helper lemmas for Props/C16.lean -/
import N2k.Model.Decoder
import N2k.Lemmas.Fast03
import N2k.Lemmas.Fast04
import N2k.Lemmas.Dec11
namespace N2k.Dec

/-! ### the output of `callDecode` as a function of what it really depends on -/

/-- the identity / stop part of the claim computation, as a function of the source's known identity -/
def claimOut (cfg : Config) (l : Option IsoName) (m : Msg) (dataInt : Nat) (iso : Option IsoName) :
    Option (Option IsoName × Bool) :=
  if m.pgn = isoClaimPgn then
    match l with
    | some old =>
      if old.name = dataInt then some (some old, cfg.isoClaimFilter)
      else (mkIsoName m dataInt).map (fun n => (some n, cfg.isoClaimFilter))
    | none => (mkIsoName m dataInt).map (fun n => (some n, cfg.isoClaimFilter))
  else some (iso, false)

theorem claimStep_out (cfg : Config) (st : State) (i : Input) (m : Msg) (d : Nat) (iso : Option IsoName) :
    (claimStep cfg st i m d iso).map (fun x => (x.2.1, x.2.2)) =
      claimOut cfg (lookupSrc st.sources i.src) m d iso := by
  unfold claimStep claimOut
  by_cases hm : m.pgn = isoClaimPgn
  · simp only [hm, if_true]
    cases lookupSrc st.sources i.src with
    | none => cases mkIsoName m d <;> rfl
    | some old =>
      simp only
      by_cases ho : old.name = d
      · simp only [ho, if_true, Option.map_some]
      · simp only [ho, if_false]
        cases mkIsoName m d <;> rfl
  · simp only [hm, if_false, Option.map_some]

/-- what is returned once the message, its identity and the stop flag are known -/
def finishOut (cfg : Config) (m : Msg) (pgn src dst prio : Nat) (iso1 : Option IsoName) (stop : Bool) : Out :=
  if stop then .none
  else
    let id := lower m.id
    if cfg.excludeIds.contains id then .none
    else if (!cfg.includeNums.isEmpty || !cfg.includeIds.isEmpty) && !cfg.includeNums.contains pgn && !cfg.includeIds.contains id then .none
    else
      let hk := if cfg.buildMap then some (hashKey m) else none
      match applyUnits cfg.units m with
      | none => .raised
      | some m' => .msg { msg := m', src := src, dst := dst, prio := prio, iso := iso1, hashKey := hk }

/-- the value returned by `_call_decode_function`: it depends on the state only through the known
identity `l` of the source, and on the input only through pgn, src, dst, prio and the payload -/
def callOut (G : GenLayer) (cfg : Config) (l : Option IsoName) (pgn src dst prio : Nat)
    (payload : List Nat) (iso : Option IsoName) : Out :=
  match G.decode pgn (leNat payload) with
  | none => .none
  | some .none => .none
  | some .raised => .raised
  | some (.ok m) =>
    match claimOut cfg l m (leNat payload % 18446744073709551616) iso with
    | none => .raised
    | some (iso1, stop) => finishOut cfg m pgn src dst prio iso1 stop

theorem callDecode_out (G : GenLayer) (cfg : Config) (st : State) (i : Input) (payload : List Nat)
    (iso : Option IsoName) :
    (callDecode G cfg st i payload iso).2 =
      callOut G cfg (lookupSrc st.sources i.src) i.pgn i.src i.dst i.prio payload iso := by
  rw [callDecode_eq]
  unfold callOut
  cases hd : G.decode i.pgn (leNat payload) with
  | none => rfl
  | some r =>
    cases r with
    | none => rfl
    | raised => rfl
    | ok m =>
      simp only
      have h := claimStep_out cfg st i m (leNat payload % 18446744073709551616) iso
      cases hc : claimStep cfg st i m (leNat payload % 18446744073709551616) iso with
      | none =>
        rw [hc] at h
        simp only [Option.map_none] at h
        rw [← h]
      | some r =>
        obtain ⟨st1, iso1, stop⟩ := r
        rw [hc] at h
        simp only [Option.map_some] at h
        rw [← h]
        simp only [finishOut]
        cases applyUnits cfg.units m <;> simp only [] <;> (repeat' split) <;> rfl


/-! ### `_decode` on inputs that do not go through reassembly -/

/-- the pre-filter decision as a function of what it depends on -/
def preOut (cfg : Config) (l : Option IsoName) (pgn : Nat) (w : Bool) : Option (Option IsoName) :=
  if pgn ≠ isoClaimPgn then
    if cfg.excludeNums.contains pgn then none
    else if !cfg.includeNums.isEmpty && cfg.includeIds.isEmpty && !cfg.includeNums.contains pgn then none
    else
      match l with
      | none => if cfg.buildMap && w then none else some none
      | some iso => if manuPasses cfg iso then some (some iso) else none
  else some none

theorem preOf_out (cfg : Config) (st : State) (i : Input) :
    preOf cfg st i = preOut cfg (lookupSrc st.sources i.src) i.pgn i.inWindow := rfl

/-- the value `_decode` returns for an input that is not reassembled -/
def stepOutSingle (G : GenLayer) (cfg : Config) (l : Option IsoName) (i : Input) : Out :=
  match preOut cfg l i.pgn i.inWindow with
  | none => .none
  | some iso =>
    match (if i.combined then FastKind.single else G.isFast i.pgn) with
    | .raises => .raised
    | .unknown => .none
    | .single => callOut G cfg l i.pgn i.src i.dst i.prio i.data iso
    | .fast => .none

theorem nonfast_kind (G : GenLayer) (i : Input) (hk : i.combined = true ∨ G.isFast i.pgn ≠ .fast) :
    (if i.combined then FastKind.single else G.isFast i.pgn) ≠ .fast := by
  rcases hk with h | h
  · simp [h]
  · by_cases hc : i.combined = true
    · simp [hc]
    · simp [hc, h]

theorem step_out_nonfast (G : GenLayer) (cfg : Config) (st : State) (i : Input)
    (hk : i.combined = true ∨ G.isFast i.pgn ≠ .fast) :
    (step G cfg st i).2 = stepOutSingle G cfg (lookupSrc st.sources i.src) i := by
  have hkind := nonfast_kind G i hk
  rw [step_eq, preOf_out]
  unfold stepOutSingle
  cases preOut cfg (lookupSrc st.sources i.src) i.pgn i.inWindow with
  | none => rfl
  | some iso =>
    simp only
    generalize (if i.combined then FastKind.single else G.isFast i.pgn) = kind at hkind
    cases kind with
    | raises => rfl
    | unknown => rfl
    | single => exact callDecode_out G cfg st i i.data iso
    | fast => exact absurd rfl hkind

/-- `callDecode` never touches the table, and touches the source map only for a decoded address claim -/
theorem callDecode_state (G : GenLayer) (cfg : Config) (st : State) (i : Input) (payload : List Nat)
    (iso : Option IsoName)
    (hnc : ∀ m, G.decode i.pgn (leNat payload) = some (.ok m) → m.pgn ≠ isoClaimPgn) :
    (callDecode G cfg st i payload iso).1.table = st.table ∧
    (callDecode G cfg st i payload iso).1.sources = st.sources := by
  rcases callDecode_spec G cfg st i payload iso with ⟨h, _⟩ | ⟨m, st1, iso1, hd, hc, ht, hs, _⟩
  · rw [h]; exact ⟨rfl, rfl⟩
  · have := (hc.nonclaim (hnc m hd)).1
    rw [ht, hs, this]; exact ⟨rfl, rfl⟩

theorem step_state_nonfast (G : GenLayer) (cfg : Config) (st : State) (i : Input)
    (hk : i.combined = true ∨ G.isFast i.pgn ≠ .fast)
    (hnc : ∀ m, G.decode i.pgn (leNat i.data) = some (.ok m) → m.pgn ≠ isoClaimPgn) :
    (step G cfg st i).1.table = st.table ∧ (step G cfg st i).1.sources = st.sources := by
  have hkind := nonfast_kind G i hk
  rw [step_eq]
  cases preOf cfg st i with
  | none => exact ⟨rfl, rfl⟩
  | some iso =>
    simp only
    generalize (if i.combined then FastKind.single else G.isFast i.pgn) = kind at hkind
    cases kind with
    | raises => exact ⟨rfl, rfl⟩
    | unknown => exact ⟨rfl, rfl⟩
    | single => exact callDecode_state G cfg st i i.data iso hnc
    | fast => exact absurd rfl hkind

/-! ### frames of a fast PGN -/

theorem step_fast_eq (G : GenLayer) (cfg : Config) (st : State) (i : Input)
    (hk : i.combined = false) (hf : G.isFast i.pgn = .fast) :
    step G cfg st i =
      match preOf cfg st i with
      | none => (st, .none)
      | some iso =>
        match (Fast.stepK st.table (i.pgn, i.src, i.dst) i.data).2 with
        | .complete payload =>
          callDecode G cfg { st with table := (Fast.stepK st.table (i.pgn, i.src, i.dst) i.data).1 } i payload iso
        | .error => ({ st with table := (Fast.stepK st.table (i.pgn, i.src, i.dst) i.data).1 }, .raised)
        | _ => ({ st with table := (Fast.stepK st.table (i.pgn, i.src, i.dst) i.data).1 }, .none) := by
  rw [step_eq]
  cases preOf cfg st i with
  | none => rfl
  | some iso =>
    simp only [hk, hf, Bool.false_eq_true, if_false]
    generalize Fast.stepK st.table (i.pgn, i.src, i.dst) i.data = s
    obtain ⟨t', o⟩ := s
    cases o <;> rfl

theorem step_fast_local (G : GenLayer) (cfg : Config) (st : State) (i : Input)
    (hk : i.combined = false) (hf : G.isFast i.pgn = .fast)
    (hnc : ∀ d m, G.decode i.pgn d = some (.ok m) → m.pgn ≠ isoClaimPgn) (k : Fast.Key)
    (hne : k ≠ (i.pgn, i.src, i.dst)) :
    (step G cfg st i).1.sources = st.sources ∧
      Fast.lookup (step G cfg st i).1.table k = Fast.lookup st.table k := by
  rw [step_fast_eq G cfg st i hk hf]
  have hl := Fast.L04.lookup_stepK st.table (i.pgn, i.src, i.dst) k i.data
  rw [if_neg hne] at hl
  cases preOf cfg st i with
  | none => exact ⟨rfl, rfl⟩
  | some iso =>
    simp only
    generalize Fast.stepK st.table (i.pgn, i.src, i.dst) i.data = s at hl
    obtain ⟨t', o⟩ := s
    cases o with
    | complete payload =>
      simp only
      obtain ⟨h1, h2⟩ := callDecode_state G cfg { st with table := t' } i payload iso (fun m => hnc _ m)
      rw [h1, h2]
      exact ⟨rfl, hl⟩
    | ignored => exact ⟨rfl, hl⟩
    | stored => exact ⟨rfl, hl⟩
    | error => exact ⟨rfl, hl⟩


/-! ### the reassembly table, with no hypothesis about address claims -/

/-- `callDecode` never assigns the table — address claim or not, whatever it returns -/
theorem callDecode_table (G : GenLayer) (cfg : Config) (st : State) (i : Input) (payload : List Nat)
    (iso : Option IsoName) : (callDecode G cfg st i payload iso).1.table = st.table := by
  rcases callDecode_spec G cfg st i payload iso with ⟨h, _⟩ | ⟨m, st1, iso1, _, hc, ht, _, _⟩
  · rw [h]
  · rw [ht, hc.table]

theorem step_table_nonfast (G : GenLayer) (cfg : Config) (st : State) (i : Input)
    (hk : i.combined = true ∨ G.isFast i.pgn ≠ .fast) :
    (step G cfg st i).1.table = st.table := by
  have hkind := nonfast_kind G i hk
  rw [step_eq]
  cases preOf cfg st i with
  | none => rfl
  | some iso =>
    simp only
    generalize (if i.combined then FastKind.single else G.isFast i.pgn) = kind at hkind
    cases kind with
    | raises => rfl
    | unknown => rfl
    | single => exact callDecode_table G cfg st i i.data iso
    | fast => exact absurd rfl hkind

/-- a frame of a fast PGN: the table after the step is the table after `Fast.stepK`, or untouched
(filtered out) — whatever `callDecode` does after the last frame -/
theorem step_fast_table (G : GenLayer) (cfg : Config) (st : State) (i : Input)
    (hk : i.combined = false) (hf : G.isFast i.pgn = .fast) :
    (step G cfg st i).1.table = st.table ∨
      (step G cfg st i).1.table = (Fast.stepK st.table (i.pgn, i.src, i.dst) i.data).1 := by
  rw [step_fast_eq G cfg st i hk hf]
  cases preOf cfg st i with
  | none => exact Or.inl rfl
  | some iso =>
    refine Or.inr ?_
    simp only
    generalize Fast.stepK st.table (i.pgn, i.src, i.dst) i.data = s
    obtain ⟨t', o⟩ := s
    cases o with
    | complete payload => simp only; rw [callDecode_table]
    | ignored => rfl
    | stored => rfl
    | error => rfl

theorem step_table_other (G : GenLayer) (cfg : Config) (st : State) (i : Input) (k : Fast.Key)
    (hne : k ≠ (i.pgn, i.src, i.dst)) :
    Fast.lookup (step G cfg st i).1.table k = Fast.lookup st.table k := by
  by_cases hfast : i.combined = false ∧ G.isFast i.pgn = .fast
  · have hl := Fast.L04.lookup_stepK st.table (i.pgn, i.src, i.dst) k i.data
    rw [if_neg hne] at hl
    rcases step_fast_table G cfg st i hfast.1 hfast.2 with h | h
    · rw [h]
    · rw [h, hl]
  · have hk : i.combined = true ∨ G.isFast i.pgn ≠ .fast := by
      by_cases hc : i.combined = true
      · exact Or.inl hc
      · exact Or.inr (fun hf => hfast ⟨by simpa using hc, hf⟩)
    rw [step_table_nonfast G cfg st i hk]

/-! ### a whole fast-packet message, frame by frame -/

theorem fastRun_length (fs : List Fast.Bytes) : ∀ (r : Option Fast.Rec), (Fast.run r fs).2.length = fs.length := by
  induction fs with
  | nil => intro r; rfl
  | cons f fs ih => intro r; rw [Fast.L04.run_cons]; simp [ih]

theorem step_filtered (G : GenLayer) (cfg : Config) (st : State) (i : Input)
    (hp : preOf cfg st i = none) : step G cfg st i = (st, .none) := by
  rw [step_eq, hp]

theorem step_fast_stored (G : GenLayer) (cfg : Config) (st : State) (i : Input)
    (hk : i.combined = false) (hf : G.isFast i.pgn = .fast) (iso : Option IsoName)
    (hp : preOf cfg st i = some iso)
    (ho : (Fast.step (Fast.lookup st.table (i.pgn, i.src, i.dst)) i.data).2 = .stored) :
    step G cfg st i =
      ({ st with table := (Fast.stepK st.table (i.pgn, i.src, i.dst) i.data).1 }, .none) := by
  rw [step_fast_eq G cfg st i hk hf, hp]
  simp only
  rw [Fast.L04.stepK_out, ho]

theorem step_fast_complete (G : GenLayer) (cfg : Config) (st : State) (i : Input)
    (hk : i.combined = false) (hf : G.isFast i.pgn = .fast) (iso : Option IsoName)
    (hp : preOf cfg st i = some iso) (P : List Nat)
    (ho : (Fast.step (Fast.lookup st.table (i.pgn, i.src, i.dst)) i.data).2 = .complete P) :
    (step G cfg st i).2 = callOut G cfg (lookupSrc st.sources i.src) i.pgn i.src i.dst i.prio P iso := by
  rw [step_fast_eq G cfg st i hk hf, hp]
  simp only
  rw [Fast.L04.stepK_out, ho]
  simp only
  rw [callDecode_out]

/-- the input carrying one frame -/
def frameIn (pgn prio src dst : Nat) (w : Bool) (f : List Nat) : Input :=
  { pgn := pgn, prio := prio, src := src, dst := dst, data := f, combined := false, inWindow := w }

theorem run_filtered (G : GenLayer) (cfg : Config) (pgn prio src dst : Nat) (w : Bool) :
    ∀ (fs : List (List Nat)) (st : State), preOut cfg (lookupSrc st.sources src) pgn w = none →
      (run G cfg st (fs.map (frameIn pgn prio src dst w))).2 = List.replicate fs.length Out.none := by
  intro fs
  induction fs with
  | nil => intro st _; rfl
  | cons f fs ih =>
    intro st hp
    have hs : step G cfg st (frameIn pgn prio src dst w f) = (st, .none) :=
      step_filtered G cfg st _ (by rw [preOf_out]; exact hp)
    rw [List.map_cons, run_cons, hs]
    simp only [List.length_cons, List.replicate_succ]
    rw [ih st hp]

theorem run_frames_dec (G : GenLayer) (cfg : Config) (pgn prio src dst : Nat) (w : Bool)
    (hf : G.isFast pgn = .fast) (iso : Option IsoName) (P : List Nat) :
    ∀ (fs : List (List Nat)) (m : Nat) (st : State),
      preOut cfg (lookupSrc st.sources src) pgn w = some iso →
      (Fast.run (Fast.lookup st.table (pgn, src, dst)) fs).2 =
        List.replicate m Fast.Out.stored ++ [Fast.Out.complete P] →
      (run G cfg st (fs.map (frameIn pgn prio src dst w))).2 =
        List.replicate m Out.none ++ [callOut G cfg (lookupSrc st.sources src) pgn src dst prio P iso] := by
  intro fs
  induction fs with
  | nil =>
    intro m st _ h
    simp [Fast.run] at h
  | cons f fs ih =>
    intro m st hp h
    rw [Fast.L04.run_cons] at h
    have hp' : preOf cfg st (frameIn pgn prio src dst w f) = some iso := by rw [preOf_out]; exact hp
    rw [List.map_cons, run_cons]
    cases m with
    | zero =>
      simp only [List.replicate_zero, List.nil_append, List.cons.injEq] at h
      obtain ⟨h1, h2⟩ := h
      have hfs : fs = [] := by
        have := fastRun_length fs (Fast.L04.keep (Fast.lookup st.table (pgn, src, dst)) f)
        rw [h2] at this
        exact List.eq_nil_of_length_eq_zero this.symm
      subst hfs
      rw [step_fast_complete G cfg st (frameIn pgn prio src dst w f) rfl hf iso hp' P h1]
      rfl
    | succ m =>
      simp only [List.replicate_succ, List.cons_append, List.cons.injEq] at h
      obtain ⟨h1, h2⟩ := h
      rw [step_fast_stored G cfg st (frameIn pgn prio src dst w f) rfl hf iso hp' h1]
      simp only [List.replicate_succ, List.cons_append]
      have hl := Fast.L04.lookup_stepK st.table (pgn, src, dst) (pgn, src, dst) f
      rw [if_pos rfl] at hl
      have := ih m { st with table := (Fast.stepK st.table (pgn, src, dst) f).1 } hp (by
        simp only
        rw [hl]; exact h2)
      exact congrArg _ this

theorem fast_probe_aux (G : GenLayer) (cfg : Config) (st : State) (pgn prio src dst seq : Nat) (w : Bool)
    (P : List Nat) (hf : G.isFast pgn = .fast) (hs : seq < 8) (hP : P.length ≤ 223)
    (h0 : ∀ x, Fast.lookup st.table (pgn, src, dst) = some x → x.seq ≠ seq) :
    let outs := (run G cfg st ((Fast.frames seq P).map (frameIn pgn prio src dst w))).2
    outs.dropLast.all (· = Out.none) = true ∧
    outs.getLast? = some (step G cfg st
      { pgn := pgn, prio := prio, src := src, dst := dst, data := P, combined := true, inWindow := w }).2 := by
  intro outs
  have hc := step_out_nonfast G cfg st
    { pgn := pgn, prio := prio, src := src, dst := dst, data := P, combined := true, inWindow := w }
    (Or.inl rfl)
  rw [hc]
  unfold stepOutSingle
  simp only [if_true]
  have hlen : (Fast.frames seq P).length = ((Fast.frames seq P).length - 1) + 1 := by
    simp only [Fast.frames, List.length_cons]; omega
  cases hp : preOut cfg (lookupSrc st.sources src) pgn w with
  | none =>
    have : outs = List.replicate (Fast.frames seq P).length Out.none :=
      run_filtered G cfg pgn prio src dst w _ st hp
    rw [this, hlen, List.replicate_succ']
    simp
  | some iso =>
    have hr := Fast.run_frames seq P hs hP (Fast.lookup st.table (pgn, src, dst)) h0
    have : outs = _ := run_frames_dec G cfg pgn prio src dst w hf iso P (Fast.frames seq P) _ st hp
      (by rw [hr])
    rw [this]
    simp

/-! ### the dump log is write-only: states that differ only in it cannot be told apart -/

/-- two states a later result cannot tell apart: same reassembly table, same source map (the dump log is write-only) -/
def Sim (s1 s2 : State) : Prop := s1.table = s2.table ∧ s1.sources = s2.sources

/-- the claim computation carries the dump log along untouched -/
theorem claimStep_dump (cfg : Config) (t : Fast.Table) (so : List (Nat × IsoName)) (d1 d2 : List OutMsg)
    (i : Input) (m : Msg) (n : Nat) (iso : Option IsoName) :
    claimStep cfg ⟨t, so, d2⟩ i m n iso =
      (claimStep cfg ⟨t, so, d1⟩ i m n iso).map (fun x => ({ x.1 with dump := d2 }, x.2)) := by
  unfold claimStep
  split
  · simp only
    split
    · split
      · rfl
      · cases mkIsoName m n <;> rfl
    · cases mkIsoName m n <;> rfl
  · rfl

theorem callDecode_sim (G : GenLayer) (cfg : Config) (s1 s2 : State) (i : Input) (p : List Nat)
    (iso : Option IsoName) (h : Sim s1 s2) :
    (callDecode G cfg s1 i p iso).2 = (callDecode G cfg s2 i p iso).2 ∧
      Sim (callDecode G cfg s1 i p iso).1 (callDecode G cfg s2 i p iso).1 := by
  obtain ⟨t, so, d1⟩ := s1
  obtain ⟨t2, so2, d2⟩ := s2
  obtain ⟨h1, h2⟩ := h
  simp only at h1 h2
  subst h1 h2
  rw [callDecode_eq, callDecode_eq]
  cases G.decode i.pgn (leNat p) with
  | none => exact ⟨rfl, rfl, rfl⟩
  | some r =>
    cases r with
    | none => exact ⟨rfl, rfl, rfl⟩
    | raised => exact ⟨rfl, rfl, rfl⟩
    | ok m =>
      simp only
      rw [claimStep_dump cfg t so d1 d2]
      cases claimStep cfg ⟨t, so, d1⟩ i m (leNat p % 18446744073709551616) iso with
      | none => exact ⟨rfl, rfl, rfl⟩
      | some r =>
        obtain ⟨st1, iso1, stop⟩ := r
        simp only [Option.map_some]
        split
        · exact ⟨rfl, rfl, rfl⟩
        split
        · exact ⟨rfl, rfl, rfl⟩
        split
        · exact ⟨rfl, rfl, rfl⟩
        split
        · exact ⟨rfl, rfl, rfl⟩
        · refine ⟨rfl, ?_⟩
          split <;> exact ⟨rfl, rfl⟩

theorem Sim.refl (s : State) : Sim s s := ⟨rfl, rfl⟩
theorem Sim.symm {s1 s2 : State} (h : Sim s1 s2) : Sim s2 s1 := ⟨h.1.symm, h.2.symm⟩
theorem Sim.trans {s1 s2 s3 : State} (h : Sim s1 s2) (h' : Sim s2 s3) : Sim s1 s3 :=
  ⟨h.1.trans h'.1, h.2.trans h'.2⟩

theorem step_sim (G : GenLayer) (cfg : Config) (s1 s2 : State) (i : Input) (h : Sim s1 s2) :
    (step G cfg s1 i).2 = (step G cfg s2 i).2 ∧ Sim (step G cfg s1 i).1 (step G cfg s2 i).1 := by
  have hp : preOf cfg s1 i = preOf cfg s2 i := by rw [preOf_out, preOf_out, h.2]
  rw [step_eq, step_eq, hp, h.1]
  cases preOf cfg s2 i with
  | none => exact ⟨rfl, h⟩
  | some iso =>
    simp only
    cases (if i.combined then FastKind.single else G.isFast i.pgn) with
    | raises => exact ⟨rfl, h⟩
    | unknown => exact ⟨rfl, h⟩
    | single => exact callDecode_sim G cfg s1 s2 i i.data iso h
    | fast =>
      simp only
      generalize Fast.stepK s2.table (i.pgn, i.src, i.dst) i.data = s
      obtain ⟨t', o⟩ := s
      have h' : Sim { s1 with table := t' } { s2 with table := t' } := ⟨rfl, h.2⟩
      cases o with
      | complete payload => exact callDecode_sim G cfg _ _ i payload iso h'
      | ignored => exact ⟨rfl, h'⟩
      | stored => exact ⟨rfl, h'⟩
      | error => exact ⟨rfl, h'⟩

theorem run_sim (G : GenLayer) (cfg : Config) (st st' : State) (is : List Input) (hs : Sim st st') :
    (run G cfg st is).2 = (run G cfg st' is).2 := by
  induction is generalizing st st' with
  | nil => rfl
  | cons i is ih =>
    obtain ⟨h1, h2⟩ := step_sim G cfg st st' i hs
    rw [run_cons, run_cons, h1, ih _ _ h2]

/-- keep the elements whose mask bit is `true` -/
def pick {α : Type} : List Bool → List α → List α
  | true :: ks, x :: xs => x :: pick ks xs
  | false :: ks, _ :: xs => pick ks xs
  | _, _ => []

/-- every input the mask drops was, where it stood in the full history, rejected with an error or ignored (`raised` / `none`) and left
reassembly table and source map as they were — which `C16_rejected_is_noop` shows for every single-frame or pre-assembled input that is
filtered, unknown, undecodable or raises (anything but a decodable address claim) -/
def DropsOk (G : GenLayer) (cfg : Config) : State → List Input → List Bool → Prop
  | st, i :: is, k :: ks =>
    (k = false → ((step G cfg st i).2 = .raised ∨ (step G cfg st i).2 = .none) ∧
                 (step G cfg st i).1.table = st.table ∧ (step G cfg st i).1.sources = st.sources) ∧
    DropsOk G cfg (step G cfg st i).1 is ks
  | _, _, _ => True

theorem garbage_removal (G : GenLayer) (cfg : Config) (st st' : State) (is : List Input) (ks : List Bool)
    (hl : ks.length = is.length) (hs : Sim st st') (hd : DropsOk G cfg st is ks) :
    (run G cfg st' (pick ks is)).2 = pick ks (run G cfg st is).2 := by
  induction is generalizing st st' ks with
  | nil =>
    cases ks with
    | nil => rfl
    | cons k ks => cases k <;> rfl
  | cons i is ih =>
    cases ks with
    | nil => cases hl
    | cons k ks =>
      have hl' : ks.length = is.length := by simpa using hl
      obtain ⟨hk, hd'⟩ := hd
      rw [run_cons]
      cases k with
      | false =>
        obtain ⟨_, ht, hso⟩ := hk rfl
        have h1 : Sim (step G cfg st i).1 st' := Sim.trans ⟨ht, hso⟩ hs
        exact ih _ _ ks hl' h1 hd'
      | true =>
        obtain ⟨h1, h2⟩ := step_sim G cfg st st' i hs
        show (run G cfg st' (i :: pick ks is)).2 = _
        rw [run_cons, ← h1, ih _ _ ks hl' h2 hd']
        rfl

end N2k.Dec
