/- helper lemmas for Props/C15.lean -/
import N2k.Model.Json
import N2k.Lemmas.Dec11
import N2k.Lemmas.Dec17
namespace N2k.Json
open N2k N2k.Dec

/-! ### the JSON view of simple values -/

theorem unview_view_none : unview (view .none) = .none := rfl
theorem unview_view_int (z : Int) : unview (view (.int z)) = .int z := rfl
theorem unview_view_flt (q : Rat) : unview (view (.flt q)) = .flt q := rfl
theorem unview_view_str (s : List Nat) : unview (view (.str s)) = .str s := rfl

/-! ### what the encoder reads -/

theorem encValue_number_congr (env : Env) (f f' : Field) (bits : Nat) (signed : Bool) (res ofs : Lit)
    (hv : f'.value = f.value) :
    encValue env f' (.number bits signed res ofs) = encValue env f (.number bits signed res ofs) := by
  simp only [encValue, hv]

theorem encValue_reserved_congr (env : Env) (f f' : Field) (hv : f'.value = f.value) :
    encValue env f' .reserved = encValue env f .reserved := by
  simp only [encValue, hv]

/-- lookups, dates and times read `raw` first and `value` only when `raw` is `None` -/
theorem encValue_raw_congr (env : Env) (f f' : Field) (k : EncKind) (hr : f'.raw = f.raw)
    (hv : f.raw = .none → f'.value = f.value) :
    (match k with | .lookup _ | .date _ | .time _ _ _ => True | _ => False) →
    encValue env f' k = encValue env f k := by
  intro hk
  cases k with
  | lookup e =>
    simp only [encValue, hr]
    cases h : f.raw with
    | none => simp only [hv h]
    | _ => rfl
  | date b =>
    simp only [encValue, hr]
    cases h : f.raw with
    | none => simp only [hv h]
    | _ => rfl
  | time r b s =>
    simp only [encValue, hr]
    cases h : f.raw with
    | none => simp only [hv h]
    | _ => rfl
  | _ => exact hk.elim

/-! ### the dump log -/

/-- the messages among the outputs -/
def outMsgs : List Out → List OutMsg
  | [] => []
  | .msg m :: os => m :: outMsgs os
  | _ :: os => outMsgs os

/-- what one step writes to the dump file -/
def stepDump (cfg : Config) : Out → List OutMsg
  | .msg o => if cfg.dumpOn && dumpMatches cfg o then [o] else []
  | _ => []

theorem claimStep_dump (cfg : Config) (st : State) (i : Input) (m : Msg) (d : Nat) (iso : Option IsoName)
    (st1 : State) (iso1 : Option IsoName) (stop : Bool)
    (h : claimStep cfg st i m d iso = some (st1, iso1, stop)) : st1.dump = st.dump := by
  unfold claimStep at h
  split at h
  · split at h
    · split at h
      · cases h; rfl
      · simp only [Option.map_eq_some_iff] at h
        obtain ⟨n, _, he⟩ := h
        cases he; rfl
    · simp only [Option.map_eq_some_iff] at h
      obtain ⟨n, _, he⟩ := h
      cases he; rfl
  · cases h; rfl

theorem callDecode_dump (G : GenLayer) (cfg : Config) (st : State) (i : Input) (payload : List Nat)
    (iso : Option IsoName) :
    (callDecode G cfg st i payload iso).1.dump =
      st.dump ++ stepDump cfg (callDecode G cfg st i payload iso).2 := by
  rw [callDecode_eq]
  split
  · simp [stepDump]
  · simp [stepDump]
  · simp [stepDump]
  rename_i m hd
  split
  · simp [stepDump]
  rename_i st1 iso1 stop hc
  have hdump := claimStep_dump _ _ _ _ _ _ _ _ _ hc
  by_cases h1 : stop = true
  · rw [if_pos h1]; simp [stepDump, hdump]
  rw [if_neg h1]
  simp only
  split
  · simp [stepDump, hdump]
  split
  · simp [stepDump, hdump]
  cases hu : applyUnits cfg.units m with
  | none => simp [stepDump, hdump]
  | some m' =>
    obtain ⟨hpgn, hid, _⟩ := applyUnits_frame _ _ _ hu
    simp only [stepDump, dumpMatches, hpgn, hid]
    split <;> simp [hdump]

theorem step_dump (G : GenLayer) (cfg : Config) (st : State) (i : Input) :
    (step G cfg st i).1.dump = st.dump ++ stepDump cfg (step G cfg st i).2 := by
  rw [step_eq]
  split
  · simp [stepDump]
  split
  · simp [stepDump]
  · simp [stepDump]
  · exact callDecode_dump G cfg st i i.data _
  · split
    split
    · rw [callDecode_dump]
    · simp [stepDump]
    · simp [stepDump]

theorem run_fst_cons (G : GenLayer) (cfg : Config) (st : State) (i : Input) (is : List Input) :
    (run G cfg st (i :: is)).1 = (run G cfg (step G cfg st i).1 is).1 := rfl

/-- the dump log after a run from an arbitrary state -/
theorem run_dump (G : GenLayer) (cfg : Config) (st : State) (h : List Input) :
    (run G cfg st h).1.dump =
      st.dump ++ (if cfg.dumpOn then (outMsgs (run G cfg st h).2).filter (fun o => dumpMatches cfg o) else []) := by
  induction h generalizing st with
  | nil => simp [run, outMsgs]
  | cons i is ih =>
    rw [run_fst_cons, run_cons, ih, step_dump, List.append_assoc]
    congr 1
    cases ho : (step G cfg st i).2 with
    | msg o =>
      by_cases hd : cfg.dumpOn = true
      · by_cases hm : dumpMatches cfg o = true <;> simp [stepDump, outMsgs, hd, hm]
      · simp [stepDump, hd]
    | none => simp [stepDump, outMsgs]
    | raised => simp [stepDump, outMsgs]

end N2k.Json
