/- helper lemmas for Props/C06Msg.lean: the encoder model (`Model/Encoder.lean`) composed with the wire
round trips (C06), the identifier round trip (C05) and frame-wise = pre-assembled (C07). -/
import N2k.Model.Encoder
import N2k.Props.C03
import N2k.Props.C05
import N2k.Props.C06
import N2k.Props.C07Fast
import N2k.Lemmas.Dec16
namespace N2k.Enc
open N2k N2k.Dec N2k.Gen N2k.Spec N2k.Straight

/-! ### what an accepted `_encode` call says -/

theorem encodeFrames_inv (L : EncLayer) (seq seq' : Nat) (m : MsgIn) (frs : List Bytes)
    (he : encodeFrames L seq m = .ok (seq', frs)) :
    m.prio ≤ 7 ∧ m.src ≤ 255 ∧ m.pgn ≤ 0x3FFFF ∧ ∃ B, callEncode L m = .ok B ∧
      ((L.isFast m.pgn = .fast ∧ B.length ≤ 223 ∧ seq' = (seq + 1) % 8 ∧ frs = Fast.frames seq B) ∨
       (L.isFast m.pgn ≠ .fast ∧ L.isFast m.pgn ≠ .raises ∧ seq' = seq ∧ frs = [B])) := by
  unfold encodeFrames at he
  by_cases hg : 7 < m.prio ∨ 255 < m.src ∨ 0x3FFFF < m.pgn ∨ 255 < m.dst
  · rw [if_pos hg] at he; cases he
  · rw [if_neg hg] at he
    refine ⟨by omega, by omega, by omega, ?_⟩
    cases hB : callEncode L m with
    | raised => rw [hB] at he; cases he
    | unmodelled => rw [hB] at he; cases he
    | ok B =>
      rw [hB] at he
      refine ⟨B, rfl, ?_⟩
      cases hk : L.isFast m.pgn with
      | raises => rw [hk] at he; cases he
      | fast =>
        rw [hk] at he
        by_cases h223 : 223 < B.length
        · simp only [h223, if_true] at he; cases he
        · simp only [h223, if_false] at he
          cases he
          exact Or.inl ⟨rfl, by omega, rfl, rfl⟩
      | single =>
        rw [hk] at he; cases he
        exact Or.inr ⟨by decide, by decide, rfl, rfl⟩
      | unknown =>
        rw [hk] at he; cases he
        exact Or.inr ⟨by decide, by decide, rfl, rfl⟩

theorem encodeFrames_counter (L : EncLayer) (seq seq' : Nat) (m : MsgIn) (frs : List Bytes)
    (he : encodeFrames L seq m = .ok (seq', frs)) :
    seq' = (if L.isFast m.pgn = .fast then (seq + 1) % 8 else seq) := by
  obtain ⟨_, _, _, B, _, h | h⟩ := encodeFrames_inv L seq seq' m frs he
  · rw [if_pos h.1]; exact h.2.2.1
  · rw [if_neg h.1]; exact h.2.2.1

theorem encodeEbyte_inv (L : EncLayer) (seq seq' : Nat) (m : MsgIn) (pk : List Bytes)
    (he : encodeEbyte L seq m = .ok (seq', pk)) :
    ∃ frs, encodeFrames L seq m = .ok (seq', frs) ∧ (∀ f ∈ frs, f.length ≤ 8) ∧
      pk = frs.map (Wire.encodeEbyte (frameId m)) := by
  unfold encodeEbyte at he
  cases hF : encodeFrames L seq m with
  | raised => rw [hF] at he; cases he
  | unmodelled => rw [hF] at he; cases he
  | ok r =>
    obtain ⟨s, frs⟩ := r
    rw [hF] at he
    by_cases ha : frs.any (fun f => 8 < f.length) = true
    · simp only [ha, if_true] at he; cases he
    · simp only [ha] at he
      cases he
      refine ⟨frs, rfl, ?_, rfl⟩
      intro f hf
      have : ¬ 8 < f.length := fun h => ha (List.any_eq_true.mpr ⟨f, hf, by simpa using h⟩)
      omega

theorem encodeUsb_inv (L : EncLayer) (seq seq' : Nat) (m : MsgIn) (pk : List Bytes)
    (he : encodeUsb L seq m = .ok (seq', pk)) :
    ∃ frs, encodeFrames L seq m = .ok (seq', frs) ∧ pk = frs.map (Wire.encodeUsb (frameId m)) := by
  unfold encodeUsb at he
  cases hF : encodeFrames L seq m with
  | raised => rw [hF] at he; cases he
  | unmodelled => rw [hF] at he; cases he
  | ok r =>
    obtain ⟨s, frs⟩ := r
    rw [hF] at he
    cases he
    exact ⟨frs, rfl, rfl⟩

theorem encodeActisense_inv (L : EncLayer) (m : MsgIn) (line : List Char)
    (he : encodeActisense L m = .ok line) :
    (m.prio ≤ 7 ∧ m.src ≤ 255 ∧ m.pgn ≤ 0x3FFFF ∧ m.dst ≤ 255) ∧
    ∃ B, callEncode L m = .ok B ∧ line = Wire.encodeActisense m.prio m.dst m.src m.pgn B := by
  unfold encodeActisense at he
  split at he
  · cases he
  · rename_i hg
    refine ⟨by omega, ?_⟩
    cases hB : callEncode L m with
    | raised => rw [hB] at he; cases he
    | unmodelled => rw [hB] at he; cases he
    | ok B => rw [hB] at he; cases he; exact ⟨B, rfl, rfl⟩

/-! ### payload bytes are bytes -/

theorem toLE_lt (k : Nat) : ∀ n, ∀ b ∈ toLE n k, b < 256 := by
  induction k with
  | zero => intro n b hb; simp [toLE] at hb
  | succ k ih =>
    intro n b hb
    simp only [toLE, List.mem_cons] at hb
    rcases hb with rfl | hb
    · exact Nat.mod_lt _ (by decide)
    · exact ih _ b hb

theorem runEnc_bytes (env : Env) (fn : EncFn) (fs : List Field) (B : List Nat)
    (h : runEnc env fn fs = .ok B) : ∀ b ∈ B, b < 256 := by
  unfold runEnc at h
  cases hn : runSteps env fs 0 fn.steps with
  | error e => rw [hn] at h; cases h
  | ok n =>
    rw [hn] at h
    simp only [bind, Except.bind] at h
    cases hl : fn.len with
    | none =>
      rw [hl] at h
      simp only [pure, Except.pure] at h
      cases h
      exact toLE_lt _ _
    | some l =>
      rw [hl] at h
      by_cases hlt : n < 256 ^ l
      · simp only [hlt, if_true, pure, Except.pure] at h
        cases h
        exact toLE_lt _ _
      · simp only [hlt, if_false, throw, throwThe, MonadExceptOf.throw] at h
        cases h

theorem callEncode_mk_bytes (env : Env) (encFns : List EncFn) (fasts : List FastEntry) (m : MsgIn) (B : Bytes)
    (h : callEncode (mkEncLayer env encFns fasts) m = .ok B) : ∀ b ∈ B, b < 256 := by
  unfold callEncode at h
  simp only [mkEncLayer] at h
  cases hf : encFnFor encFns m.pgn m.id with
  | none => rw [hf] at h; cases h
  | some fn =>
    rw [hf] at h
    simp only [Option.map_some] at h
    cases hr : runEnc env fn m.fields with
    | error e => rw [hr] at h; cases h
    | ok B' =>
      rw [hr] at h
      cases h
      exact runEnc_bytes env fn m.fields _ hr

/-! ### the packets decode to the message's own addressing -/

/-- the frame a frame-level front-end should extract: the message's addressing, the frame's bytes -/
def msgFrame (m : MsgIn) (f : Bytes) : Wire.Frame :=
  { pgn := m.pgn, prio := m.prio, src := m.src, dst := m.dst, data := f }

theorem sentFrame_canon (m : MsgIn)
    (hc : if m.pgn / 256 % 256 < 240 then m.pgn % 256 = 0 else m.dst = 255) (f : Bytes) :
    Wire.sentFrame m.pgn m.src m.dst m.prio f = msgFrame m f := by
  unfold Wire.sentFrame msgFrame
  by_cases h : m.pgn / 256 % 256 < 240
  · simp [h]
  · simp only [h, if_false] at hc ⊢
    rw [hc]

theorem packets_decode (m : MsgIn) (hp : m.prio < 8) (hs : m.src < 256) (hd : m.dst < 256) (hg : m.pgn < 2 ^ 18)
    (hc : if m.pgn / 256 % 256 < 240 then m.pgn % 256 = 0 else m.dst = 255)
    (frs : List Bytes) (h8 : ∀ f ∈ frs, f.length ≤ 8) :
    (frs.map (Wire.encodeEbyte (frameId m))).map Wire.decodeTcp = (frs.map (msgFrame m)).map Wire.Res.ok ∧
    (frs.map (Wire.encodeUsb (frameId m))).map Wire.decodeUsb = (frs.map (msgFrame m)).map Wire.Res.ok := by
  have hcan : m.pgn / 256 % 256 < 240 → m.pgn % 256 = 0 := by
    intro h; simpa [h] using hc
  simp only [List.map_map]
  constructor
  all_goals
    apply List.map_congr_left
    intro f hf
    have := Wire.C06_frame_message_rt m.pgn m.src m.dst m.prio f hp hs hd hg hcan (h8 f hf)
    simp only [Function.comp, frameId, this.1, this.2, sentFrame_canon m hc f]

theorem packets_length (id : Nat) (frs : List Bytes) (h8 : ∀ f ∈ frs, f.length ≤ 8) :
    (∀ q ∈ frs.map (Wire.encodeEbyte id), q.length = 13) ∧ (∀ q ∈ frs.map (Wire.encodeUsb id), q.length = 20) := by
  constructor
  all_goals
    intro q hq
    simp only [List.mem_map] at hq
    obtain ⟨f, hf, rfl⟩ := hq
  · exact Wire.C06_ebyte_13 id f (h8 f hf)
  · exact Wire.C06_usb_20 id f (h8 f hf)

/-- collecting accepted packets -/
theorem mapM_ok (g : Wire.Res Wire.Frame → Option Wire.Frame) (hg : ∀ f, g (.ok f) = some f) (fs : List Wire.Frame) :
    (fs.map Wire.Res.ok).mapM g = some fs := by
  induction fs with
  | nil => rfl
  | cons f fs ih => simp [List.mapM_cons, hg, ih]

/-! ### the decoder on the encoder's frames -/

theorem trip_core (cfg : Config) (st : State) (L : EncLayer) (hL : ∀ n, L.isFast n = shipped.isFast n)
    (m : MsgIn) (seq seq' : Nat) (frs : List Bytes)
    (p : PgnDef) (hp : p ∈ dbPgns) (hpg : p.pgn = m.pgn) (hty : p.ptype = "Fast" ∨ p.ptype = "Single")
    (hs : seq < 8) (w : Bool)
    (h0 : ∀ x, Fast.lookup st.table (m.pgn, m.src, m.dst) = some x → x.seq ≠ seq)
    (h8 : p.ptype = "Single" → ∀ B, callEncode L m = .ok B → frs = [B] → B.length ≤ 8)
    (he : encodeFrames L seq m = .ok (seq', frs)) :
    m.prio < 8 ∧ m.src < 256 ∧ m.pgn < 2 ^ 18 ∧ (∀ f ∈ frs, f.length ≤ 8) ∧
    ∃ B, callEncode L m = .ok B ∧
      (let outs := (run shipped cfg st (frs.map (frameIn m.pgn m.prio m.src m.dst w))).2
       outs.dropLast.all (· = Out.none) = true ∧
       outs.getLast? = some (step shipped cfg st
         { pgn := m.pgn, prio := m.prio, src := m.src, dst := m.dst, data := B, combined := true, inWindow := w }).2) := by
  obtain ⟨h1, h2, h3, B, hB, hcase⟩ := encodeFrames_inv L seq seq' m frs he
  have hk : shipped.isFast m.pgn = kindOfType p.ptype := by rw [← hpg]; exact C07_db_fast_kind p hp
  refine ⟨by omega, by omega, by omega, ?_⟩
  rcases hty with ht | ht
  · -- fast-packet definition
    have hf : shipped.isFast m.pgn = .fast := by rw [hk, ht]; rfl
    rcases hcase with ⟨_, hP, _, hfr⟩ | ⟨hne, _⟩
    · subst hfr
      refine ⟨Fast.C03_frame_sizes seq B, B, hB, ?_⟩
      exact fast_probe_aux shipped cfg st m.pgn m.prio m.src m.dst seq w B hf hs hP h0
    · exact absurd ((hL m.pgn).trans hf) hne
  · -- single-frame definition
    have hf : shipped.isFast m.pgn = .single := by rw [hk, ht]; rfl
    rcases hcase with ⟨hfast, _⟩ | ⟨_, _, _, hfr⟩
    · rw [hL m.pgn, hf] at hfast; cases hfast
    · have hlen := h8 ht B hB hfr
      subst hfr
      refine ⟨?_, B, hB, ?_⟩
      · intro f hfm
        simp only [List.mem_singleton] at hfm
        subst hfm; exact hlen
      · have hirr := C07_single_combined_irrelevant cfg st p hp ht (frameIn m.pgn m.prio m.src m.dst w B) hpg.symm
        simp only [List.map_cons, List.map_nil, run, List.dropLast_singleton, List.all_nil, List.getLast?_singleton,
          true_and]
        exact congrArg (fun x => some x.2) hirr.symm

end N2k.Enc
