/- helper lemmas for Props/C17.lean (the frame lemmas are shared with Props/C18.lean) -/
import N2k.Model.Decoder
import N2k.Lemmas.Dec11
namespace N2k.Dec

/-! ### the key as a fold over the primary-key raw values -/

theorem foldl_if_filter {α β} (p : α → Bool) (g : β → α → β) (l : List α) (a : β) :
    l.foldl (fun acc f => if p f then g acc f else acc) a = (l.filter p).foldl g a := by
  induction l generalizing a with
  | nil => rfl
  | cons x xs ih =>
    by_cases hp : p x = true
    · simp [List.filter_cons_of_pos hp, hp, ih]
    · simp [List.filter_cons_of_neg hp, hp, ih]

def foldKey (id : String) (rs : List PyVal) : String := rs.foldl (fun acc r => acc ++ "_" ++ pyStr r) id

theorem hashKey_eq_fold (m : Msg) :
    hashKey m = foldKey m.id ((m.fields.filter (·.fmeta.pk)).map (·.raw)) := by
  unfold hashKey foldKey
  rw [foldl_if_filter (fun f : Field => f.fmeta.pk) (fun acc f => acc ++ "_" ++ pyStr f.raw), List.foldl_map]


theorem foldKey_toList (id : String) (rs : List PyVal) :
    (foldKey id rs).toList = id.toList ++ (rs.map (fun r => '_' :: (pyStr r).toList)).flatten := by
  unfold foldKey
  induction rs generalizing id with
  | nil => simp
  | cons r rs ih =>
    simp [ih, String.toList_append]

/-! ### `str(int)`: digits and an optional sign -/

theorem intStr_toList (z : Int) :
    (toString z).toList = if 0 ≤ z then Nat.toDigits 10 z.toNat else '-' :: Nat.toDigits 10 (-z).toNat := by
  rw [Int.toString_eq_repr, Int.repr_eq_if]
  split <;> simp [String.toList_append]

theorem intStr_no_underscore (z : Int) : '_' ∉ (toString z).toList := by
  rw [intStr_toList]
  split <;> simp

theorem minus_not_mem_toDigits (n : Nat) : '-' ∉ Nat.toDigits 10 n := by
  intro h
  simpa using Nat.isDigit_of_mem_toDigits (by decide) (by decide) h

theorem o_not_mem_toDigits (n : Nat) : 'o' ∉ Nat.toDigits 10 n := by
  intro h
  simpa using Nat.isDigit_of_mem_toDigits (by decide) (by decide) h

theorem toDigits_inj {a b : Nat} (h : Nat.toDigits 10 a = Nat.toDigits 10 b) : a = b := by
  have := congrArg (fun l => Nat.ofDigitChars 10 l 0) h
  simpa using this

theorem intStr_injective {a b : Int} (h : toString a = toString b) : a = b := by
  have h' := congrArg String.toList h
  rw [intStr_toList, intStr_toList] at h'
  split at h' <;> split at h'
  · have := toDigits_inj h'; omega
  · exfalso
    have : '-' ∈ Nat.toDigits 10 a.toNat := by rw [h']; simp
    exact minus_not_mem_toDigits _ this
  · exfalso
    have : '-' ∈ Nat.toDigits 10 b.toNat := by rw [← h']; simp
    exact minus_not_mem_toDigits _ this
  · simp only [List.cons.injEq, true_and] at h'
    have := toDigits_inj h'; omega

theorem intStr_ne_None (z : Int) : toString z ≠ "None" := by
  intro h
  have h' := congrArg String.toList h
  rw [intStr_toList] at h'
  have ho : 'o' ∈ ("None" : String).toList := by simp
  rw [← h'] at ho
  split at ho
  · exact o_not_mem_toDigits _ ho
  · simp only [List.mem_cons] at ho
    rcases ho with ho | ho
    · simp at ho
    · exact o_not_mem_toDigits _ ho

theorem split_unique : ∀ (a a' rest rest' : List Char), '_' ∉ a → '_' ∉ a' →
    a ++ '_' :: rest = a' ++ '_' :: rest' → a = a' ∧ rest = rest'
  | [], [], _, _, _, _, h => by simpa using h
  | [], c :: a', _, _, _, ha', h => by
    simp only [List.nil_append, List.cons_append, List.cons.injEq] at h
    exact absurd (by simp [← h.1]) ha'
  | c :: a, [], _, _, ha, _, h => by
    simp only [List.nil_append, List.cons_append, List.cons.injEq] at h
    exact absurd (by simp [h.1]) ha
  | c :: a, c' :: a', rest, rest', ha, ha', h => by
    simp only [List.cons_append, List.cons.injEq] at h
    obtain ⟨e1, e2⟩ := split_unique a a' rest rest' (fun hm => ha (List.mem_cons_of_mem _ hm))
      (fun hm => ha' (List.mem_cons_of_mem _ hm)) h.2
    exact ⟨by rw [h.1, e1], e2⟩

def segs (ss : List (List Char)) : List Char := (ss.map (fun s => '_' :: s)).flatten

theorem segs_inj : ∀ (ss ss' : List (List Char)) (a a' : List Char), '_' ∉ a → '_' ∉ a' →
    (∀ s ∈ ss, '_' ∉ s) → (∀ s ∈ ss', '_' ∉ s) → a ++ segs ss = a' ++ segs ss' → a = a' ∧ ss = ss'
  | [], [], a, a', _, _, _, _, h => by simpa [segs] using h
  | [], s' :: t', a, a', ha, _, _, _, h => by
    exfalso; apply ha
    simp only [segs, List.map_nil, List.flatten_nil, List.append_nil, List.map_cons, List.flatten_cons] at h
    rw [h]; simp
  | s :: t, [], a, a', _, ha', _, _, h => by
    exfalso; apply ha'
    simp only [segs, List.map_nil, List.flatten_nil, List.append_nil, List.map_cons, List.flatten_cons] at h
    rw [← h]; simp
  | s :: t, s' :: t', a, a', ha, ha', hs, hs', h => by
    have h2 : a ++ '_' :: (s ++ segs t) = a' ++ '_' :: (s' ++ segs t') := by
      simpa [segs] using h
    obtain ⟨e1, e2⟩ := split_unique _ _ _ _ ha ha' h2
    obtain ⟨e3, e4⟩ := segs_inj t t' s s' (hs s (by simp)) (hs' s' (by simp))
      (fun x hx => hs x (List.mem_cons_of_mem _ hx)) (fun x hx => hs' x (List.mem_cons_of_mem _ hx)) e2
    exact ⟨e1, by rw [e3, e4]⟩

/-! ### injectivity of the key -/

def IntOrNone (r : PyVal) : Prop := (∃ z, r = .int z) ∨ r = .none

theorem pyStr_no_underscore (r : PyVal) (h : IntOrNone r) : '_' ∉ (pyStr r).toList := by
  rcases h with ⟨z, rfl⟩ | rfl
  · exact intStr_no_underscore z
  · simp [pyStr]

theorem pyStr_inj (r r' : PyVal) (h : IntOrNone r) (h' : IntOrNone r') (e : pyStr r = pyStr r') : r = r' := by
  rcases h with ⟨z, rfl⟩ | rfl <;> rcases h' with ⟨z', rfl⟩ | rfl
  · simp only [pyStr] at e; rw [intStr_injective e]
  · simp only [pyStr] at e; exact absurd e (intStr_ne_None z)
  · simp only [pyStr] at e; exact absurd e.symm (intStr_ne_None z')
  · rfl

theorem map_inj_on {α β : Type} (f : α → β) : ∀ (l l' : List α),
    (∀ a ∈ l, ∀ b ∈ l', f a = f b → a = b) → l.map f = l'.map f → l = l'
  | [], [], _, _ => rfl
  | [], _ :: _, _, h => by simp at h
  | _ :: _, [], _, h => by simp at h
  | x :: xs, y :: ys, hf, h => by
    simp only [List.map_cons, List.cons.injEq] at h
    have e1 := hf x (by simp) y (by simp) h.1
    have e2 := map_inj_on f xs ys
      (fun a ha b hb => hf a (List.mem_cons_of_mem _ ha) b (List.mem_cons_of_mem _ hb)) h.2
    rw [e1, e2]

theorem foldKey_injective (P : PyVal → Prop) (hP : ∀ r, P r → IntOrNone r) (id id' : String)
    (rs rs' : List PyVal) (h1 : '_' ∉ id.toList) (h2 : '_' ∉ id'.toList)
    (k1 : ∀ r ∈ rs, P r) (k2 : ∀ r ∈ rs', P r) (h : foldKey id rs = foldKey id' rs') :
    id = id' ∧ rs = rs' := by
  have h' := congrArg String.toList h
  rw [foldKey_toList, foldKey_toList] at h'
  have e : ∀ l : List PyVal, (l.map (fun r => '_' :: (pyStr r).toList)).flatten
      = segs (l.map (fun r => (pyStr r).toList)) := by
    intro l; simp [segs, Function.comp_def]
  rw [e, e] at h'
  obtain ⟨e1, e2⟩ := segs_inj _ _ _ _ h1 h2
    (by intro s hs
        simp only [List.mem_map] at hs
        obtain ⟨r, hr, rfl⟩ := hs
        exact pyStr_no_underscore r (hP r (k1 r hr)))
    (by intro s hs
        simp only [List.mem_map] at hs
        obtain ⟨r, hr, rfl⟩ := hs
        exact pyStr_no_underscore r (hP r (k2 r hr)))
    h'
  refine ⟨String.toList_injective e1, ?_⟩
  apply map_inj_on _ _ _ _ e2
  intro a ha b hb hab
  exact pyStr_inj a b (hP a (k1 a ha)) (hP b (k2 b hb)) (String.toList_injective hab)

/-! ### keys with text parts: the parts can be read back one by one -/

def KeyKind (r : PyVal) : Prop := (∃ z, r = .int z) ∨ r = .none ∨ (∃ cs, r = .str cs)
def AsciiStr (r : PyVal) : Prop := ∀ cs, r = .str cs → ∀ c ∈ cs, c < 128
/-- what may follow a part of the key: nothing, or the separator of the next part -/
def SepTail (t : List Char) : Prop := t = [] ∨ ∃ u, t = '_' :: u

theorem ofNat_ascii_toNat (n : Nat) (h : n < 128) : (Char.ofNat n).toNat = n := by
  have : ∀ k : Fin 128, (Char.ofNat k).toNat = k := by decide +kernel
  exact this ⟨n, h⟩

theorem map_ofNat_ascii_inj : ∀ (cs cs' : List Nat), (∀ c ∈ cs, c < 128) → (∀ c ∈ cs', c < 128) →
    cs.map Char.ofNat = cs'.map Char.ofNat → cs = cs'
  | [], [], _, _, _ => rfl
  | [], _ :: _, _, _, h => by simp at h
  | _ :: _, [], _, _, h => by simp at h
  | x :: xs, y :: ys, hx, hy, h => by
    simp only [List.map_cons, List.cons.injEq] at h
    have e := congrArg Char.toNat h.1
    rw [ofNat_ascii_toNat x (hx x (by simp)), ofNat_ascii_toNat y (hy y (by simp))] at e
    rw [e, map_ofNat_ascii_inj xs ys (fun c hc => hx c (List.mem_cons_of_mem _ hc))
      (fun c hc => hy c (List.mem_cons_of_mem _ hc)) h.2]

/-- a maximal run of digits is determined by the string -/
theorem digitRun_unique : ∀ (d d' t t' : List Char), (∀ c ∈ d, c.isDigit = true) → (∀ c ∈ d', c.isDigit = true) →
    (∀ c u, t = c :: u → c.isDigit = false) → (∀ c u, t' = c :: u → c.isDigit = false) →
    d ++ t = d' ++ t' → d = d' ∧ t = t'
  | [], [], _, _, _, _, _, _, h => by simpa using h
  | [], c :: d', t, t', _, hd', ht, _, h => by
    simp only [List.nil_append, List.cons_append] at h
    have := ht c _ h
    rw [hd' c (by simp)] at this; cases this
  | c :: d, [], t, t', hd, _, _, ht', h => by
    simp only [List.nil_append, List.cons_append] at h
    have := ht' c _ h.symm
    rw [hd c (by simp)] at this; cases this
  | c :: d, c' :: d', t, t', hd, hd', ht, ht', h => by
    simp only [List.cons_append, List.cons.injEq] at h
    obtain ⟨e1, e2⟩ := digitRun_unique d d' t t' (fun x hx => hd x (List.mem_cons_of_mem _ hx))
      (fun x hx => hd' x (List.mem_cons_of_mem _ hx)) ht ht' h.2
    exact ⟨by rw [h.1, e1], e2⟩

theorem toDigits_isDigit (n : Nat) : ∀ c ∈ Nat.toDigits 10 n, c.isDigit = true :=
  fun _ h => Nat.isDigit_of_mem_toDigits (by decide) (by decide) h

theorem toDigits_cons (n : Nat) : ∃ c l, Nat.toDigits 10 n = c :: l ∧ c.isDigit = true := by
  cases h : Nat.toDigits 10 n with
  | nil => exact absurd h Nat.toDigits_ne_nil
  | cons c l => exact ⟨c, l, rfl, toDigits_isDigit n c (by rw [h]; simp)⟩

theorem sepTail_nondigit {t : List Char} (h : SepTail t) : ∀ c u, t = c :: u → c.isDigit = false := by
  intro c u e
  rcases h with rfl | ⟨v, rfl⟩
  · cases e
  · cases e; decide

theorem colon_nondigit (v : List Char) : ∀ c u, ':' :: v = c :: u → c.isDigit = false := by
  intro c u e; cases e; decide

theorem strTok_toList (cs : List Nat) :
    (pyStr (.str cs)).toList = Nat.toDigits 10 cs.length ++ ':' :: cs.map Char.ofNat := by
  simp [pyStr, String.toList_append, Nat.repr]

theorem nondigit_vs_digits (c : Char) (hc : c.isDigit = false) (x y : List Char) (n : Nat) :
    c :: x ≠ Nat.toDigits 10 n ++ y := by
  obtain ⟨c', l, e, hd⟩ := toDigits_cons n
  rw [e]; intro h
  simp only [List.cons_append, List.cons.injEq] at h
  rw [h.1, hd] at hc; cases hc

theorem int_vs_str (a : Nat) (rest : List Char) (hs : SepTail rest) (b : Nat) (v : List Char) :
    Nat.toDigits 10 a ++ rest ≠ Nat.toDigits 10 b ++ ':' :: v := by
  intro h
  obtain ⟨_, e⟩ := digitRun_unique _ _ _ _ (toDigits_isDigit a) (toDigits_isDigit b)
    (sepTail_nondigit hs) (colon_nondigit v) h
  rcases hs with rfl | ⟨u, rfl⟩
  · cases e
  · simp at e

/-- **one part of the key is self-delimiting**: it and what follows it can be read back -/
theorem keyTok_unique (r r' : PyVal) (rest rest' : List Char) (k : KeyKind r) (k' : KeyKind r')
    (a : AsciiStr r) (a' : AsciiStr r') (hs : SepTail rest) (hs' : SepTail rest')
    (h : (pyStr r).toList ++ rest = (pyStr r').toList ++ rest') : r = r' ∧ rest = rest' := by
  have hN : ('N' : Char).isDigit = false := by decide
  have hM : ('-' : Char).isDigit = false := by decide
  rcases k with ⟨z, rfl⟩ | rfl | ⟨cs, rfl⟩ <;> rcases k' with ⟨z', rfl⟩ | rfl | ⟨cs', rfl⟩
  · -- int, int
    simp only [pyStr] at h
    rw [intStr_toList, intStr_toList] at h
    split at h <;> split at h
    · obtain ⟨e1, e2⟩ := digitRun_unique _ _ _ _ (toDigits_isDigit _) (toDigits_isDigit _)
        (sepTail_nondigit hs) (sepTail_nondigit hs') h
      have := toDigits_inj e1
      exact ⟨by congr 1; omega, e2⟩
    · exact absurd h.symm (nondigit_vs_digits _ hM _ _ _)
    · exact absurd h (nondigit_vs_digits _ hM _ _ _)
    · simp only [List.cons_append, List.cons.injEq, true_and] at h
      obtain ⟨e1, e2⟩ := digitRun_unique _ _ _ _ (toDigits_isDigit _) (toDigits_isDigit _)
        (sepTail_nondigit hs) (sepTail_nondigit hs') h
      have := toDigits_inj e1
      exact ⟨by congr 1; omega, e2⟩
  · -- int, none
    exfalso
    simp only [pyStr] at h
    rw [intStr_toList] at h
    split at h
    · exact nondigit_vs_digits 'N' hN _ _ _ h.symm
    · simp at h
  · -- int, str
    exfalso
    rw [strTok_toList] at h
    simp only [pyStr] at h
    rw [intStr_toList] at h
    split at h
    · rw [List.append_assoc] at h
      exact int_vs_str _ _ hs _ _ h
    · rw [List.append_assoc] at h
      exact nondigit_vs_digits _ hM _ _ _ h
  · -- none, int
    exfalso
    simp only [pyStr] at h
    rw [intStr_toList] at h
    split at h
    · exact nondigit_vs_digits 'N' hN _ _ _ h
    · simp at h
  · -- none, none
    exact ⟨rfl, List.append_cancel_left h⟩
  · -- none, str
    exfalso
    rw [strTok_toList, List.append_assoc] at h
    exact nondigit_vs_digits 'N' hN _ _ _ h
  · -- str, int
    exfalso
    rw [strTok_toList] at h
    simp only [pyStr] at h
    rw [intStr_toList] at h
    split at h
    · rw [List.append_assoc] at h
      exact int_vs_str _ _ hs' _ _ h.symm
    · rw [List.append_assoc] at h
      exact nondigit_vs_digits _ hM _ _ _ h.symm
  · -- str, none
    exfalso
    rw [strTok_toList, List.append_assoc] at h
    exact nondigit_vs_digits 'N' hN _ _ _ h.symm
  · -- str, str
    rw [strTok_toList, strTok_toList, List.append_assoc, List.append_assoc] at h
    obtain ⟨e1, e2⟩ := digitRun_unique _ _ _ _ (toDigits_isDigit _) (toDigits_isDigit _)
      (colon_nondigit _) (colon_nondigit _) h
    have hl := toDigits_inj e1
    simp only [List.cons.injEq, true_and] at e2
    obtain ⟨e3, e4⟩ := List.append_inj e2 (by simp [hl])
    exact ⟨by rw [map_ofNat_ascii_inj cs cs' (a cs rfl) (a' cs' rfl) e3], e4⟩

def keySegs (rs : List PyVal) : List Char := (rs.map (fun r => '_' :: (pyStr r).toList)).flatten

theorem keySegs_sepTail : ∀ rs, SepTail (keySegs rs)
  | [] => Or.inl rfl
  | r :: rs => Or.inr ⟨_, by simp [keySegs]; rfl⟩

theorem keySegs_inj : ∀ (rs rs' : List PyVal), rs.length = rs'.length →
    (∀ r ∈ rs, KeyKind r) → (∀ r ∈ rs', KeyKind r) → (∀ r ∈ rs, AsciiStr r) → (∀ r ∈ rs', AsciiStr r) →
    keySegs rs = keySegs rs' → rs = rs'
  | [], [], _, _, _, _, _, _ => rfl
  | [], _ :: _, hl, _, _, _, _, _ => by simp at hl
  | _ :: _, [], hl, _, _, _, _, _ => by simp at hl
  | r :: rs, r' :: rs', hl, k, k', a, a', h => by
    have h2 : (pyStr r).toList ++ keySegs rs = (pyStr r').toList ++ keySegs rs' := by
      simpa [keySegs] using h
    obtain ⟨e1, e2⟩ := keyTok_unique r r' _ _ (k r (by simp)) (k' r' (by simp)) (a r (by simp)) (a' r' (by simp))
      (keySegs_sepTail rs) (keySegs_sepTail rs') h2
    rw [e1, keySegs_inj rs rs' (by simpa using hl) (fun x hx => k x (List.mem_cons_of_mem _ hx))
      (fun x hx => k' x (List.mem_cons_of_mem _ hx)) (fun x hx => a x (List.mem_cons_of_mem _ hx))
      (fun x hx => a' x (List.mem_cons_of_mem _ hx)) e2]

/-- same id, same number of parts, every part an integer, absent or ASCII text: the key determines the parts -/
theorem foldKey_injective_text (id : String) (rs rs' : List PyVal) (hl : rs.length = rs'.length)
    (k : ∀ r ∈ rs, KeyKind r) (k' : ∀ r ∈ rs', KeyKind r) (a : ∀ r ∈ rs, AsciiStr r) (a' : ∀ r ∈ rs', AsciiStr r)
    (h : foldKey id rs = foldKey id rs') : rs = rs' := by
  have h' := congrArg String.toList h
  rw [foldKey_toList, foldKey_toList] at h'
  exact keySegs_inj rs rs' hl k k' a a' (List.append_cancel_left h')

/-! ### unit preferences keep the frame; the hash key of a returned message -/

/-! frame -/
def frame7 (f : Field) : String × String × Option String × Option String × String × Bool × PyVal :=
  (f.fmeta.id, f.fmeta.name, f.fmeta.desc, f.fmeta.pq, f.fmeta.ftype, f.fmeta.pk, f.raw)

theorem convertField_frame (units : List (String × String)) (f f' : Field)
    (h : convertField units f = some f') : frame7 f' = frame7 f := by
  unfold convertField at h
  repeat' split at h
  all_goals first
    | (cases h; rfl)
    | (simp at h)

theorem mapM_frame {α β : Type} (c : α → Option α) (g : α → β) (hc : ∀ a a', c a = some a' → g a' = g a) :
    ∀ (l l' : List α), l.mapM c = some l' → l'.map g = l.map g := by
  intro l
  induction l with
  | nil => intro l' h; simp at h; subst h; rfl
  | cons x xs ih =>
    intro l' h
    simp only [List.mapM_cons, Option.bind_eq_bind, Option.pure_def, Option.bind_eq_some_iff] at h
    obtain ⟨y, hy, ys, hys, he⟩ := h
    simp only [Option.some.injEq] at he
    subst he
    simp [hc x y hy, ih ys hys]

theorem applyUnits_frame (units : List (String × String)) (m m' : Msg) (h : applyUnits units m = some m') :
    m'.pgn = m.pgn ∧ m'.id = m.id ∧ m'.desc = m.desc ∧ m'.ttlMs = m.ttlMs ∧
    m'.fields.map frame7 = m.fields.map frame7 := by
  unfold applyUnits at h
  split at h
  · cases h; exact ⟨rfl, rfl, rfl, rfl, rfl⟩
  · simp only [Option.map_eq_some_iff] at h
    obtain ⟨fs, hfs, rfl⟩ := h
    exact ⟨rfl, rfl, rfl, rfl, mapM_frame _ _ (convertField_frame units) _ _ hfs⟩

theorem keyRaws_of_frame : ∀ (l l' : List Field), l'.map frame7 = l.map frame7 →
    (l'.filter (·.fmeta.pk)).map (·.raw) = (l.filter (·.fmeta.pk)).map (·.raw)
  | [], [], _ => rfl
  | [], _ :: _, h => by simp at h
  | _ :: _, [], h => by simp at h
  | x :: xs, y :: ys, h => by
    simp only [List.map_cons, List.cons.injEq] at h
    have ih := keyRaws_of_frame xs ys h.2
    have h1 := h.1
    simp only [frame7, Prod.mk.injEq] at h1
    obtain ⟨_, _, _, _, _, hpk, hraw⟩ := h1
    simp only [List.filter_cons, hpk]
    split
    · simp [ih, hraw]
    · exact ih

/-! step -/
/-- every returned message is built from a decoded message `m`, its converted form and the key option -/
theorem callDecode_msg (G : GenLayer) (cfg : Config) (st : State) (i : Input) (payload : List Nat)
    (iso : Option IsoName) (P : OutMsg → Prop)
    (hP : ∀ m m' iso1, applyUnits cfg.units m = some m' →
      P { msg := m', src := i.src, dst := i.dst, prio := i.prio, iso := iso1,
          hashKey := if cfg.buildMap then some (hashKey m) else none }) :
    ∀ o, (callDecode G cfg st i payload iso).2 = .msg o → P o := by
  rw [callDecode_eq]
  split
  · intro o h; cases h
  · intro o h; cases h
  · intro o h; cases h
  rename_i m hd
  split
  · intro o h; cases h
  rename_i st1 iso1 stop hc
  by_cases h1 : stop = true
  · rw [if_pos h1]; intro o h; cases h
  rw [if_neg h1]
  simp only
  split
  · intro o h; cases h
  split
  · intro o h; cases h
  cases hu : applyUnits cfg.units m with
  | none => intro o h; cases h
  | some m' =>
    intro o h
    simp only [Out.msg.injEq] at h
    subst h
    exact hP m m' iso1 hu

theorem callDecode_hashKey (G : GenLayer) (cfg : Config) (st : State) (i : Input) (payload : List Nat)
    (iso : Option IsoName) (o : OutMsg) (h : (callDecode G cfg st i payload iso).2 = .msg o) :
    ∃ m, o.hashKey = if cfg.buildMap then some (hashKey m) else none :=
  callDecode_msg G cfg st i payload iso (fun o => ∃ m, o.hashKey = if cfg.buildMap then some (hashKey m) else none) (fun m _ _ _ => ⟨m, rfl⟩) o h

theorem step_hashKey (G : GenLayer) (cfg : Config) (st : State) (i : Input) (o : OutMsg)
    (h : (step G cfg st i).2 = .msg o) :
    ∃ m, o.hashKey = if cfg.buildMap then some (hashKey m) else none := by
  rcases step_cases G cfg st i with ⟨_, h'⟩ | ⟨iso, st', payload, _, _, he, _⟩
  · exact absurd h (h' o)
  · rw [he] at h
    exact callDecode_hashKey G cfg st' i payload iso o h

theorem hashKey_applyUnits (units : List (String × String)) (m m' : Msg) (h : applyUnits units m = some m') :
    hashKey m' = hashKey m := by
  obtain ⟨_, hid, _, _, hf⟩ := applyUnits_frame units m m' h
  rw [hashKey_eq_fold, hashKey_eq_fold, hid, keyRaws_of_frame _ _ hf]

end N2k.Dec
