/- helper lemmas for Props/C04.lean -/
import N2k.Model.FastKeyed
namespace N2k.Fast
namespace L04

/-! ### the keyed table -/

theorem lookup_erase (t : Table) (k k' : Key) :
    lookup (erase t k) k' = if k' = k then none else lookup t k' := by
  induction t with
  | nil => simp [erase, lookup]
  | cons p t ih =>
    obtain ⟨kp, r⟩ := p
    unfold erase at ih ⊢
    by_cases h1 : kp = k
    · subst h1
      simp only [List.filter_cons, ne_eq, not_true_eq_false, decide_false, Bool.false_eq_true,
        if_false, ih, lookup]
      by_cases h2 : k' = kp
      · simp [h2]
      · have : ¬ kp = k' := fun h => h2 h.symm
        simp [h2, this]
    · simp only [List.filter_cons, ne_eq, h1, not_false_eq_true, decide_true, if_true, lookup, ih]
      by_cases h2 : k' = k
      · subst h2
        simp [h1]
      · simp [h2]

theorem lookup_set (t : Table) (k k' : Key) (r : Rec) :
    lookup (set t k r) k' = if k' = k then some r else lookup t k' := by
  unfold set
  simp only [lookup, lookup_erase]
  by_cases h : k' = k
  · subst h; simp
  · have : ¬ k = k' := fun h' => h h'.symm
    simp [h, this]

/-- what `run` keeps after one step -/
def keep (r : Option Rec) (f : Bytes) : Option Rec :=
  match (step r f).2 with
  | .complete _ => none
  | _ => (step r f).1

theorem stepK_out (t : Table) (k : Key) (f : Bytes) :
    (stepK t k f).2 = (step (lookup t k) f).2 := rfl

theorem lookup_stepK (t : Table) (k k' : Key) (f : Bytes) :
    lookup (stepK t k f).1 k' = if k' = k then keep (lookup t k) f else lookup t k' := by
  unfold stepK keep
  generalize step (lookup t k) f = s
  obtain ⟨r', o⟩ := s
  cases o <;> cases r' <;> simp [lookup_erase, lookup_set] <;> (split <;> simp_all)

theorem run_cons (r : Option Rec) (f : Bytes) (fs : List Bytes) :
    run r (f :: fs) = ((run (keep r f) fs).1, (step r f).2 :: (run (keep r f) fs).2) := by
  simp only [run, keep]
  rfl

theorem runK_cons (t : Table) (k : Key) (f : Bytes) (h : List (Key × Bytes)) :
    runK t ((k, f) :: h) =
      ((runK (stepK t k f).1 h).1, (stepK t k f).2 :: (runK (stepK t k f).1 h).2) := by
  simp only [runK]


/-! ### evaluation of `step` -/

theorem step_none_nonfirst (b : Nat) (d : Bytes) (hb : b % 32 ≠ 0) :
    step none (b :: d) = (none, .ignored) := by
  simp [step, hb]

theorem step_some_otherseq (x : Rec) (b : Nat) (d : Bytes) (hb : b % 32 ≠ 0) (hl : x.len ≠ 0)
    (hq : x.seq ≠ b / 32 % 8) : step (some x) (b :: d) = (some x, .ignored) := by
  simp [step, hb, hl, hq]

theorem step_some_dup (x : Rec) (b : Nat) (d : Bytes) (hb : b % 32 ≠ 0) (hl : x.len ≠ 0)
    (hh : hasFrame (b % 32) x.frames = true) : step (some x) (b :: d) = (some x, .ignored) := by
  simp [step, hb, hl, hh]

theorem step_some_new (x : Rec) (b : Nat) (d : Bytes) (hb : b % 32 ≠ 0) (hl : x.len ≠ 0)
    (hq : x.seq = b / 32 % 8) (hh : hasFrame (b % 32) x.frames = false) :
    step (some x) (b :: d) =
      if x.stored + d.length ≥ x.len then
        (some { x with stored := x.stored + d.length, frames := insertFrame (b % 32) d x.frames },
          .complete (combined { x with stored := x.stored + d.length,
                                       frames := insertFrame (b % 32) d x.frames }))
      else
        (some { x with stored := x.stored + d.length, frames := insertFrame (b % 32) d x.frames },
          .stored) := by
  simp [step, hb, hl, hq, hh]

theorem step_first (r : Option Rec) (b total : Nat) (payload : Bytes) (hb : b % 32 = 0)
    (h0 : ∀ x, r = some x → x.seq ≠ b / 32 % 8) :
    step r (b :: total :: payload) =
      if payload.length ≥ total then
        (some ⟨total, b / 32 % 8, payload.length, [(0, payload)]⟩,
          .complete (combined ⟨total, b / 32 % 8, payload.length, [(0, payload)]⟩))
      else (some ⟨total, b / 32 % 8, payload.length, [(0, payload)]⟩, .stored) := by
  cases r with
  | none => simp [step, hb, startsNew]
  | some x =>
    have := h0 x rfl
    simp [step, hb, this, startsNew]


/-! ### `insertFrame` / `hasFrame` on a filtered, key-sorted list of frames -/

def key (f : Bytes) : Nat := f.headD 0 % 32
def toPair (f : Bytes) : Nat × Bytes := (key f, f.tail)
def dlen (f : Bytes) : Nat := f.tail.length

theorem insert_lt_all (i : Nat) (d : Bytes) (l : List (Nat × Bytes)) (h : ∀ q ∈ l, i < q.1) :
    insertFrame i d l = (i, d) :: l := by
  cases l with
  | nil => rfl
  | cons q l =>
    obtain ⟨j, e⟩ := q
    have : i < j := h (j, e) (by simp)
    simp [insertFrame, this]

theorem sum_insert (i : Nat) (d : Bytes) (l : List (Nat × Bytes)) :
    ((insertFrame i d l).map (fun q => q.2.length)).sum = (l.map (fun q => q.2.length)).sum + d.length := by
  induction l with
  | nil => simp [insertFrame]
  | cons q l ih =>
    obtain ⟨j, e⟩ := q
    unfold insertFrame
    split
    · simp; omega
    · simp [ih]; omega

theorem key_inj {T : List Bytes} (hT : T.Pairwise (fun a b => key a < key b)) {f g : Bytes}
    (hf : f ∈ T) (hg : g ∈ T) (h : key f = key g) : f = g := by
  induction T with
  | nil => cases hf
  | cons a T ih =>
    rw [List.pairwise_cons] at hT
    rcases List.mem_cons.1 hf with rfl | hf' <;> rcases List.mem_cons.1 hg with rfl | hg'
    · rfl
    · have := hT.1 g hg'; omega
    · have := hT.1 f hf'; omega
    · exact ih hT.2 hf' hg'

theorem insert_filter {T : List Bytes} (hT : T.Pairwise (fun a b => key a < key b))
    (p : Bytes → Bool) {f : Bytes} (hf : f ∈ T) (hp : p f = false) :
    insertFrame (key f) f.tail ((T.filter p).map toPair) =
      (T.filter (fun a => decide (a = f) || p a)).map toPair := by
  induction T with
  | nil => cases hf
  | cons a T ih =>
    rw [List.pairwise_cons] at hT
    rcases List.mem_cons.1 hf with rfl | hf'
    · have e : T.filter (fun a => decide (a = f) || p a) = T.filter p := by
        apply List.filter_congr
        intro b hb
        have := hT.1 b hb
        have : b ≠ f := by intro e; subst e; omega
        simp [this]
      simp only [List.filter_cons, hp, decide_true, Bool.true_or, if_true, e, List.map_cons]
      simp only [Bool.false_eq_true, if_false]
      rw [insert_lt_all]
      · rfl
      · intro q hq
        obtain ⟨b, hb, rfl⟩ := List.mem_map.1 hq
        exact hT.1 b (List.mem_filter.1 hb).1
    · have hlt := hT.1 f hf'
      have hne : a ≠ f := by intro e; subst e; omega
      have ih' := ih hT.2 hf'
      by_cases hpa : p a = true
      · simp only [List.filter_cons, hpa, if_true, Bool.or_true, List.map_cons]
        have : ¬ key f < key a := by omega
        simp only [toPair, insertFrame, this, if_false]
        exact congrArg _ ih'
      · have hpa' : p a = false := by simpa using hpa
        simp only [List.filter_cons, hpa', hne, decide_false, Bool.or_false, Bool.false_eq_true, if_false]
        exact ih'

theorem hasFrame_filter {T : List Bytes} (hT : T.Pairwise (fun a b => key a < key b))
    (p : Bytes → Bool) {f : Bytes} (hf : f ∈ T) :
    hasFrame (key f) ((T.filter p).map toPair) = p f := by
  rw [Bool.eq_iff_iff]
  simp only [hasFrame, List.any_eq_true, List.mem_map, List.mem_filter, beq_iff_eq]
  constructor
  · rintro ⟨q, ⟨g, ⟨hg, hpg⟩, rfl⟩, hk⟩
    have : g = f := key_inj hT hg hf hk
    subst this; exact hpg
  · intro h
    exact ⟨toPair f, ⟨f, ⟨hf, h⟩, rfl⟩, rfl⟩

theorem sum_filter_le (w : Bytes → Nat) (p : Bytes → Bool) (T : List Bytes) {g : Bytes}
    (hg : g ∈ T) (hp : p g = false) : ((T.filter p).map w).sum + w g ≤ (T.map w).sum := by
  induction T with
  | nil => cases hg
  | cons a T ih =>
    have hle : ((T.filter p).map w).sum ≤ (T.map w).sum := by
      clear ih hg
      induction T with
      | nil => simp
      | cons b T ih2 =>
        simp only [List.filter_cons]
        split <;> simp <;> omega
    rcases List.mem_cons.1 hg with rfl | hg'
    · simp only [List.filter_cons, hp, Bool.false_eq_true, if_false, List.map_cons, List.sum_cons]
      omega
    · have := ih hg'
      simp only [List.filter_cons]
      split <;> simp <;> omega


/-! ### the invariant of one message under reassembly -/

/-- what the proof needs to know about the frames after the first one (`T`), the data of the
first frame (`d0`), the announced length `L` and the payload `P`. -/
structure SegOK (seq L : Nat) (P d0 : Bytes) (T : List Bytes) : Prop where
  hdr : ∀ f ∈ T, ∃ b d, f = b :: d ∧ b % 32 ≠ 0 ∧ b / 32 % 8 = seq
  sorted : T.Pairwise (fun a b => key a < key b)
  tot_ge : L ≤ d0.length + (T.map dlen).sum
  tot_lt : ∀ f ∈ T, d0.length + (T.map dlen).sum < L + dlen f
  payload : (d0 ++ (T.map List.tail).flatten).take L = P

def seenF (T pre : List Bytes) : List Bytes := T.filter (fun f => decide (f ∈ pre))

def allSeen (T pre : List Bytes) : Prop := ∀ f ∈ T, f ∈ pre

instance (T pre : List Bytes) : Decidable (allSeen T pre) := by unfold allSeen; infer_instance

def recOf (L seq : Nat) (d0 : Bytes) (A : List Bytes) : Rec :=
  { len := L, seq := seq, stored := d0.length + ((A.map toPair).map (fun q => q.2.length)).sum,
    frames := (0, d0) :: A.map toPair }

def Inv (L seq : Nat) (d0 : Bytes) (T pre : List Bytes) (r : Option Rec) : Prop :=
  (allSeen T pre → r = none) ∧ (¬ allSeen T pre → r = some (recOf L seq d0 (seenF T pre)))

theorem allSeen_mono {T pre : List Bytes} (f : Bytes) (h : allSeen T pre) : allSeen T (pre ++ [f]) :=
  fun g hg => List.mem_append_left _ (h g hg)

theorem allSeen_mono' {T pre : List Bytes} (l : List Bytes) (h : allSeen T pre) : allSeen T (pre ++ l) :=
  fun g hg => List.mem_append_left _ (h g hg)

theorem seenF_all {T pre : List Bytes} (h : allSeen T pre) : seenF T pre = T := by
  unfold seenF
  rw [List.filter_eq_self]
  intro a ha
  simpa using h a ha

theorem seenF_old {T pre : List Bytes} {f : Bytes} (h : f ∉ T ∨ f ∈ pre) :
    seenF T (pre ++ [f]) = seenF T pre := by
  unfold seenF
  apply List.filter_congr
  intro a ha
  by_cases e : a = f
  · subst e
    rcases h with h | h
    · exact absurd ha h
    · simp [h]
  · simp [e]

theorem allSeen_old {T pre : List Bytes} {f : Bytes} (h : f ∉ T ∨ f ∈ pre) :
    allSeen T (pre ++ [f]) ↔ allSeen T pre := by
  constructor
  · intro h1 g hg
    have := h1 g hg
    rcases List.mem_append.1 this with h2 | h2
    · exact h2
    · have : g = f := by simpa using h2
      subst this
      rcases h with h | h
      · exact absurd hg h
      · exact h
  · exact allSeen_mono f

theorem seenF_new {T pre : List Bytes} (hT : T.Pairwise (fun a b => key a < key b)) {f : Bytes}
    (hf : f ∈ T) (hn : f ∉ pre) :
    (seenF T (pre ++ [f])).map toPair = insertFrame (key f) f.tail ((seenF T pre).map toPair) := by
  unfold seenF
  rw [insert_filter hT _ hf (by simpa using hn)]
  congr 2
  funext a
  by_cases h1 : a ∈ pre <;> by_cases h2 : a = f <;> simp [h1, h2]

theorem stored_lt {seq L : Nat} {P d0 : Bytes} {T : List Bytes} (ok : SegOK seq L P d0 T)
    {pre : List Bytes} (h : ¬ allSeen T pre) : (recOf L seq d0 (seenF T pre)).stored < L := by
  have : ∃ g, g ∈ T ∧ g ∉ pre := by
    simp only [allSeen] at h
    simpa using h
  obtain ⟨g, hg, hgp⟩ := this
  have h1 := sum_filter_le dlen (fun f => decide (f ∈ pre)) T hg (by simpa using hgp)
  have h2 := ok.tot_lt g hg
  have e : ((seenF T pre).map toPair).map (fun q => q.2.length) = (seenF T pre).map dlen := by
    simp [List.map_map, toPair, dlen, Function.comp_def]
  simp only [recOf, e]
  unfold seenF
  omega

theorem stored_ge {seq L : Nat} {P d0 : Bytes} {T : List Bytes} (ok : SegOK seq L P d0 T) :
    L ≤ (recOf L seq d0 T).stored := by
  have e : (T.map toPair).map (fun q => q.2.length) = T.map dlen := by
    simp [List.map_map, toPair, dlen, Function.comp_def]
  simp only [recOf, e]
  exact ok.tot_ge

theorem combined_all {seq L : Nat} {P d0 : Bytes} {T : List Bytes} (ok : SegOK seq L P d0 T) :
    combined (recOf L seq d0 T) = P := by
  have e : (T.map toPair).map (fun q => q.2) = T.map List.tail := by
    simp [List.map_map, toPair, Function.comp_def]
  simp only [combined, recOf, List.map_cons, e, List.flatten_cons]
  exact ok.payload

/-- the output the model must give for frame `f` after the frames `pre` -/
def specOut (T : List Bytes) (P : Bytes) (pre : List Bytes) (f : Bytes) : Out :=
  if allSeen T pre then .ignored
  else if f ∈ T ∧ f ∉ pre then (if allSeen T (pre ++ [f]) then .complete P else .stored)
  else .ignored

def specOuts (T : List Bytes) (P : Bytes) : List Bytes → List Bytes → List Out
  | _, [] => []
  | pre, f :: fs => specOut T P pre f :: specOuts T P (pre ++ [f]) fs

theorem step_spec {seq L : Nat} {P d0 : Bytes} {T : List Bytes} (ok : SegOK seq L P d0 T)
    (pre : List Bytes) (r : Option Rec) (f : Bytes) (hinv : Inv L seq d0 T pre r)
    (hf : f ∈ T ∨ ∃ b rest, f = b :: rest ∧ b % 32 ≠ 0 ∧ b / 32 % 8 ≠ seq) :
    (step r f).2 = specOut T P pre f ∧ Inv L seq d0 T (pre ++ [f]) (keep r f) := by
  -- in both cases the frame is a non-first frame
  have hshape : ∃ b d, f = b :: d ∧ b % 32 ≠ 0 ∧ (b / 32 % 8 = seq ↔ f ∈ T) := by
    rcases hf with hf | ⟨b, d, rfl, hb, hq⟩
    · obtain ⟨b, d, rfl, hb, hq⟩ := ok.hdr f hf
      exact ⟨b, d, rfl, hb, by simp [hq, hf]⟩
    · refine ⟨b, d, rfl, hb, ?_⟩
      constructor
      · intro h; exact absurd h hq
      · intro h
        obtain ⟨b', d', e, _, hq'⟩ := ok.hdr _ h
        cases e
        exact hq'
  obtain ⟨b, d, rfl, hb, hq⟩ := hshape
  by_cases hall : allSeen T pre
  · have hr := hinv.1 hall
    subst hr
    have hs := step_none_nonfirst b d hb
    refine ⟨by simp [hs, specOut, hall], ?_⟩
    have hk : keep none (b :: d) = none := by simp [keep, hs]
    rw [hk]
    exact ⟨fun _ => rfl, fun h => absurd (allSeen_mono _ hall) h⟩
  · have hr := hinv.2 hall
    subst hr
    have hlt := stored_lt ok hall
    have hlen : (recOf L seq d0 (seenF T pre)).len ≠ 0 := by
      have : (recOf L seq d0 (seenF T pre)).len = L := rfl
      omega
    by_cases hnew : (b :: d) ∈ T ∧ (b :: d) ∉ pre
    · -- a new frame of the message
      obtain ⟨hfT, hfp⟩ := hnew
      have hseq : (recOf L seq d0 (seenF T pre)).seq = b / 32 % 8 := (hq.2 hfT).symm
      have hkey : key (b :: d) = b % 32 := rfl
      have hh : hasFrame (b % 32) (recOf L seq d0 (seenF T pre)).frames = false := by
        have := hasFrame_filter ok.sorted (fun f => decide (f ∈ pre)) hfT
        rw [hkey] at this
        have h0 : ((0, d0) : Nat × Bytes).1 ≠ b % 32 := fun e => hb e.symm
        simp only [recOf, hasFrame, List.any_cons]
        simp only [hasFrame, seenF] at this ⊢
        rw [this]
        simp [hfp]
        exact fun e => hb e.symm
      have hs := step_some_new _ b d hb hlen hseq hh
      have hnewrec : ({ recOf L seq d0 (seenF T pre) with
            stored := (recOf L seq d0 (seenF T pre)).stored + d.length,
            frames := insertFrame (b % 32) d (recOf L seq d0 (seenF T pre)).frames } : Rec)
          = recOf L seq d0 (seenF T (pre ++ [b :: d])) := by
        have h1 := seenF_new ok.sorted hfT hfp
        rw [hkey] at h1
        have h2 : ¬ b % 32 < 0 := by omega
        simp only [recOf, h1, sum_insert, insertFrame, h2, if_false, List.tail_cons]
        simp only [Nat.add_assoc]
      rw [hnewrec] at hs
      by_cases hall' : allSeen T (pre ++ [b :: d])
      · have e := seenF_all hall'
        rw [e] at hs
        have hge := stored_ge (seq := seq) ok
        have hlen' : (recOf L seq d0 (seenF T pre)).len = L := rfl
        have hcond : (recOf L seq d0 (seenF T pre)).stored + d.length ≥
            (recOf L seq d0 (seenF T pre)).len := by
          have h3 := congrArg Rec.stored hnewrec
          rw [e] at h3
          simp only at h3
          omega
        rw [if_pos hcond, combined_all ok] at hs
        refine ⟨by simp [hs, specOut, hall, hfT, hfp, hall'], ?_⟩
        have hk : keep (some (recOf L seq d0 (seenF T pre))) (b :: d) = none := by simp [keep, hs]
        rw [hk]
        exact ⟨fun _ => rfl, fun h => absurd hall' h⟩
      · have hlt' := stored_lt ok hall'
        have hcond : ¬ (recOf L seq d0 (seenF T pre)).stored + d.length ≥
            (recOf L seq d0 (seenF T pre)).len := by
          have h3 := congrArg Rec.stored hnewrec
          have hlen' : (recOf L seq d0 (seenF T pre)).len = L := rfl
          simp only at h3
          omega
        rw [if_neg hcond] at hs
        refine ⟨by simp [hs, specOut, hall, hfT, hfp, hall'], ?_⟩
        have hk : keep (some (recOf L seq d0 (seenF T pre))) (b :: d) =
            some (recOf L seq d0 (seenF T (pre ++ [b :: d]))) := by simp [keep, hs]
        rw [hk]
        exact ⟨fun h => absurd h hall', fun _ => rfl⟩
    · -- stale, or already seen
      have hold : (b :: d) ∉ T ∨ (b :: d) ∈ pre := by
        by_cases h : (b :: d) ∈ T
        · right
          by_cases h' : (b :: d) ∈ pre
          · exact h'
          · exact absurd ⟨h, h'⟩ hnew
        · left; exact h
      have hs : step (some (recOf L seq d0 (seenF T pre))) (b :: d) =
          (some (recOf L seq d0 (seenF T pre)), .ignored) := by
        by_cases hfT : (b :: d) ∈ T
        · have hfp : (b :: d) ∈ pre := by
            rcases hold with h | h
            · exact absurd hfT h
            · exact h
          apply step_some_dup _ b d hb hlen
          have := hasFrame_filter ok.sorted (fun f => decide (f ∈ pre)) hfT
          have hkey : key (b :: d) = b % 32 := rfl
          rw [hkey] at this
          simp only [recOf, hasFrame, List.any_cons]
          simp only [hasFrame, seenF] at this ⊢
          rw [this]
          simp [hfp]
        · apply step_some_otherseq _ b d hb hlen
          intro e
          exact hfT (hq.1 e.symm)
      refine ⟨by simp [hs, specOut, hall, hnew], ?_⟩
      have hk : keep (some (recOf L seq d0 (seenF T pre))) (b :: d) =
          some (recOf L seq d0 (seenF T pre)) := by simp [keep, hs]
      rw [hk, Inv, allSeen_old hold, seenF_old hold]
      exact ⟨fun h => absurd h hall, fun _ => rfl⟩


theorem run_spec {seq L : Nat} {P d0 : Bytes} {T : List Bytes} (ok : SegOK seq L P d0 T)
    (rest pre : List Bytes) (r : Option Rec) (hinv : Inv L seq d0 T pre r)
    (hrest : ∀ f ∈ rest, f ∈ T ∨ ∃ b d, f = b :: d ∧ b % 32 ≠ 0 ∧ b / 32 % 8 ≠ seq) :
    (run r rest).2 = specOuts T P pre rest ∧ Inv L seq d0 T (pre ++ rest) (run r rest).1 := by
  induction rest generalizing pre r with
  | nil => simpa [run, specOuts] using hinv
  | cons f fs ih =>
    have h1 := step_spec ok pre r f hinv (hrest f (by simp))
    have h2 := ih (pre ++ [f]) (keep r f) h1.2 (fun g hg => hrest g (by simp [hg]))
    rw [run_cons]
    simp only [specOuts, h1.1, h2.1]
    refine ⟨trivial, ?_⟩
    have := h2.2
    simpa [List.append_assoc] using this

/-! ### properties of the specified outputs -/

theorem specOuts_length (T : List Bytes) (P : Bytes) (pre rest : List Bytes) :
    (specOuts T P pre rest).length = rest.length := by
  induction rest generalizing pre with
  | nil => rfl
  | cons f fs ih => simp [specOuts, ih]

theorem specOuts_sound (T : List Bytes) (P : Bytes) (pre rest : List Bytes) :
    ∀ o ∈ specOuts T P pre rest, o = Out.stored ∨ o = Out.ignored ∨ o = Out.complete P := by
  induction rest generalizing pre with
  | nil => intro o ho; cases ho
  | cons f fs ih =>
    intro o ho
    simp only [specOuts, List.mem_cons] at ho
    rcases ho with rfl | ho
    · unfold specOut
      split
      · simp
      · split
        · split <;> simp
        · simp
    · exact ih _ o ho

theorem specOut_complete_iff (T : List Bytes) (P : Bytes) (pre : List Bytes) (f : Bytes) :
    specOut T P pre f = Out.complete P ↔ allSeen T (pre ++ [f]) ∧ ¬ allSeen T pre := by
  unfold specOut
  by_cases hall : allSeen T pre
  · simp [hall]
  · by_cases hnew : f ∈ T ∧ f ∉ pre
    · by_cases hall' : allSeen T (pre ++ [f]) <;> simp [hall, hnew, hall']
    · have hold : f ∉ T ∨ f ∈ pre := by
        by_cases h : f ∈ T
        · right
          by_cases h' : f ∈ pre
          · exact h'
          · exact absurd ⟨h, h'⟩ hnew
        · left; exact h
      simp [hall, hnew, allSeen_old hold]

theorem specOuts_count_zero (T : List Bytes) (P : Bytes) (pre rest : List Bytes)
    (h : allSeen T pre) : (specOuts T P pre rest).count (Out.complete P) = 0 := by
  induction rest generalizing pre with
  | nil => rfl
  | cons f fs ih =>
    have h1 : specOut T P pre f ≠ Out.complete P := by
      intro e
      exact ((specOut_complete_iff T P pre f).1 e).2 h
    simp only [specOuts]
    rw [List.count_cons_of_ne h1]
    exact ih _ (allSeen_mono f h)

theorem specOuts_count (T : List Bytes) (P : Bytes) (pre rest : List Bytes) :
    (specOuts T P pre rest).count (Out.complete P) ≤ 1 := by
  induction rest generalizing pre with
  | nil => simp [specOuts]
  | cons f fs ih =>
    simp only [specOuts]
    by_cases h1 : specOut T P pre f = Out.complete P
    · rw [h1, List.count_cons_self,
        specOuts_count_zero T P _ fs ((specOut_complete_iff T P pre f).1 h1).1]
      omega
    · rw [List.count_cons_of_ne h1]
      exact ih _

theorem specOuts_get (T : List Bytes) (P : Bytes) (pre rest : List Bytes) (j : Nat)
    (hj : j < rest.length) :
    (specOuts T P pre rest)[j]? = some (Out.complete P) ↔
      allSeen T (pre ++ rest.take (j + 1)) ∧ ¬ allSeen T (pre ++ rest.take j) := by
  induction rest generalizing pre j with
  | nil => simp at hj
  | cons f fs ih =>
    cases j with
    | zero =>
      simp only [specOuts, List.getElem?_cons_zero, Option.some.injEq, specOut_complete_iff]
      simp
    | succ j =>
      have := ih (pre ++ [f]) j (by simpa using hj)
      simp only [specOuts, List.getElem?_cons_succ, List.take_succ_cons]
      rw [this]
      simp [List.append_assoc]


/-! ### the first frame, and the whole segment -/

theorem head_not_mem {seq L : Nat} {P d0 : Bytes} {T : List Bytes} (ok : SegOK seq L P d0 T)
    (l : Bytes) : (seq * 32 :: l) ∉ T := by
  intro h
  obtain ⟨b, d, e, hb, _⟩ := ok.hdr _ h
  cases e
  omega

theorem allSeen_head_iff {seq L : Nat} {P d0 : Bytes} {T : List Bytes} (ok : SegOK seq L P d0 T)
    (l : Bytes) : allSeen T [seq * 32 :: l] ↔ T = [] := by
  constructor
  · intro h
    cases T with
    | nil => rfl
    | cons g T =>
      have h1 := h g (by simp)
      have h2 : g = seq * 32 :: l := by simpa using h1
      exact absurd (by simp [h2]) (head_not_mem ok l)
  · rintro rfl
    intro f hf
    cases hf

theorem first_step {seq L : Nat} {P d0 : Bytes} {T : List Bytes} (ok : SegOK seq L P d0 T)
    (hs : seq < 8) (r0 : Option Rec) (h0 : ∀ x, r0 = some x → x.seq ≠ seq) :
    (step r0 (seq * 32 :: L :: d0)).2 = (if T = [] then Out.complete P else Out.stored) ∧
      Inv L seq d0 T [seq * 32 :: L :: d0] (keep r0 (seq * 32 :: L :: d0)) := by
  have hb : seq * 32 % 32 = 0 := by omega
  have hq : seq * 32 / 32 % 8 = seq := by omega
  have hstep := step_first r0 (seq * 32) L d0 hb (by rw [hq]; exact h0)
  rw [hq] at hstep
  have hsF : seenF T [seq * 32 :: L :: d0] = [] := by
    unfold seenF
    rw [List.filter_eq_nil_iff]
    intro a ha
    have : a ≠ seq * 32 :: L :: d0 := by
      intro e; subst e; exact head_not_mem ok _ ha
    simpa using this
  have hrec : (⟨L, seq, d0.length, [(0, d0)]⟩ : Rec) = recOf L seq d0 [] := by
    simp [recOf]
  rw [hrec] at hstep
  by_cases hT : T = []
  · subst hT
    have hge : d0.length ≥ L := by
      have := ok.tot_ge
      simpa using this
    rw [if_pos hge, combined_all ok] at hstep
    refine ⟨by simp [hstep], ?_⟩
    have hk : keep r0 (seq * 32 :: L :: d0) = none := by simp [keep, hstep]
    rw [hk]
    exact ⟨fun _ => rfl, fun h => absurd (fun f hf => by cases hf) h⟩
  · have hlt : ¬ d0.length ≥ L := by
      cases T with
      | nil => exact absurd rfl hT
      | cons g T =>
        have := ok.tot_lt g (by simp)
        simp only [List.map_cons, List.sum_cons] at this
        omega
    rw [if_neg hlt] at hstep
    refine ⟨by simp [hstep, hT], ?_⟩
    have hk : keep r0 (seq * 32 :: L :: d0) = some (recOf L seq d0 []) := by simp [keep, hstep]
    rw [hk, Inv, hsF, allSeen_head_iff ok]
    exact ⟨fun h => absurd h hT, fun _ => rfl⟩

theorem forall_cons_iff (head : Bytes) (T X : List Bytes) :
    (∀ f ∈ head :: T, f ∈ head :: X) ↔ allSeen T ([head] ++ X) := by
  simp [allSeen]

theorem segment_main {seq L : Nat} {P d0 : Bytes} {T : List Bytes} (ok : SegOK seq L P d0 T)
    (hs : seq < 8) (r0 : Option Rec) (h0 : ∀ x, r0 = some x → x.seq ≠ seq) (rest : List Bytes)
    (hrest : ∀ f ∈ rest, f ∈ T ∨ ∃ b d, f = b :: d ∧ b % 32 ≠ 0 ∧ b / 32 % 8 ≠ seq) :
    ((run r0 ((seq * 32 :: L :: d0) :: rest)).2 =
        (if T = [] then Out.complete P else Out.stored) ::
          specOuts T P [seq * 32 :: L :: d0] rest) ∧
    (∀ x, (run r0 ((seq * 32 :: L :: d0) :: rest)).1 = some x → x.seq = seq) := by
  have h1 := first_step ok hs r0 h0
  have h2 := run_spec ok rest _ _ h1.2 hrest
  rw [run_cons]
  refine ⟨by simp only [h1.1, h2.1], ?_⟩
  intro x hx
  simp only at hx
  by_cases hall : allSeen T ([seq * 32 :: L :: d0] ++ rest)
  · rw [h2.2.1 hall] at hx; cases hx
  · rw [h2.2.2 hall] at hx
    cases hx
    rfl

theorem segment_exact {seq L : Nat} {P d0 : Bytes} {T : List Bytes} (ok : SegOK seq L P d0 T)
    (hs : seq < 8) (r0 : Option Rec) (h0 : ∀ x, r0 = some x → x.seq ≠ seq) (rest : List Bytes)
    (hrest : ∀ f ∈ rest, f ∈ T ∨ ∃ b d, f = b :: d ∧ b % 32 ≠ 0 ∧ b / 32 % 8 ≠ seq) :
    let F := (seq * 32 :: L :: d0) :: T
    let hist := (seq * 32 :: L :: d0) :: rest
    let outs := (run r0 hist).2
    (∀ o ∈ outs, o = Out.stored ∨ o = Out.ignored ∨ o = Out.complete P) ∧
    (outs.count (Out.complete P) ≤ 1) ∧
    (∀ j, j < hist.length →
      (outs[j]? = some (Out.complete P) ↔
        ((∀ f ∈ F, f ∈ hist.take (j + 1)) ∧ ¬ (∀ f ∈ F, f ∈ hist.take j)))) := by
  intro F hist outs
  have hm := (segment_main ok hs r0 h0 rest hrest).1
  have houts : outs = (if T = [] then Out.complete P else Out.stored) ::
          specOuts T P [seq * 32 :: L :: d0] rest := hm
  rw [houts]
  refine ⟨?_, ?_, ?_⟩
  · intro o ho
    rcases List.mem_cons.1 ho with rfl | ho
    · split <;> simp
    · exact specOuts_sound _ _ _ _ o ho
  · by_cases hT : T = []
    · rw [if_pos hT, List.count_cons_self,
        specOuts_count_zero _ _ _ _ ((allSeen_head_iff ok _).2 hT)]
      omega
    · rw [if_neg hT, List.count_cons_of_ne (by simp)]
      exact specOuts_count _ _ _ _
  · intro j hj
    cases j with
    | zero =>
      simp only [List.getElem?_cons_zero, Option.some.injEq, hist, F, List.take_succ_cons,
        List.take_zero, forall_cons_iff, List.append_nil]
      rw [allSeen_head_iff ok]
      by_cases hT : T = [] <;> simp [hT]
    | succ j =>
      have hj' : j < rest.length := by simpa [hist] using hj
      simp only [List.getElem?_cons_succ, hist, F, List.take_succ_cons, forall_cons_iff]
      exact specOuts_get T P _ rest j hj'


/-! ### the shape of `framesPad` -/

theorem chunks7_nil : chunks 7 ([] : Bytes) = [] := by rw [chunks]

theorem chunks7_ne_nil (l : Bytes) (hl : l ≠ []) : chunks 7 l = l.take 7 :: chunks 7 (l.drop 7) := by
  cases l with
  | nil => exact absurd rfl hl
  | cons x xs => rw [chunks]; simp

theorem chunks7_spec : ∀ (n : Nat) (l : Bytes), l.length = n → l ≠ [] →
    ∃ init last, chunks 7 l = init ++ [last] ∧ (∀ c ∈ init, c.length = 7) ∧
      1 ≤ last.length ∧ last.length ≤ 7 ∧ init.flatten ++ last = l := by
  intro n
  induction n using Nat.strongRecOn with
  | ind n ih =>
    intro l hn hl
    have hpos : 0 < l.length := List.length_pos_iff.2 hl
    rw [chunks7_ne_nil l hl]
    by_cases hle : l.length ≤ 7
    · refine ⟨[], l, ?_, by simp, hpos, hle, by simp⟩
      have h1 : l.drop 7 = [] := List.drop_eq_nil_of_le hle
      rw [h1, chunks7_nil, List.take_of_length_le hle]
      rfl
    · have hd : l.drop 7 ≠ [] := by
        intro e
        have := congrArg List.length e
        simp at this
        omega
      obtain ⟨init, last, e, h7, h1, h2, hfl⟩ :=
        ih (l.drop 7).length (by simp; omega) (l.drop 7) rfl hd
      refine ⟨l.take 7 :: init, last, by rw [e]; rfl, ?_, h1, h2, ?_⟩
      · intro c hc
        rcases List.mem_cons.1 hc with rfl | hc
        · simp; omega
        · exact h7 c hc
      · simp only [List.flatten_cons, List.append_assoc, hfl, List.take_append_drop]

theorem sum_len_seven (init : List Bytes) (h : ∀ c ∈ init, c.length = 7) :
    (init.map List.length).sum = 7 * init.length := by
  induction init with
  | nil => rfl
  | cons c cs ih =>
    have h1 := h c (by simp)
    have h2 := ih (fun c hc => h c (by simp [hc]))
    simp only [List.map_cons, List.sum_cons, List.length_cons, h1, h2]
    omega

theorem restFrames_append (seq i : Nat) (a b : List Bytes) :
    restFrames seq i (a ++ b) = restFrames seq i a ++ restFrames seq (i + a.length) b := by
  induction a generalizing i with
  | nil => simp [restFrames]
  | cons c cs ih =>
    simp only [List.cons_append, restFrames, ih, List.length_cons]
    have : i + 1 + cs.length = i + (cs.length + 1) := by omega
    rw [this]

theorem restFrames_length (seq i : Nat) (ds : List Bytes) :
    (restFrames seq i ds).length = ds.length := by
  induction ds generalizing i with
  | nil => rfl
  | cons c cs ih => simp [restFrames, ih]

theorem mem_restFrames {seq i : Nat} {ds : List Bytes} {f : Bytes} (h : f ∈ restFrames seq i ds) :
    ∃ j d, f = (seq * 32 + (i + j)) :: d ∧ j < ds.length ∧ d ∈ ds := by
  induction ds generalizing i with
  | nil => cases h
  | cons c cs ih =>
    simp only [restFrames, List.mem_cons] at h
    rcases h with rfl | h
    · exact ⟨0, c, by simp, by simp, by simp⟩
    · obtain ⟨j, d, e, hj, hd⟩ := ih h
      refine ⟨j + 1, d, ?_, by simp; omega, by simp [hd]⟩
      rw [e]
      have : i + 1 + j = i + (j + 1) := by omega
      rw [this]

theorem restFrames_tail (seq i : Nat) (ds : List Bytes) :
    (restFrames seq i ds).map List.tail = ds := by
  induction ds generalizing i with
  | nil => rfl
  | cons c cs ih => simp [restFrames, ih]

theorem restFrames_dlen (seq i : Nat) (ds : List Bytes) :
    (restFrames seq i ds).map dlen = ds.map List.length := by
  induction ds generalizing i with
  | nil => rfl
  | cons c cs ih => simp [restFrames, ih, dlen]

theorem restFrames_sorted (seq i : Nat) (ds : List Bytes) (h : i + ds.length ≤ 32) :
    (restFrames seq i ds).Pairwise (fun a b => key a < key b) := by
  induction ds generalizing i with
  | nil => simp [restFrames]
  | cons c cs ih =>
    simp only [restFrames, List.pairwise_cons]
    simp only [List.length_cons] at h
    refine ⟨?_, ih (i + 1) (by omega)⟩
    intro b hb
    obtain ⟨j, d, rfl, hj, _⟩ := mem_restFrames hb
    simp only [key, List.headD_cons]
    omega

theorem framesPad_of_concat {seq : Nat} {P : Bytes} {init : List Bytes} {a : Bytes}
    (h : frames seq P = init ++ [a]) (pad : Bytes) : framesPad seq P pad = init ++ [a ++ pad] := by
  unfold framesPad
  rw [h]
  simp

theorem framesPad_short (seq : Nat) (P pad : Bytes) (h : P.length ≤ 6) :
    framesPad seq P pad = [seq * 32 :: P.length :: (P ++ pad)] := by
  have h1 : P.drop 6 = [] := List.drop_eq_nil_of_le h
  have h2 : P.take 6 = P := List.take_of_length_le h
  simp [framesPad, frames, h1, h2, chunks7_nil, restFrames]

theorem framesPad_long (seq : Nat) (P : Bytes) (h : 6 < P.length) :
    ∃ init last, (∀ c ∈ init, c.length = 7) ∧ 1 ≤ last.length ∧ last.length ≤ 7 ∧
      init.flatten ++ last = P.drop 6 ∧
      ∀ pad, framesPad seq P pad =
        (seq * 32 :: P.length :: P.take 6) :: restFrames seq 1 (init ++ [last ++ pad]) := by
  have hd : P.drop 6 ≠ [] := by
    intro e
    have := congrArg List.length e
    simp at this
    omega
  obtain ⟨init, last, e, h7, h1, h2, hfl⟩ := chunks7_spec _ (P.drop 6) rfl hd
  refine ⟨init, last, h7, h1, h2, hfl, ?_⟩
  intro pad
  have hf : frames seq P = ((seq * 32 :: P.length :: P.take 6) :: restFrames seq 1 init) ++
      [(seq * 32 + (1 + init.length)) :: last] := by
    simp [frames, e, restFrames_append, restFrames]
  rw [framesPad_of_concat hf]
  simp [restFrames_append, restFrames]

theorem framesPad_seg (seq : Nat) (P pad : Bytes) (hs : seq < 8) (hP : P.length ≤ 223)
    (hpad : ∀ f ∈ framesPad seq P pad, f.length ≤ 8) :
    ∃ d0 T, framesPad seq P pad = (seq * 32 :: P.length :: d0) :: T ∧
      SegOK seq P.length P d0 T := by
  by_cases h : P.length ≤ 6
  · refine ⟨P ++ pad, [], framesPad_short seq P pad h, ?_⟩
    constructor
    · intro f hf; cases hf
    · simp
    · simp
    · intro f hf; cases hf
    · simp
  · have h6 : 6 < P.length := by omega
    obtain ⟨init, last, h7, h1, h2, hfl, hF⟩ := framesPad_long seq P h6
    refine ⟨P.take 6, restFrames seq 1 (init ++ [last ++ pad]), hF pad, ?_⟩
    have hsum := sum_len_seven init h7
    have hlen : 7 * init.length + last.length + 6 = P.length := by
      have := congrArg List.length hfl
      simp only [List.length_append, List.length_flatten, hsum, List.length_drop] at this
      omega
    have hlast : 1 + (last.length + pad.length) ≤ 8 := by
      have := hpad ((seq * 32 + (1 + init.length)) :: (last ++ pad)) (by
        rw [hF pad, restFrames_append]
        simp [restFrames])
      simpa [Nat.add_comm] using this
    have hcnt : (init ++ [last ++ pad]).length ≤ 31 := by
      simp only [List.length_append, List.length_cons, List.length_nil]
      omega
    have htot : ((restFrames seq 1 (init ++ [last ++ pad])).map dlen).sum =
        7 * init.length + (last.length + pad.length) := by
      rw [restFrames_dlen]
      simp [hsum]
    have ht6 : (P.take 6).length = 6 := by simp; omega
    constructor
    · intro f hf
      obtain ⟨j, d, rfl, hj, _⟩ := mem_restFrames hf
      exact ⟨_, d, rfl, by omega, by omega⟩
    · exact restFrames_sorted seq 1 _ (by omega)
    · rw [htot, ht6]; omega
    · intro f hf
      obtain ⟨j, d, rfl, hj, hd⟩ := mem_restFrames hf
      rw [htot, ht6]
      simp only [dlen, List.tail_cons]
      rcases List.mem_append.1 hd with hd | hd
      · have := h7 d hd; omega
      · have : d = last ++ pad := by simpa using hd
        subst this
        simp only [List.length_append]
        omega
    · rw [restFrames_tail]
      have : P.take 6 ++ (init ++ [last ++ pad]).flatten = P ++ pad := by
        simp only [List.flatten_append, List.flatten_cons, List.flatten_nil, List.append_nil]
        rw [← List.append_assoc init.flatten, hfl, ← List.append_assoc, List.take_append_drop]
      rw [this]
      simp


theorem head!_cons (a : Bytes) (l : List Bytes) : (a :: l).head! = a := rfl


/-! ### all frames in order (padding independence) -/

theorem specOuts_inorder (T : List Bytes) (P head : Bytes) (hnd : T.Nodup) (hh : head ∉ T) :
    ∀ (T2 T1 : List Bytes), T = T1 ++ T2 → T2 ≠ [] →
      specOuts T P (head :: T1) T2 =
        List.replicate (T2.length - 1) Out.stored ++ [Out.complete P] := by
  intro T2
  induction T2 with
  | nil => intro T1 _ h; exact absurd rfl h
  | cons f fs ih =>
    intro T1 hT _
    have hnd' := hnd
    rw [hT, List.nodup_append] at hnd'
    obtain ⟨_, h2, h3⟩ := hnd'
    rw [List.nodup_cons] at h2
    have hfT : f ∈ T := by rw [hT]; simp
    have hf1 : f ∉ T1 := fun h => h3 f h f (by simp) rfl
    have hfh : f ≠ head := fun e => hh (e ▸ hfT)
    have hfp : f ∉ head :: T1 := by simp [hfh, hf1]
    have hns : ¬ allSeen T (head :: T1) := fun h => hfp (h f hfT)
    have hT' : T = (T1 ++ [f]) ++ fs := by rw [hT]; simp
    simp only [specOuts, specOut, hns, if_false, hfT, hfp, not_false_eq_true, and_self, if_true]
    cases fs with
    | nil =>
      have hall : allSeen T (head :: (T1 ++ [f])) := by
        intro g hg
        rw [hT] at hg
        rcases List.mem_append.1 hg with hg | hg
        · simp [hg]
        · have : g = f := by simpa using hg
          simp [this]
      simp [hall, specOuts]
    | cons g gs =>
      have hgT : g ∈ T := by rw [hT]; simp
      have hall : ¬ allSeen T (head :: (T1 ++ [f])) := by
        intro h
        have hg := h g hgT
        have hgh : g ≠ head := fun e => hh (e ▸ hgT)
        have hg1 : g ∉ T1 := fun h => h3 g h g (by simp) rfl
        have hgf : g ≠ f := fun e => h2.1 (by simp [← e])
        simp [hgh, hg1, hgf] at hg
      have := ih (T1 ++ [f]) hT' (by simp)
      simp only [List.cons_append] at this ⊢
      rw [if_neg hall, this]
      simp [List.replicate_succ]

theorem segment_inorder {seq L : Nat} {P d0 : Bytes} {T : List Bytes} (ok : SegOK seq L P d0 T)
    (hs : seq < 8) :
    (run none ((seq * 32 :: L :: d0) :: T)).2 =
      List.replicate T.length Out.stored ++ [Out.complete P] := by
  have hm := (segment_main ok hs none (by intro x h; cases h) T (fun f hf => Or.inl hf)).1
  rw [hm]
  by_cases hT : T = []
  · subst hT; simp [specOuts]
  · have hnd : T.Nodup := by
      have := ok.sorted
      unfold List.Nodup
      exact this.imp (fun {a b} h e => by subst e; omega)
    have := specOuts_inorder T P (seq * 32 :: L :: d0) hnd (head_not_mem ok _) T [] (by simp) hT
    rw [this, if_neg hT]
    have : T.length = (T.length - 1) + 1 := by
      have := List.length_pos_iff.2 hT; omega
    conv => rhs; rw [this, List.replicate_succ]
    simp

theorem frames_concat (seq : Nat) (P : Bytes) : ∃ init a, frames seq P = init ++ [a] := by
  have hne : frames seq P ≠ [] := by simp [frames]
  exact ⟨_, _, (List.dropLast_concat_getLast hne).symm⟩

theorem framesPad_length (seq : Nat) (P pad : Bytes) :
    (framesPad seq P pad).length = (frames seq P).length := by
  obtain ⟨init, a, h⟩ := frames_concat seq P
  rw [framesPad_of_concat h, h]
  simp

theorem framesPad_lengths (seq : Nat) (P pad pad' : Bytes) (hl : pad.length = pad'.length) :
    (framesPad seq P pad).map List.length = (framesPad seq P pad').map List.length := by
  obtain ⟨init, a, h⟩ := frames_concat seq P
  rw [framesPad_of_concat h, framesPad_of_concat h]
  simp [hl]

theorem inorder_outs (seq : Nat) (P pad : Bytes) (hs : seq < 8) (hP : P.length ≤ 223)
    (hpad : ∀ f ∈ framesPad seq P pad, f.length ≤ 8) :
    (run none (framesPad seq P pad)).2 =
      List.replicate ((frames seq P).length - 1) Out.stored ++ [Out.complete P] := by
  obtain ⟨d0, T, hF, ok⟩ := framesPad_seg seq P pad hs hP hpad
  have hlen := framesPad_length seq P pad
  rw [hF] at hlen ⊢
  rw [segment_inorder ok hs, ← hlen]
  simp

theorem padding_independent (seq : Nat) (P pad pad' : Bytes) (hs : seq < 8) (hP : P.length ≤ 223)
    (hl : pad.length = pad'.length) (hpad : ∀ f ∈ framesPad seq P pad, f.length ≤ 8) :
    (run none (framesPad seq P pad)).2 = (run none (framesPad seq P pad')).2 := by
  have hpad' : ∀ f ∈ framesPad seq P pad', f.length ≤ 8 := by
    intro f hf
    have h1 : f.length ∈ (framesPad seq P pad').map List.length := List.mem_map.2 ⟨f, hf, rfl⟩
    rw [← framesPad_lengths seq P pad pad' hl] at h1
    obtain ⟨g, hg, e⟩ := List.mem_map.1 h1
    rw [← e]
    exact hpad g hg
  rw [inorder_outs seq P pad hs hP hpad, inorder_outs seq P pad' hs hP hpad']

end L04
end N2k.Fast
