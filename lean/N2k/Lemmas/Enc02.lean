/- helper lemmas for Props/C02.lean and Props/C09.lean -/
import N2k.Model.Spec
import N2k.Model.Interp
import N2k.Lemmas.F64
namespace N2k

end N2k
