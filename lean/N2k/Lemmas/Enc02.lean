/- helper lemmas for Props/C02.lean and Props/C09.lean -/
import N2k.Model.Spec
import N2k.Model.Interp
import N2k.Lemmas.F64
import N2k.Lemmas.Dec01
import Mathlib.Tactic.Linarith
import Mathlib.Tactic.NormNum
import Mathlib.Tactic.Ring
namespace N2k.Enc02
open N2k N2k.Spec

/-! ### bits of a field, contributions -/

/-- same as `contrib` of Props/C02.lean (which is defined after this file) -/
def ctr (n : Int) (len : Nat) : Nat := (n % ((2 ^ len : Nat) : Int)).toNat

/-- same as `fieldInt` of Props/C02.lean -/
def fInt (data off len : Nat) (signed : Bool) : Int :=
  if signed then signExtend (Straight.decode_int data off len) len else ((Straight.decode_int data off len : Nat) : Int)

theorem decode_int_lt (data off len : Nat) : Straight.decode_int data off len < 2 ^ len := by
  rw [Dec01.decode_int_bits]; exact Nat.mod_lt _ (Nat.two_pow_pos _)

theorem ctr_nat (v len : Nat) (h : v < 2 ^ len) : ctr (v : Int) len = v := by
  unfold ctr
  rw [← Int.natCast_mod, Int.toNat_natCast, Nat.mod_eq_of_lt h]

theorem ctr_lt (n : Int) (len : Nat) : ctr n len < 2 ^ len := by
  unfold ctr
  have hp : (0 : Int) < ((2 ^ len : Nat) : Int) := by exact_mod_cast Nat.two_pow_pos len
  have h1 := Int.emod_nonneg n hp.ne'
  have h2 := Int.emod_lt_of_pos n hp
  omega

theorem ctr_add_pow (n : Int) (len : Nat) : ctr (((2 ^ len : Nat) : Int) + n) len = ctr n len := by
  unfold ctr; rw [Int.add_emod_left]

theorem ctr_sub_pow (n : Int) (len : Nat) : ctr (n - ((2 ^ len : Nat) : Int)) len = ctr n len := by
  unfold ctr; rw [Int.sub_emod_right]

theorem ctr_of_nonneg (n : Int) (len : Nat) (h0 : 0 ≤ n) (h1 : n < ((2 ^ len : Nat) : Int)) :
    ((ctr n len : Nat) : Int) = n := by
  unfold ctr
  rw [Int.emod_eq_of_lt h0 h1]; omega

theorem two_pow_pred (len : Nat) (h : 1 ≤ len) : 2 ^ len = 2 * 2 ^ (len - 1) := by
  obtain ⟨k, rfl⟩ : ∃ k, len = k + 1 := ⟨len - 1, by omega⟩
  rw [Nat.add_sub_cancel, Nat.pow_succ]; omega

/-- sign extension, arithmetically -/
theorem signExtend_eq (n len : Nat) (hl : 1 ≤ len) (hn : n < 2 ^ len) :
    signExtend n len = if n < 2 ^ (len - 1) then (n : Int) else (n : Int) - ((2 ^ len : Nat) : Int) := by
  unfold signExtend
  have hP := two_pow_pred len hl
  have hH : 0 < 2 ^ (len - 1) := Nat.two_pow_pos _
  have hq : n / 2 ^ (len - 1) < 2 := (Nat.div_lt_iff_lt_mul hH).mpr (by omega)
  by_cases hlt : n < 2 ^ (len - 1)
  · have : n / 2 ^ (len - 1) = 0 := Nat.div_eq_zero_iff.mpr (Or.inr hlt)
    rw [this, if_pos hlt]; simp
  · have h0 : n / 2 ^ (len - 1) ≠ 0 := by
      intro h; rcases Nat.div_eq_zero_iff.mp h with h | h <;> omega
    have : n / 2 ^ (len - 1) = 1 := by
      generalize n / 2 ^ (len - 1) = q at hq h0; omega
    rw [this, if_neg hlt]; simp

theorem signExtend_zero_len (n : Nat) (hn : n < 2 ^ 0) : signExtend n 0 = 0 := by
  have : n = 0 := by simpa using hn
  subst this; simp [signExtend]

theorem ctr_fInt (data off len : Nat) (signed : Bool) :
    ctr (fInt data off len signed) len = Straight.decode_int data off len := by
  have hlt := decode_int_lt data off len
  unfold fInt
  cases signed
  · simp only [Bool.false_eq_true, if_false]; exact ctr_nat _ _ hlt
  · simp only [if_true]
    rcases Nat.eq_zero_or_pos len with h0 | hpos
    · subst h0
      rw [signExtend_zero_len _ hlt]
      have : Straight.decode_int data off 0 = 0 := by simpa using hlt
      rw [this]; rfl
    · rw [signExtend_eq _ _ hpos hlt]
      split
      · exact ctr_nat _ _ hlt
      · rw [ctr_sub_pow]; exact ctr_nat _ _ hlt

/-- the field integer lies strictly between `-2^len` and `2^len`; precisely for each signedness -/
theorem fInt_bounds (data off len : Nat) (signed : Bool) :
    (signed = false → 0 ≤ fInt data off len signed ∧ fInt data off len signed < ((2 ^ len : Nat) : Int)) ∧
    (signed = true → 1 ≤ len → -((2 ^ (len - 1) : Nat) : Int) ≤ fInt data off len signed ∧
        fInt data off len signed < ((2 ^ (len - 1) : Nat) : Int)) ∧
    (signed = true → len = 0 → fInt data off len signed = 0) := by
  have hlt := decode_int_lt data off len
  refine ⟨?_, ?_, ?_⟩
  · intro hs; subst hs
    simp only [fInt, Bool.false_eq_true, if_false]
    exact ⟨Int.natCast_nonneg _, by exact_mod_cast hlt⟩
  · intro hs hl; subst hs
    simp only [fInt, if_true]
    rw [signExtend_eq _ _ hl hlt]
    have hP := two_pow_pred len hl
    split <;> omega
  · intro hs hl; subst hs; subst hl
    simp only [fInt, if_true]
    exact signExtend_zero_len _ hlt

theorem fInt_abs (data off len : Nat) (signed : Bool) (hl : len ≤ 48) :
    |((fInt data off len signed : Int) : ℚ)| ≤ 2 ^ 48 := by
  have hb := fInt_bounds data off len signed
  have hmono : 2 ^ len ≤ 2 ^ 48 := Nat.pow_le_pow_right (by norm_num) hl
  have hz : |fInt data off len signed| ≤ 2 ^ 48 := by
    rw [abs_le]
    cases signed
    · have := hb.1 rfl; constructor <;> omega
    · rcases Nat.eq_zero_or_pos len with h0 | hpos
      · rw [hb.2.2 rfl h0]; constructor <;> norm_num
      · have := hb.2.1 rfl hpos
        have hP := two_pow_pred len hpos
        constructor <;> omega
  exact_mod_cast hz

/-! ### the not-available code -/

def naVal (len : Nat) (signed : Bool) : Int :=
  if len ≤ 3 then ((2 ^ len : Nat) - 1 : Int)
  else if signed then ((2 ^ (len - 1) : Nat) - 1 : Int) else ((2 ^ len : Nat) - 1 : Int)

theorem encodeNumber_none (len : Nat) (signed : Bool) (res ofs : Lit) (hl : len ≠ 1) :
    encodeNumber .none len signed res ofs = .ok (naVal len (effSigned signed ofs)) := by
  unfold encodeNumber naVal effSigned
  simp only [if_neg hl]

theorem naCode_eq (len : Nat) (signed : Bool) (hl : 2 ≤ len) : naCode len signed = some (naVal len signed) := by
  unfold naCode naVal
  rw [if_neg (by omega)]
  split
  · rfl
  · split <;> rfl

theorem naTime_eq (len : Nat) (signed : Bool) (hl : 4 ≤ len) : naTime len signed = naVal len signed := by
  unfold naTime naVal
  rw [if_neg (show ¬ len ≤ 3 by omega)]

theorem decodeNumber_none_iff (data off len : Nat) (signed : Bool) (res mn mx ofs : Lit) :
    decodeNumber data off len signed res mn mx ofs = .ok none ↔
      naCode len (effSigned signed ofs) = some (fInt data off len (effSigned signed ofs)) :=
  Dec01.decodeNumber_na data off len signed res mn mx ofs

theorem na_rt (data off len : Nat) (signed : Bool) (res mn mx ofs : Lit) (hl : 2 ≤ len)
    (hdec : decodeNumber data off len signed res mn mx ofs = .ok none) :
    ctr (naVal len (effSigned signed ofs)) len = Straight.decode_int data off len := by
  have h := (decodeNumber_none_iff ..).mp hdec
  rw [naCode_eq len _ hl] at h
  rw [Option.some.inj h]
  exact ctr_fInt ..

/-- the NA value is a nonnegative `len`-bit number -/
theorem naVal_range (len : Nat) (signed : Bool) (hl : 1 ≤ len) :
    0 ≤ naVal len signed ∧ naVal len signed < ((2 ^ len : Nat) : Int) := by
  unfold naVal
  have hP := two_pow_pred len hl
  have hH : 0 < 2 ^ (len - 1) := Nat.two_pow_pos _
  split
  · constructor <;> omega
  · split <;> constructor <;> omega

theorem absent_dec (data off len : Nat) (signed : Bool) (res mn mx ofs : Lit) (n : Int)
    (hl : 2 ≤ len) (hs : effSigned signed ofs = true → 4 ≤ len)
    (h : encodeNumber .none len signed res ofs = .ok n)
    (hbits : Straight.decode_int data off len = ctr n len) :
    decodeNumber data off len signed res mn mx ofs = .ok none := by
  rw [encodeNumber_none len signed res ofs (by omega)] at h
  have hn : n = naVal len (effSigned signed ofs) := (Except.ok.inj h).symm
  rw [decodeNumber_none_iff, naCode_eq len _ hl]
  generalize effSigned signed ofs = s at hs hn ⊢
  congr 1
  have hr := naVal_range len s (by omega)
  have hc := ctr_of_nonneg _ len hr.1 hr.2
  rw [← hn] at hc
  unfold fInt
  rw [hbits]
  cases s
  · simp only [Bool.false_eq_true, if_false]; rw [hc, hn]
  · simp only [if_true]
    have h4 := hs rfl
    rw [signExtend_eq _ _ (by omega) (ctr_lt _ _)]
    have hlt : ctr n len < 2 ^ (len - 1) := by
      have : ((ctr n len : Nat) : Int) < ((2 ^ (len - 1) : Nat) : Int) := by
        rw [hc, hn]; unfold naVal; rw [if_neg (by omega)]; simp
      exact_mod_cast this
    rw [if_pos hlt, hc, hn]

/-! ### encodeNumber on finite numbers -/

def nLo (len : Nat) (signed : Bool) : Int := if signed then -((2 ^ (len - 1) : Nat) : Int) else 0
def nHi (len : Nat) (signed : Bool) : Int :=
  if signed then ((2 ^ (len - 1) : Nat) : Int) - 2 else if len = 1 then 1 else ((2 ^ len : Nat) : Int) - 2

theorem encodeNumber_num (x : Num) (len : Nat) (signed : Bool) (res ofs : Lit) (hres : res.val ≠ 0) :
    encodeNumber (numVal x) len signed res ofs =
      if rhe (pyDiv (subLit x ofs) (litNum res)) < nLo len (effSigned signed ofs) ∨
          rhe (pyDiv (subLit x ofs) (litNum res)) > nHi len (effSigned signed ofs) then .error .range
      else .ok (if effSigned signed ofs = true ∧ rhe (pyDiv (subLit x ofs) (litNum res)) < 0
                then ((2 ^ len : Nat) : Int) + rhe (pyDiv (subLit x ofs) (litNum res))
                else rhe (pyDiv (subLit x ofs) (litNum res))) := by
  cases x <;> simp only [numVal, encodeNumber, if_neg hres, nLo, nHi, effSigned] <;> rfl

theorem encodeNumber_range_rejected (x : Num) (len : Nat) (signed : Bool) (res ofs : Lit) (hres : res.val ≠ 0)
    (h : rhe (pyDiv (subLit x ofs) (litNum res)) < nLo len (effSigned signed ofs) ∨
      nHi len (effSigned signed ofs) < rhe (pyDiv (subLit x ofs) (litNum res))) :
    encodeNumber (numVal x) len signed res ofs = .error .range := by
  rw [encodeNumber_num x len signed res ofs hres, if_pos h]

theorem encodeNumber_nearest (x : Num) (len : Nat) (signed : Bool) (res ofs : Lit) (n : Int)
    (hl : 1 ≤ len) (hres : res.val ≠ 0)
    (h : encodeNumber (numVal x) len signed res ofs = .ok n) :
    ∃ z : Int, |((z : Int) : Rat) - pyDiv (subLit x ofs) (litNum res)| ≤ 1 / 2 ∧
      nLo len (effSigned signed ofs) ≤ z ∧ z ≤ nHi len (effSigned signed ofs) ∧
      ctr n len = ctr z len ∧ 0 ≤ n ∧ n < ((2 ^ len : Nat) : Int) := by
  rw [encodeNumber_num x len signed res ofs hres] at h
  generalize effSigned signed ofs = s at h ⊢
  generalize hz : rhe (pyDiv (subLit x ofs) (litNum res)) = z at h
  split at h
  · cases h
  · rename_i hr
    have hn := Except.ok.inj h
    refine ⟨z, ?_, by omega, by omega, ?_, ?_⟩
    · rw [← hz]; exact rhe_err _
    · rw [← hn]; split
      · exact ctr_add_pow _ _
      · rfl
    · have hP := two_pow_pred len hl
      have hH : 0 < 2 ^ (len - 1) := Nat.two_pow_pos _
      have hlo : nLo len s ≤ z := by omega
      have hhi : z ≤ nHi len s := by omega
      unfold nLo at hlo
      unfold nHi at hhi
      rw [← hn]
      cases s
      · simp only [Bool.false_eq_true, if_false, false_and] at hlo hhi ⊢
        split at hhi <;> constructor <;> omega
      · simp only [if_true, true_and] at hlo hhi ⊢
        split <;> constructor <;> omega

/-- a field integer that is not the NA code lies in the encoder's accepted range -/
theorem fInt_in_range (data off len : Nat) (signed : Bool) (hl1 : 1 ≤ len) (hs : signed = true → 4 ≤ len)
    (hna : naCode len signed ≠ some (fInt data off len signed)) :
    nLo len signed ≤ fInt data off len signed ∧ fInt data off len signed ≤ nHi len signed := by
  have hb := fInt_bounds data off len signed
  have hP := two_pow_pred len hl1
  have hH : 0 < 2 ^ (len - 1) := Nat.two_pow_pos _
  unfold nLo nHi
  cases signed
  · have h1 := hb.1 rfl
    simp only [Bool.false_eq_true, if_false]
    refine ⟨h1.1, ?_⟩
    by_cases hl : len = 1
    · subst hl; rw [if_pos rfl]; norm_num at h1 ⊢; omega
    · rw [if_neg hl]
      rw [naCode_eq len false (by omega)] at hna
      have : naVal len false = ((2 ^ len : Nat) : Int) - 1 := by
        unfold naVal; split <;> simp
      rw [this] at hna
      have hne : fInt data off len false ≠ ((2 ^ len : Nat) : Int) - 1 := fun e => hna (by rw [e])
      omega
  · have h4 := hs rfl
    have h1 := hb.2.1 rfl hl1
    simp only [if_true]
    refine ⟨h1.1, ?_⟩
    rw [naCode_eq len true (by omega)] at hna
    have : naVal len true = ((2 ^ (len - 1) : Nat) : Int) - 1 := by
      unfold naVal; rw [if_neg (by omega)]; simp
    rw [this] at hna
    have hne : fInt data off len true ≠ ((2 ^ (len - 1) : Nat) : Int) - 1 := fun e => hna (by rw [e])
    omega

/-- once the rounded quotient is the field integer (not NA), the encoder returns the field's bits -/
theorem encodeNumber_of_rhe (x : Num) (data off len : Nat) (signed : Bool) (res ofs : Lit)
    (hres : res.val ≠ 0) (hl1 : 1 ≤ len) (hs : effSigned signed ofs = true → 4 ≤ len)
    (hna : naCode len (effSigned signed ofs) ≠ some (fInt data off len (effSigned signed ofs)))
    (hq : rhe (pyDiv (subLit x ofs) (litNum res)) = fInt data off len (effSigned signed ofs)) :
    ∃ n, encodeNumber (numVal x) len signed res ofs = .ok n ∧ ctr n len = Straight.decode_int data off len := by
  rw [encodeNumber_num x len signed res ofs hres, hq]
  have hr := fInt_in_range data off len _ hl1 hs hna
  rw [if_neg (by omega)]
  refine ⟨_, rfl, ?_⟩
  split
  · rw [ctr_add_pow]; exact ctr_fInt ..
  · exact ctr_fInt ..

/-! ### what a successful `decodeNumber` returned -/

theorem ite3_some {ε α} (a b : Prop) [Decidable a] [Decidable b] (e1 e2 : ε) (v w : α)
    (h : (if a then Except.error e1 else if b then Except.error e2 else Except.ok (some v)) = Except.ok (some w)) :
    v = w := by
  by_cases ha : a <;> by_cases hb : b <;> simp [ha, hb] at h
  exact h

theorem decodeNumber_some {data off len : Nat} {signed : Bool} {res mn mx ofs : Lit} {v : Num}
    (h : decodeNumber data off len signed res mn mx ofs = .ok (some v)) :
    naCode len (effSigned signed ofs) ≠ some (fInt data off len (effSigned signed ofs)) ∧
      v = addLit (mulLit (fInt data off len (effSigned signed ofs)) res) ofs := by
  rw [Dec01.decodeNumber_eff] at h
  change (if naCode len (effSigned signed ofs) = some (fInt data off len (effSigned signed ofs)) then _ else _) = _ at h
  split at h
  · cases h
  · rename_i hna
    exact ⟨hna, (ite3_some _ _ _ _ _ _ h).symm⟩

/-! ### integer resolution -/

theorem Lit.val_int_ne_zero (r : Lit) (hf : r.isFloat = false) (hm : 0 < r.m) : r.val ≠ 0 := by
  unfold Lit.val Lit.exact
  rw [hf]; simp only [Bool.false_eq_true, if_false]
  have : (0 : ℚ) < (r.m : ℚ) := by exact_mod_cast hm
  exact (mul_pos this (pow10_pos _)).ne'

/-- `round((z·r + o − o) / r) = z` for integer literals -/
theorem quot_int (z : Int) (res ofs : Lit) (hf : res.isFloat = false) (hm : 0 < res.m)
    (hof : ofs.isFloat = false) (hz : |(z : ℚ)| ≤ 2 ^ 48) :
    rhe (pyDiv (subLit (addLit (mulLit z res) ofs) ofs) (litNum res)) = z := by
  simp only [mulLit, addLit, subLit, litNum, hf, hof, Bool.false_eq_true, if_false, pyDiv]
  have hr : (res.m : ℚ) ≠ 0 := by
    have : (0 : ℚ) < (res.m : ℚ) := by exact_mod_cast hm
    exact this.ne'
  have e : ((z * res.m + ofs.m - ofs.m : Int) : ℚ) / (res.m : ℚ) = (z : ℚ) := by
    push_cast; field_simp; ring
  rw [e]
  have h53 : |z| ≤ 2 ^ 53 := by
    have : |(z : ℚ)| ≤ 2 ^ 53 := le_trans hz (by norm_num)
    exact_mod_cast this
  rw [rne_int_exact z h53, rhe_int]

theorem number_rt_int (data off len : Nat) (signed : Bool) (res mn mx ofs : Lit) (v : Num)
    (hf : res.isFloat = false) (hm : 0 < res.m) (hof : ofs.isFloat = false)
    (hl1 : 1 ≤ len) (hl : len ≤ 48) (hs : effSigned signed ofs = true → 4 ≤ len)
    (hdec : decodeNumber data off len signed res mn mx ofs = .ok (some v)) :
    ∃ n, encodeNumber (numVal v) len signed res ofs = .ok n ∧
      ctr n len = Straight.decode_int data off len := by
  obtain ⟨hna, rfl⟩ := decodeNumber_some hdec
  exact encodeNumber_of_rhe _ data off len signed res ofs (Lit.val_int_ne_zero res hf hm) hl1 hs hna
    (quot_int _ res ofs hf hm hof (fInt_abs data off len _ hl))

theorem ofInt_zero_val : (Lit.ofInt 0).val = 0 := by
  simp [Lit.ofInt, Lit.val, Lit.exact]

theorem subLit_zero_int (z : Int) : subLit (.int z) (Lit.ofInt 0) = .int z := by
  simp [subLit, Lit.ofInt]

theorem ticks_rt_int (data off len : Nat) (signed : Bool) (res mn mx : Lit) (v : Num)
    (hf : res.isFloat = false) (hm : 0 < res.m) (hl : len ≤ 48)
    (hdec : decodeNumber data off len signed res mn mx (Lit.ofInt 0) = .ok (some v)) :
    ctr (rhe (pyDiv v (litNum res))) len = Straight.decode_int data off len := by
  have hd := decodeNumber_some hdec
  rw [Dec01.effSigned_zero] at hd
  obtain ⟨-, rfl⟩ := hd
  have h := quot_int (fInt data off len signed) res (Lit.ofInt 0) hf hm rfl (fInt_abs data off len signed hl)
  have e : subLit (addLit (mulLit (fInt data off len signed) res) (Lit.ofInt 0)) (Lit.ofInt 0) =
      addLit (mulLit (fInt data off len signed) res) (Lit.ofInt 0) := by
    simp only [mulLit, hf, Bool.false_eq_true, if_false, addLit, Lit.ofInt]
    exact subLit_zero_int _
  rw [e] at h
  rw [h]; exact ctr_fInt ..

/-! ### decimal resolution -/

theorem Lit.val_float_ne_zero (res : Lit) (hf : res.isFloat = true) (hres : pow2 (-1022) ≤ res.exact) :
    res.val ≠ 0 :=
  (lt_of_lt_of_le (pow2_pos _) (Lit.val_pos_of_normal res hf hres)).ne'

theorem addLit_flt_zero (q : ℚ) : addLit (.flt (rne q)) (Lit.ofInt 0) = .flt (rne q) := by
  simp only [addLit, ofInt_zero_val, rne_zero, add_zero, rne_idem]

theorem subLit_flt_zero (q : ℚ) : subLit (.flt (rne q)) (Lit.ofInt 0) = .flt (rne q) := by
  simp only [subLit, ofInt_zero_val, rne_zero, sub_zero, rne_idem]

theorem decoded_float (z : Int) (res : Lit) (hf : res.isFloat = true) :
    addLit (mulLit z res) (Lit.ofInt 0) = mulLit z res := by
  rw [mulLit_float z res hf, addLit_flt_zero]

theorem quot_float (z : Int) (res : Lit) (hf : res.isFloat = true) (hres : pow2 (-1022) ≤ res.exact)
    (hz : |(z : ℚ)| ≤ 2 ^ 48) :
    rhe (pyDiv (subLit (addLit (mulLit z res) (Lit.ofInt 0)) (Lit.ofInt 0)) (litNum res)) = z := by
  rw [decoded_float z res hf, mulLit_float z res hf, subLit_flt_zero, ← mulLit_float z res hf,
    litNum_float res hf]
  exact scale_roundtrip_lit_of_normal z res hf hres hz

theorem number_rt_float (data off len : Nat) (signed : Bool) (res mn mx : Lit) (v : Num)
    (hf : res.isFloat = true) (hres : pow2 (-1022) ≤ res.exact)
    (hl1 : 1 ≤ len) (hl : len ≤ 48) (hs : signed = true → 4 ≤ len)
    (hdec : decodeNumber data off len signed res mn mx (Lit.ofInt 0) = .ok (some v)) :
    ∃ n, encodeNumber (numVal v) len signed res (Lit.ofInt 0) = .ok n ∧
      ctr n len = Straight.decode_int data off len := by
  have hd := decodeNumber_some hdec
  rw [Dec01.effSigned_zero] at hd
  obtain ⟨hna, rfl⟩ := hd
  refine encodeNumber_of_rhe _ data off len signed res _ (Lit.val_float_ne_zero res hf hres) hl1 ?_ ?_ ?_ <;>
    rw [Dec01.effSigned_zero]
  · exact hs
  · exact hna
  · exact quot_float _ res hf hres (fInt_abs data off len signed hl)

theorem ticks_rt_float (data off len : Nat) (signed : Bool) (res mn mx : Lit) (v : Num)
    (hf : res.isFloat = true) (hres : pow2 (-1022) ≤ res.exact) (hl : len ≤ 48)
    (hdec : decodeNumber data off len signed res mn mx (Lit.ofInt 0) = .ok (some v)) :
    ctr (rhe (pyDiv v (litNum res))) len = Straight.decode_int data off len := by
  have hd := decodeNumber_some hdec
  rw [Dec01.effSigned_zero] at hd
  obtain ⟨-, rfl⟩ := hd
  rw [decoded_float _ res hf, litNum_float res hf,
    scale_roundtrip_lit_of_normal _ res hf hres (fInt_abs data off len signed hl)]
  exact ctr_fInt ..

/-! ### bit-level: OR-accumulation at disjoint ranges -/

theorem testBit_decode_int (a o l i : Nat) :
    (Straight.decode_int a o l).testBit i = (decide (i < l) && a.testBit (o + i)) := by
  rw [Dec01.decode_int_bits, Nat.testBit_mod_two_pow, ← Nat.shiftRight_eq_div_pow, Nat.testBit_shiftRight]

theorem decode_int_or (a b o l : Nat) :
    Straight.decode_int (a ||| b) o l = Straight.decode_int a o l ||| Straight.decode_int b o l := by
  apply Nat.eq_of_testBit_eq; intro i
  simp only [testBit_decode_int, Nat.testBit_or, Bool.and_or_distrib_left]

theorem decode_int_zero (o l : Nat) : Straight.decode_int 0 o l = 0 := by
  rw [Dec01.decode_int_bits]; simp

theorem decode_int_shift_self (v o l : Nat) (h : v < 2 ^ l) : Straight.decode_int (v <<< o) o l = v := by
  rw [Dec01.decode_int_bits, ← Nat.shiftRight_eq_div_pow, Nat.shiftLeft_shiftRight, Nat.mod_eq_of_lt h]

/-- a `l`-bit value placed at `o`, read at a disjoint range `(o', l')` -/
theorem decode_int_shift_disj (v o l o' l' : Nat) (h : v < 2 ^ l) (hd : o + l ≤ o' ∨ o' + l' ≤ o) :
    Straight.decode_int (v <<< o) o' l' = 0 := by
  apply Nat.eq_of_testBit_eq; intro i
  rw [testBit_decode_int, Nat.testBit_shiftLeft, Nat.zero_testBit]
  by_cases hi : i < l'
  · by_cases hge : o' + i ≥ o
    · rcases hd with hd | hd
      · have : v.testBit (o' + i - o) = false :=
          Nat.testBit_lt_two_pow (lt_of_lt_of_le h (Nat.pow_le_pow_right (by norm_num) (by omega)))
        simp [this]
      · omega
    · simp [hge]
  · simp [hi]

/-- same as `accumulate` of Props/C02.lean -/
def acc : List (Nat × Nat × Nat) → Nat
  | [] => 0
  | (v, _, o) :: rest => acc rest ||| (v <<< o)

/-- same as `disjointRanges` of Props/C02.lean -/
def disj : List (Nat × Nat × Nat) → Prop
  | [] => True
  | (_, l, o) :: rest => (∀ x ∈ rest, o + l ≤ x.2.2 ∨ x.2.2 + x.2.1 ≤ o) ∧ disj rest

theorem acc_unique (A : List (Nat × Nat × Nat) → Nat) (h0 : A [] = 0)
    (h1 : ∀ v l o rest, A ((v, l, o) :: rest) = A rest ||| (v <<< o)) : ∀ parts, A parts = acc parts := by
  intro parts
  induction parts with
  | nil => exact h0
  | cons x rest ih => obtain ⟨v, l, o⟩ := x; rw [h1, ih]; rfl

theorem disj_unique (D : List (Nat × Nat × Nat) → Prop)
    (h1 : ∀ v l o rest, D ((v, l, o) :: rest) =
      ((∀ x ∈ rest, o + l ≤ x.2.2 ∨ x.2.2 + x.2.1 ≤ o) ∧ D rest)) : ∀ parts, D parts → disj parts := by
  intro parts
  induction parts with
  | nil => intro _; trivial
  | cons x rest ih =>
    obtain ⟨v, l, o⟩ := x
    intro h; rw [h1] at h
    exact ⟨h.1, ih h.2⟩

theorem acc_read_disj (parts : List (Nat × Nat × Nat)) (hv : ∀ x ∈ parts, x.1 < 2 ^ x.2.1) (o l : Nat)
    (hd : ∀ x ∈ parts, o + l ≤ x.2.2 ∨ x.2.2 + x.2.1 ≤ o) :
    Straight.decode_int (acc parts) o l = 0 := by
  induction parts with
  | nil => exact decode_int_zero o l
  | cons y rest ih =>
    obtain ⟨v, l', o'⟩ := y
    rw [acc, decode_int_or, ih (fun x hx => hv x (List.mem_cons_of_mem _ hx))
      (fun x hx => hd x (List.mem_cons_of_mem _ hx)),
      decode_int_shift_disj v o' l' o l (hv _ (List.mem_cons_self ..)) (hd _ (List.mem_cons_self ..)).symm]
    rfl

theorem acc_read (parts : List (Nat × Nat × Nat)) (hd : disj parts)
    (hv : ∀ x ∈ parts, x.1 < 2 ^ x.2.1) (x : Nat × Nat × Nat) (hx : x ∈ parts) :
    Straight.decode_int (acc parts) x.2.2 x.2.1 = x.1 := by
  induction parts with
  | nil => cases hx
  | cons y rest ih =>
    obtain ⟨v, l, o⟩ := y
    obtain ⟨hd1, hd2⟩ := hd
    have hv' : ∀ x ∈ rest, x.1 < 2 ^ x.2.1 := fun x hx => hv x (List.mem_cons_of_mem _ hx)
    rw [acc, decode_int_or]
    rcases List.mem_cons.mp hx with rfl | hx'
    · rw [acc_read_disj rest hv' _ _ hd1, decode_int_shift_self _ _ _ (hv _ (List.mem_cons_self ..))]
      simp
    · rw [ih hd2 hv' hx', decode_int_shift_disj v o l _ _ (hv _ (List.mem_cons_self ..)) (hd1 x hx')]
      simp

/-! ### encoder steps -/

theorem runSteps_field_ok {env : Env} {fs : List Field} {a : Nat} {id nm : String} {k : EncKind} {mask off : Nat}
    {rest : List EncStep} {r : Nat}
    (h : runSteps env fs a (.field id nm k mask off :: rest) = .ok r) :
    ∃ f v, getField fs id = some f ∧ encValue env f k = .ok v ∧
      runSteps env fs (a ||| (((v % ((2 ^ bitLength mask : Nat) : Int)).toNat &&& mask) <<< off)) rest = .ok r := by
  rw [runSteps] at h
  cases hg : getField fs id with
  | none => rw [hg] at h; cases h
  | some f =>
    rw [hg] at h
    simp only [bind, Except.bind] at h
    cases hv : encValue env f k with
    | error e => rw [hv] at h; cases h
    | ok v => rw [hv] at h; exact ⟨f, v, rfl, hv, h⟩

theorem runSteps_missing (env : Env) (fs : List Field) (id name : String) (k : EncKind) (mask off : Nat)
    (hmiss : getField fs id = none) :
    ∀ (steps : List EncStep) (a : Nat), EncStep.field id name k mask off ∈ steps →
      ∀ r, runSteps env fs a steps ≠ .ok r := by
  intro steps
  induction steps with
  | nil => intro a h; cases h
  | cons s rest ih =>
    intro a hmem r hr
    cases s with
    | noLayout pg nm => rw [runSteps] at hr; cases hr
    | unrecognised w => rw [runSteps] at hr; cases hr
    | field i n kk mk o =>
      obtain ⟨f, v, hg, -, hrest⟩ := runSteps_field_ok hr
      rcases List.mem_cons.mp hmem with heq | hmem'
      · injection heq with e1
        subst e1
        rw [hmiss] at hg; cases hg
      · exact ih _ hmem' r hrest

theorem runEnc_missing (env : Env) (fn : EncFn) (fs : List Field) (id name : String) (k : EncKind) (mask off : Nat)
    (hstep : EncStep.field id name k mask off ∈ fn.steps) (hmiss : getField fs id = none) :
    ∀ bytes, runEnc env fn fs ≠ .ok bytes := by
  intro bytes h
  unfold runEnc at h
  simp only [bind, Except.bind] at h
  cases hr : runSteps env fs 0 fn.steps with
  | error e => rw [hr] at h; cases h
  | ok n => exact runSteps_missing env fs id name k mask off hmiss fn.steps 0 hstep n hr

theorem masked_lt (x l : Nat) : x &&& (2 ^ l - 1) < 2 ^ l :=
  lt_of_le_of_lt Nat.and_le_right (Nat.sub_lt (Nat.two_pow_pos l) Nat.one_pos)

theorem runSteps_local (env : Env) (fs fs' : List Field) (id : String)
    (hsame : ∀ j, j ≠ id → getField fs j = getField fs' j) (off' len' : Nat) :
    ∀ (steps : List EncStep) (a0 b0 a b : Nat),
      (∀ s ∈ steps, ∀ i n kk mk o, s = EncStep.field i n kk mk o → ∃ l, mk = 2 ^ l - 1) →
      (∀ s ∈ steps, ∀ i n kk l o, s = EncStep.field i n kk (2 ^ l - 1) o →
        i ≠ id ∨ o + l ≤ off' ∨ off' + len' ≤ o) →
      Straight.decode_int a0 off' len' = Straight.decode_int b0 off' len' →
      runSteps env fs a0 steps = .ok a → runSteps env fs' b0 steps = .ok b →
      Straight.decode_int a off' len' = Straight.decode_int b off' len' := by
  intro steps
  induction steps with
  | nil =>
    intro a0 b0 a b _ _ h0 ha hb
    rw [runSteps] at ha hb
    cases ha; cases hb; exact h0
  | cons s rest ih =>
    intro a0 b0 a b hm hdj h0 ha hb
    cases s with
    | noLayout pg nm => rw [runSteps] at ha; cases ha
    | unrecognised w => rw [runSteps] at ha; cases ha
    | field i n kk mk o =>
      obtain ⟨l, rfl⟩ := hm _ (List.mem_cons_self ..) i n kk mk o rfl
      obtain ⟨f, v, hg, hv, hra⟩ := runSteps_field_ok ha
      obtain ⟨f', v', hg', hv', hrb⟩ := runSteps_field_ok hb
      refine ih _ _ a b (fun s hs => hm s (List.mem_cons_of_mem _ hs))
        (fun s hs => hdj s (List.mem_cons_of_mem _ hs)) ?_ hra hrb
      rw [decode_int_or, decode_int_or, h0]
      rcases hdj _ (List.mem_cons_self ..) i n kk l o rfl with hne | hd
      · have e := hsame i hne
        rw [hg, hg'] at e
        cases e
        rw [hv] at hv'
        cases hv'
        rfl
      · rw [decode_int_shift_disj _ o l off' len' (masked_lt _ l) hd,
          decode_int_shift_disj _ o l off' len' (masked_lt _ l) hd]

/-! ### per-field: what the decoder reports is re-encoded to the field's bits -/

def isIntLit' (l : Option Lit) : Bool := match l with | some x => !x.isFloat | none => false

/-- same as `encFieldOk` of Props/C02.lean -/
def fieldOk (f : FieldDef) : Bool :=
  match f.bitLength, f.bitOffset, f.resolution with
  | some l, some _, some r =>
    let t := f.ftype
    if t = "NUMBER" ∨ t = "PGN" then
      1 ≤ l && l ≤ 48 && (!f.signed || 4 ≤ l) && f.rangeMin.isSome && f.rangeMax.isSome &&
      (if r.isFloat then f.offset.isNone && decide (pow2 (-1022) ≤ r.exact)
       else decide (0 < r.m) && decide (r.e = 0) && isIntLit' f.rangeMin && isIntLit' f.rangeMax &&
            (f.offset.isNone || isIntLit' f.offset))
    else if t = "TIME" ∨ t = "DURATION" then
      4 ≤ l && l ≤ 48 && f.rangeMin.isSome && f.rangeMax.isSome && f.offset.isNone &&
      (if r.isFloat then decide (pow2 (-1022) ≤ r.exact)
       else decide (0 < r.m) && decide (r.e = 0) && isIntLit' f.rangeMin && isIntLit' f.rangeMax)
    else if t = "DATE" then
      2 ≤ l && l ≤ 48 && !f.signed && !r.isFloat && decide (r.m = 1) && decide (r.e = 0) &&
      isIntLit' f.rangeMin && isIntLit' f.rangeMax && f.offset.isNone
    else if t = "LOOKUP" then f.enum.isSome
    else t = "RESERVED"
  | _, _, _ => false

theorem runOp_number {env : Env} {data off : Nat} {done : List Field} {len : Nat} {signed : Bool}
    {res mn mx ofs : Lit} {post : Post} {v raw : PyVal} {off' : Nat}
    (h : runOp env data off done (.number len signed res mn mx ofs post) = .ok (v, raw, off')) :
    ∃ r', decodeNumber data off len signed res mn mx ofs = .ok r' ∧
      raw = (match r' with | some x => numVal x | none => .none) ∧
      (post = .id → v = raw) ∧ (post = .time → v = decodeTime r') ∧ (post = .date → decodeDate r' = .ok v) := by
  simp only [runOp, bind, Except.bind, pure, Except.pure] at h
  cases hd : decodeNumber data off len signed res mn mx ofs with
  | error e => rw [hd] at h; cases h
  | ok r' =>
    rw [hd] at h
    refine ⟨r', rfl, ?_⟩
    cases post with
    | id =>
      simp only [Except.ok.injEq, Prod.mk.injEq] at h
      exact ⟨h.2.1.symm, fun _ => h.1.symm.trans h.2.1, fun h' => (by cases h'), fun h' => (by cases h')⟩
    | time =>
      simp only [Except.ok.injEq, Prod.mk.injEq] at h
      exact ⟨h.2.1.symm, fun h' => (by cases h'), fun _ => h.1.symm, fun h' => (by cases h')⟩
    | date =>
      simp only at h
      cases hdd : decodeDate r' with
      | error e => rw [hdd] at h; cases h
      | ok d =>
        rw [hdd] at h
        simp only [Except.ok.injEq, Prod.mk.injEq] at h
        exact ⟨h.2.1.symm, fun h' => (by cases h'), fun h' => (by cases h'), fun _ => (by rw [h.1])⟩

theorem encValue_number_none (env : Env) (fm : FieldMeta) (raw : PyVal) (bits : Nat) (s : Bool) (r o : Lit) :
    encValue env ⟨fm, .none, raw⟩ (.number bits s r o) = encodeNumber .none bits s r o := rfl

theorem encValue_number_num (env : Env) (fm : FieldMeta) (raw : PyVal) (x : Num) (bits : Nat) (s : Bool) (r o : Lit) :
    encValue env ⟨fm, numVal x, raw⟩ (.number bits s r o) = encodeNumber (numVal x) bits s r o := by
  cases x <;> rfl

theorem encValue_time_none (env : Env) (fm : FieldMeta) (bits : Nat) (s : Bool) (r : Lit) :
    encValue env ⟨fm, .none, .none⟩ (.time r bits s) = .ok (naTime bits s) := rfl

theorem encValue_time_num (env : Env) (fm : FieldMeta) (val : PyVal) (x : Num) (bits : Nat) (s : Bool) (r : Lit)
    (hres : r.val ≠ 0) :
    encValue env ⟨fm, val, numVal x⟩ (.time r bits s) = .ok (rhe (pyDiv x (litNum r))) := by
  cases x <;> simp only [encValue, numVal, if_neg hres] <;> rfl

theorem isIntLit'_some {l : Option Lit} (h : isIntLit' l = true) : ∃ x, l = some x ∧ x.isFloat = false := by
  cases l with
  | none => cases h
  | some x => exact ⟨x, rfl, by simpa [isIntLit'] using h⟩

theorem naVal_unsigned (l : Nat) : naVal l false = ((2 ^ l : Nat) : Int) - 1 := by
  unfold naVal; split <;> simp

theorem none_len {data off len : Nat} {signed : Bool} {res mn mx ofs : Lit}
    (h : decodeNumber data off len signed res mn mx ofs = .ok none) (hl : 1 ≤ len) : 2 ≤ len := by
  have h' := (decodeNumber_none_iff ..).mp h
  by_contra hc
  have : len = 1 := by omega
  subst this
  simp [naCode] at h'

theorem field_contrib (env : Env) (data : Nat) (f : FieldDef) (l o : Nat) (hok : fieldOk f = true)
    (hl : f.bitLength = some l) (ho : f.bitOffset = some o)
    (fm : FieldMeta) (v raw : PyVal) (off' : Nat) (done : List Field)
    (hrun : runOp env data o done (decOp f) = .ok (v, raw, off')) :
    ∃ z, encValue env ⟨fm, v, raw⟩ (encKind f l) = .ok z ∧ ctr z l = Straight.decode_int data o l := by
  unfold fieldOk at hok
  rw [hl, ho] at hok
  cases hr : f.resolution with
  | none => rw [hr] at hok; cases hok
  | some r =>
    rw [hr] at hok
    simp only at hok
    by_cases ht1 : f.ftype = "NUMBER" ∨ f.ftype = "PGN"
    · -- NUMBER / PGN
      rw [if_pos ht1] at hok
      simp only [Bool.and_eq_true, decide_eq_true_eq, Bool.or_eq_true, Bool.not_eq_true'] at hok
      obtain ⟨⟨⟨⟨⟨hl1, hl48⟩, hsg⟩, hmn⟩, hmx⟩, hres⟩ := hok
      obtain ⟨mn, hmn⟩ := Option.isSome_iff_exists.mp hmn
      obtain ⟨mx, hmx⟩ := Option.isSome_iff_exists.mp hmx
      have hs : f.signed = true → 4 ≤ l := by
        intro h; rcases hsg with h' | h'
        · rw [h] at h'; cases h'
        · exact h'
      have hop : decOp f = .number l f.signed r mn mx (f.offset.getD (Lit.ofInt 0)) .id := by
        rcases ht1 with h | h <;> simp [decOp, h, numberOp, hl, hr, hmn, hmx]
      have hk : encKind f l = .number l f.signed r (f.offset.getD (Lit.ofInt 0)) := by
        rcases ht1 with h | h <;> simp [encKind, h, hr]
      rw [hop] at hrun
      rw [hk]
      obtain ⟨r', hdec, hraw, hv, -, -⟩ := runOp_number hrun
      have hv' := hv rfl
      subst hv'
      cases r' with
      | none =>
        subst hraw
        have h2 : 2 ≤ l := none_len hdec hl1
        rw [encValue_number_none, encodeNumber_none _ _ _ _ (by omega)]
        exact ⟨_, rfl, na_rt data o l f.signed r mn mx _ h2 hdec⟩
      | some x =>
        subst hraw
        simp only
        rw [encValue_number_num]
        by_cases hf : r.isFloat = true
        · rw [if_pos hf] at hres
          simp only [Bool.and_eq_true, decide_eq_true_eq, Option.isNone_iff_eq_none] at hres
          rw [hres.1] at hdec ⊢
          exact number_rt_float data o l f.signed r mn mx x hf hres.2 hl1 hl48 hs hdec
        · rw [if_neg hf] at hres
          simp only [Bool.and_eq_true, decide_eq_true_eq, Bool.or_eq_true, Option.isNone_iff_eq_none] at hres
          have hf' : r.isFloat = false := by simpa using hf
          have hof : (f.offset.getD (Lit.ofInt 0)).isFloat = false := by
            rcases hres.2 with h | h
            · rw [h]; rfl
            · obtain ⟨x, hx, hxf⟩ := isIntLit'_some h
              rw [hx]; exact hxf
          exact number_rt_int data o l f.signed r mn mx _ x hf' hres.1.1.1.1 hof hl1 hl48
            (fun h => hs (Dec01.effSigned_le _ _ h)) hdec
    · rw [if_neg ht1] at hok
      have hn1 : f.ftype ≠ "NUMBER" := fun h => ht1 (Or.inl h)
      have hn2 : f.ftype ≠ "PGN" := fun h => ht1 (Or.inr h)
      by_cases ht2 : f.ftype = "TIME" ∨ f.ftype = "DURATION"
      · -- TIME / DURATION
        rw [if_pos ht2] at hok
        simp only [Bool.and_eq_true, decide_eq_true_eq, Option.isNone_iff_eq_none] at hok
        obtain ⟨⟨⟨⟨⟨hl4, hl48⟩, hmn⟩, hmx⟩, hofs⟩, hres⟩ := hok
        obtain ⟨mn, hmn⟩ := Option.isSome_iff_exists.mp hmn
        obtain ⟨mx, hmx⟩ := Option.isSome_iff_exists.mp hmx
        have hop : ∃ post, post ≠ Post.date ∧ decOp f = .number l f.signed r mn mx (Lit.ofInt 0) post := by
          rcases ht2 with h | h
          · exact ⟨.time, by simp, by simp [decOp, h, numberOp, hl, hr, hmn, hmx]⟩
          · exact ⟨.id, by simp, by simp [decOp, h, numberOp, hl, hr, hmn, hmx, hofs]⟩
        obtain ⟨post, hpost, hop⟩ := hop
        have hk : encKind f l = .time r l f.signed := by
          rcases ht2 with h | h <;> simp [encKind, h, hr]
        rw [hop] at hrun
        rw [hk]
        obtain ⟨r', hdec, hraw, hvid, hvtime, -⟩ := runOp_number hrun
        have hrv : r.val ≠ 0 := by
          by_cases hf : r.isFloat = true
          · rw [if_pos hf] at hres
            exact Lit.val_float_ne_zero r hf (by simpa using hres)
          · rw [if_neg hf] at hres
            simp only [Bool.and_eq_true, decide_eq_true_eq] at hres
            exact Lit.val_int_ne_zero r (by simpa using hf) hres.1.1.1
        cases r' with
        | none =>
          have hv : v = .none := by
            cases post with
            | id => rw [hvid rfl, hraw]
            | time => rw [hvtime rfl]; rfl
            | date => exact absurd rfl hpost
          subst hv; subst hraw
          rw [encValue_time_none]
          refine ⟨_, rfl, ?_⟩
          rw [naTime_eq l f.signed hl4]
          have hna := na_rt data o l f.signed r mn mx _ (by omega) hdec
          rwa [Dec01.effSigned_zero] at hna
        | some x =>
          subst hraw
          simp only
          rw [encValue_time_num _ _ _ _ _ _ _ hrv]
          refine ⟨_, rfl, ?_⟩
          by_cases hf : r.isFloat = true
          · rw [if_pos hf] at hres
            exact ticks_rt_float data o l f.signed r mn mx x hf (by simpa using hres) hl48 hdec
          · rw [if_neg hf] at hres
            simp only [Bool.and_eq_true, decide_eq_true_eq] at hres
            exact ticks_rt_int data o l f.signed r mn mx x (by simpa using hf) hres.1.1.1 hl48 hdec
      · rw [if_neg ht2] at hok
        have hn3 : f.ftype ≠ "TIME" := fun h => ht2 (Or.inl h)
        have hn4 : f.ftype ≠ "DURATION" := fun h => ht2 (Or.inr h)
        by_cases ht3 : f.ftype = "DATE"
        · -- DATE
          rw [if_pos ht3] at hok
          simp only [Bool.and_eq_true, decide_eq_true_eq, Option.isNone_iff_eq_none, Bool.not_eq_true'] at hok
          obtain ⟨⟨⟨⟨⟨⟨⟨⟨hl2, hl48⟩, hsg⟩, hrf⟩, hrm⟩, hre⟩, hmn⟩, hmx⟩, hofs⟩ := hok
          obtain ⟨mn, hmn, -⟩ := isIntLit'_some hmn
          obtain ⟨mx, hmx, -⟩ := isIntLit'_some hmx
          have hop : decOp f = .number l f.signed r mn mx (Lit.ofInt 0) .date := by
            simp [decOp, ht3, numberOp, hl, hr, hmn, hmx]
          have hk : encKind f l = .date l := by simp [encKind, ht3]
          rw [hop] at hrun
          rw [hk]
          obtain ⟨r', hdec, hraw, -, -, hvd⟩ := runOp_number hrun
          have hvd' := hvd rfl
          cases r' with
          | none =>
            subst hraw
            have : v = .none := by
              simp only [decodeDate, Except.ok.injEq] at hvd'
              exact hvd'.symm
            subst this
            refine ⟨((2 ^ l : Nat) : Int) - 1, rfl, ?_⟩
            rw [← naVal_unsigned, ← hsg]
            have hna := na_rt data o l f.signed r mn mx _ hl2 hdec
            rwa [Dec01.effSigned_zero] at hna
          | some x =>
            subst hraw
            obtain ⟨-, rfl⟩ := decodeNumber_some hdec
            simp only [mulLit, hrf, Bool.false_eq_true, if_false, addLit, Lit.ofInt, numVal, hrm]
            refine ⟨_, rfl, ?_⟩
            rw [Int.mul_one, Int.add_zero]
            exact ctr_fInt ..
        · rw [if_neg ht3] at hok
          by_cases ht4 : f.ftype = "LOOKUP"
          · -- LOOKUP
            rw [if_pos ht4] at hok
            obtain ⟨e, he⟩ := Option.isSome_iff_exists.mp hok
            have hop : decOp f = .lookup l e := by simp [decOp, ht4, he, withLen, hl]
            have hk : encKind f l = .lookup e := by simp [encKind, ht4, he]
            rw [hop] at hrun
            rw [hk]
            simp only [runOp, pure, Except.pure, throw, throwThe, MonadExceptOf.throw] at hrun
            cases hm : assocGet e env.master with
            | none => rw [hm] at hrun; cases hrun
            | some tbl =>
              rw [hm] at hrun
              simp only [Except.ok.injEq, Prod.mk.injEq] at hrun
              rw [← hrun.2.1]
              exact ⟨_, rfl, ctr_nat _ _ (decode_int_lt ..)⟩
          · -- RESERVED
            rw [if_neg ht4] at hok
            have ht5 : f.ftype = "RESERVED" := by simpa using hok
            have hop : decOp f = .rawInt l := by simp [decOp, ht5, withLen, hl]
            have hk : encKind f l = .reserved := by simp [encKind, ht5]
            rw [hop] at hrun
            rw [hk]
            simp only [runOp, pure, Except.pure, Except.ok.injEq, Prod.mk.injEq] at hrun
            rw [← hrun.1]
            exact ⟨_, rfl, ctr_nat _ _ (decode_int_lt ..)⟩

theorem fieldOk_not_indirect (f : FieldDef) (hok : fieldOk f = true) : f.ftype ≠ "INDIRECT_LOOKUP" := by
  intro h
  unfold fieldOk at hok
  split at hok
  · simp [h] at hok
  · cases hok

/-! ### message level -/

/-- same as `leNat` of Props/C02.lean -/
def leNat' : List Nat → Nat
  | [] => 0
  | b :: bs => b + 256 * leNat' bs

theorem leNat_unique (F : List Nat → Nat) (h0 : F [] = 0) (h1 : ∀ b bs, F (b :: bs) = b + 256 * F bs) :
    ∀ l, F l = leNat' l := by
  intro l
  induction l with
  | nil => exact h0
  | cons b bs ih => rw [h1, ih]; rfl

theorem toLE_length : ∀ (k n : Nat), (toLE n k).length = k := by
  intro k
  induction k with
  | zero => intro n; rfl
  | succ k ih => intro n; simp [toLE, ih]

theorem leNat'_toLE : ∀ (k n : Nat), leNat' (toLE n k) = n % 256 ^ k := by
  intro k
  induction k with
  | zero => intro n; simp [toLE, leNat', Nat.mod_one]
  | succ k ih =>
    intro n
    rw [toLE, leNat', ih, Nat.pow_succ, Nat.mul_comm (256 ^ k) 256, Nat.mod_mul]

theorem lt_two_pow_bitLength (n : Nat) : n < 2 ^ bitLength n := by
  unfold bitLength
  split
  · subst_vars; simp
  · exact Nat.lt_log2_self

theorem pow256 (k : Nat) : 256 ^ k = 2 ^ (8 * k) := by
  rw [Nat.pow_mul]

theorem bitLength_mask (l : Nat) : bitLength (2 ^ l - 1) = l := by
  unfold bitLength
  rcases Nat.eq_zero_or_pos l with h0 | hpos
  · subst h0; simp
  · have hP := two_pow_pred l hpos
    have hH : 0 < 2 ^ (l - 1) := Nat.two_pow_pos _
    have hne : 2 ^ l - 1 ≠ 0 := by omega
    rw [if_neg hne]
    have h1 : Nat.log2 (2 ^ l - 1) < l := (Nat.log2_lt hne).mpr (by omega)
    have h2 : l - 1 ≤ Nat.log2 (2 ^ l - 1) := (Nat.le_log2 hne).mpr (by omega)
    omega

theorem masked_eq (z : Int) (l : Nat) :
    ((z % ((2 ^ bitLength (2 ^ l - 1) : Nat) : Int)).toNat &&& (2 ^ l - 1)) = ctr z l := by
  rw [bitLength_mask, Nat.and_two_pow_sub_one_eq_mod]
  exact Nat.mod_eq_of_lt (ctr_lt z l)

def part (data : Nat) (f : FieldDef) : Nat × Nat × Nat :=
  (Straight.decode_int data (f.bitOffset.getD 0) (f.bitLength.getD 0), f.bitLength.getD 0, f.bitOffset.getD 0)

/-- the step of field `f` evaluates, on the decoded message, to the field's bits in `data` -/
def Good (env : Env) (flds : List Field) (data : Nat) (f : FieldDef) : Prop :=
  ∃ l o, f.bitLength = some l ∧ f.bitOffset = some o ∧ ∃ fld z, getField flds (fieldId f) = some fld ∧
    encValue env fld (encKind f l) = .ok z ∧ ctr z l = Straight.decode_int data o l

theorem runSteps_good (env : Env) (flds : List Field) (data : Nat) (p : PgnDef) :
    ∀ (fs : List FieldDef) (a : Nat), (∀ f ∈ fs, Good env flds data f) →
      runSteps env flds a (fs.map (encStep p)) = .ok (a ||| acc (fs.map (part data))) := by
  intro fs
  induction fs with
  | nil => intro a _; simp [runSteps, acc, pure, Except.pure]
  | cons f rest ih =>
    intro a hg
    obtain ⟨l, o, hl, ho, fld, z, hget, hz, hc⟩ := hg f (List.mem_cons_self ..)
    have hstep : encStep p f = .field (fieldId f) f.name (encKind f l) (2 ^ l - 1) o := by
      simp [encStep, hl, ho]
    rw [List.map_cons, hstep, runSteps, hget]
    simp only [bind, Except.bind, hz]
    rw [masked_eq, hc, ih _ (fun g hg' => hg g (List.mem_cons_of_mem _ hg'))]
    have e : acc (List.map (part data) (f :: rest)) =
        acc (rest.map (part data)) ||| (Straight.decode_int data o l <<< o) := by
      simp only [List.map_cons, part, hl, ho, Option.getD_some, acc]
    rw [e, Nat.or_assoc, Nat.or_comm (_ <<< o)]

/-- same as `rangesDisjoint` of Props/C02.lean -/
def rangesDisj : List FieldDef → Bool
  | [] => true
  | f :: rest =>
    rest.all (fun g =>
      match f.bitOffset, f.bitLength, g.bitOffset, g.bitLength with
      | some o, some l, some o', some l' => decide (o + l ≤ o' ∨ o' + l' ≤ o)
      | _, _, _, _ => false) && rangesDisj rest

/-- same as `idsUnique` of Props/C02.lean -/
def idsUniq : List FieldDef → Bool
  | [] => true
  | f :: rest => rest.all (fun g => fieldId g ≠ fieldId f) && idsUniq rest

theorem rangesDisj_unique (R : List FieldDef → Bool) (h0 : R [] = true)
    (h1 : ∀ f rest, R (f :: rest) = (rest.all (fun g =>
      match f.bitOffset, f.bitLength, g.bitOffset, g.bitLength with
      | some o, some l, some o', some l' => decide (o + l ≤ o' ∨ o' + l' ≤ o)
      | _, _, _, _ => false) && R rest)) : ∀ l, R l = rangesDisj l := by
  intro l
  induction l with
  | nil => exact h0
  | cons f rest ih => rw [h1, ih]; rfl

theorem idsUniq_unique (R : List FieldDef → Bool) (h0 : R [] = true)
    (h1 : ∀ f rest, R (f :: rest) = (rest.all (fun g => fieldId g ≠ fieldId f) && R rest)) :
    ∀ l, R l = idsUniq l := by
  intro l
  induction l with
  | nil => exact h0
  | cons f rest ih => rw [h1, ih]; rfl

theorem disj_parts (data : Nat) : ∀ fs : List FieldDef, rangesDisj fs = true → disj (fs.map (part data)) := by
  intro fs
  induction fs with
  | nil => intro _; trivial
  | cons f rest ih =>
    intro h
    rw [rangesDisj, Bool.and_eq_true, List.all_eq_true] at h
    refine ⟨?_, ih h.2⟩
    intro x hx
    obtain ⟨g, hg, rfl⟩ := List.mem_map.mp hx
    have := h.1 g hg
    split at this
    · rename_i o l o' l' e1 e2 e3 e4
      simp only [part, e1, e2, e3, e4, Option.getD_some]
      simpa using this
    · cases this

theorem nodup_ids : ∀ fs : List FieldDef, idsUniq fs = true → (fs.map fieldId).Nodup := by
  intro fs
  induction fs with
  | nil => intro _; exact List.nodup_nil
  | cons f rest ih =>
    intro h
    rw [idsUniq, Bool.and_eq_true, List.all_eq_true] at h
    rw [List.map_cons, List.nodup_cons]
    refine ⟨?_, ih h.2⟩
    intro hm
    obtain ⟨g, hg, e⟩ := List.mem_map.mp hm
    have := h.1 g hg
    simp only [ne_eq, decide_not, Bool.not_eq_eq_eq_not, Bool.not_true, decide_eq_false_iff_not] at this
    exact this e

theorem getField_of_nodup : ∀ (flds : List Field) (i : Nat) (x : Field),
    (flds.map (·.fmeta.id)).Nodup → flds[i]? = some x → getField flds x.fmeta.id = some x := by
  intro flds
  induction flds with
  | nil => intro i x _ h; simp at h
  | cons a l ih =>
    intro i x hn h
    rw [List.map_cons, List.nodup_cons] at hn
    unfold getField
    rw [List.find?_cons]
    cases i with
    | zero =>
      simp only [List.getElem?_cons_zero, Option.some.injEq] at h
      subst h; simp
    | succ i =>
      simp only [List.getElem?_cons_succ] at h
      have hx : x ∈ l := List.mem_of_getElem? h
      have hne : a.fmeta.id ≠ x.fmeta.id := by
        intro e
        exact hn.1 (e ▸ List.mem_map.mpr ⟨x, hx, rfl⟩)
      simp only [hne, decide_false]
      exact ih i x hn.2 h

theorem acc_lt (N : Nat) : ∀ parts : List (Nat × Nat × Nat),
    (∀ x ∈ parts, x.1 < 2 ^ x.2.1 ∧ x.2.2 + x.2.1 ≤ N) → acc parts < 2 ^ N := by
  intro parts
  induction parts with
  | nil => intro _; exact Nat.two_pow_pos N
  | cons y rest ih =>
    obtain ⟨v, l, o⟩ := y
    intro h
    rw [acc]
    apply Nat.or_lt_two_pow (ih (fun x hx => h x (List.mem_cons_of_mem _ hx)))
    obtain ⟨h1, h2⟩ := h _ (List.mem_cons_self ..)
    simp only at h1 h2
    rw [Nat.shiftLeft_eq]
    calc v * 2 ^ o < 2 ^ l * 2 ^ o := Nat.mul_lt_mul_of_pos_right h1 (Nat.two_pow_pos o)
      _ = 2 ^ (l + o) := (Nat.pow_add 2 l o).symm
      _ ≤ 2 ^ N := Nat.pow_le_pow_right (by norm_num) (by omega)

theorem fieldOk_layout (f : FieldDef) (h : fieldOk f = true) : ∃ l o, f.bitLength = some l ∧ f.bitOffset = some o := by
  unfold fieldOk at h
  split at h
  · rename_i l o r e1 e2 e3; exact ⟨l, o, e1, e2⟩
  · cases h

theorem good_fields (env : Env) (g : List PgnDef) (p : PgnDef) (data : Nat) (m : Msg)
    (hok : p.fields.all fieldOk = true) (hiu : idsUniq p.fields = true)
    (hord : (p.fields.mapIdx (fun i f => f.order == i + 1)).all id = true)
    (hdec : runDec env (compileDec g p) data = .ok m) :
    ∀ f ∈ p.fields, Good env m.fields data f := by
  intro f hf
  rw [List.all_eq_true] at hok
  have hfok := hok f hf
  obtain ⟨l, o, hl, ho⟩ := fieldOk_layout f hfok
  obtain ⟨i, hi⟩ := List.mem_iff_getElem?.mp hf
  have hord' := Dec01.orders_of_all p.fields hord
  obtain ⟨fld, v, off', done, hfld, -, hrun, hval⟩ := Dec01.compiled_field hdec hord' hi ho
  have hv := hval (fieldOk_not_indirect f hfok)
  -- metadata
  obtain ⟨flds, hstm, hm⟩ := Dec01.runDec_ok hdec
  have hmeta := Dec01.runStmts_meta env data _ 0 [] flds hstm
  rw [Dec01.decStmts_map_fmeta, List.map_nil, List.nil_append] at hmeta
  have hmf : m.fields = flds := by rw [hm]
  rw [hmf] at hfld ⊢
  have hids : flds.map (·.fmeta.id) = p.fields.map fieldId := by
    have := congrArg (List.map (·.id)) hmeta
    simpa [List.map_map, Function.comp_def, fieldMeta] using this
  have hid : fld.fmeta.id = fieldId f := by
    have := congrArg (fun l => l[i]?) hids
    simp only [List.getElem?_map, hfld, hi, Option.map_some, Option.some.injEq] at this
    exact this
  have hget : getField flds (fieldId f) = some fld := by
    rw [← hid]
    exact getField_of_nodup flds i fld (hids ▸ nodup_ids _ hiu) hfld
  obtain ⟨fm, val, raw⟩ := fld
  simp only at hv hrun
  subst hv
  obtain ⟨z, hz, hc⟩ := field_contrib env data f l o hfok hl ho fm val raw off' done hrun
  exact ⟨l, o, hl, ho, _, z, hget, hz, hc⟩

theorem roundtrip (env : Env) (g : List PgnDef) (p : PgnDef)
    (hok : p.fields.all fieldOk = true) (hrd : rangesDisj p.fields = true) (hiu : idsUniq p.fields = true)
    (hord : (p.fields.mapIdx (fun i f => f.order == i + 1)).all id = true)
    (hlen : (match p.length with
      | some L => p.fields.all (fun f => match f.bitOffset, f.bitLength with
          | some o, some l => decide (o + l ≤ 8 * L) | _, _ => false)
      | none => true) = true)
    (data : Nat) (m : Msg) (hdec : runDec env (compileDec g p) data = .ok m) :
    ∃ bytes, runEnc env (compileEnc g p) m.fields = .ok bytes ∧
      (∀ L, p.length = some L → bytes.length = L) ∧
      (∀ f ∈ p.fields, ∀ o l, f.bitOffset = some o → f.bitLength = some l →
        Straight.decode_int (leNat' bytes) o l = Straight.decode_int data o l) := by
  have hgood := good_fields env g p data m hok hiu hord hdec
  have hsteps := runSteps_good env m.fields data p p.fields 0 hgood
  rw [Nat.zero_or] at hsteps
  have hv : ∀ x ∈ p.fields.map (part data), x.1 < 2 ^ x.2.1 := by
    intro x hx
    obtain ⟨f, -, rfl⟩ := List.mem_map.mp hx
    exact decode_int_lt ..
  have hread : ∀ f ∈ p.fields, ∀ o l, f.bitOffset = some o → f.bitLength = some l →
      Straight.decode_int (acc (p.fields.map (part data))) o l = Straight.decode_int data o l := by
    intro f hf o l ho hl
    have := acc_read _ (disj_parts data p.fields hrd) hv (part data f) (List.mem_map.mpr ⟨f, hf, rfl⟩)
    simpa only [part, ho, hl, Option.getD_some] using this
  unfold runEnc
  simp only [compileEnc, bind, Except.bind, hsteps]
  cases hL : p.length with
  | some L =>
    rw [hL] at hlen
    simp only [List.all_eq_true] at hlen
    have hlt : acc (p.fields.map (part data)) < 256 ^ L := by
      rw [pow256]
      apply acc_lt
      intro x hx
      obtain ⟨f, hf, rfl⟩ := List.mem_map.mp hx
      refine ⟨decode_int_lt .., ?_⟩
      have := hlen f hf
      split at this
      · rename_i o l e1 e2
        simp only [part, e1, e2, Option.getD_some]
        have := of_decide_eq_true this
        omega
      · cases this
    simp only [if_pos hlt, pure, Except.pure]
    refine ⟨_, rfl, fun L' h => ?_, ?_⟩
    · cases h; exact toLE_length ..
    · rw [leNat'_toLE, Nat.mod_eq_of_lt hlt]; exact hread
  | none =>
    simp only [pure, Except.pure]
    refine ⟨_, rfl, fun L' h => (by cases h), ?_⟩
    rw [leNat'_toLE, Nat.mod_eq_of_lt]
    · exact hread
    · rw [pow256]
      refine lt_of_lt_of_le (lt_two_pow_bitLength _) (Nat.pow_le_pow_right (by norm_num) (by omega))

end N2k.Enc02
