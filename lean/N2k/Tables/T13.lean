/- Table theorems, chunk 13: the generated decoders/encoders of these PGN groups are exactly what the
database entries demand (kernel-checked equality of data; no axioms). -/
import N2k.Gen.Db13
import N2k.Gen.Dec13
import N2k.Gen.Enc13
import N2k.Model.Spec
namespace N2k.Tables
open N2k.Gen N2k.Spec

theorem dec13_eq_compiled : dec13 = (groupsOf db13).flatMap compileGroupDec := by decide +kernel
theorem enc13_eq_compiled : enc13 = (groupsOf db13).flatMap compileGroupEnc := by decide +kernel

end N2k.Tables
