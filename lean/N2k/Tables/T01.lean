/- Table theorems, chunk 01: the generated decoders/encoders of these PGN groups are exactly what the
database entries demand (kernel-checked equality of data; no axioms). -/
import N2k.Gen.Db01
import N2k.Gen.Dec01
import N2k.Gen.Enc01
import N2k.Model.Spec
namespace N2k.Tables
open N2k.Gen N2k.Spec

theorem dec01_eq_compiled : dec01 = (groupsOf db01).flatMap compileGroupDec := by decide +kernel
theorem enc01_eq_compiled : enc01 = (groupsOf db01).flatMap compileGroupEnc := by decide +kernel

end N2k.Tables
