/- Table theorems, chunk 11: the generated decoders/encoders of these PGN groups are exactly what the
database entries demand (kernel-checked equality of data; no axioms). -/
import N2k.Gen.Db11
import N2k.Gen.Dec11
import N2k.Gen.Enc11
import N2k.Model.Spec
namespace N2k.Tables
open N2k.Gen N2k.Spec

theorem dec11_eq_compiled : dec11 = (groupsOf db11).flatMap compileGroupDec := by decide +kernel
theorem enc11_eq_compiled : enc11 = (groupsOf db11).flatMap compileGroupEnc := by decide +kernel

end N2k.Tables
