/- Table theorems, chunk 00: the generated decoders/encoders of these PGN groups are exactly what the
database entries demand (kernel-checked equality of data; no axioms). -/
import N2k.Gen.Db00
import N2k.Gen.Dec00
import N2k.Gen.Enc00
import N2k.Model.Spec
namespace N2k.Tables
open N2k.Gen N2k.Spec

theorem dec00_eq_compiled : dec00 = (groupsOf db00).flatMap compileGroupDec := by decide +kernel
theorem enc00_eq_compiled : enc00 = (groupsOf db00).flatMap compileGroupEnc := by decide +kernel

end N2k.Tables
