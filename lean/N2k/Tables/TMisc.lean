/- Table theorems over the whole database: dispatchers, is_fast functions, lookup dictionaries, and
the chunking itself (chunks are closed under "same PGN", so per-chunk grouping = global grouping). -/
import N2k.Gen.All
import N2k.Model.Spec
namespace N2k.Tables
open N2k.Gen N2k.Spec

/-- no code for PGNs outside the database, nothing unrecognised at top level -/
theorem no_stray_code : strayCode = [] := by decide +kernel

theorem disps_eq_compiled : disps = (groupsOf dbPgns).filterMap compileDisp := by decide +kernel
theorem fasts_eq_compiled : fasts = (groupsOf dbPgns).filterMap compileFast := by decide +kernel

/-- PGN numbers of different chunks are disjoint -/
def chunkPgns : List (List Nat) := dbChunks.map (fun c => (c.map (·.pgn)).eraseDups)
def pairwiseDisjoint : List (List Nat) → Bool
  | [] => true
  | c :: cs => cs.all (fun d => c.all (fun x => !d.contains x)) && pairwiseDisjoint cs
theorem chunks_disjoint : pairwiseDisjoint chunkPgns = true := by decide +kernel

end N2k.Tables
