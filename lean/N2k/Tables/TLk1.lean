/- the value->name lookup dictionaries of pgns.py equal the database's enumerations -/
import N2k.Gen.CodeLookups
import N2k.Gen.DbLookups
import N2k.Model.Spec
namespace N2k.Tables
open N2k.Gen N2k.Spec

theorem master_dict_eq_db : masterDict = dbEnums := by decide +kernel

end N2k.Tables
