/- Table theorems, chunk 08: the generated decoders/encoders of these PGN groups are exactly what the
database entries demand (kernel-checked equality of data; no axioms). -/
import N2k.Gen.Db08
import N2k.Gen.Dec08
import N2k.Gen.Enc08
import N2k.Model.Spec
namespace N2k.Tables
open N2k.Gen N2k.Spec

theorem dec08_eq_compiled : dec08 = (groupsOf db08).flatMap compileGroupDec := by decide +kernel
theorem enc08_eq_compiled : enc08 = (groupsOf db08).flatMap compileGroupEnc := by decide +kernel

end N2k.Tables
