/- Table theorems, chunk 02: the generated decoders/encoders of these PGN groups are exactly what the
database entries demand (kernel-checked equality of data; no axioms). -/
import N2k.Gen.Db02
import N2k.Gen.Dec02
import N2k.Gen.Enc02
import N2k.Model.Spec
namespace N2k.Tables
open N2k.Gen N2k.Spec

theorem dec02_eq_compiled : dec02 = (groupsOf db02).flatMap compileGroupDec := by decide +kernel
theorem enc02_eq_compiled : enc02 = (groupsOf db02).flatMap compileGroupEnc := by decide +kernel

end N2k.Tables
