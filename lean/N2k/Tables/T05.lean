/- Table theorems, chunk 05: the generated decoders/encoders of these PGN groups are exactly what the
database entries demand (kernel-checked equality of data; no axioms). -/
import N2k.Gen.Db05
import N2k.Gen.Dec05
import N2k.Gen.Enc05
import N2k.Model.Spec
namespace N2k.Tables
open N2k.Gen N2k.Spec

theorem dec05_eq_compiled : dec05 = (groupsOf db05).flatMap compileGroupDec := by decide +kernel
theorem enc05_eq_compiled : enc05 = (groupsOf db05).flatMap compileGroupEnc := by decide +kernel

end N2k.Tables
