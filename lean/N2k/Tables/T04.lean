/- Table theorems, chunk 04: the generated decoders/encoders of these PGN groups are exactly what the
database entries demand (kernel-checked equality of data; no axioms). -/
import N2k.Gen.Db04
import N2k.Gen.Dec04
import N2k.Gen.Enc04
import N2k.Model.Spec
namespace N2k.Tables
open N2k.Gen N2k.Spec

theorem dec04_eq_compiled : dec04 = (groupsOf db04).flatMap compileGroupDec := by decide +kernel
theorem enc04_eq_compiled : enc04 = (groupsOf db04).flatMap compileGroupEnc := by decide +kernel

end N2k.Tables
