/- Table theorems, chunk 09: the generated decoders/encoders of these PGN groups are exactly what the
database entries demand (kernel-checked equality of data; no axioms). -/
import N2k.Gen.Db09
import N2k.Gen.Dec09
import N2k.Gen.Enc09
import N2k.Model.Spec
namespace N2k.Tables
open N2k.Gen N2k.Spec

theorem dec09_eq_compiled : dec09 = (groupsOf db09).flatMap compileGroupDec := by decide +kernel
theorem enc09_eq_compiled : enc09 = (groupsOf db09).flatMap compileGroupEnc := by decide +kernel

end N2k.Tables
