/- Table theorems, chunk 06: the generated decoders/encoders of these PGN groups are exactly what the
database entries demand (kernel-checked equality of data; no axioms). -/
import N2k.Gen.Db06
import N2k.Gen.Dec06
import N2k.Gen.Enc06
import N2k.Model.Spec
namespace N2k.Tables
open N2k.Gen N2k.Spec

theorem dec06_eq_compiled : dec06 = (groupsOf db06).flatMap compileGroupDec := by decide +kernel
theorem enc06_eq_compiled : enc06 = (groupsOf db06).flatMap compileGroupEnc := by decide +kernel

end N2k.Tables
