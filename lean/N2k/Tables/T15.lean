/- Table theorems, chunk 15: the generated decoders/encoders of these PGN groups are exactly what the
database entries demand (kernel-checked equality of data; no axioms). -/
import N2k.Gen.Db15
import N2k.Gen.Dec15
import N2k.Gen.Enc15
import N2k.Model.Spec
namespace N2k.Tables
open N2k.Gen N2k.Spec

theorem dec15_eq_compiled : dec15 = (groupsOf db15).flatMap compileGroupDec := by decide +kernel
theorem enc15_eq_compiled : enc15 = (groupsOf db15).flatMap compileGroupEnc := by decide +kernel

end N2k.Tables
