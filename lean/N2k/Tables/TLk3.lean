/- bit-flag and indirect lookup dictionaries equal the database's -/
import N2k.Gen.CodeLookups
import N2k.Gen.DbLookups
import N2k.Model.Spec
namespace N2k.Tables
open N2k.Gen N2k.Spec

theorem master_flags_eq_db : masterFlagsDict = dbBitEnums := by decide +kernel
theorem master_indirect_eq_db : masterIndirectDict = dbIndirectEnums := by decide +kernel

end N2k.Tables
