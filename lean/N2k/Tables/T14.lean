/- Table theorems, chunk 14: the generated decoders/encoders of these PGN groups are exactly what the
database entries demand (kernel-checked equality of data; no axioms). -/
import N2k.Gen.Db14
import N2k.Gen.Dec14
import N2k.Gen.Enc14
import N2k.Model.Spec
namespace N2k.Tables
open N2k.Gen N2k.Spec

theorem dec14_eq_compiled : dec14 = (groupsOf db14).flatMap compileGroupDec := by decide +kernel
theorem enc14_eq_compiled : enc14 = (groupsOf db14).flatMap compileGroupEnc := by decide +kernel

end N2k.Tables
