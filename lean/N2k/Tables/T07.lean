/- Table theorems, chunk 07: the generated decoders/encoders of these PGN groups are exactly what the
database entries demand (kernel-checked equality of data; no axioms). -/
import N2k.Gen.Db07
import N2k.Gen.Dec07
import N2k.Gen.Enc07
import N2k.Model.Spec
namespace N2k.Tables
open N2k.Gen N2k.Spec

theorem dec07_eq_compiled : dec07 = (groupsOf db07).flatMap compileGroupDec := by decide +kernel
theorem enc07_eq_compiled : enc07 = (groupsOf db07).flatMap compileGroupEnc := by decide +kernel

end N2k.Tables
