/- Table theorems, chunk 10: the generated decoders/encoders of these PGN groups are exactly what the
database entries demand (kernel-checked equality of data; no axioms). -/
import N2k.Gen.Db10
import N2k.Gen.Dec10
import N2k.Gen.Enc10
import N2k.Model.Spec
namespace N2k.Tables
open N2k.Gen N2k.Spec

theorem dec10_eq_compiled : dec10 = (groupsOf db10).flatMap compileGroupDec := by decide +kernel
theorem enc10_eq_compiled : enc10 = (groupsOf db10).flatMap compileGroupEnc := by decide +kernel

end N2k.Tables
