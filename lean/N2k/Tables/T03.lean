/- Table theorems, chunk 03: the generated decoders/encoders of these PGN groups are exactly what the
database entries demand (kernel-checked equality of data; no axioms). -/
import N2k.Gen.Db03
import N2k.Gen.Dec03
import N2k.Gen.Enc03
import N2k.Model.Spec
namespace N2k.Tables
open N2k.Gen N2k.Spec

theorem dec03_eq_compiled : dec03 = (groupsOf db03).flatMap compileGroupDec := by decide +kernel
theorem enc03_eq_compiled : enc03 = (groupsOf db03).flatMap compileGroupEnc := by decide +kernel

end N2k.Tables
