/- Table theorems, chunk 12: the generated decoders/encoders of these PGN groups are exactly what the
database entries demand (kernel-checked equality of data; no axioms). -/
import N2k.Gen.Db12
import N2k.Gen.Dec12
import N2k.Gen.Enc12
import N2k.Model.Spec
namespace N2k.Tables
open N2k.Gen N2k.Spec

theorem dec12_eq_compiled : dec12 = (groupsOf db12).flatMap compileGroupDec := by decide +kernel
theorem enc12_eq_compiled : enc12 = (groupsOf db12).flatMap compileGroupEnc := by decide +kernel

end N2k.Tables
