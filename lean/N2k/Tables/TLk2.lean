/- the name->value dictionaries used by the encoders equal the database's enumerations reversed -/
import N2k.Gen.CodeLookups
import N2k.Gen.DbLookups
import N2k.Model.Spec
namespace N2k.Tables
open N2k.Gen N2k.Spec

theorem rev_dicts_eq_db : revDicts = compileRev dbEnums := by decide +kernel

end N2k.Tables
