/-
`NMEA2000Decoder` (decoder.py, after the `fix:` commits): filter set-up (`__init__`), `_decode`,
`_decode_fast_message` (through `Fast.stepK`), `_call_decode_function`: numeric/id filters, address
claim bypass, source map, manufacturer lists, discovery window, identity hash key, unit
preferences, dump log.  The generated layer (`is_fast_pgn_*`, `decode_pgn_*`) is a parameter
`GenLayer`, so the theorems hold for any such layer; the driver instantiates it with the T1 tables.
Time (`datetime.now()`) enters only through the Boolean `inWindow` (still inside the 10-minute
discovery window), supplied per step.  Tie: T3 (multi-instance, history based).
-/
import N2k.Model.Interp
import N2k.Model.FastKeyed
namespace N2k.Dec

inductive FastKind where
  | unknown      -- no `is_fast_pgn_<pgn>` function: unsupported PGN
  | fast
  | single
  | raises       -- the function raises (PGN type neither Fast nor Single)
deriving DecidableEq, Repr, Inhabited

inductive DecRes where
  | none                     -- the per-PGN decoder returned None (no definition matched)
  | ok (m : Msg)
  | raised                   -- it raised (range error, unsupported field kind, …)
deriving DecidableEq, Repr, Inhabited

/-- the generated layer as the decoder uses it -/
structure GenLayer where
  isFast : Nat → FastKind
  decode : Nat → Nat → Option DecRes     -- `none`: no `decode_pgn_<pgn>` function at all

/-- a PGN filter entry as the user gives it -/
inductive PgnRef where
  | num (n : Nat)
  | id (s : String)
deriving DecidableEq, Repr, Inhabited

def lower (s : String) : String := s.map Char.toLower

structure UserConfig where
  excludePgns : List PgnRef := []
  includePgns : List PgnRef := []
  excludeManu : List String := []
  includeManu : List String := []
  units : List (String × String) := []      -- physical quantity name ↦ requested unit
  dumpOn : Bool := false
  dumpPgns : List PgnRef := []
  buildMap : Bool := false
deriving Repr, Inhabited

structure Config where
  excludeNums : List Nat
  excludeIds : List String
  includeNums : List Nat
  includeIds : List String
  excludeManu : List String
  includeManu : List String
  units : List (String × String)
  dumpOn : Bool
  dumpNums : List Nat
  dumpIds : List String
  buildMap : Bool
  isoClaimFilter : Bool
deriving DecidableEq, Repr, Inhabited

def nums (l : List PgnRef) : List Nat := l.filterMap (fun r => match r with | .num n => some n | .id _ => none)
def ids (l : List PgnRef) : List String := l.filterMap (fun r => match r with | .num _ => none | .id s => some (lower s))

def isoClaimPgn : Nat := 60928
def isoClaimId : String := "isoaddressclaim"

/-- `NMEA2000Decoder.__init__`; `none` = ValueError (both exclude and include given) -/
def mkConfig (u : UserConfig) : Option Config :=
  if !u.excludePgns.isEmpty && !u.includePgns.isEmpty then none
  else
    let en := nums u.excludePgns; let ei := ids u.excludePgns
    let inn := nums u.includePgns; let ii := ids u.includePgns
    let hasInclude := !inn.isEmpty || !ii.isEmpty
    let flt := en.contains isoClaimPgn || ei.contains isoClaimId ||
      (hasInclude && !inn.contains isoClaimPgn && !ii.contains isoClaimId)
    some {
      excludeNums := if flt then en.filter (· ≠ isoClaimPgn) else en
      excludeIds := if flt then ei.filter (· ≠ isoClaimId) else ei
      includeNums := inn, includeIds := ii
      excludeManu := u.excludeManu.map lower, includeManu := u.includeManu.map lower
      units := u.units.map (fun p => (p.1, lower p.2))
      dumpOn := u.dumpOn, dumpNums := nums u.dumpPgns, dumpIds := ids u.dumpPgns
      buildMap := u.buildMap, isoClaimFilter := flt }

/-- `IsoName` (message.py) -/
structure IsoName where
  uniqueNumber : Int
  manufacturer : Option (List Nat)     -- ASCII text of the lookup value, none = unknown code
  deviceInstance : Int
  deviceFunction : Option (List Nat)
  deviceClass : Option (List Nat)
  systemInstance : Int
  industryGroup : Option (List Nat)
  arbitrary : Bool
  name : Nat
deriving DecidableEq, Repr, Inhabited

def fieldVal (m : Msg) (id : String) : Option PyVal := (getField m.fields id).map (·.value)

def intOr0 : PyVal → Int
  | .int z => z
  | _ => 0

/-- `get_field_str_value_by_id`: None for None, the text for a str, error otherwise -/
def strVal : PyVal → Option (Option (List Nat))
  | .none => some none
  | .str s => some (some s)
  | _ => none       -- raises ValueError (strOpaque is outside the model: treated as an error, never generated)

/-- `IsoName(message, name)`; `none` = it raises (field missing / wrong type).  The numeric parts are
bits of the 64-bit NAME itself (every bit pattern of a NAME is data); the names come from the decoded fields. -/
def mkIsoName (m : Msg) (name : Nat) : Option IsoName := do
  let mc ← (← fieldVal m "manufacturerCode") |> strVal
  let df ← (← fieldVal m "deviceFunction") |> strVal
  let dc ← (← fieldVal m "deviceClass") |> strVal
  let ig ← (← fieldVal m "industryGroup") |> strVal
  let aa ← (← fieldVal m "arbitraryAddressCapable") |> strVal
  pure { uniqueNumber := ((name % 2097152 : Nat) : Int), manufacturer := mc,
         deviceInstance := ((name / 4294967296 % 256 : Nat) : Int),
         deviceFunction := df, deviceClass := dc, systemInstance := ((name / 72057594037927936 % 16 : Nat) : Int), industryGroup := ig,
         arbitrary := aa = some ("Yes".toList.map Char.toNat), name := name }

structure OutMsg where
  msg : Msg
  src : Nat
  dst : Nat
  prio : Nat
  iso : Option IsoName
  hashKey : Option String        -- the string that is MD5-hashed (`none`: network mapping off)
deriving DecidableEq, Repr, Inhabited

structure State where
  table : Fast.Table := []
  sources : List (Nat × IsoName) := []
  dump : List OutMsg := []          -- what has been written to the dump file, in order
deriving Repr, Inhabited

inductive Out where
  | none
  | msg (m : OutMsg)
  | raised
deriving DecidableEq, Repr, Inhabited

def lookupSrc (s : List (Nat × IsoName)) (a : Nat) : Option IsoName :=
  match s with
  | [] => none
  | (b, n) :: rest => if b = a then some n else lookupSrc rest a

def setSrc (s : List (Nat × IsoName)) (a : Nat) (n : IsoName) : List (Nat × IsoName) :=
  (a, n) :: s.filter (·.1 ≠ a)

def lowerAscii (cs : List Nat) : List Nat := cs.map (fun c => if 65 ≤ c ∧ c ≤ 90 then c + 32 else c)
def strCodes (s : String) : List Nat := s.toList.map Char.toNat

/-- one part of the primary-key string: `str(raw_value)`, text written with its length (`f"{len(raw)}:{raw}"`)
so that it cannot be mistaken for an absent value or run into the next part -/
def pyStr : PyVal → String
  | .none => "None"
  | .int z => toString z
  | .str cs => toString cs.length ++ ":" ++ String.ofList (cs.map Char.ofNat)
  | _ => "?"                       -- floats/bytes/dates never occur as primary keys in the database (table check `pk_kinds`)

def hashKey (m : Msg) : String :=
  m.fields.foldl (fun acc f => if f.fmeta.pk then acc ++ "_" ++ pyStr f.raw else acc) m.id

/-! ### unit preferences -/

def fsub (a b : Rat) : Rat := rne (a - b)
def fmul (a b : Rat) : Rat := rne (a * b)
def fadd (a b : Rat) : Rat := rne (a + b)
def fdiv (a b : Rat) : Rat := rne (a / b)
def toF (v : Num) : Rat := rne v.toRat
def lit (m : Int) (e : Int) : Rat := rne ((m : Rat) * pow10 e)

/-- π as binary64 (0x400921FB54442D18) -/
def pi64 : Rat := (884279719003555 : Rat) / 281474976710656
def radToDeg : Rat := fdiv 180 pi64

def kelvinToCelsius (k : Num) : Rat := pyRoundN (fsub (toF k) (lit 27315 (-2))) 2
def kelvinToFahrenheit (k : Num) : Rat :=
  pyRoundN (fadd (fmul (fsub (toF k) (lit 27315 (-2))) (fdiv 9 5)) 32) 0
def pascalToBar (p : Num) : Rat := match p with
  | .int z => rne ((z : Rat) / 100000)
  | .flt q => fdiv q 100000
def pascalToPsi (p : Num) : Rat := fdiv (toF p) (lit 689476 (-2))
def radToDegrees (r : Num) : Rat := pyRoundN (fmul (toF r) radToDeg) 0
def mpsToKnots (v : Num) : Rat := pyRoundN (fmul (toF v) (fdiv 3600 1852)) 1

def numOf : PyVal → Option Num
  | .int z => some (.int z)
  | .flt q => some (.flt q)
  | _ => none

/-- the conversion selected by (quantity, lower-cased requested unit): new unit label and function -/
def conversion (pq unit : String) (cur : Option String) : Option (String × (Num → Rat)) :=
  if pq = "TEMPERATURE" then
    (if unit = "c" then some ("C", kelvinToCelsius) else if unit = "f" then some ("F", kelvinToFahrenheit) else none)
  else if pq = "PRESSURE" then
    (if unit = "bar" then some ("Bar", pascalToBar) else if unit = "psi" then some ("PSI", pascalToPsi) else none)
  else if pq = "ANGLE" then (if unit = "deg" ∧ cur = some "rad" then some ("Deg", radToDegrees) else none)   -- a few angles are in degrees already
  else if pq = "SPEED" then (if unit = "kts" then some ("kts", mpsToKnots) else none)
  else none

/-- `apply_preferred_units` on one field; `none` = it raises (value of a non-numeric kind) -/
def convertField (units : List (String × String)) (f : Field) : Option Field :=
  match f.fmeta.pq with
  | none => some f
  | some pq =>
    match assocGet pq units with       -- a dict: the last entry for a key wins
    | none => some f
    | some u =>
      match conversion pq u f.fmeta.unit with
      | none => some f
      | some (label, fn) =>
        match f.value with
        | .none => some { f with fmeta := { f.fmeta with unit := some label } }
        | v => match numOf v with
          | some x => some { f with fmeta := { f.fmeta with unit := some label }, value := .flt (fn x) }
          | none => none

def applyUnits (units : List (String × String)) (m : Msg) : Option Msg :=
  if units.isEmpty then some m
  else (m.fields.mapM (convertField units)).map (fun fs => { m with fields := fs })

/-! ### the decoder -/

structure Input where
  pgn : Nat
  prio : Nat
  src : Nat
  dst : Nat
  data : List Nat          -- wire order
  combined : Bool          -- `already_combined`
  inWindow : Bool          -- still inside the discovery window (`started_at > now - 10 min`)
deriving DecidableEq, Repr, Inhabited

def leNat : List Nat → Nat
  | [] => 0
  | b :: bs => b + 256 * leNat bs

def manuPasses (cfg : Config) (iso : IsoName) : Bool :=
  let m := iso.manufacturer.map lowerAscii
  let inList (l : List String) : Bool := match m with
    | some cs => l.any (fun s => strCodes s = cs)
    | none => false
  !inList cfg.excludeManu && (cfg.includeManu.isEmpty || inList cfg.includeManu)

/-- `_call_decode_function` -/
def callDecode (G : GenLayer) (cfg : Config) (st : State) (i : Input) (payload : List Nat) (iso : Option IsoName) :
    State × Out :=
  match G.decode i.pgn (leNat payload) with
  | none => (st, .none)
  | some .none => (st, .none)
  | some .raised => (st, .raised)
  | some (.ok m) =>
    let dataInt := leNat payload
    -- address claim: update the source map, possibly reuse the known identity
    let claim : Option (State × Option IsoName × Bool) :=    -- (state, identity, stop-here)
      if m.pgn = isoClaimPgn then
        let name := dataInt % 18446744073709551616      -- the NAME is the first 64 bits of the payload
        match lookupSrc st.sources i.src with
        | some old =>
          if old.name = name then some (st, some old, cfg.isoClaimFilter)
          else (mkIsoName m name).map (fun n => ({ st with sources := setSrc st.sources i.src n }, some n, cfg.isoClaimFilter))
        | none => (mkIsoName m name).map (fun n => ({ st with sources := setSrc st.sources i.src n }, some n, cfg.isoClaimFilter))
      else some (st, iso, false)
    match claim with
    | none => (st, .raised)
    | some (st1, iso1, stop) =>
      if stop then (st1, .none)
      else
        let id := lower m.id
        if cfg.excludeIds.contains id then (st1, .none)
        else if (!cfg.includeNums.isEmpty || !cfg.includeIds.isEmpty) && !cfg.includeNums.contains i.pgn && !cfg.includeIds.contains id then (st1, .none)
        else
          let hk := if cfg.buildMap then some (hashKey m) else none
          match applyUnits cfg.units m with
          | none => (st1, .raised)
          | some m' =>
            let o : OutMsg := { msg := m', src := i.src, dst := i.dst, prio := i.prio, iso := iso1, hashKey := hk }
            let dumpIt := cfg.dumpOn && ((cfg.dumpNums.isEmpty && cfg.dumpIds.isEmpty) || cfg.dumpNums.contains m.pgn || cfg.dumpIds.contains id)
            (if dumpIt then { st1 with dump := st1.dump ++ [o] } else st1, .msg o)

/-- `_decode` -/
def step (G : GenLayer) (cfg : Config) (st : State) (i : Input) : State × Out :=
  -- numeric pre-filters, identity, manufacturer lists: everything but address claims
  let pre : Option (Option IsoName) :=          -- none = filtered out; some iso = go on
    if i.pgn ≠ isoClaimPgn then
      if cfg.excludeNums.contains i.pgn then none
      else if !cfg.includeNums.isEmpty && cfg.includeIds.isEmpty && !cfg.includeNums.contains i.pgn then none
      else
        match lookupSrc st.sources i.src with
        | none => if cfg.buildMap && i.inWindow then none else some none
        | some iso => if manuPasses cfg iso then some (some iso) else none
    else some none
  match pre with
  | none => (st, .none)
  | some iso =>
    let kind := if i.combined then FastKind.single else G.isFast i.pgn
    match kind with
    | .raises => (st, .raised)
    | .unknown => (st, .none)
    | .single => callDecode G cfg st i i.data iso
    | .fast =>
      let key : Fast.Key := (i.pgn, i.src, i.dst)
      let (t', o) := Fast.stepK st.table key i.data
      let st' := { st with table := t' }
      match o with
      | .complete payload => callDecode G cfg st' i payload iso
      | .error => (st', .raised)
      | _ => (st', .none)

def run (G : GenLayer) (cfg : Config) : State → List Input → State × List Out
  | st, [] => (st, [])
  | st, i :: is =>
    let (st1, o) := step G cfg st i
    let (st2, os) := run G cfg st1 is
    (st2, o :: os)

end N2k.Dec
