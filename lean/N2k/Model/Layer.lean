/-
The generated layer (`pgns.py`) as the decoder core sees it, built from the T1 tables: which PGNs are
fast-packet PGNs (`is_fast_pgn_<pgn>()`), and what `decode_pgn_<pgn>(payload)` returns.
The driver instantiates it with the tables regenerated from /repo; the C07 theorems use the same
instance, so that what they say about "a fast PGN of the database" is about the shipped table.
-/
import N2k.Model.Decoder
namespace N2k.Dec
open N2k

/-- `getattr(PGNS, f"is_fast_pgn_{pgn}")()` over the translated table (a later `def` of the same name shadows an earlier one) -/
def fastKindOf (fasts : List FastEntry) (pgn : Nat) : FastKind :=
  match (fasts.filter (·.pgn = pgn)).getLast? with
  | some e => (match e.fast with | some true => .fast | some false => .single | none => .raises)
  | none => .unknown

def mkLayer (env : Env) (decFns : List DecFn) (disps : List (String × Disp)) (fasts : List FastEntry) : GenLayer where
  isFast := fastKindOf fasts
  decode := fun pgn data =>
    match decodePgn env decFns disps pgn data with
    | none => some .none
    | some (.ok m) => some (.ok m)
    | some (.error _) => some .raised

end N2k.Dec
