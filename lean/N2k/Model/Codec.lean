/-
Field codecs of `nmea2000/utils.py` and `message.py:int_to_bytes` (after the `fix:` commits),
as total functions.  Tie: T3 (differential runs per distinct parameter tuple: every raw value for
fields of ≤ 16 bits, boundary + random above), `decode_int` is the T2 translation.
Not modelled: text decoding of non-ASCII bytes (`errors='ignore'`, UTF-16) — such values are the
explicit constructor `PyVal.strOpaque`.
-/
import N2k.Model.Num
import N2k.Gen.Straight
namespace N2k

/-- Python values that occur as field `value` / `raw_value`. -/
inductive PyVal where
  | none
  | int (z : Int)
  | flt (q : Rat)                 -- finite float (sign of zero not modelled)
  | nan
  | inf (neg : Bool)
  | str (s : List Nat)            -- ASCII text, as code points < 128
  | strOpaque                     -- text whose decoding is not modelled (non-ASCII bytes / UTF-16)
  | bytes (b : List Nat)
  | date (days : Int)             -- days since 1970-01-01
  | time (secs : Nat)             -- seconds since midnight, < 86400
deriving DecidableEq, Repr, Inhabited

inductive DecErr where
  | below | above                 -- ValueError("Value below minimum allowed" / "above maximum")
  | unsupported                   -- raise Exception("… FieldType (…) not supported")
  | assertion                     -- AssertionError
  | key                           -- KeyError (enumeration missing from a dictionary)
  | overflow                      -- OverflowError (date out of range)
  | malformed (why : String)      -- table node the interpreter cannot execute (unrecognised shape)
deriving DecidableEq, Repr, Inhabited

def numVal : Num → PyVal
  | .int z => .int z
  | .flt q => .flt q

def absR (q : Rat) : Rat := if q < 0 then -q else q
def maxR (a b : Rat) : Rat := if a < b then b else a

/-- sign extension of an unsigned `len`-bit integer -/
def signExtend (n len : Nat) : Int :=
  if n / 2 ^ (len - 1) % 2 = 1 then (n : Int) - (2 ^ len : Nat) else (n : Int)

/-- the "not available" code of a NUMBER field, if the width has one -/
def naCode (len : Nat) (signed : Bool) : Option Int :=
  if len = 1 then none
  else if len ≤ 3 then some ((2 ^ len : Nat) - 1 : Int)
  else if signed then some ((2 ^ (len - 1) : Nat) - 1 : Int) else some ((2 ^ len : Nat) - 1 : Int)

/-- `1e-15` as Python reads it -/
def relTol : Rat := rne ((1 : Rat) / 1000000000000000)

/-- Python `v + lit` (`number_int += offset`) -/
def addLit (v : Num) (l : Lit) : Num :=
  match v with
  | .int z => if l.isFloat then .flt (rne (rne (z : Rat) + l.val)) else .int (z + l.m)
  | .flt q => .flt (rne (q + rne l.val))

/-- `decode_number` (value = raw × resolution + offset) -/
def decodeNumber (data off len : Nat) (signed : Bool) (res mn mx ofs : Lit) : Except DecErr (Option Num) :=
  -- a field with an offset is stored excess-K: its raw count is unsigned whatever the database's Signed flag says (fix 63b81d6)
  let signed := if ofs.val = 0 then signed else false
  let n := Straight.decode_int data off len
  let z : Int := if signed then signExtend n len else (n : Int)
  if naCode len signed = some z then .ok none
  else
    let v := addLit (mulLit z res) ofs
    let tol : Rat :=
      if res.isFloat then
        maxR (rne (absR res.val / 2)) (rne (rne (absR v.toRat) * relTol))
      else 0
    -- `min_value - tolerance` / `max_value + tolerance` are float operations when either side is a float
    let lo : Rat := if res.isFloat ∨ mn.isFloat then rne (rne mn.val - tol) else mn.val - tol
    let hi : Rat := if res.isFloat ∨ mx.isFloat then rne (rne mx.val + tol) else mx.val + tol
    if v.toRat < lo then .error .below
    else if v.toRat > hi then .error .above
    else .ok (some v)

/-- `decode_time` on a finite number -/
def decodeTime (v : Option Num) : PyVal :=
  match v with
  | none => .none
  | some x =>
    let s := truncInt x.toRat
    if 0 ≤ s ∧ s < 86400 then .time s.toNat else .time 0

/-- `decode_date`: `date(1970,1,1) + timedelta(days)`; Python's `date` covers years 1..9999 -/
def decodeDate (v : Option Num) : Except DecErr PyVal :=
  match v with
  | none => .ok .none
  | some x =>
    let d := truncInt x.toRat
    if d < -719162 ∨ d > 2932896 then .error .overflow else .ok (.date d)

/-- big-endian bytes of `n`, exactly `k` bytes (high part dropped — callers give enough room) -/
def toBE (n : Nat) : Nat → List Nat
  | 0 => []
  | k + 1 => (n / 256 ^ k % 256) :: toBE n k

def toLE (n : Nat) : Nat → List Nat
  | 0 => []
  | k + 1 => (n % 256) :: toLE (n / 256) k

def bitLength (n : Nat) : Nat := if n = 0 then 0 else Nat.log2 n + 1

/-- `int_to_bytes` (message.py): `(bit_length + 8) // 8 or 1` big-endian bytes -/
def intToBytes (n : Nat) : List Nat :=
  let k := (bitLength n + 8) / 8
  toBE n (if k = 0 then 1 else k)

def isAsciiWs (c : Nat) : Bool := c = 32 ∨ (9 ≤ c ∧ c ≤ 13) ∨ (28 ≤ c ∧ c ≤ 31)

def stripL (l : List Nat) : List Nat := l.dropWhile isAsciiWs
def strip (l : List Nat) : List Nat := (stripL (stripL l).reverse).reverse

def cutAt (c : Nat) (l : List Nat) : List Nat := l.takeWhile (· ≠ c)

def textOf (bytes : List Nat) (k : List Nat → List Nat) : PyVal :=
  if bytes.all (· < 128) then .str (k bytes) else .strOpaque

/-- `decode_string_fix` -/
def decodeStringFix (data off len : Nat) : PyVal :=
  let n := Straight.decode_int data off len
  let bytes := toLE n ((len + 7) / 8)
  -- '\xff' cannot occur in ASCII text; '\x00' and '@' cut, then strip
  textOf bytes (fun b => strip (cutAt 64 (cutAt 0 b)))

/-- `decode_string_lz` -/
def decodeStringLz (data off : Nat) : PyVal :=
  let n := data >>> off
  let bytes := toLE n ((bitLength n + 7) / 8)
  match bytes with
  | [] => .str []
  | l :: rest => textOf (rest.take l) id

/-- `decode_string_lau`: value and the number of bits to skip -/
def decodeStringLau (data off : Nat) : PyVal × Nat :=
  let n := data >>> off
  let bytes := toLE n ((bitLength n + 7) / 8 + 1)
  match bytes with
  | l :: enc :: _ =>
    let body := (bytes.take l).drop 2
    if enc ≠ 0 then (textOf body id, l * 8)
    else if body.isEmpty then (.str [], l * 8) else (.strOpaque, l * 8)
  | _ => (.none, bytes.length)

/-! ### float32 -/

/-- value of an IEEE binary32 bit pattern -/
def f32Value (bits : Nat) : PyVal :=
  let sign : Bool := bits / 2 ^ 31 % 2 = 1
  let e : Nat := bits / 2 ^ 23 % 256
  let m : Nat := bits % 2 ^ 23
  if e = 255 then (if m = 0 then .inf sign else .nan)
  else
    let mag : Rat :=
      if e = 0 then (m : Rat) * pow2 (-149)
      else ((2 ^ 23 + m : Nat) : Rat) * pow2 ((e : Int) - 150)
    .flt (if sign then -mag else mag)

/-- `decode_float` -/
def decodeFloat (data off len : Nat) (mn mx : Lit) : Except DecErr PyVal :=
  let n := Straight.decode_int data off len
  if n > 0xFFFFFFFF then .ok (.int 0)
  else
    match f32Value n with
    | .flt q => if q < mn.val then .error .below else if q > mx.val then .error .above else .ok (.flt q)
    | .inf neg => if neg then .error .below else .error .above
    | v => .ok v     -- nan: both comparisons are false

/-- largest finite binary32 -/
def f32Max : Rat := ((2 ^ 24 - 1 : Nat) : Rat) * pow2 104

/-- bit pattern of a finite rational rounded to binary32 (`struct.pack('<f', x)`); `none` = OverflowError -/
def f32Bits (q : Rat) : Option Nat :=
  let r := rne32 q
  if absR r > f32Max then none
  else if r = 0 then some 0     -- sign of zero not modelled
  else
    let a := absR r
    let e := ilog2 a
    let signBit := if r < 0 then 2 ^ 31 else 0
    if e < -126 then some (signBit + (a / pow2 (-149)).floor.toNat)
    else some (signBit + ((e + 127).toNat) * 2 ^ 23 + ((a / pow2 (e - 23)).floor.toNat - 2 ^ 23))

/-! ### encoders -/

inductive EncErr where
  | range          -- ValueError("… out of range after scaling")
  | missing        -- ValueError("… Field with id … is missing")
  | type_          -- AssertionError / TypeError (wrong kind of value)
  | notFinite      -- round(nan) / round(inf)
  | lookupName     -- value not in the reverse dictionary
  | unsupported    -- raise Exception("… not supported …")
  | overflow       -- struct / to_bytes OverflowError
  | malformed (why : String)
deriving DecidableEq, Repr, Inhabited

/-- Python `v - lit` (`value - offset`) -/
def subLit (v : Num) (l : Lit) : Num :=
  match v with
  | .int z => if l.isFloat then .flt (rne (rne (z : Rat) - l.val)) else .int (z - l.m)
  | .flt q => .flt (rne (q - rne l.val))

/-- `encode_number` (raw = round((value − offset) / resolution)) -/
def encodeNumber (v : PyVal) (len : Nat) (signed : Bool) (res ofs : Lit) : Except EncErr Int :=
  let signed := if ofs.val = 0 then signed else false      -- excess-K, as in `decodeNumber`
  match v with
  | .none =>
    if len = 1 then .error .range      -- a 1-bit field has no "not available" value (fix a25c5ee)
    else .ok (if len ≤ 3 then ((2 ^ len : Nat) - 1 : Int)
         else if signed then ((2 ^ (len - 1) : Nat) - 1 : Int) else ((2 ^ len : Nat) - 1 : Int))
  | .nan => .error .notFinite
  | .inf _ => .error .notFinite
  | .int _ | .flt _ =>
    let x : Num := match v with | .int z => .int z | .flt q => .flt q | _ => .int 0
    if res.val = 0 then .error .type_   -- ZeroDivisionError (no such resolution in the database)
    else
      let n := rhe (pyDiv (subLit x ofs) (litNum res))
      let lo : Int := if signed then -((2 ^ (len - 1) : Nat) : Int) else 0
      let hi : Int := if signed then ((2 ^ (len - 1) : Nat) : Int) - 2
                      else if len = 1 then 1 else ((2 ^ len : Nat) : Int) - 2
      if n < lo ∨ n > hi then .error .range
      else .ok (if signed ∧ n < 0 then ((2 ^ len : Nat) : Int) + n else n)
  | _ => .error .type_

/-- `encode_time(None, bits, signed)` -/
def naTime (bits : Nat) (signed : Bool) : Int :=
  if signed then ((2 ^ (bits - 1) : Nat) : Int) - 1 else ((2 ^ bits : Nat) : Int) - 1

end N2k
