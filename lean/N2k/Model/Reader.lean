/-
Framing of the byte stream by the TCP clients (ioclient.py): `readexactly(13)` (EByte) and `readline()`
(Actisense / Yacht Devices) on an `asyncio.StreamReader`.  The reader is modelled as a buffer to which
the transport appends whatever it received (`feed`), from which the receive loop takes packets as
soon as a whole one is there.  Assumption (trusted, exercised through the real StreamReader in the
correspondence): `readexactly`/`readline` consume the concatenation of what was fed, in order.
Lines longer than the reader's 64 KiB limit are out of scope.
-/
namespace N2k.Reader

abbrev Bytes := List Nat

/-- take whole 13-byte packets from the buffer; `fuel` bounds the loop -/
def take13 : Nat → Bytes → List Bytes → Bytes × List Bytes
  | 0, buf, acc => (buf, acc.reverse)
  | fuel + 1, buf, acc => if buf.length < 13 then (buf, acc.reverse) else take13 fuel (buf.drop 13) (buf.take 13 :: acc)

def feed13 (buf data : Bytes) : Bytes × List Bytes :=
  let b := buf ++ data
  take13 (b.length / 13 + 1) b []

/-- index of the first newline (10), if any -/
def findNl : Bytes → Option Nat
  | [] => none
  | b :: rest => if b = 10 then some 0 else (findNl rest).map (· + 1)

/-- take whole lines (newline included, as `readline` returns them) -/
def takeLines : Nat → Bytes → List Bytes → Bytes × List Bytes
  | 0, buf, acc => (buf, acc.reverse)
  | fuel + 1, buf, acc =>
    match findNl buf with
    | none => (buf, acc.reverse)
    | some i => takeLines fuel (buf.drop (i + 1)) (buf.take (i + 1) :: acc)

def feedLines (buf data : Bytes) : Bytes × List Bytes :=
  let b := buf ++ data
  takeLines (b.length + 1) b []

def feedAll (f : Bytes → Bytes → Bytes × List Bytes) (buf : Bytes) : List Bytes → Bytes × List Bytes
  | [] => (buf, [])
  | d :: ds =>
    let (b1, o1) := f buf d
    let (b2, o2) := feedAll f b1 ds
    (b2, o1 ++ o2)

end N2k.Reader
