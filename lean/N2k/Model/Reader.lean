/-
Framing of the byte stream by the TCP clients (ioclient.py): `readexactly(13)` (EByte) and `readline()`
(Actisense / Yacht Devices) on an `asyncio.StreamReader`.  The reader is modelled as a buffer to which
the transport appends whatever it received (`feed`), from which the receive loop takes packets as
soon as a whole one is there.  Assumption (trusted, exercised through the real StreamReader in the
correspondence): `readexactly`/`readline` consume the concatenation of what was fed, in order.
Lines longer than the reader's limit (64 KiB by default): `stepLim`/`feedLim` below model `readuntil` with its limit and the text
client's own handling of `LimitOverrunError` (`TextNmea2000Gateway._receive_impl`); `feedLines` is the limit-free reading.
-/
namespace N2k.Reader

abbrev Bytes := List Nat

/-- take whole 13-byte packets from the buffer; `fuel` bounds the loop -/
def take13 : Nat → Bytes → List Bytes → Bytes × List Bytes
  | 0, buf, acc => (buf, acc.reverse)
  | fuel + 1, buf, acc => if buf.length < 13 then (buf, acc.reverse) else take13 fuel (buf.drop 13) (buf.take 13 :: acc)

def feed13 (buf data : Bytes) : Bytes × List Bytes :=
  let b := buf ++ data
  take13 (b.length / 13 + 1) b []

/-- index of the first newline (10), if any -/
def findNl : Bytes → Option Nat
  | [] => none
  | b :: rest => if b = 10 then some 0 else (findNl rest).map (· + 1)

/-- take whole lines (newline included, as `readline` returns them) -/
def takeLines : Nat → Bytes → List Bytes → Bytes × List Bytes
  | 0, buf, acc => (buf, acc.reverse)
  | fuel + 1, buf, acc =>
    match findNl buf with
    | none => (buf, acc.reverse)
    | some i => takeLines fuel (buf.drop (i + 1)) (buf.take (i + 1) :: acc)

def feedLines (buf data : Bytes) : Bytes × List Bytes :=
  let b := buf ++ data
  takeLines (b.length + 1) b []

/-! ### lines with the reader's limit (`readuntil(b'\n')` + the text client's overrun handling)

One call of `_receive_impl` on the buffer as it is: `readuntil` looks for the newline; without one it raises `LimitOverrunError(consumed =
len(buffer))` once the buffer is longer than `limit`, and otherwise waits for data; with one at index `i` it raises
`LimitOverrunError(consumed = i)` if `i > limit` and otherwise returns the line.  On an overrun the client consumes what the reader
reported (`readexactly(e.consumed)`) and remembers that it is inside an overlong line (`skip`); the next line it gets is the rest of that
line and is dropped. -/

structure LState where
  buf : Bytes := []
  skip : Bool := false
deriving DecidableEq, Repr, Inhabited

/-- one `_receive_impl` call: `none` = waits for more data; otherwise the new state and the line handed to the decoder, if any -/
def stepLim (limit : Nat) (st : LState) : Option (LState × Option Bytes) :=
  match findNl st.buf with
  | none => if limit < st.buf.length then some ({ buf := [], skip := true }, none) else none
  | some i =>
    if limit < i then some ({ buf := st.buf.drop i, skip := true }, none)
    else if st.skip then some ({ buf := st.buf.drop (i + 1), skip := false }, none)
    else some ({ buf := st.buf.drop (i + 1), skip := false }, some (st.buf.take (i + 1)))

/-- the receive loop until it has to wait (`fuel` bounds the loop: every call consumes at least one byte) -/
def drainLim (limit : Nat) : Nat → LState → List Bytes → LState × List Bytes
  | 0, st, acc => (st, acc.reverse)
  | fuel + 1, st, acc =>
    match stepLim limit st with
    | none => (st, acc.reverse)
    | some (st', none) => drainLim limit fuel st' acc
    | some (st', some l) => drainLim limit fuel st' (l :: acc)

/-- the transport appends `data`; the receive loop runs until it waits again -/
def feedLim (limit : Nat) (st : LState) (data : Bytes) : LState × List Bytes :=
  let b := st.buf ++ data
  drainLim limit (b.length + 1) { st with buf := b } []

def feedAllLim (limit : Nat) (st : LState) : List Bytes → LState × List Bytes
  | [] => (st, [])
  | d :: ds =>
    let (s1, o1) := feedLim limit st d
    let (s2, o2) := feedAllLim limit s1 ds
    (s2, o1 ++ o2)

/-- the specification: a byte-at-a-time automaton.  `buf` is the line so far; more than `limit` bytes without a newline: forget them
and drop everything up to and including the next newline -/
def autoByte (limit : Nat) (st : LState × List Bytes) (b : Nat) : LState × List Bytes :=
  if b = 10 then
    if st.1.skip then ({ buf := [], skip := false }, st.2)
    else ({ buf := [], skip := false }, st.2 ++ [st.1.buf ++ [10]])
  else if st.1.skip then st
  else
    let cur := st.1.buf ++ [b]
    if limit < cur.length then ({ buf := [], skip := true }, st.2) else ({ buf := cur, skip := false }, st.2)

def autoRun (limit : Nat) (st : LState) (data : Bytes) : LState × List Bytes :=
  data.foldl (autoByte limit) (st, [])

def feedAll (f : Bytes → Bytes → Bytes × List Bytes) (buf : Bytes) : List Bytes → Bytes × List Bytes
  | [] => (buf, [])
  | d :: ds =>
    let (b1, o1) := f buf d
    let (b2, o2) := feedAll f b1 ds
    (b2, o1 ++ o2)

end N2k.Reader
