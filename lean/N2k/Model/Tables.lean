/-
Data types of the T1 tie.

* `PgnDef`/`FieldDef`/`Enums`: the canboat database (`canboat.json`) as data.
* `DecFn`/`Disp`/`EncFn`/…: every function of the generated `nmea2000/pgns.py` as data — an ordered
  list of statement shapes with their literal arguments (`tools/translate_tables.py` produces both
  from /repo's working tree on every run; an unrecognised shape becomes an explicit `unrecognised`
  node, never a guess).
Core Lean only; everything derives `DecidableEq` so that table equalities are kernel-checked.
-/
import N2k.Model.Num
namespace N2k

/-! ### database -/

structure FieldDef where
  order : Nat
  id : String
  name : String
  desc : Option String
  ftype : String
  bitLength : Option Nat
  bitOffset : Option Nat
  signed : Bool
  resolution : Option Lit
  rangeMin : Option Lit
  rangeMax : Option Lit
  offset : Option Lit
  unit : Option String
  pq : Option String
  enum : Option String
  bitEnum : Option String
  indirectEnum : Option String
  indirectOrder : Option Nat
  matchVal : Option Nat
  pk : Bool
  bitLengthField : Option Nat
deriving DecidableEq, Repr, Inhabited

structure PgnDef where
  pgn : Nat
  id : String
  desc : String
  ptype : String            -- "Fast" | "Single" | "ISO" | "Mixed"
  length : Option Nat
  fallback : Bool
  interval : Option Nat     -- TransmissionInterval (ms)
  fields : List FieldDef
deriving DecidableEq, Repr, Inhabited

abbrev EnumTable := List (String × List (Int × String))          -- lookup / bit-lookup enumerations
abbrev IndirectTable := List (String × List (String × String))   -- "v1_v2" ↦ name
abbrev RevTable := List (String × List (String × Int))           -- name ↦ value (lookup_dict_encode_*)

/-! ### generated code, decoders -/

/-- the seven constant arguments of `NMEA2000Field(id, name, desc, unit, value, raw, pq, type, pk)` -/
structure FieldMeta where
  id : String
  name : String
  desc : Option String
  unit : Option String
  pq : Option String
  ftype : String
  pk : Bool
deriving DecidableEq, Repr, Inhabited

inductive Post where
  | id | time | date
deriving DecidableEq, Repr, Inhabited

inductive DecOp where
  | number (len : Nat) (signed : Bool) (res mn mx ofs : Lit) (post : Post)   -- ofs: the optional 8th argument (database Offset), 0 when absent
  | lookup (len : Nat) (enum : String)
  | bitLookup (len : Nat) (enum : String)
  | rawInt (len : Nat)
  | binary (len : Nat)
  | binaryVar (lenField : Nat)          -- index of the earlier field holding the bit length (asserted to be an int)
  | stringFix (len : Nat)
  | stringLz
  | stringLau
  | float (len : Nat) (mn mx : Lit)
  | indirect (len : Nat)                -- raw = decode_int, value = 'TEMP_VAL' until patched
  | unsupported (ftype : String)        -- `raise Exception("PGN … FieldType (…) not supported")`
  | unrecognised (src : String)
deriving DecidableEq, Repr, Inhabited

/-- `combined_key = str(<this>_raw) + "_" + str(<target>_raw)`; `fields[target].value = master_indirect_lookup_dict[enum].get(key)` -/
structure Patch where
  enum : String
  target : Nat
deriving DecidableEq, Repr, Inhabited

structure DecStmt where
  off : Option Nat        -- `running_bit_offset = N` before the field
  op : DecOp
  fmeta : FieldMeta
  adv : Option Nat        -- `running_bit_offset += N` after the append
  patch : Option Patch
deriving DecidableEq, Repr, Inhabited

structure DecFn where
  name : String           -- the suffix after `decode_pgn_`
  pgn : Nat
  id : String
  desc : String
  ttlMs : Option Nat
  stmts : List DecStmt
deriving DecidableEq, Repr, Inhabited

/-! ### dispatchers -/

structure Cond where
  shift : Nat
  mask : Nat
  value : Nat
deriving DecidableEq, Repr, Inhabited

structure Arm where
  conds : List Cond
  always : Bool           -- `if (True):` — a definition without match fields
  target : String         -- suffix of the function called
deriving DecidableEq, Repr, Inhabited

structure Disp where
  pgn : Nat
  arms : List Arm
  fallback : Option String
deriving DecidableEq, Repr, Inhabited

/-! ### encoders -/

inductive EncKind where
  | number (bits : Nat) (signed : Bool) (res ofs : Lit)
  | reserved
  | float
  | lookup (enum : String)
  | date (bits : Nat)
  | time (res : Lit) (bits : Nat) (signed : Bool)
  | unsupported (ftype : String)     -- `raise Exception("Encoding '…' not supported")`
  | unrecognised (src : String)
deriving DecidableEq, Repr, Inhabited

inductive EncStep where
  | field (id : String) (name : String) (kind : EncKind) (mask : Nat) (off : Nat)
  | noLayout (pgn : Nat) (name : String)   -- `raise Exception("PGN … not supporting encoding for now as … is missing BitLength or BitOffset")`
  | unrecognised (src : String)
deriving DecidableEq, Repr, Inhabited

structure EncFn where
  name : String
  pgn : Nat
  steps : List EncStep
  len : Option Nat        -- `to_bytes(LEN)`; none = minimal `(bit_length + 7) // 8`
deriving DecidableEq, Repr, Inhabited

/-- `is_fast_pgn_N()`: `some true`/`some false`, or `none` when it raises -/
structure FastEntry where
  pgn : Nat
  fast : Option Bool
deriving DecidableEq, Repr, Inhabited

end N2k
