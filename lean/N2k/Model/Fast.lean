/-
Fast-packet segmentation (`NMEA2000Encoder._encode_fast_message`, encoder.py) and
reassembly (`NMEA2000Decoder._decode_fast_message`, decoder.py).  Frames are lists of
bytes in WIRE order (the decoder's `can_data` is the reversed frame; the model undoes
that reversal once, at the boundary).  Tie: T3 (exhaustive correspondence for the
encoder; enumerated + random histories for the decoder).
Arithmetic (`seq*32 + i`, `b / 32 % 8`, `b % 32`) is used instead of `<< | >> &`; the
correspondence runs over every byte value, which is what ties the two forms.
-/
namespace N2k.Fast

abbrev Bytes := List Nat

/-- split into chunks of `n` (`n > 0`); the last chunk may be shorter. -/
def chunks (n : Nat) : List α → List (List α)
  | [] => []
  | (x :: xs) =>
    if n = 0 then [x :: xs] else (x :: xs).take n :: chunks n ((x :: xs).drop n)
termination_by l => l.length
decreasing_by
  simp only [List.length_drop, List.length_cons]
  omega

/-- frames of one message: frame 0 = `[seq*32, |P|] ++ first 6 bytes`, frame i≥1 =
`[seq*32 + i] ++ next 7 bytes`. -/
def restFrames (seq : Nat) (i : Nat) : List Bytes → List Bytes
  | [] => []
  | c :: cs => ((seq * 32 + i) :: c) :: restFrames seq (i + 1) cs

def frames (seq : Nat) (P : Bytes) : List Bytes :=
  ((seq * 32) :: P.length :: P.take 6) :: restFrames seq 1 (chunks 7 (P.drop 6))

/-- the encoder: frames plus the advanced sequence counter. -/
def encode (seq : Nat) (P : Bytes) : List Bytes × Nat := (frames seq P, (seq + 1) % 8)

/-- reassembly record of one (pgn, src, dst) stream. `frames` is kept sorted by frame counter. -/
structure Rec where
  len : Nat
  seq : Nat
  stored : Nat
  frames : List (Nat × Bytes)
deriving DecidableEq, Repr, Inhabited

def insertFrame (i : Nat) (d : Bytes) : List (Nat × Bytes) → List (Nat × Bytes)
  | [] => [(i, d)]
  | (j, e) :: rest => if i < j then (i, d) :: (j, e) :: rest else (j, e) :: insertFrame i d rest

def hasFrame (i : Nat) (fs : List (Nat × Bytes)) : Bool := fs.any (fun p => p.1 == i)

def combined (r : Rec) : Bytes := ((r.frames.map (·.2)).flatten).take r.len

inductive Out where
  | ignored                      -- frame dropped, nothing stored
  | stored                       -- frame stored, message not complete
  | complete (payload : Bytes)   -- message complete: payload in wire order, truncated to the announced length
  | error                        -- the implementation raises (frame too short to carry its header)
deriving DecidableEq, Repr, Inhabited

/-- the first frame stored in a record, if any -/
def firstFrame (r : Rec) : Option Bytes := (r.frames.find? (fun p => p.1 == 0)).map (·.2)

/-- does a frame with frame counter 0, sequence counter `seq` and the bytes `rest` (length byte, then data) start a NEW
message on a stream whose record is `r`?  Yes unless it repeats the stored first frame exactly (same counter, same
announced length, same data).  A frame too short to carry its length byte takes this branch too (and raises there). -/
def startsNew (r : Option Rec) (seq : Nat) (rest : Bytes) : Bool :=
  match r, rest with
  | none, _ => true
  | some _, [] => true
  | some x, total :: payload => x.seq ≠ seq || firstFrame x ≠ some payload || x.len ≠ total

/-- one step of `_decode_fast_message` on the record of the frame's stream.
Returns the record as it is right after the step; on `complete` the *caller* removes it
(the implementation deletes it only if the per-PGN decoder did not raise). An absent
record behaves exactly as a freshly created one (len 0, seq -1), so `none` stands for both. -/
def step (r : Option Rec) (f : Bytes) : Option Rec × Out :=
  match f with
  | [] => (r, .error)
  | b :: rest =>
    let seq := b / 32 % 8
    let fc := b % 32
    let curLen := match r with | some x => x.len | none => 0
    let curSeq : Option Nat := match r with | some x => some x.seq | none => none
    if fc ≠ 0 ∧ curLen = 0 then (r, .ignored)
    else if fc = 0 ∧ startsNew r seq rest then
      -- a first frame starts a new message: another counter than the one in progress, or not a mere repetition of the
      -- first frame already stored (a reused counter; leftovers of an earlier message must not be mixed into this one)
      match rest with
      | [] => (r, .error)
      | total :: payload =>
        let r' : Rec := { len := total, seq := seq, stored := payload.length, frames := [(0, payload)] }
        if r'.stored ≥ r'.len then (some r', .complete (combined r')) else (some r', .stored)
    else
      match r with
      | none => (r, .ignored)   -- unreachable: fc = 0 ∧ curSeq = some seq needs a record; fc ≠ 0 needs curLen ≠ 0
      | some x =>
        if x.seq ≠ seq then (r, .ignored)
        else if hasFrame fc x.frames then (r, .ignored)
        else
          let r' : Rec := { x with stored := x.stored + rest.length, frames := insertFrame fc rest x.frames }
          if r'.stored ≥ r'.len then (some r', .complete (combined r')) else (some r', .stored)

/-- feed a list of frames to one stream, removing the record on completion (decoder that never raises). -/
def run (r : Option Rec) : List Bytes → Option Rec × List Out
  | [] => (r, [])
  | f :: fs =>
    let (r1, o) := step r f
    let r2 := match o with | .complete _ => none | _ => r1
    let (r3, os) := run r2 fs
    (r3, o :: os)

end N2k.Fast
