/-
Semantics of the statement shapes of the generated code (`pgns.py`): running bit offset, field
append, indirect-lookup patch-up, dispatcher if-chain, encoder OR-accumulate + `to_bytes`,
`get_field_by_id`.  Executes the *code tables* (`DecFn`/`Disp`/`EncFn`) with the codec models.
Tie: T3 end-to-end — the interpreter run on the translated tables is compared with the real
generated functions for every definition (this also validates the T1 translator).
-/
import N2k.Model.Tables
import N2k.Model.Codec
namespace N2k

structure Field where
  fmeta : FieldMeta
  value : PyVal
  raw : PyVal
deriving DecidableEq, Repr, Inhabited

structure Msg where
  pgn : Nat
  id : String
  desc : String
  ttlMs : Option Nat
  fields : List Field
deriving DecidableEq, Repr, Inhabited

/-- the dictionaries the generated code consults -/
structure Env where
  master : EnumTable
  flags : EnumTable
  indirect : IndirectTable
  rev : RevTable

def assocGet {α β} [DecidableEq α] (k : α) : List (α × β) → Option β
  | [] => none
  | (a, b) :: rest => match assocGet k rest with   -- a Python dict literal keeps the LAST duplicate
    | some v => some v
    | none => if a = k then some b else none

def asciiOf (s : String) : PyVal :=
  let cs := s.toList.map Char.toNat
  if cs.all (· < 128) then .str cs else .strOpaque

/-- `str(int)` -/
def intStr (z : Int) : String := toString z

/-- `decode_bit_lookup`: names of the set bits, joined with ", " -/
def bitNames (tbl : List (Int × String)) (n : Nat) : List String :=
  (List.range (bitLength n)).filterMap (fun (b : Nat) => if n / 2 ^ b % 2 = 1 then assocGet ((b : Nat) : Int) tbl else none)

/-- one field statement: returns the value, the raw value and the offset after op-specific skipping -/
def runOp (env : Env) (data off : Nat) (done : List Field) : DecOp → Except DecErr (PyVal × PyVal × Nat)
  | .number len signed res mn mx ofs post => do
    let r ← decodeNumber data off len signed res mn mx ofs
    let raw : PyVal := match r with | some x => numVal x | none => .none
    match post with
    | .id => pure (raw, raw, off)
    | .time => pure (decodeTime r, raw, off)
    | .date => do let d ← decodeDate r; pure (d, raw, off)
  | .lookup len e => do
    let n := Straight.decode_int data off len
    match assocGet e env.master with
    | none => throw .key
    | some tbl => pure ((match assocGet (n : Int) tbl with | some s => asciiOf s | none => .none), .int n, off)
  | .bitLookup len e => do
    let n := Straight.decode_int data off len
    match assocGet e env.flags with
    | none => throw .key
    | some tbl => pure (asciiOf (", ".intercalate (bitNames tbl n)), .int n, off)
  | .rawInt len => let n := Straight.decode_int data off len; pure (.int n, .int n, off)
  | .binary len => let b := intToBytes (Straight.decode_int data off len); pure (.bytes b, .bytes b, off)
  | .binaryVar k =>
    match done[k]? with
    | some f =>
      match f.value with
      | .int z => if z < 0 then throw (.malformed "negative bit length")   -- decode_int would raise on a negative shift
                  else let b := intToBytes (Straight.decode_int data off z.toNat); pure (.bytes b, .bytes b, off)
      | _ => throw .assertion
    | none => throw (.malformed "length field index")
  | .stringFix len => let v := decodeStringFix data off len; pure (v, v, off)
  | .stringLz => let v := decodeStringLz data off; pure (v, v, off)
  | .stringLau => let (v, skip) := decodeStringLau data off; pure (v, v, off + skip)
  | .float len mn mx => do let v ← decodeFloat data off len mn mx; pure (v, v, off)
  | .indirect len => let n := Straight.decode_int data off len; pure (.str ("TEMP_VAL".toList.map Char.toNat), .int n, off)
  | .unsupported _ => throw .unsupported
  | .unrecognised w => throw (.malformed w)

def pyStrOfRaw : PyVal → Option String
  | .int z => some (intStr z)
  | _ => none

def setValue (fs : List Field) (k : Nat) (v : PyVal) : List Field :=
  fs.mapIdx (fun i f => if i = k then { f with value := v } else f)

/-- the statements of a generated decoder, in order -/
def runStmts (env : Env) (data : Nat) : Nat → List Field → List DecStmt → Except DecErr (List Field)
  | _, done, [] => pure done
  | off, done, s :: rest => do
    let off1 := match s.off with | some o => o | none => off
    let (v, raw, off2) ← runOp env data off1 done s.op
    let done1 := done ++ [{ fmeta := s.fmeta, value := v, raw := raw }]
    let off3 := match s.adv with | some a => off2 + a | none => off2
    let done2 ← match s.patch with
      | none => pure done1
      | some p =>
        match done1[p.target]?, pyStrOfRaw raw with
        | some tf, some a =>
          (match pyStrOfRaw tf.raw, assocGet p.enum env.indirect with
           | some b, some tbl => pure (setValue done1 p.target (match assocGet (a ++ "_" ++ b) tbl with | some s => asciiOf s | none => .none))
           | _, none => throw .key
           | none, _ => throw (.malformed "indirect raw"))
        | _, _ => throw (.malformed "indirect patch")
    runStmts env data off3 done2 rest

def runDec (env : Env) (fn : DecFn) (data : Nat) : Except DecErr Msg := do
  let fs ← runStmts env data 0 [] fn.stmts
  pure { pgn := fn.pgn, id := fn.id, desc := fn.desc, ttlMs := fn.ttlMs, fields := fs }

/-- Python name resolution: the LAST definition of a name wins -/
def findDec (fns : List DecFn) (name : String) : Option DecFn := (fns.filter (·.name = name)).getLast?
def findEnc (fns : List EncFn) (name : String) : Option EncFn := (fns.filter (·.name = name)).getLast?

/-! ### dispatcher -/

def condHolds (data : Nat) (c : Cond) : Bool := (data >>> c.shift) &&& c.mask = c.value

/-- the if-chain of a generated dispatcher: suffix of the function called, if any -/
def runDisp (d : Disp) (data : Nat) : Option String :=
  match d.arms.find? (fun a => a.always || (!a.conds.isEmpty && a.conds.all (condHolds data))) with
  | some a => some a.target
  | none => d.fallback

/-- `decode_pgn_<PGN>(data)`: through the dispatcher if the PGN has one. `none` = returns None. -/
def decodePgn (env : Env) (fns : List DecFn) (disps : List (String × Disp)) (pgn : Nat) (data : Nat) :
    Option (Except DecErr Msg) :=
  match (disps.filter (·.1 = toString pgn)).getLast? with
  | some (_, d) =>
    match runDisp d data with
    | some t => (findDec fns t).map (fun fn => runDec env fn data)
    | none => none
  | none => (findDec fns (toString pgn)).map (fun fn => runDec env fn data)

/-! ### encoders -/

def getField (fs : List Field) (id : String) : Option Field := fs.find? (fun f => f.fmeta.id = id)

def revLookup (env : Env) (e : String) (v : PyVal) : Except EncErr Int :=
  match assocGet e env.rev, v with
  | some tbl, .str cs =>
    (match assocGet (String.ofList (cs.map Char.ofNat)) tbl with
     | some z => pure z
     | none => throw .lookupName)
  | some _, _ => throw .lookupName       -- `.get(value)` of anything else (None included) is None -> raise
  | none, _ => throw (.malformed "reverse dictionary missing")

/-- the integer a step contributes before masking -/
def encValue (env : Env) (f : Field) : EncKind → Except EncErr Int
  | .number bits signed res ofs =>
    (match f.value with
     | .none | .int _ | .flt _ | .nan | .inf _ => encodeNumber f.value bits signed res ofs
     | _ => throw .type_)
  | .reserved => (match f.value with | .int z => pure z | _ => throw .type_)
  | .float =>
    (match f.value with
     | .int z => (match f32Bits (z : Rat) with | some b => pure b | none => throw .overflow)
     | .flt q => (match f32Bits q with | some b => pure b | none => throw .overflow)
     | .nan => pure 0x7FC00000
     | .inf neg => pure (if neg then 0xFF800000 else 0x7F800000)
     | .none => throw .range          -- ValueError("Cannot encode None as a float")
     | _ => throw .type_)
  | .lookup e =>
    (match f.raw with
     | .none => revLookup env e f.value
     | .int z => pure z
     | _ => throw .type_)
  | .date bits =>
    (match f.raw with
     | .none => (match f.value with
        | .date d => if d < 0 ∨ d > ((2 ^ bits : Nat) : Int) - 2 then throw .range else pure d   -- encode_date refuses a date outside the field (fix ccf72e8)
        | .none => pure (((2 ^ bits : Nat) : Int) - 1)      -- encode_date(None, bits): "not available"
        | _ => throw .type_)
     | .int z => pure z
     | _ => throw .type_)
  | .time res bits signed =>
    (match f.raw with
     | .none => (match f.value with
        | .none => pure (naTime bits signed)
        | .time s => if res.val = 0 then throw .type_ else pure (rhe (pyDiv (.int s) (litNum res)))   -- round(seconds / resolution)
        | _ => throw .type_)
     | .int z => if res.val = 0 then throw .type_ else pure (rhe (pyDiv (.int z) (litNum res)))
     | .flt q => if res.val = 0 then throw .type_ else pure (rhe (pyDiv (.flt q) (litNum res)))
     | .nan | .inf _ => throw .notFinite
     | _ => throw .type_)
  | .unsupported _ => throw .unsupported
  | .unrecognised w => throw (.malformed w)

def runSteps (env : Env) (fs : List Field) : Nat → List EncStep → Except EncErr Nat
  | acc, [] => pure acc
  | _, .noLayout _ _ :: _ => throw .unsupported
  | _, .unrecognised w :: _ => throw (.malformed w)
  | acc, .field id _ kind mask off :: rest =>
    match getField fs id with
    | none => throw .missing
    | some f => do
      let v ← encValue env f kind
      -- `(field_value & MASK) << OFF` on Python ints: `&` with a non-negative mask is a non-negative residue
      let k := bitLength mask
      let masked : Nat := (v % ((2 ^ k : Nat) : Int)).toNat &&& mask
      runSteps env fs (acc ||| (masked <<< off)) rest

/-- `encode_pgn_*`: payload bytes in wire order -/
def runEnc (env : Env) (fn : EncFn) (fs : List Field) : Except EncErr (List Nat) := do
  let n ← runSteps env fs 0 fn.steps
  match fn.len with
  | some l => if n < 256 ^ l then pure (toLE n l) else throw .overflow
  | none => pure (toLE n ((bitLength n + 7) / 8))

end N2k
