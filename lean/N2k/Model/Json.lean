/-
`NMEA2000Message.to_json` / `from_json` (message.py) on the JSON data model.
`to_json` is `orjson.dumps(self.__dict__, default=…)`: dataclasses become objects, enums their value
(a 1-tuple `[index]`, the index being the member's position in consts.py), bytes their hex text,
timedeltas seconds, dates and times ISO text, NaN/±inf `null`.  `from_json` rebuilds a message whose
field values are the JSON values themselves.  `orjson` itself (text layer) is a trusted parameter;
`timestamp` and `raw_can_data` are outside the property and not modelled.
Tie: T3 (the model's tree vs `json.loads(msg.to_json())`).
-/
import N2k.Model.Decoder
namespace N2k.Json

open N2k N2k.Dec

/-- JSON scalars as they come back from the parser -/
inductive JVal where
  | null
  | int (z : Int)
  | flt (q : Rat)
  | str (s : List Nat)          -- code points
  | opaque                      -- non-ASCII text (not modelled)
deriving DecidableEq, Repr, Inhabited

def hexDigit (n : Nat) : Nat := if n < 10 then 48 + n else 87 + n
def hexOf (b : List Nat) : List Nat := b.flatMap (fun x => [hexDigit (x / 16 % 16), hexDigit (x % 16)])

def pad (w : Nat) (n : Nat) : List Nat :=
  let ds := (toString n).toList.map Char.toNat
  List.replicate (w - ds.length) 48 ++ ds

/-- proleptic Gregorian (year, month, day) of a day count since 1970-01-01 -/
def civil (days : Int) : Int × Nat × Nat :=
  let z := days + 719468
  let era := (if z ≥ 0 then z else z - 146096) / 146097
  let doe := (z - era * 146097).toNat
  let yoe := (doe - doe / 1460 + doe / 36524 - doe / 146096) / 365
  let y : Int := (yoe : Int) + era * 400
  let doy := doe - (365 * yoe + yoe / 4 - yoe / 100)
  let mp := (5 * doy + 2) / 153
  let d := doy - (153 * mp + 2) / 5 + 1
  let m := if mp < 10 then mp + 3 else mp - 9
  (if m ≤ 2 then y + 1 else y, m, d)

def isoDate (days : Int) : List Nat :=
  let (y, m, d) := civil days
  pad 4 y.toNat ++ [45] ++ pad 2 m ++ [45] ++ pad 2 d

def isoTime (secs : Nat) : List Nat := pad 2 (secs / 3600) ++ [58] ++ pad 2 (secs % 3600 / 60) ++ [58] ++ pad 2 (secs % 60)

/-- how a field value appears in the JSON text and hence in the parsed message -/
def view : PyVal → JVal
  | .none => .null
  | .int z => .int z
  | .flt q => .flt q
  | .nan => .null
  | .inf _ => .null
  | .str s => .str s
  | .strOpaque => .opaque
  | .bytes b => .str (hexOf b)
  | .date d => .str (isoDate d)
  | .time s => .str (isoTime s)

structure JField where
  id : String
  name : String
  desc : Option String
  unit : Option String
  value : JVal
  raw : JVal
  pq : Option Nat            -- `[index]`
  ftype : Option Nat
  pk : Bool
deriving DecidableEq, Repr, Inhabited

structure JMsg where
  pgn : Nat
  id : String
  desc : String
  ttl : Option Rat           -- seconds, as a float
  fields : List JField
  src : Nat
  dst : Nat
  prio : Nat
  isoName : Option Nat       -- NAME of the source identity (the other identity attributes are compared by the harness)
  hashKey : Option String
deriving DecidableEq, Repr, Inhabited

def indexOf (names : List String) (n : String) : Option Nat := (names.findIdx? (· = n)).map (· + 1)

/-- the JSON object `to_json` produces (enum tables from consts.py are parameters) -/
def toJson (pqNames ftNames : List String) (o : OutMsg) : JMsg :=
  { pgn := o.msg.pgn, id := o.msg.id, desc := o.msg.desc,
    ttl := o.msg.ttlMs.map (fun ms => rne ((ms : Rat) / 1000)),
    fields := o.msg.fields.map (fun f =>
      { id := f.fmeta.id, name := f.fmeta.name, desc := f.fmeta.desc, unit := f.fmeta.unit,
        value := view f.value, raw := view f.raw,
        pq := f.fmeta.pq.bind (indexOf pqNames), ftype := indexOf ftNames f.fmeta.ftype, pk := f.fmeta.pk }),
    src := o.src, dst := o.dst, prio := o.prio, isoName := o.iso.map (·.name), hashKey := o.hashKey }

/-- what `from_json` hands to the encoder: field id, value and raw value as JSON scalars -/
def unview : JVal → PyVal
  | .null => .none
  | .int z => .int z
  | .flt q => .flt q
  | .str s => .str s
  | .opaque => .strOpaque

def fromJson (j : JMsg) : List Field :=
  j.fields.map (fun f => { fmeta := ⟨f.id, f.name, f.desc, f.unit, none, "", f.pk⟩, value := unview f.value, raw := unview f.raw })

/-- the dump filter of `_call_decode_function` -/
def dumpMatches (cfg : Config) (o : OutMsg) : Bool :=
  (cfg.dumpNums.isEmpty && cfg.dumpIds.isEmpty) || cfg.dumpNums.contains o.msg.pgn || cfg.dumpIds.contains (lower o.msg.id)

end N2k.Json
