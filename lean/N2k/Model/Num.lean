/-
Python numbers as used by nmea2000: unbounded ints and IEEE binary64 floats.
Floats are modelled as exact rationals; every float operation is the exact
rational operation followed by `rne` (round to nearest, ties to even, 53-bit
significand, gradual underflow at 2^-1074).  Overflow to infinity is NOT
modelled (no computation in the library comes near 2^1024; see DESIGN 3.1).
Core Lean only (no Mathlib) so the driver stays light.
-/
namespace N2k

/-- `2^e` for an integer exponent, as a rational. -/
def pow2 (e : Int) : Rat :=
  if 0 ≤ e then ((2 ^ e.toNat : Nat) : Rat) else 1 / ((2 ^ (-e).toNat : Nat) : Rat)

/-- `10^e` for an integer exponent, as a rational. -/
def pow10 (e : Int) : Rat :=
  if 0 ≤ e then ((10 ^ e.toNat : Nat) : Rat) else 1 / ((10 ^ (-e).toNat : Nat) : Rat)

/-- ⌊log₂ q⌋ for `q > 0`. -/
def ilog2 (q : Rat) : Int :=
  let n := q.num.natAbs
  let d := q.den
  let e0 : Int := (Nat.log2 n : Int) - (Nat.log2 d : Int)
  if q < pow2 e0 then e0 - 1 else e0

/-- round half to even, to an integer (Python's `round(x)` on the exact value). -/
def rhe (m : Rat) : Int :=
  let f := m.floor
  let d := m - f
  if d < 1/2 then f else if 1/2 < d then f + 1 else if f % 2 = 0 then f else f + 1

/-- round a positive rational to `prec` significant bits, minimum exponent `emin`. -/
def rnePosP (prec : Nat) (emin : Int) (a : Rat) : Rat :=
  let e := max (ilog2 a) emin
  let ulp : Rat := pow2 (e - ((prec : Int) - 1))
  ((rhe (a / ulp) : Int) : Rat) * ulp

def rneP (prec : Nat) (emin : Int) (q : Rat) : Rat :=
  if q = 0 then 0 else if q < 0 then -(rnePosP prec emin (-q)) else rnePosP prec emin q

/-- binary64 rounding. -/
def rne (q : Rat) : Rat := rneP 53 (-1022) q
/-- binary32 rounding (overflow not modelled here; see `F32`). -/
def rne32 (q : Rat) : Rat := rneP 24 (-126) q

/-- truncation toward zero: Python `int(x)` for a finite float. -/
def truncInt (q : Rat) : Int := if 0 ≤ q then q.floor else -((-q).floor)

/-- A numeric literal of the generated code: `m · 10^e`, int or float syntax. -/
structure Lit where
  m : Int
  e : Int
  isFloat : Bool
deriving DecidableEq, Repr, Inhabited

def Lit.exact (l : Lit) : Rat := (l.m : Rat) * pow10 l.e
/-- the Python value of the literal, as an exact rational (a float literal is rounded). -/
def Lit.val (l : Lit) : Rat := if l.isFloat then rne l.exact else l.exact
def Lit.ofInt (z : Int) : Lit := ⟨z, 0, false⟩

/-- A finite Python number. -/
inductive Num where
  | int (z : Int)
  | flt (q : Rat)
deriving DecidableEq, Repr, Inhabited

def Num.toRat : Num → Rat
  | .int z => (z : Rat)
  | .flt q => q

def Num.isInt : Num → Bool
  | .int _ => true
  | .flt _ => false

/-- Python `n * lit` for an int `n`. -/
def mulLit (n : Int) (l : Lit) : Num :=
  if l.isFloat then .flt (rne (rne (n : Rat) * l.val)) else .int (n * l.m)

/-- Python `a / b` (true division) for finite numbers, `b ≠ 0`. -/
def pyDiv (a b : Num) : Rat :=
  match a, b with
  | .int x, .int y => rne ((x : Rat) / (y : Rat))
  | _, _ => rne (rne a.toRat / rne b.toRat)

def litNum (l : Lit) : Num := if l.isFloat then .flt l.val else .int l.m

/-- Python `round(x, k)` for a float x and k ≥ 0 (correctly rounded decimal path). -/
def pyRoundN (x : Rat) (k : Nat) : Rat :=
  rne (((rhe (x * ((10 ^ k : Nat) : Rat)) : Int) : Rat) / ((10 ^ k : Nat) : Rat))

end N2k
