/-
`WaveShareNmea2000Gateway._receive_impl` (ioclient.py): the receive buffer algorithm of the
serial (USB) client.  `feed buf data` = one call of `_receive_impl` after `read()` returned
`data`: returns the new buffer and the 20-byte windows handed to `decode_usb`, in order
(only windows whose checksum matches are handed on).
Tie: T3 (differential against the real client under every segmentation); the checksum is T2.
-/
import N2k.Gen.Straight
namespace N2k.Serial

abbrev Bytes := List Nat

/-- index of the first `AA 55` in the list, if any (`bytearray.find(b"\xaa\x55")`). -/
def findMarker : Bytes → Option Nat
  | [] => none
  | [_] => none
  | a :: b :: rest =>
    if a = 0xaa ∧ b = 0x55 then some 0
    else (findMarker (b :: rest)).map (· + 1)

/-- the client's own test of a 20-byte window: `calculate_canbus_checksum(packet) == packet[19]`
(the checksum function is the T2 translation of the real one) -/
def windowOk (w : Bytes) : Bool := Straight.checksum w = w.getD 19 0

/-- the `while True:` loop; `fuel` bounds the iterations (each consumes at least 2 bytes).
A window that fails its checksum is not a packet (line noise containing the marker, or a packet that lost
bytes): only its marker is skipped and the search goes on right behind it, so that an intact packet that
follows is not swallowed. -/
def loop : Nat → Bytes → List Bytes → Bytes × List Bytes
  | 0, buf, acc => (buf, acc.reverse)
  | fuel + 1, buf, acc =>
    match findMarker buf with
    | none =>
      -- nothing before the end can start a packet, except a trailing half marker
      ((if buf.getLast? = some 0xaa then [0xaa] else []), acc.reverse)
    | some start =>
      if start + 20 > buf.length then (buf.drop start, acc.reverse)
      else
        let w := (buf.drop start).take 20
        if windowOk w then loop fuel (buf.drop (start + 20)) (w :: acc)
        else loop fuel (buf.drop (start + 2)) acc

def feed (buf data : Bytes) : Bytes × List Bytes :=
  let b := buf ++ data
  loop (b.length / 2 + 1) b []

/-- feed a sequence of reads. -/
def feedAll (buf : Bytes) : List Bytes → Bytes × List Bytes
  | [] => (buf, [])
  | d :: ds =>
    let (b1, o1) := feed buf d
    let (b2, o2) := feedAll b1 ds
    (b2, o1 ++ o2)

end N2k.Serial
