/-
`WaveShareNmea2000Gateway._receive_impl` (ioclient.py): the receive buffer algorithm of the
serial (USB) client.  `feed buf data` = one call of `_receive_impl` after `read()` returned
`data`: returns the new buffer and the 20-byte windows handed to `decode_usb`, in order.
Tie: T3 (differential against the real client under every segmentation).
-/
namespace N2k.Serial

abbrev Bytes := List Nat

/-- index of the first `AA 55` in the list, if any (`bytearray.find(b"\xaa\x55")`). -/
def findMarker : Bytes → Option Nat
  | [] => none
  | [_] => none
  | a :: b :: rest =>
    if a = 0xaa ∧ b = 0x55 then some 0
    else (findMarker (b :: rest)).map (· + 1)

/-- the `while True:` loop; `fuel` bounds the iterations (each consumes 20 bytes). -/
def loop : Nat → Bytes → List Bytes → Bytes × List Bytes
  | 0, buf, acc => (buf, acc.reverse)
  | fuel + 1, buf, acc =>
    match findMarker buf with
    | none =>
      -- nothing before the end can start a packet, except a trailing half marker
      ((if buf.getLast? = some 0xaa then [0xaa] else []), acc.reverse)
    | some start =>
      if start + 20 > buf.length then (buf.drop start, acc.reverse)
      else loop fuel (buf.drop (start + 20)) ((buf.drop start).take 20 :: acc)

def feed (buf data : Bytes) : Bytes × List Bytes :=
  let b := buf ++ data
  loop (b.length / 20 + 1) b []

/-- feed a sequence of reads. -/
def feedAll (buf : Bytes) : List Bytes → Bytes × List Bytes
  | [] => (buf, [])
  | d :: ds =>
    let (b1, o1) := feed buf d
    let (b2, o2) := feedAll b1 ds
    (b2, o1 ++ o2)

end N2k.Serial
