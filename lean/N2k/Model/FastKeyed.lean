/-
The decoder's table of reassembly records, keyed by (pgn, src, dst) — `self.data` of
`NMEA2000Decoder` restricted to what `_decode_fast_message` does with it.
An absent key and a freshly created record behave identically, so fresh records are never stored.
After the repair `44212ba` the record is removed on completion whether or not the per-PGN decoder raises.
-/
import N2k.Model.Fast
namespace N2k.Fast

abbrev Key := Nat × Nat × Nat
abbrev Table := List (Key × Rec)

def lookup (t : Table) (k : Key) : Option Rec :=
  match t with
  | [] => none
  | (k', r) :: rest => if k' = k then some r else lookup rest k

def erase (t : Table) (k : Key) : Table := t.filter (fun p => p.1 ≠ k)

def set (t : Table) (k : Key) (r : Rec) : Table := (k, r) :: erase t k

/-- one frame of stream `k` -/
def stepK (t : Table) (k : Key) (f : Bytes) : Table × Out :=
  let (r', o) := step (lookup t k) f
  let t' := match o with
    | .complete _ => erase t k
    | _ => match r' with
      | some x => set t k x
      | none => erase t k
  (t', o)

/-- a history of (stream, frame) pairs; the outputs are aligned with the history -/
def runK (t : Table) : List (Key × Bytes) → Table × List Out
  | [] => (t, [])
  | (k, f) :: h =>
    let (t1, o) := stepK t k f
    let (t2, os) := runK t1 h
    (t2, o :: os)

/-- frames of a message whose last frame carries `pad` extra bytes after the data -/
def framesPad (seq : Nat) (P pad : Bytes) : List Bytes :=
  match (frames seq P).reverse with
  | [] => []
  | last :: revInit => (revInit.reverse) ++ [last ++ pad]

end N2k.Fast
