/-
`AsyncIOClient` (ioclient.py, after the `fix:` commits) as a labelled transition system over the
events that can be observed from outside the client: connect calls and attempts, retry sleeps,
status notifications, receive-task life cycle and read iterations, receive callbacks, sends and
writes, close.  `step : CS → Ev → Option CS` is deterministic given the label; `none` means "the
model does not allow this event here".

Tie: T3 by TRACE VALIDATION — scripted sessions of the real clients (four kinds) run under a
virtual-time event loop with a fake transport; every traced run must be accepted event by event
(`tools/clientsim.py`, `tools/clientcorr.py`).  The property theorems quantify over ALL event lists
accepted from `init`, i.e. over every interleaving the LTS admits, not only the ones the harness
produces.  What the LTS cannot exhibit: OS scheduling, real sockets/serial ports, wall-clock time,
blocking inside a task step.
-/
namespace N2k.Client

inductive CSt where
  | disconnected | connected | closed
deriving DecidableEq, Repr, Inhabited

inductive Ev where
  | connCall | connReturn
  | implStart | implFail | implOk (c : Nat)
  | sleep (ms : Nat)
  | status (s : CSt)
  | recvStart (c : Nat) | recvIter (c : Nat) (progress : Bool) | recvExit (c : Nat) (cancelled : Bool)
  | cb (n : Nat)
  | sendCall (sid : Nat) | sendBad (sid : Nat) | write (c sid idx : Nat) | writeFail (c sid : Nat) | drainFail (c : Nat) | sendReturn (sid : Nat)
  | closeCall | writerClose (c : Nat) | closeReturn
  | closeAbort                     -- a close() call that its caller cancelled (e.g. wait_for): it did not return, nothing is promised about it
  | closeCallInRecv                -- close() called from inside the receive task (from the status callback it runs)
  | closeCallInReconn              -- close() called from inside the reconnect task (from the status callback that its connect() runs)
  | connCancel                     -- the connect() call that holds the lock is cancelled by its caller (e.g. wait_for): it ends wherever it is
  | connGiveUp (c : Nat)           -- the connect() call that holds the lock is cancelled after it reported CONNECTED on link c and before the receive task exists: it gives the link up like after a fault
  | abandon (c : Nat)              -- connect() finds the client CONNECTED on link c with no receive task (an earlier connect() was cancelled by its caller): the link is given up
  | connCallInRecv                 -- connect() called from inside the receive task: returns at once, that task reconnects by itself
  | reconnStart | reconnEnd        -- life cycle of the reconnect task that a fault report schedules
  | reconnSleep (ms : Nat)         -- its own wait before it calls connect()
  | reconnCall                     -- the connect() call it makes (otherwise like connCall)
  | cfgWrite (c : Nat)             -- the serial client configures the adapter right after opening the port
  | cfgFail (c : Nat)              -- … and that write or drain fails: the attempt counts as failed
  | envFeed (c : Nat) | envEof (c : Nat) | envReadErr (c : Nat)
deriving DecidableEq, Repr, Inhabited

/-- tenacity `wait_exponential(multiplier=0.5, max=10)`: delay before attempt k+1, in ms -/
def backoff (k : Nat) : Nat := min (500 * 2 ^ (k - 1)) 10000

structure CS where
  st : CSt := .disconnected
  calls : Nat := 0                 -- connect() calls in progress
  connActive : Bool := false       -- one of them holds the connect lock and is attempting
  tryNo : Nat := 0                 -- attempts made by it
  implPending : Bool := false
  lastFailed : Bool := false       -- the last attempt failed; the back-off sleep is due
  slept : Bool := false
  okConn : Option Nat := none      -- the attempt succeeded with this connection; status/return pending
  nextConn : Nat := 1
  conn : Option Nat := none        -- current link (writer)
  writerClosed : List Nat := []
  recv : Option Nat := none        -- the live receive task (connection it reads)
  faults : Nat := 0                -- connection faults seen (peer EOF / read error / write failure)
  faulted : List Nat := []         -- the links they were seen on
  everConnected : List Nat := []   -- links that were reported CONNECTED
  reconn : Nat := 0                -- reconnect tasks alive
  reconnSlept : Bool := false      -- the live one has waited
  reconnCalled : Bool := false     -- … and has made its connect() call
  abandoning : Bool := false       -- the running connect() has just given up a link nobody was reading: its first attempt follows
  closeFromReconn : Bool := false  -- close() was called from inside the live reconnect task: it is not cancelled, it ends by itself
  closeCalled : Bool := false
  closeReturned : Bool := false
  closeFromRecv : Bool := false    -- close() was called from inside the live receive task: that task is not cancelled, it ends by itself
  cbCount : Nat := 0
  activeSends : List Nat := []
  doneSends : List Nat := []       -- sends that returned (ids are never reused)
  failedSends : List Nat := []     -- sends whose write or drain raised
  lockHolder : Option Nat := none  -- send holding the send lock
  sendNext : List (Nat × Nat) := []     -- per send id: index of its next packet
  sendConn : List (Nat × Nat) := []     -- per send id: the link its first packet was written to (all its packets go there)
  wire : List (Nat × Nat × Nat) := []   -- (connection, send id, packet index) in write order
  statusLog : List CSt := []
  prev : Option Ev := none
deriving Repr, Inhabited

def init : CS := {}

def nextIdx (l : List (Nat × Nat)) (sid : Nat) : Nat :=
  match l.find? (·.1 = sid) with
  | some p => p.2
  | none => 0

def setIdx (l : List (Nat × Nat)) (sid n : Nat) : List (Nat × Nat) := (sid, n) :: l.filter (·.1 ≠ sid)

def guard (b : Bool) (s : CS) : Option CS := if b then some s else none

/-- may send `sid` write to link `c`?  Its first packet goes to the current link, later packets to the link of the first -/
def linkOk (s : CS) (sid c : Nat) : Bool :=
  match s.sendConn.find? (·.1 = sid) with
  | some p => p.2 = c
  | none => s.conn = some c

def stepCore (s : CS) (e : Ev) : Option CS :=
  match e with
  | .connCall => some { s with calls := s.calls + 1 }
  | .connReturn =>
    if s.prev = some .connCall || s.prev = some .reconnCall then
      -- returned at once: closed, already connecting, or already connected
      guard (s.calls > 0 && (s.st = .closed || s.connActive || s.st = .connected)) { s with calls := s.calls - 1 }
    else
      -- the connect that held the lock returns: after a success, or because the client was closed
      -- (once CLOSED also out of an attempt that is still pending: close() cancels the reconnect task, the attempt is abandoned)
      guard (s.calls > 0 && s.connActive && ((!s.implPending && s.okConn.isSome) || s.st = .closed))
        { s with calls := s.calls - 1, connActive := false, tryNo := 0, okConn := none, lastFailed := false, slept := false, implPending := false }
  | .implStart =>
    -- a connection attempt: never once CLOSED; first attempt right after the call, later ones after the back-off sleep
    if s.connActive then
      guard (s.st ≠ .closed && !s.implPending && s.lastFailed && s.slept)
        { s with tryNo := s.tryNo + 1, implPending := true, lastFailed := false, slept := false }
    else
      guard (s.st = .disconnected && s.calls > 0 && (s.prev = some .connCall || s.prev = some .reconnCall || s.abandoning))
        { s with connActive := true, tryNo := 1, implPending := true, abandoning := false }
  | .implFail => guard s.implPending { s with implPending := false, lastFailed := true, slept := false }
  | .implOk c =>
    guard (s.implPending && c = s.nextConn)
      { s with implPending := false, okConn := some c, conn := some c, nextConn := s.nextConn + 1 }
  | .sleep ms =>
    if s.lastFailed && !s.slept then guard (ms = backoff s.tryNo) { s with slept := true }
    else guard (ms = 10 || ms = 2000 || ms = 30000) s     -- (the wait before reconnecting after a fault is `reconnSleep`)
  | .status t =>
    guard (t ≠ s.st && s.st ≠ .closed &&
           (match t with
            | .connected => s.connActive && s.okConn.isSome
            | .disconnected =>
              -- a fault was seen on the current link, and that link has been shut before the report
              s.faults > 0 && (match s.conn with | some c => s.faulted.contains c && s.writerClosed.contains c | none => false)
            | .closed => s.closeCalled))
      { s with st := t, statusLog := s.statusLog ++ [t],
               everConnected := (match t, s.okConn with | .connected, some c => c :: s.everConnected | _, _ => s.everConnected) }
  | .recvStart c => guard (s.recv.isNone && s.conn = some c && s.st ≠ .closed) { s with recv := some c }
  | .recvIter c progress => guard (s.recv = some c && progress && !s.closeFromRecv) s
  | .recvExit c cancelled =>
    -- after a close() from inside the receive task that task returns by itself: it is not cancelled
    guard (s.recv = some c && !(s.closeFromRecv && cancelled)) { s with recv := none }
  | .cb n => guard (n = s.cbCount + 1 && !s.closeReturned) { s with cbCount := n }
  | .sendCall sid => guard (!s.activeSends.contains sid && !s.doneSends.contains sid) { s with activeSends := sid :: s.activeSends }
  | .sendBad sid => guard (s.activeSends.contains sid && s.lockHolder ≠ some sid) s
  | .write c sid idx =>
    -- the link of a message is fixed by its first packet: the current link then, the same link for every later packet
    -- (also when the client has reconnected in the meantime)
    guard (s.activeSends.contains sid && (s.lockHolder.isNone || s.lockHolder = some sid) &&
           idx = nextIdx s.sendNext sid && linkOk s sid c && !s.writerClosed.contains c && !s.failedSends.contains sid)
      { s with lockHolder := some sid, sendNext := setIdx s.sendNext sid (idx + 1), wire := s.wire ++ [(c, sid, idx)],
               sendConn := if (s.sendConn.find? (·.1 = sid)).isSome then s.sendConn else (sid, c) :: s.sendConn }
  | .writeFail c sid =>
    -- a failure on a link that has been replaced in the meantime is not a fault of the current link
    guard (s.activeSends.contains sid && (s.lockHolder.isNone || s.lockHolder = some sid) && linkOk s sid c)
      { s with faults := if s.conn = some c then s.faults + 1 else s.faults, faulted := c :: s.faulted, lockHolder := none, failedSends := sid :: s.failedSends }
  | .drainFail c =>
    match s.lockHolder with
    | some sid => guard (linkOk s sid c)       -- the link the lock holder writes to
        { s with faults := if s.conn = some c then s.faults + 1 else s.faults, faulted := c :: s.faulted, lockHolder := none, failedSends := sid :: s.failedSends }
    | none => none
  | .sendReturn sid =>
    guard (s.activeSends.contains sid)
      { s with activeSends := s.activeSends.filter (· ≠ sid), doneSends := sid :: s.doneSends,
               lockHolder := if s.lockHolder = some sid then none else s.lockHolder }
  | .closeCall => some { s with closeCalled := true }
  | .closeAbort => guard s.closeCalled s
  | .connCallInRecv => guard s.recv.isSome s
  -- nobody reads from the link: that is a fault of it (it is shut, DISCONNECTED is reported, and the call goes on to connect)
  | .abandon c => guard (s.st = .connected && s.recv.isNone && s.conn = some c && !s.connActive && s.calls > 0 && !s.abandoning)
      { s with faults := s.faults + 1, faulted := c :: s.faulted, abandoning := true }
  | .connGiveUp c =>
    guard (s.st = .connected && s.connActive && s.okConn = some c && s.conn = some c)
      { s with faults := s.faults + 1, faulted := c :: s.faulted }
  | .connCancel =>
    guard (s.calls > 0 && s.connActive && s.st ≠ .closed)
      { s with calls := s.calls - 1, connActive := false, tryNo := 0, okConn := none, lastFailed := false, slept := false, implPending := false }
  -- one reconnect task serves all fault reports: a new one is only started when none is alive
  | .reconnStart => guard (s.reconn = 0 && s.faults > 0) { s with reconn := 1, reconnSlept := false, reconnCalled := false }
  -- … it waits at least as long as the first retry of connect() does …
  | .reconnSleep ms => guard (s.reconn = 1 && 500 ≤ ms) { s with reconnSlept := true }     -- (it waits again when a new fault was reported during its wait)
  -- … and only then calls connect(); every further call (connect() returned at once because another call held the lock, and the
  -- client is still DISCONNECTED) needs a wait of its own …
  | .reconnCall => guard (s.reconn = 1 && s.reconnSlept) { s with calls := s.calls + 1, reconnCalled := true, reconnSlept := false }
  -- … and ends when such a call returns, or when close() cancels it
  | .reconnEnd => guard (s.reconn = 1 && ((s.reconnCalled && s.prev = some .connReturn) || s.st = .closed)) { s with reconn := 0 }
  | .closeCallInRecv => guard s.recv.isSome { s with closeCalled := true, closeFromRecv := true }
  | .closeCallInReconn => guard (s.reconn = 1) { s with closeCalled := true, closeFromReconn := true }
  | .writerClose c =>
    -- the current link is shut by close(), and when it is given up after a fault (before DISCONNECTED is reported)
    guard (s.conn = some c && (s.st = .closed || s.faulted.contains c)) { s with writerClosed := c :: s.writerClosed }
  | .closeReturn =>
    -- (the reconnect task has been cancelled and has ended, unless close() runs inside it)
    guard (s.closeCalled && s.st = .closed && (s.recv.isNone || s.closeFromRecv) && (s.reconn = 0 || s.closeFromReconn) &&
           (match s.conn with | some c => s.writerClosed.contains c | none => true))
      { s with closeReturned := true }
  | .cfgWrite c => guard (s.okConn = some c && s.conn = some c) s
  | .cfgFail c => guard (s.okConn = some c && s.connActive && s.st ≠ .connected) { s with okConn := none, lastFailed := true, slept := false, faulted := c :: s.faulted }   -- (the configuration is written before CONNECTED is reported)
  | .envFeed _ => some s
  | .envEof c => some (if s.conn = some c then { s with faults := s.faults + 1, faulted := c :: s.faulted } else s)
  | .envReadErr c => some (if s.conn = some c then { s with faults := s.faults + 1, faulted := c :: s.faulted } else s)

def step (s : CS) (e : Ev) : Option CS := (stepCore s e).map (fun s' => { s' with prev := some e })

/-- run a trace; `none` = some event was not allowed -/
def runTrace : CS → List Ev → Option CS
  | s, [] => some s
  | s, e :: es => (step s e).bind (fun s' => runTrace s' es)

/-- index of the first event the model rejects (for diagnostics) -/
def firstReject : CS → List Ev → Nat → Option Nat
  | _, [], _ => none
  | s, e :: es, i => match step s e with
    | some s' => firstReject s' es (i + 1)
    | none => some i

/-! ### the receive queue (C12): frames are put in arrival order, the consumer takes them one at a
time; a raising or slow callback changes nothing -/

inductive QEv where
  | put (m : Nat)                -- the receive path queued decoded message m
  | cbStart (m : Nat)            -- the consumer took the head and called the callback
  | cbEnd (raised : Bool)
deriving DecidableEq, Repr, Inhabited

structure QS where
  queue : List Nat := []
  busy : Bool := false
  delivered : List Nat := []
  puts : List Nat := []
deriving Repr, Inhabited

def qstep (s : QS) : QEv → Option QS
  | .put m => some { s with queue := s.queue ++ [m], puts := s.puts ++ [m] }
  | .cbStart m =>
    match s.queue with
    | h :: t => if !s.busy && h = m then some { s with queue := t, busy := true, delivered := s.delivered ++ [m] } else none
    | [] => none
  | .cbEnd _ => if s.busy then some { s with busy := false } else none

def qrun : QS → List QEv → Option QS
  | s, [] => some s
  | s, e :: es => (qstep s e).bind (fun s' => qrun s' es)

end N2k.Client
