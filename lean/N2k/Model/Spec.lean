/-
What the canboat database demands of the generated code, as executable functions from database
entries to code tables (`compile*`).  This is MY statement of the generator's contract (the
Jinja template cannot be run in this sandbox); the table theorems in `N2k/Tables/` check, in the
kernel, that the shipped `pgns.py` is statement for statement what these functions produce.
Core Lean only.
-/
import N2k.Model.Tables
namespace N2k.Spec

/-- all definitions of one PGN, groups ordered by first appearance -/
def insertGroup (p : PgnDef) : List (List PgnDef) → List (List PgnDef)
  | [] => [[p]]
  | g :: gs =>
    match g with
    | [] => [p] :: gs
    | q :: _ => if q.pgn = p.pgn then (g ++ [p]) :: gs else g :: insertGroup p gs

def groupsOf (ps : List PgnDef) : List (List PgnDef) :=
  ps.foldl (fun acc p => insertGroup p acc) []

def hasMatch (g : List PgnDef) : Bool := g.any (fun p => p.fields.any (fun f => f.matchVal.isSome))

/-- multi-definition PGN distinguished by match fields: functions are named `<PGN>_<Id>` -/
def isComplex (g : List PgnDef) : Bool := g.length > 1 && hasMatch g

def suffix (g : List PgnDef) (p : PgnDef) : String :=
  if isComplex g then toString p.pgn ++ "_" ++ p.id else toString p.pgn

/-- `generate_field_id` -/
def fieldId (f : FieldDef) : String :=
  if f.ftype = "RESERVED" then
    match f.bitOffset with
    | some o => "reserved_" ++ toString o
    | none => "reserved_"
  else f.id

def fieldMeta (f : FieldDef) : FieldMeta :=
  { id := fieldId f, name := f.name, desc := f.desc, unit := f.unit, pq := f.pq, ftype := f.ftype, pk := f.pk }

def missing (what : String) : DecOp := .unrecognised ("database entry lacks " ++ what)

def numberOp (f : FieldDef) (post : Post) : DecOp :=
  match f.bitLength, f.resolution, f.rangeMin, f.rangeMax with
  | some l, some r, some mn, some mx =>
    -- the Offset is passed only by the plain-number branch of the generator (TIME/DATE never carry one)
    .number l f.signed r mn mx (match post with | .id => f.offset.getD (Lit.ofInt 0) | _ => Lit.ofInt 0) post
  | _, _, _, _ => missing "BitLength/Resolution/RangeMin/RangeMax"

def withLen (f : FieldDef) (k : Nat → DecOp) : DecOp :=
  match f.bitLength with
  | some l => k l
  | none => missing "BitLength"

def decOp (f : FieldDef) : DecOp :=
  let t := f.ftype
  if t = "NUMBER" ∨ t = "MMSI" ∨ t = "PGN" ∨ t = "DURATION" then numberOp f .id
  else if t = "LOOKUP" then
    match f.enum with
    | some e => withLen f (fun l => .lookup l e)
    | none => missing "LookupEnumeration"
  else if t = "BITLOOKUP" then
    match f.bitEnum with
    | some e => withLen f (fun l => .bitLookup l e)
    | none => missing "LookupBitEnumeration"
  else if t = "STRING_FIX" then withLen f .stringFix
  else if t = "STRING_LZ" then .stringLz
  else if t = "STRING_LAU" then .stringLau
  else if t = "FLOAT" then
    match f.bitLength, f.rangeMin, f.rangeMax with
    | some l, some mn, some mx => .float l mn mx
    | _, _, _ => missing "BitLength/RangeMin/RangeMax"
  else if t = "TIME" then numberOp f .time
  else if t = "DATE" then numberOp f .date
  else if t = "RESERVED" ∨ t = "SPARE" then withLen f .rawInt
  else if t = "INDIRECT_LOOKUP" then withLen f .indirect
  else if t = "BINARY" then
    match f.bitLength, f.bitLengthField with
    | some l, _ => .binary l
    | none, some k => .binaryVar (k - 1)
    | none, none => missing "BitLength/BitLengthField"
  else if t = "FIELDTYPE_LOOKUP" ∨ t = "KEY_VALUE" then .unrecognised "FIELDTYPE_LOOKUP/KEY_VALUE are not modelled"
  else .unsupported t

/-- pending indirect lookup: (order of the field it depends on, enumeration, index of the indirect field) -/
abbrev Pending := Option (Nat × String × Nat)

def decStmts : Pending → List FieldDef → List DecStmt
  | _, [] => []
  | pend, f :: fs =>
    let pend' : Pending :=
      if f.ftype = "INDIRECT_LOOKUP" then
        match f.indirectOrder, f.indirectEnum with
        | some o, some e => some (o, e, f.order - 1)
        | _, _ => pend
      else pend
    let patch : Option Patch :=
      match pend' with
      | some (o, e, k) => if o = f.order then some ⟨e, k⟩ else none
      | none => none
    { off := f.bitOffset, op := decOp f, fmeta := fieldMeta f, adv := f.bitLength, patch := patch } :: decStmts pend' fs

def compileDec (g : List PgnDef) (p : PgnDef) : DecFn :=
  { name := suffix g p, pgn := p.pgn, id := p.id, desc := p.desc, ttlMs := p.interval, stmts := decStmts none p.fields }

def compileGroupDec (g : List PgnDef) : List DecFn := g.map (compileDec g)

/-! ### dispatchers -/

def condsOf (p : PgnDef) : List Cond :=
  p.fields.filterMap (fun f =>
    match f.matchVal, f.bitOffset, f.bitLength with
    | some m, some o, some l => some ⟨o, 2 ^ l - 1, m⟩
    | _, _, _ => none)

def compileDisp (g : List PgnDef) : Option (String × Disp) :=
  match g with
  | [] => none
  | p0 :: _ =>
    if isComplex g then
      let arms := (g.filter (fun p => !p.fallback)).map (fun p =>
        ({ conds := condsOf p, always := (condsOf p).isEmpty, target := suffix g p } : Arm))
      let fb := ((g.filter (·.fallback)).getLast?).map (suffix g)
      some (toString p0.pgn, { pgn := p0.pgn, arms := arms, fallback := fb })
    else none

/-! ### encoders -/

def encKind (f : FieldDef) (bits : Nat) : EncKind :=
  let t := f.ftype
  if t = "NUMBER" ∨ t = "PGN" then
    match f.resolution with
    | some r => .number bits f.signed r (f.offset.getD (Lit.ofInt 0))
    | none => .unrecognised "database entry lacks Resolution"
  else if t = "RESERVED" then .reserved
  else if t = "FLOAT" then .float
  else if t = "LOOKUP" then
    match f.enum with
    | some e => .lookup e
    | none => .unrecognised "database entry lacks LookupEnumeration"
  else if t = "DATE" then .date bits
  else if t = "TIME" ∨ t = "DURATION" then
    match f.resolution with
    | some r => .time r bits f.signed
    | none => .unrecognised "database entry lacks Resolution"
  else .unsupported t

def encStep (p : PgnDef) (f : FieldDef) : EncStep :=
  match f.bitLength, f.bitOffset with
  | some l, some o => .field (fieldId f) f.name (encKind f l) (2 ^ l - 1) o
  | _, _ => .noLayout p.pgn f.name

def compileEnc (g : List PgnDef) (p : PgnDef) : EncFn :=
  { name := suffix g p, pgn := p.pgn, steps := p.fields.map (encStep p), len := p.length }

def compileGroupEnc (g : List PgnDef) : List EncFn := g.map (compileEnc g)

/-! ### is_fast, lookups -/

def compileFast (g : List PgnDef) : Option FastEntry :=
  match g with
  | [] => none
  | p :: _ => some ⟨p.pgn, if p.ptype = "Fast" then some true else if p.ptype = "Single" then some false else none⟩

def compileRev (t : EnumTable) : RevTable := t.map (fun e => (e.1, e.2.map (fun it => (it.2, it.1))))

end N2k.Spec

namespace N2k.Spec

/-! ### selection of a definition by match fields (the property C08 states) -/

def condHolds (data : Nat) (c : Cond) : Bool := (data >>> c.shift) &&& c.mask = c.value

/-- all match fields of the definition equal the payload's bits at those positions -/
def matchesDef (p : PgnDef) (data : Nat) : Bool := (condsOf p).all (condHolds data)

/-- first non-fallback definition (database order) all of whose match fields equal, otherwise the
PGN's fallback definition if it has one, otherwise none -/
def select (g : List PgnDef) (data : Nat) : Option PgnDef :=
  match (g.filter (fun p => !p.fallback)).find? (fun p => matchesDef p data) with
  | some p => some p
  | none => (g.filter (·.fallback)).getLast?

end N2k.Spec
