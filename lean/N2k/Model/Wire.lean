/-
Gateway wire formats: the four encoders of encoder.py and the five front-ends of
decoder.py, at the level of one CAN frame (identifier + data bytes in wire order).
Binary formats are `List Nat` (bytes), text formats `List Char`.
Header packing/parsing and the USB checksum are the T2 translations (`Gen/Straight`).
Tie for everything else: T3.
Text parsing is modelled on the strict grammar only (hex digits, ASCII space separated
tokens); Python's extra laxness (`0x`, `_`, signs, exotic whitespace) is outside the model.
-/
import N2k.Gen.Straight
namespace N2k.Wire
open N2k.Straight

abbrev Bytes := List Nat

/-- a CAN frame as every front-end hands it to `_decode`. `data` is in wire order. -/
structure Frame where
  pgn : Nat
  prio : Nat
  src : Nat
  dst : Nat
  data : Bytes
deriving DecidableEq, Repr, Inhabited

inductive Res (α : Type) where
  | ok (a : α)
  | none            -- the implementation returns None (ignored packet)
  | error           -- the implementation raises
deriving DecidableEq, Repr, Inhabited

/-! ### integers and bytes -/

def be4 (n : Nat) : Bytes := [n / 16777216 % 256, n / 65536 % 256, n / 256 % 256, n % 256]
def le4 (n : Nat) : Bytes := [n % 256, n / 256 % 256, n / 65536 % 256, n / 16777216 % 256]
def ofBE : Bytes → Nat := List.foldl (fun acc b => acc * 256 + b) 0
def ofLE : Bytes → Nat
  | [] => 0
  | b :: bs => b + 256 * ofLE bs

def frameOfId (id : Nat) (data : Bytes) : Frame :=
  let h := extract_header id
  { pgn := h.1, src := h.2.1, dst := h.2.2.1, prio := h.2.2.2, data := data }

/-! ### EByte / ECAN binary (13 bytes) -/

def encodeEbyte (id : Nat) (data : Bytes) : Bytes :=
  ((data.length % 16) + 128) :: be4 id ++ data ++ List.replicate (8 - data.length) 0

/-- `decode_tcp`: type byte low nibble = length, 4 bytes big-endian id, data. Python slicing
is tolerant, so a short packet yields short slices; only the empty packet raises. -/
def decodeTcp (pkt : Bytes) : Res Frame :=
  match pkt with
  | [] => .error
  | t :: rest =>
    let len := t % 16
    let id := ofBE (rest.take 4)
    .ok (frameOfId id ((rest.drop 4).take len))

/-! ### Waveshare USB binary (20 bytes) -/

def encodeUsb (id : Nat) (data : Bytes) : Bytes :=
  let body := [0xaa, 0x55, 1, 2, 1] ++ le4 id ++ [data.length] ++ data ++ List.replicate (8 - data.length) 0 ++ [0]
  body ++ [checksum body]

def decodeUsb (pkt : Bytes) : Res Frame :=
  match pkt with
  | a :: b :: _ =>
    if a ≠ 0xaa ∨ b ≠ 0x55 then .error
    else if pkt.length ≠ 20 then .none
    else
      let id := ofLE ((pkt.drop 5).take 4)
      if checksum pkt ≠ pkt.getD 19 0 then .none
      else
        let len := pkt.getD 9 0
        .ok (frameOfId id ((pkt.drop 10).take len))
  | _ => .error

/-! ### hex text -/

def hexDigit (n : Nat) : Char := "0123456789ABCDEF".toList.getD n '0'

def hexVal (c : Char) : Option Nat :=
  if '0' ≤ c ∧ c ≤ '9' then some (c.toNat - 48)
  else if 'A' ≤ c ∧ c ≤ 'F' then some (c.toNat - 55)
  else if 'a' ≤ c ∧ c ≤ 'f' then some (c.toNat - 87)
  else none

/-- `f"{n:0kX}"`: at least `k` upper-case hex digits. -/
def toHexAux : Nat → Nat → List Char → List Char
  | 0, _, acc => acc
  | fuel + 1, n, acc => if n < 16 then hexDigit n :: acc else toHexAux fuel (n / 16) (hexDigit (n % 16) :: acc)

def toHex (k n : Nat) : List Char :=
  let s := toHexAux 64 n []
  List.replicate (k - s.length) '0' ++ s

/-- strict `int(s, 16)`: non-empty, hex digits only. -/
def parseHex (s : List Char) : Option Nat :=
  if s.isEmpty then none
  else s.foldl (fun acc c => match acc, hexVal c with
    | some a, some v => some (a * 16 + v)
    | _, _ => none) (some 0)

def byteHex (b : Nat) : List Char := [hexDigit (b / 16 % 16), hexDigit (b % 16)]

/-- split on single spaces, dropping empty tokens (`str.split()` on the strict grammar). -/
def splitSpaces (s : List Char) : List (List Char) :=
  let rec go (cur : List Char) (acc : List (List Char)) : List Char → List (List Char)
    | [] => (if cur.isEmpty then acc else cur.reverse :: acc).reverse
    | c :: cs => if c = ' ' then go [] (if cur.isEmpty then acc else cur.reverse :: acc) cs else go (c :: cur) acc cs
  go [] [] s

def allSome {α} : List (Option α) → Option (List α)
  | [] => some []
  | none :: _ => none
  | some a :: rest => (allSome rest).map (a :: ·)

/-! ### Yacht Devices RAW text -/

/-- `encode_yacht_devices`: `"%08X" id, bytes as 2 hex digits, CR LF`. -/
def encodeYd (id : Nat) (data : Bytes) : List Char :=
  toHex 8 id ++ [' '] ++ (List.intercalate [' '] (data.map byteHex)) ++ ['\r', '\n']

def isDigit (c : Char) : Bool := '0' ≤ c ∧ c ≤ '9'
def parseDec (s : List Char) : Option Nat :=
  if s.isEmpty ∨ ¬ s.all isDigit then none else some (s.foldl (fun a c => a * 10 + (c.toNat - 48)) 0)

def splitOn (sep : Char) (s : List Char) : List (List Char) :=
  let rec go (cur : List Char) (acc : List (List Char)) : List Char → List (List Char)
    | [] => (cur.reverse :: acc).reverse
    | c :: cs => if c = sep then go [] (cur.reverse :: acc) cs else go (c :: cur) acc cs
  go [] [] s

/-- `%H:%M:%S.%f` on the strict grammar: 1–2 digit fields, 1–6 digit fraction. -/
def validHms (s : List Char) : Bool :=
  match splitOn ':' s with
  | [h, m, sf] =>
    match splitOn '.' sf with
    | [sec, fr] =>
      (match parseDec h, parseDec m, parseDec sec, parseDec fr with
       | some hh, some mm, some ss, some _ =>
         h.length ≤ 2 && m.length ≤ 2 && sec.length ≤ 2 && fr.length ≤ 6 && hh < 24 && mm < 60 && ss < 60
       | _, _, _, _ => false)
    | _ => false
  | _ => false

/-- `decode_yacht_devices_string` on a line already stripped of CR LF. -/
def decodeYd (line : List Char) : Res Frame :=
  match splitSpaces line with
  | ts :: dir :: idTok :: b0 :: bs =>
    if dir ≠ ['R'] ∧ dir ≠ ['T'] then .error
    else if ¬ validHms ts then .error
    else match parseHex idTok, allSome ((b0 :: bs).map parseHex) with
      | some id, some data => if data.all (· < 256) then .ok (frameOfId id data) else .error
      | _, _ => .error
  | _ => .error

/-! ### Actisense N2K ASCII -/

/-- `encode_actisense` given the payload bytes (whole message, wire order). -/
def encodeActisense (prio dst src pgn : Nat) (data : Bytes) : List Char :=
  let n := (src % 256) * 4096 + (dst % 256) * 16 + prio % 16
  toHex 5 n ++ [' '] ++ toHex 5 (pgn % 16777216) ++ [' '] ++ (data.map byteHex).flatten

def pairs : List Char → Option (List (List Char))
  | [] => some []
  | [_] => none
  | a :: b :: rest => (pairs rest).map ([a, b] :: ·)

/-- `decode_actisense_string`: `A<sec>.<ms> <hdr hex> <pgn hex> <data hex>`; the frame it
hands on is already combined (whole payload). -/
def decodeActisenseToks (ts hdr pgnTok dataTok : List Char) : Res Frame :=
  match splitOn '.' ts with
  | [sec, ms] =>
    (match parseDec sec, parseDec ms, parseHex hdr, parseHex pgnTok, (pairs dataTok).bind (fun ps => allSome (ps.map parseHex)) with
     | some s, some m, some n, some pgn, some data =>
       if sec.length > 9 ∨ ms.length > 9 then .error   -- outside the modelled grammar (timedelta range)
       else let _ := s; let _ := m
         .ok { pgn := pgn, prio := n % 16, dst := n / 16 % 256, src := n / 4096 % 256, data := data }
     | _, _, _, _, _ => .error)
  | _ => .error

def decodeActisense (line : List Char) : Res Frame :=
  match splitSpaces line with
  | ('A' :: ts) :: hdr :: pgnTok :: dataTok :: _ => decodeActisenseToks ts hdr pgnTok dataTok
  | [('A' :: ts), hdr, pgnTok] => decodeActisenseToks ts hdr pgnTok []      -- no data part: empty payload
  | _ => .error

/-! ### canboat plain text -/

/-- `decode_basic_string` on the strict grammar: `ts,prio,pgn,src,dst,len,b0,b1,...`. The
timestamp is `YYYY-MM-DD-HH:MM:SS.fff` or `YYYY-MM-DDTHH:MM:SS.fffZ` (only its shape is checked). -/
def validStamp (s : List Char) : Bool :=
  let body := if s.getLast? = some 'Z' then s.dropLast else s
  -- date part: 10 chars d4-d2-d2, then '-' or 'T', then time
  let d := body.take 10
  let sep := body.getD 10 ' '
  let t := body.drop 11
  (match splitOn '-' d with
   | [y, m, dd] => (match parseDec y, parseDec m, parseDec dd with
      | some yy, some mm, some dv => y.length = 4 && m.length = 2 && dd.length = 2 && 1 ≤ yy && 1 ≤ mm && mm ≤ 12 && 1 ≤ dv && dv ≤ 28
      | _, _, _ => false)
   | _ => false)
  && (if s.getLast? = some 'Z' then sep = 'T' else sep = '-') && validHms t

def decodeBasic (line : List Char) : Res Frame :=
  match splitOn ',' line with
  | ts :: p :: g :: s :: d :: l :: rest =>
    if rest.isEmpty then .error
    else if ¬ validStamp ts then .error
    else match parseDec p, parseDec g, parseDec s, parseDec d, parseDec l with
      | some prio, some pgn, some src, some dst, some len =>
        (match allSome ((rest.take len).map parseHex) with
         | some data => if data.all (· < 256) then .ok { pgn := pgn, prio := prio, src := src, dst := dst, data := data } else .error
         | none => .error)
      | _, _, _, _, _ => .error
  | _ => .error

end N2k.Wire
