/-
`NMEA2000Encoder` (encoder.py) at the level of one message: `_encode` (range checks, the per-definition
encoder looked up by PGN and then by PGN + id, single frame or fast-packet split, sequence counter) and the
four public `encode_*` functions that wrap the frames into gateway packets.
The generated layer is a parameter (`EncLayer`), instantiated with the T1 tables (`mkEncLayer`).
Header packing and the USB checksum are the T2 translations.  Tie for the rest: T3 (`encoder-messages`).
Not modelled: negative addressing values (Nat), payloads longer than 223 bytes for fast PGNs (`none`
= the driver says "unmodelled"; no encodable definition has one).
-/
import N2k.Model.Layer
import N2k.Model.Wire
namespace N2k.Enc
open N2k N2k.Dec N2k.Straight

abbrev Bytes := List Nat

structure MsgIn where
  pgn : Nat
  id : String
  prio : Nat
  src : Nat
  dst : Nat
  fields : List Field

structure EncLayer where
  isFast : Nat → FastKind
  /-- `encode_pgn_<pgn>` or else `encode_pgn_<pgn>_<id>`; `none`: neither exists -/
  payload : Nat → String → List Field → Option (Except EncErr Bytes)

def encFnFor (fns : List EncFn) (pgn : Nat) (id : String) : Option EncFn :=
  match findEnc fns (toString pgn) with
  | some f => some f
  | none => findEnc fns (toString pgn ++ "_" ++ id)

def mkEncLayer (env : Env) (encFns : List EncFn) (fasts : List FastEntry) : EncLayer where
  isFast := fastKindOf fasts
  payload := fun pgn id fs => (encFnFor encFns pgn id).map (fun fn => runEnc env fn fs)

inductive Res (α : Type) where
  | ok (a : α)
  | raised             -- the call raises (ValueError or anything else)
  | unmodelled
deriving Repr

/-- `_call_encode_function` -/
def callEncode (L : EncLayer) (m : MsgIn) : Res Bytes :=
  match L.payload m.pgn m.id m.fields with
  | none => .raised
  | some (.error _) => .raised
  | some (.ok b) => .ok b

/-- `_encode`: the frames (payload-level, before the gateway wrapping) and the sequence counter afterwards -/
def encodeFrames (L : EncLayer) (seq : Nat) (m : MsgIn) : Res (Nat × List Bytes) :=
  if 7 < m.prio ∨ 255 < m.src ∨ 0x3FFFF < m.pgn ∨ 255 < m.dst then .raised
  else
    match callEncode L m with
    | .raised => .raised
    | .unmodelled => .unmodelled
    | .ok b =>
      match L.isFast m.pgn with
      | .raises => .raised
      | .fast => if 223 < b.length then .unmodelled else .ok ((seq + 1) % 8, Fast.frames seq b)
      | .single | .unknown => .ok (seq, [b])

def frameId (m : MsgIn) : Nat := build_header m.pgn m.src m.dst m.prio

/-- `encode_ebyte`: `bytes(8 - len(frame))` raises for a frame longer than 8 bytes -/
def encodeEbyte (L : EncLayer) (seq : Nat) (m : MsgIn) : Res (Nat × List Bytes) :=
  match encodeFrames L seq m with
  | .ok (s, frs) => if frs.any (fun f => 8 < f.length) then .raised else .ok (s, frs.map (Wire.encodeEbyte (frameId m)))
  | .raised => .raised
  | .unmodelled => .unmodelled

/-- `encode_usb`: a frame longer than 8 bytes is not padded (and gives a packet longer than 20 bytes) -/
def encodeUsb (L : EncLayer) (seq : Nat) (m : MsgIn) : Res (Nat × List Bytes) :=
  match encodeFrames L seq m with
  | .ok (s, frs) => .ok (s, frs.map (Wire.encodeUsb (frameId m)))
  | .raised => .raised
  | .unmodelled => .unmodelled

def encodeYd (L : EncLayer) (seq : Nat) (m : MsgIn) : Res (Nat × List (List Char)) :=
  match encodeFrames L seq m with
  | .ok (s, frs) => .ok (s, frs.map (Wire.encodeYd (frameId m)))
  | .raised => .raised
  | .unmodelled => .unmodelled

/-- `encode_actisense`: the same addressing checks as the other formats (`_check_header`), then the whole payload in one
line; no sequence counter -/
def encodeActisense (L : EncLayer) (m : MsgIn) : Res (List Char) :=
  if 7 < m.prio ∨ 255 < m.src ∨ 0x3FFFF < m.pgn ∨ 255 < m.dst then .raised
  else
    match callEncode L m with
    | .ok b => .ok (Wire.encodeActisense m.prio m.dst m.src m.pgn b)
    | .raised => .raised
    | .unmodelled => .unmodelled

end N2k.Enc
