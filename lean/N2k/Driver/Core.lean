/- line-protocol driver: one request per line, one response per line. -/
import N2k.Driver.Util
import N2k.Gen.Straight
import N2k.Model.Fast
import N2k.Model.FastKeyed
import N2k.Model.Wire
import N2k.Model.Serial
namespace N2k.Driver
open N2k

def showFrameRes : Wire.Res Wire.Frame → String
  | .ok f => s!"ok {f.pgn} {f.prio} {f.src} {f.dst} {bytesToHex f.data}"
  | .none => "none"
  | .error => "error"

def showFastOut : Fast.Out → String
  | .ignored => "ignored"
  | .stored => "stored"
  | .complete p => s!"complete:{bytesToHex p}"
  | .error => "error"

def showRec : Option Fast.Rec → String
  | none => "norec"
  | some x => s!"rec:{x.len}:{x.seq}:{x.stored}:{x.frames.length}"

def showFastObs : Fast.Out → String
  | .ignored => "none"
  | .stored => "none"
  | .complete p => s!"complete:{bytesToHex p}"
  | .error => "error"

/-- per step: observable result and the record left behind (as `Fast.run` threads it) -/
def fastTrace (r : Option Fast.Rec) : List (List Nat) → List String
  | [] => []
  | f :: fs =>
    let (r1, o) := Fast.step r f
    let r2 := match o with | .complete _ => none | _ => r1
    s!"{showFastObs o}/{showRec r2}" :: fastTrace r2 fs

def fastTraceK (t : Fast.Table) : List (Fast.Key × List Nat) → List String
  | [] => []
  | (k, f) :: h =>
    let (t1, o) := Fast.stepK t k f
    s!"{showFastObs o}/{showRec (Fast.lookup t1 k)}/{t1.length}" :: fastTraceK t1 h

def serialTrace (b : List Nat) : List (List Nat) → List String
  | [] => []
  | d :: ds =>
    let (b', pk) := Serial.feed b d
    s!"{bytesToHex b'}/{";".intercalate (pk.map bytesToHex)}" :: serialTrace b' ds

def allSomeL {α} : List (Option α) → Option (List α)
  | [] => some []
  | none :: _ => none
  | some a :: rest => (allSomeL rest).map (a :: ·)

def handleBasic (toks : List String) : Option String :=
  match toks with
  | ["hdr.parse", id] => do
    let n ← parseNat? id
    let h := Straight.extract_header n
    pure s!"{h.1} {h.2.1} {h.2.2.1} {h.2.2.2}"
  | ["hdr.build", pgn, src, dst, prio] => do
    pure s!"{Straight.build_header (← parseNat? pgn) (← parseNat? src) (← parseNat? dst) (← parseNat? prio)}"
  | ["decint", d, o, l] => do
    pure s!"{Straight.decode_int (← parseNat? d) (← parseNat? o) (← parseNat? l)}"
  | ["cksum", h] => do
    pure s!"{Straight.checksum (← hexToBytes h)}"
  | ["fast.enc", seq, h] => do
    let (fs, s') := Fast.encode (← parseNat? seq) (← hexToBytes h)
    pure s!"{s'} {",".intercalate (fs.map bytesToHex)}"
  | ["fast.run", fs] => do
    let frames ← allSomeL ((splitList fs ",").map hexToBytes)
    pure (",".intercalate (fastTrace none frames))
  | ["fast.runk", h] => do
    -- history of key:framehex items; key is any token without ':' or ','
    let items ← allSomeL ((splitList h ",").map fun it =>
      match it.splitOn ":" with
      | [k, f] => (hexToBytes f).bind fun fb => (k.toNat?).map fun kn => (((kn, 0, 0) : Fast.Key), fb)
      | _ => none)
    pure (",".intercalate (fastTraceK [] items))
  | ["wire.enc.ebyte", id, h] => do pure (bytesToHex (Wire.encodeEbyte (← parseNat? id) (← hexToBytes h)))
  | ["wire.enc.usb", id, h] => do pure (bytesToHex (Wire.encodeUsb (← parseNat? id) (← hexToBytes h)))
  | ["wire.enc.yd", id, h] => do pure (bytesToHex (charsToBytes (Wire.encodeYd (← parseNat? id) (← hexToBytes h))))
  | ["wire.enc.acti", prio, dst, src, pgn, h] => do
    pure (bytesToHex (charsToBytes (Wire.encodeActisense (← parseNat? prio) (← parseNat? dst) (← parseNat? src) (← parseNat? pgn) (← hexToBytes h))))
  | ["wire.encm.ebyte", pgn, src, dst, prio, h] => do
    pure (bytesToHex (Wire.encodeEbyte (Straight.build_header (← parseNat? pgn) (← parseNat? src) (← parseNat? dst) (← parseNat? prio)) (← hexToBytes h)))
  | ["wire.encm.usb", pgn, src, dst, prio, h] => do
    pure (bytesToHex (Wire.encodeUsb (Straight.build_header (← parseNat? pgn) (← parseNat? src) (← parseNat? dst) (← parseNat? prio)) (← hexToBytes h)))
  | ["wire.encm.yd", pgn, src, dst, prio, h] => do
    pure (bytesToHex (charsToBytes (Wire.encodeYd (Straight.build_header (← parseNat? pgn) (← parseNat? src) (← parseNat? dst) (← parseNat? prio)) (← hexToBytes h))))
  | ["wire.dec.tcp", h] => do pure (showFrameRes (Wire.decodeTcp (← hexToBytes h)))
  | ["wire.dec.usb", h] => do pure (showFrameRes (Wire.decodeUsb (← hexToBytes h)))
  | ["wire.dec.yd", h] => do pure (showFrameRes (Wire.decodeYd (bytesToChars (← hexToBytes h))))
  | ["wire.dec.acti", h] => do pure (showFrameRes (Wire.decodeActisense (bytesToChars (← hexToBytes h))))
  | ["wire.dec.basic", h] => do pure (showFrameRes (Wire.decodeBasic (bytesToChars (← hexToBytes h))))
  | ["serial.trace", reads] => do
    let rs ← allSomeL ((splitList reads ",").map hexToBytes)
    pure (",".intercalate (serialTrace [] rs))
  | ["serial.feedall", buf, reads] => do
    let b ← hexToBytes buf
    let rs ← allSomeL ((splitList reads ",").map hexToBytes)
    let (b', pk) := Serial.feedAll b rs
    pure s!"{bytesToHex b'} {",".intercalate (pk.map bytesToHex)}"
  | _ => none

end N2k.Driver
