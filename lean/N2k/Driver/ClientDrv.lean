/- driver commands for the client LTS -/
import N2k.Driver.Util
import N2k.Model.Client
import N2k.Model.Reader
namespace N2k.Driver
open N2k.Client

def parseCSt? : String → Option CSt
  | "DISCONNECTED" => some .disconnected
  | "CONNECTED" => some .connected
  | "CLOSED" => some .closed
  | _ => none

def showCSt : CSt → String
  | .disconnected => "DISCONNECTED" | .connected => "CONNECTED" | .closed => "CLOSED"

/-- one event, tokens separated by '_' -/
def parseEv? (s : String) : Option Ev :=
  match s.splitOn "_" with
  | ["connCall"] => some .connCall
  | ["connReturn"] => some .connReturn
  | ["implStart", _] => some .implStart
  | ["implFail"] => some .implFail
  | ["implOk", c] => c.toNat?.map Ev.implOk
  | ["sleep", d] => d.toNat?.map Ev.sleep
  | ["status", t] => (parseCSt? t).map Ev.status
  | ["recvStart", c] => c.toNat?.map Ev.recvStart
  | ["recvIter", c, p] => c.toNat?.map (fun n => Ev.recvIter n (p = "1"))
  | ["recvExit", c, how] => c.toNat?.map (fun n => Ev.recvExit n (how = "cancelled"))
  | ["cb", n] => n.toNat?.map Ev.cb
  | ["sendCall", i] => i.toNat?.map Ev.sendCall
  | ["sendBad", i] => i.toNat?.map Ev.sendBad
  | ["write", c, i, k] => do pure (Ev.write (← c.toNat?) (← i.toNat?) (← k.toNat?))
  | ["writeFail", c, i] => do pure (Ev.writeFail (← c.toNat?) (← i.toNat?))
  | ["drainFail", c] => c.toNat?.map Ev.drainFail
  | ["sendReturn", i] => i.toNat?.map Ev.sendReturn
  | ["closeCall"] => some .closeCall
  | ["closeCallInRecv"] => some .closeCallInRecv
  | ["closeCallInReconn"] => some .closeCallInReconn
  | ["connCallInRecv"] => some .connCallInRecv
  | ["abandon", c] => c.toNat?.map .abandon
  | ["connGiveUp", c] => c.toNat?.map .connGiveUp
  | ["connCancel"] => some .connCancel
  | ["reconnStart"] => some .reconnStart
  | ["reconnEnd"] => some .reconnEnd
  | ["reconnCall"] => some .reconnCall
  | ["reconnSleep", n] => n.toNat?.map .reconnSleep
  | ["writerClose", c] => c.toNat?.map Ev.writerClose
  | ["closeReturn"] => some .closeReturn
  | ["closeAbort"] => some .closeAbort
  | ["cfgWrite", c] => c.toNat?.map Ev.cfgWrite
  | ["cfgFail", c] => c.toNat?.map Ev.cfgFail
  | ["envFeed", c] => c.toNat?.map Ev.envFeed
  | ["envEof", c] => c.toNat?.map Ev.envEof
  | ["envReadErr", c] => c.toNat?.map Ev.envReadErr
  | _ => none

def showOptNat : Option Nat → String
  | none => "-" | some n => toString n

def handleClient (toks : List String) : Option String :=
  match toks with
  | ["client.run", evs] => do
    let es ← (splitList evs ",").mapM parseEv?
    match firstReject init es 0 with
    | some i => pure s!"rejected {i}"
    | none =>
      match runTrace init es with
      | some s =>
        let wire := ",".intercalate (s.wire.map fun w => s!"{w.1}:{w.2.1}:{w.2.2}")
        pure s!"accepted st={showCSt s.st} recv={showOptNat s.recv} cb={s.cbCount} status={",".intercalate (s.statusLog.map showCSt)} wire={wire}"
      | none => pure "rejected ?"
  | ["reader.feed13", reads] => do
    let rs ← (splitList reads ",").mapM hexToBytes
    let (b, pk) := Reader.feedAll Reader.feed13 [] rs
    pure s!"{bytesToHex b} {",".intercalate (pk.map bytesToHex)}"
  | ["reader.lines", reads] => do
    let rs ← (splitList reads ",").mapM hexToBytes
    let (b, pk) := Reader.feedAll Reader.feedLines [] rs
    pure s!"{bytesToHex b} {",".intercalate (pk.map bytesToHex)}"
  | ["reader.linesLim", limit, reads] => do
    let rs ← (splitList reads ",").mapM hexToBytes
    let lim ← limit.toNat?
    let (st, pk) := Reader.feedAllLim lim {} rs
    pure s!"{bytesToHex st.buf}/{if st.skip then 1 else 0} {",".intercalate (pk.map bytesToHex)}"
  | ["queue.run", evs] => do
    let es ← (if evs = "-" then [] else splitList evs ",").mapM (fun t => match t.splitOn "_" with
      | ["put", n] => n.toNat?.map QEv.put
      | ["cbStart", n] => n.toNat?.map QEv.cbStart
      | ["cbEnd", r] => some (QEv.cbEnd (r = "1"))
      | _ => none)
    match qrun {} es with
    | some s => pure s!"accepted delivered={",".intercalate (s.delivered.map toString)} queued={s.queue.length}"
    | none => pure "rejected"
  | ["client.backoff", k] => do pure (toString (backoff (← k.toNat?)))
  | _ => none

end N2k.Driver
