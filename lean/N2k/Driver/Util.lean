/- helpers for the line-protocol driver (parsing/printing). Not part of any theorem. -/
import N2k.Model.Num
namespace N2k.Driver

def hexNib (c : Char) : Option Nat :=
  if '0' ≤ c ∧ c ≤ '9' then some (c.toNat - 48)
  else if 'a' ≤ c ∧ c ≤ 'f' then some (c.toNat - 87)
  else if 'A' ≤ c ∧ c ≤ 'F' then some (c.toNat - 55)
  else none

partial def hexToBytesAux : List Char → List Nat → Option (List Nat)
  | [], acc => some acc.reverse
  | [_], _ => none
  | a :: b :: rest, acc =>
    match hexNib a, hexNib b with
    | some x, some y => hexToBytesAux rest ((x * 16 + y) :: acc)
    | _, _ => none

/-- "-" denotes the empty byte string -/
def hexToBytes (s : String) : Option (List Nat) :=
  if s = "-" then some [] else hexToBytesAux s.toList []

def nibChar (n : Nat) : Char := "0123456789abcdef".toList.getD n '0'
def bytesToHex (b : List Nat) : String :=
  if b.isEmpty then "-" else String.ofList (b.flatMap fun x => [nibChar (x / 16 % 16), nibChar (x % 16)])

def bytesToChars (b : List Nat) : List Char := b.map Char.ofNat
def charsToBytes (c : List Char) : List Nat := c.map Char.toNat

def parseInt? (s : String) : Option Int := s.toInt?
def parseNat? (s : String) : Option Nat := s.toNat?

def ratToString (q : Rat) : String := s!"{q.num}/{q.den}"

/-- `n/d` or integer -/
def parseRat? (s : String) : Option Rat :=
  match s.splitOn "/" with
  | [a] => a.toInt?.map (fun z => (z : Rat))
  | [a, b] => match a.toInt?, b.toNat? with
    | some n, some d => if d = 0 then none else some ((n : Rat) / (d : Rat))
    | _, _ => none
  | _ => none

/-- literal `i:<int>` or `f:<mantissa>:<exp10>` -/
def parseLit? (s : String) : Option Lit :=
  match s.splitOn ":" with
  | ["i", z] => z.toInt?.map Lit.ofInt
  | ["f", m, e] => match m.toInt?, e.toInt? with
    | some mm, some ee => some ⟨mm, ee, true⟩
    | _, _ => none
  | _ => none

def numToString : Num → String
  | .int z => s!"int:{z}"
  | .flt q => s!"flt:{ratToString q}"

def parseNum? (s : String) : Option Num :=
  match s.splitOn ":" with
  | ["int", z] => z.toInt?.map Num.int
  | ["flt", q] => (parseRat? q).map Num.flt
  | _ => none

def splitList (s : String) (sep : String) : List String :=
  if s = "" then [] else s.splitOn sep

end N2k.Driver
