import N2k.Driver.Core
import N2k.Driver.Pgn
open N2k.Driver

partial def loop (h : IO.FS.Stream) (out : IO.FS.Stream) : IO Unit := do
  let line ← h.getLine
  if line.isEmpty then return ()
  let toks := (line.trimAscii.toString.splitOn " ").filter (· ≠ "")
  let resp := match handleBasic toks with
    | some r => r
    | none => match handlePgn toks with
      | some r => r
      | none => "bad-op"
  out.putStrLn resp
  loop h out

def main : IO Unit := do
  let stdin ← IO.getStdin
  let stdout ← IO.getStdout
  loop stdin stdout
