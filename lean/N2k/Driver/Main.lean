import N2k.Driver.Core
import N2k.Driver.Pgn
import N2k.Driver.Dec
import N2k.Driver.ClientDrv
import N2k.Driver.JsonDrv
open N2k.Driver

partial def loop (h : IO.FS.Stream) (out : IO.FS.Stream) (insts : DecInsts) : IO Unit := do
  let line ← h.getLine
  if line.isEmpty then return ()
  let toks := (line.trimAscii.toString.splitOn " ").filter (· ≠ "")
  let (insts', resp) := match handleBasic toks with
    | some r => (insts, r)
    | none => match handlePgn toks with
      | some r => (insts, r)
      | none => match handleDec insts toks with
        | some (i', r) => (i', r)
        | none => match handleClient toks with
          | some r => (insts, r)
          | none => match handleJson insts toks with
            | some (i', r) => (i', r)
            | none => (insts, "bad-op")
  out.putStrLn resp
  loop h out insts'

def main : IO Unit := do
  let stdin ← IO.getStdin
  let stdout ← IO.getStdout
  loop stdin stdout []
