/- driver commands for the decoder model (instances keep their state between lines) -/
import N2k.Driver.Pgn
import N2k.Model.Decoder
import N2k.Model.Layer
import N2k.Model.Encoder
namespace N2k.Driver
open N2k N2k.Dec

def genLayer : GenLayer := mkLayer genEnv Gen.decFns Gen.disps Gen.fasts

def genEncLayer : Enc.EncLayer := Enc.mkEncLayer genEnv Gen.encFns Gen.fasts

def showEncRes {α} (f : α → String) : Enc.Res (Nat × List α) → String
  | .ok (s, ps) => s!"ok {s} {",".intercalate (ps.map f)}"
  | .raised => "raised"
  | .unmodelled => "unmodelled"

def charsHex (cs : List Char) : String := bytesToHex (cs.map (·.toNat))

/-- `encm <fmt> <seq> <pgn> <idhex> <prio> <src> <dst> <fieldspec>` -/
def handleEncMsg (toks : List String) : Option String :=
  match toks with
  | ["encm", fmt, seq, pgn, idh, prio, src, dst, spec] => do
    let idb ← hexToBytes idh
    let m : Enc.MsgIn := { pgn := ← parseNat? pgn, id := String.ofList (idb.map Char.ofNat), prio := ← parseNat? prio,
                           src := ← parseNat? src, dst := ← parseNat? dst, fields := ← parseFieldSpec spec }
    let s ← parseNat? seq
    match fmt with
    | "frames" => pure (showEncRes bytesToHex (Enc.encodeFrames genEncLayer s m))
    | "ebyte" => pure (showEncRes bytesToHex (Enc.encodeEbyte genEncLayer s m))
    | "usb" => pure (showEncRes bytesToHex (Enc.encodeUsb genEncLayer s m))
    | "yd" => pure (showEncRes charsHex (Enc.encodeYd genEncLayer s m))
    | "actisense" => pure (match Enc.encodeActisense genEncLayer m with
        | .ok l => s!"ok {s} {charsHex l}" | .raised => "raised" | .unmodelled => "unmodelled")
    | _ => none
  | _ => none

def parseRef? (s : String) : Option PgnRef :=
  match s.toList with
  | 'n' :: r => (String.ofList r).toNat?.map PgnRef.num
  | 's' :: r => (hexToBytes (String.ofList r)).map (fun b => PgnRef.id (String.ofList (b.map Char.ofNat)))
  | _ => none

def parseRefs? (s : String) : Option (List PgnRef) := (splitList s ",").mapM parseRef?
def parseStrs? (s : String) : Option (List String) :=
  (splitList s ",").mapM (fun h => (hexToBytes h).map (fun b => String.ofList (b.map Char.ofNat)))

/-- `ex=..;in=..;exm=..;inm=..;units=PQ:unithex,..;dump=0;dumppgns=..;map=0` -/
def parseCfg? (s : String) : Option UserConfig := do
  let kv ← (s.splitOn ";").mapM (fun it => match it.splitOn "=" with | [k, v] => some (k, v) | _ => none)
  let get (k : String) : String := (kv.find? (·.1 = k)).map (·.2) |>.getD ""
  let units ← (splitList (get "units") ",").mapM (fun it => match it.splitOn ":" with
    | [pq, u] => (hexToBytes u).map (fun b => (pq, String.ofList (b.map Char.ofNat)))
    | _ => none)
  pure { excludePgns := ← parseRefs? (get "ex"), includePgns := ← parseRefs? (get "in"),
         excludeManu := ← parseStrs? (get "exm"), includeManu := ← parseStrs? (get "inm"),
         units := units, dumpOn := get "dump" = "1", dumpPgns := ← parseRefs? (get "dumppgns"),
         buildMap := get "map" = "1" }

def optCodes : Option (List Nat) → String
  | none => "N"
  | some cs => "s" ++ bytesToHex cs

def showIso : Option IsoName → String
  | none => "N"
  | some n => s!"{n.uniqueNumber},{optCodes n.manufacturer},{n.deviceInstance},{optCodes n.deviceFunction},{optCodes n.deviceClass},{n.systemInstance},{optCodes n.industryGroup},{if n.arbitrary then 1 else 0},{n.name}"

def showOutMsg (o : OutMsg) : String :=
  let hk := match o.hashKey with | none => "N" | some k => "k" ++ utf8Hex k
  let fs := ";".intercalate (o.msg.fields.map fun f => showVal f.value ++ "|" ++ showVal f.raw ++ "|" ++ optHex f.fmeta.unit)
  s!"msg {utf8Hex o.msg.id} {o.src} {o.dst} {o.prio} iso={showIso o.iso} hk={hk} {fs}"

def showOut : Out → String
  | .none => "none"
  | .raised => "raised"
  | .msg o => showOutMsg o

structure DecInst where
  cfg : Config
  st : State

abbrev DecInsts := List (String × DecInst)

def handleDec (insts : DecInsts) (toks : List String) : Option (DecInsts × String) :=
  match handleEncMsg toks with
  | some r => some (insts, r)
  | none =>
  match toks with
  | ["dec.new", name, cfgs] => do
    let u ← parseCfg? cfgs
    match mkConfig u with
    | none => pure (insts, "valueerror")
    | some c => pure ((name, { cfg := c, st := {} }) :: insts.filter (·.1 ≠ name), "ok")
  | ["dec.feed", name, pgn, prio, src, dst, h, comb, win] => do
    let i : Input := { pgn := ← parseNat? pgn, prio := ← parseNat? prio, src := ← parseNat? src, dst := ← parseNat? dst,
                       data := ← hexToBytes h, combined := comb = "1", inWindow := win = "1" }
    match insts.find? (·.1 = name) with
    | none => pure (insts, "noinst")
    | some (_, d) =>
      let (st', o) := step genLayer d.cfg d.st i
      pure ((name, { d with st := st' }) :: insts.filter (·.1 ≠ name), s!"{showOut o} #{st'.dump.length}")
  | ["dec.state", name] =>
    match insts.find? (·.1 = name) with
    | none => some (insts, "noinst")
    | some (_, d) =>
      let srcs := (d.st.sources.map (fun p => s!"{p.1}:{p.2.name}"))
      let sorted := srcs.toArray.qsort (· < ·) |>.toList
      some (insts, s!"records={d.st.table.length} sources={",".intercalate sorted} dump={d.st.dump.length}")
  | _ => none

end N2k.Driver
