/- driver commands for the decoder model (instances keep their state between lines) -/
import N2k.Driver.Pgn
import N2k.Model.Decoder
import N2k.Model.Layer
namespace N2k.Driver
open N2k N2k.Dec

def genLayer : GenLayer := mkLayer genEnv Gen.decFns Gen.disps Gen.fasts

def parseRef? (s : String) : Option PgnRef :=
  match s.toList with
  | 'n' :: r => (String.ofList r).toNat?.map PgnRef.num
  | 's' :: r => (hexToBytes (String.ofList r)).map (fun b => PgnRef.id (String.ofList (b.map Char.ofNat)))
  | _ => none

def parseRefs? (s : String) : Option (List PgnRef) := (splitList s ",").mapM parseRef?
def parseStrs? (s : String) : Option (List String) :=
  (splitList s ",").mapM (fun h => (hexToBytes h).map (fun b => String.ofList (b.map Char.ofNat)))

/-- `ex=..;in=..;exm=..;inm=..;units=PQ:unithex,..;dump=0;dumppgns=..;map=0` -/
def parseCfg? (s : String) : Option UserConfig := do
  let kv ← (s.splitOn ";").mapM (fun it => match it.splitOn "=" with | [k, v] => some (k, v) | _ => none)
  let get (k : String) : String := (kv.find? (·.1 = k)).map (·.2) |>.getD ""
  let units ← (splitList (get "units") ",").mapM (fun it => match it.splitOn ":" with
    | [pq, u] => (hexToBytes u).map (fun b => (pq, String.ofList (b.map Char.ofNat)))
    | _ => none)
  pure { excludePgns := ← parseRefs? (get "ex"), includePgns := ← parseRefs? (get "in"),
         excludeManu := ← parseStrs? (get "exm"), includeManu := ← parseStrs? (get "inm"),
         units := units, dumpOn := get "dump" = "1", dumpPgns := ← parseRefs? (get "dumppgns"),
         buildMap := get "map" = "1" }

def optCodes : Option (List Nat) → String
  | none => "N"
  | some cs => "s" ++ bytesToHex cs

def showIso : Option IsoName → String
  | none => "N"
  | some n => s!"{n.uniqueNumber},{optCodes n.manufacturer},{n.deviceInstance},{optCodes n.deviceFunction},{optCodes n.deviceClass},{n.systemInstance},{optCodes n.industryGroup},{if n.arbitrary then 1 else 0},{n.name}"

def showOutMsg (o : OutMsg) : String :=
  let hk := match o.hashKey with | none => "N" | some k => "k" ++ utf8Hex k
  let fs := ";".intercalate (o.msg.fields.map fun f => showVal f.value ++ "|" ++ showVal f.raw ++ "|" ++ optHex f.fmeta.unit)
  s!"msg {utf8Hex o.msg.id} {o.src} {o.dst} {o.prio} iso={showIso o.iso} hk={hk} {fs}"

def showOut : Out → String
  | .none => "none"
  | .raised => "raised"
  | .msg o => showOutMsg o

structure DecInst where
  cfg : Config
  st : State

abbrev DecInsts := List (String × DecInst)

def handleDec (insts : DecInsts) (toks : List String) : Option (DecInsts × String) :=
  match toks with
  | ["dec.new", name, cfgs] => do
    let u ← parseCfg? cfgs
    match mkConfig u with
    | none => pure (insts, "valueerror")
    | some c => pure ((name, { cfg := c, st := {} }) :: insts.filter (·.1 ≠ name), "ok")
  | ["dec.feed", name, pgn, prio, src, dst, h, comb, win] => do
    let i : Input := { pgn := ← parseNat? pgn, prio := ← parseNat? prio, src := ← parseNat? src, dst := ← parseNat? dst,
                       data := ← hexToBytes h, combined := comb = "1", inWindow := win = "1" }
    match insts.find? (·.1 = name) with
    | none => pure (insts, "noinst")
    | some (_, d) =>
      let (st', o) := step genLayer d.cfg d.st i
      pure ((name, { d with st := st' }) :: insts.filter (·.1 ≠ name), s!"{showOut o} #{st'.dump.length}")
  | ["dec.state", name] =>
    match insts.find? (·.1 = name) with
    | none => some (insts, "noinst")
    | some (_, d) =>
      let srcs := (d.st.sources.map (fun p => s!"{p.1}:{p.2.name}"))
      let sorted := srcs.toArray.qsort (· < ·) |>.toList
      some (insts, s!"records={d.st.table.length} sources={",".intercalate sorted} dump={d.st.dump.length}")
  | _ => none

end N2k.Driver
