/- driver commands for the generated-code interpreter (tables from N2k.Gen.All) -/
import N2k.Driver.Util
import N2k.Gen.All
import N2k.Model.Interp
namespace N2k.Driver
open N2k

def genEnv : Env := ⟨Gen.masterDict, Gen.masterFlagsDict, Gen.masterIndirectDict, Gen.revDicts⟩

def utf8Hex (s : String) : String := bytesToHex (s.toUTF8.toList.map (·.toNat))
def optHex : Option String → String
  | none => "N"
  | some s => "S" ++ utf8Hex s

def showVal : PyVal → String
  | .none => "N"
  | .int z => s!"i{z}"
  | .flt q => s!"f{q.num}/{q.den}"
  | .nan => "nan"
  | .inf neg => if neg then "inf-" else "inf+"
  | .str cs => "s" ++ bytesToHex cs
  | .strOpaque => "S?"
  | .bytes b => "b" ++ bytesToHex b
  | .date d => s!"d{d}"
  | .time s => s!"t{s}"

def parseVal? (s : String) : Option PyVal :=
  if s = "N" then some .none
  else if s = "nan" then some .nan
  else if s = "inf+" then some (.inf false)
  else if s = "inf-" then some (.inf true)
  else if s = "S?" then some .strOpaque
  else match s.toList with
    | 'i' :: r => (String.ofList r).toInt?.map PyVal.int
    | 'f' :: r => (parseRat? (String.ofList r)).map PyVal.flt
    | 's' :: r => (hexToBytes (String.ofList r)).map PyVal.str
    | 'b' :: r => (hexToBytes (String.ofList r)).map PyVal.bytes
    | 'd' :: r => (String.ofList r).toInt?.map PyVal.date
    | 't' :: r => (String.ofList r).toNat?.map PyVal.time
    | _ => none

def showDecErr : DecErr → String
  | .below => "below" | .above => "above" | .unsupported => "unsupported" | .assertion => "assertion"
  | .key => "key" | .overflow => "overflow" | .malformed w => "malformed:" ++ utf8Hex w

def showEncErr : EncErr → String
  | .range => "range" | .missing => "missing" | .type_ => "type" | .notFinite => "notfinite"
  | .lookupName => "lookupname" | .unsupported => "unsupported" | .overflow => "overflow"
  | .malformed w => "malformed:" ++ utf8Hex w

def showFields (fs : List Field) : String :=
  ";".intercalate (fs.map fun f => showVal f.value ++ "|" ++ showVal f.raw)

def showMeta (m : FieldMeta) : String :=
  ",".intercalate [utf8Hex m.id, utf8Hex m.name, optHex m.desc, optHex m.unit, optHex m.pq, utf8Hex m.ftype, if m.pk then "1" else "0"]

def showDecRes : Except DecErr Msg → String
  | .ok m => "ok " ++ showFields m.fields
  | .error e => "err " ++ showDecErr e

def parseFieldSpec (s : String) : Option (List Field) :=
  (if s = "-" then [] else splitList s ";").mapM fun it =>
    match it.splitOn "=" with
    | [idh, vr] =>
      match vr.splitOn "|" with
      | [v, r] => do
        let idb ← hexToBytes idh
        let id := String.ofList (idb.map Char.ofNat)
        pure { fmeta := ⟨id, "", none, none, none, "", false⟩, value := ← parseVal? v, raw := ← parseVal? r }
      | _ => none
    | _ => none

def handlePgn (toks : List String) : Option String :=
  match toks with
  | ["dec", name, p] => do
    let n ← parseNat? p
    match findDec Gen.decFns name with
    | some fn => pure (showDecRes (runDec genEnv fn n))
    | none => pure "nofn"
  | ["decpgn", pgn, p] => do
    let n ← parseNat? p
    match decodePgn genEnv Gen.decFns Gen.disps (← parseNat? pgn) n with
    | none => pure "none"
    | some (.ok m) => pure s!"ok {utf8Hex m.id} {showFields m.fields}"
    | some (.error e) => pure ("err " ++ showDecErr e)
  | ["meta", name] =>
    match findDec Gen.decFns name with
    | some fn =>
      let t := match fn.ttlMs with | some x => toString x | none => "N"
      pure s!"{fn.pgn} {utf8Hex fn.id} {utf8Hex fn.desc} {t} {";".intercalate (fn.stmts.map (showMeta ·.fmeta))}"
    | none => pure "nofn"
  | ["enc", name, spec] => do
    let fs ← parseFieldSpec spec
    match findEnc Gen.encFns name with
    | some fn =>
      match runEnc genEnv fn fs with
      | .ok b => pure ("ok " ++ bytesToHex b)
      | .error e => pure ("err " ++ showEncErr e)
    | none => pure "nofn"
  | ["isfast", pgn] => do
    let n ← parseNat? pgn
    match (Gen.fasts.filter (·.pgn = n)).getLast? with
    | some e => pure (match e.fast with | some true => "true" | some false => "false" | none => "raises")
    | none => pure "nofn"
  | ["decnum", d, o, l, sg, res, mn, mx, ofs] => do
    match decodeNumber (← parseNat? d) (← parseNat? o) (← parseNat? l) (sg = "1") (← parseLit? res) (← parseLit? mn) (← parseLit? mx) (← parseLit? ofs) with
    | .ok none => pure "ok N"
    | .ok (some x) => pure ("ok " ++ showVal (numVal x))
    | .error e => pure ("err " ++ showDecErr e)
  | ["encnum", v, l, sg, res, ofs] => do
    match encodeNumber (← parseVal? v) (← parseNat? l) (sg = "1") (← parseLit? res) (← parseLit? ofs) with
    | .ok z => pure s!"ok {z}"
    | .error e => pure ("err " ++ showEncErr e)
  | _ => none

end N2k.Driver
