/- driver: JSON rendering of decoder outputs -/
import N2k.Driver.Dec
import N2k.Gen.Consts
import N2k.Model.Json
namespace N2k.Driver
open N2k N2k.Dec N2k.Json

def showJVal : JVal → String
  | .null => "N"
  | .int z => s!"i{z}"
  | .flt q => s!"f{q.num}/{q.den}"
  | .str s => "s" ++ bytesToHex s
  | .opaque => "S?"

def showOptNat' : Option Nat → String
  | none => "N" | some n => toString n

def showJMsg (j : JMsg) : String :=
  let ttl := match j.ttl with | none => "N" | some q => s!"f{q.num}/{q.den}"
  let hk := match j.hashKey with | none => "N" | some k => "k" ++ utf8Hex k
  let fs := ";".intercalate (j.fields.map fun f =>
    ",".intercalate [utf8Hex f.id, utf8Hex f.name, optHex f.desc, optHex f.unit, showJVal f.value, showJVal f.raw, showOptNat' f.pq, showOptNat' f.ftype, if f.pk then "1" else "0"])
  s!"json {j.pgn} {utf8Hex j.id} {utf8Hex j.desc} {ttl} {j.src} {j.dst} {j.prio} name={showOptNat' j.isoName} hk={hk} {fs}"

def handleJson (insts : DecInsts) (toks : List String) : Option (DecInsts × String) :=
  match toks with
  | ["dec.feedjson", name, pgn, prio, src, dst, h, comb, win] => do
    let i : Input := { pgn := ← parseNat? pgn, prio := ← parseNat? prio, src := ← parseNat? src, dst := ← parseNat? dst,
                       data := ← hexToBytes h, combined := comb = "1", inWindow := win = "1" }
    match insts.find? (·.1 = name) with
    | none => pure (insts, "noinst")
    | some (_, d) =>
      let (st', o) := step genLayer d.cfg d.st i
      let r := match o with
        | .msg m => showJMsg (toJson Gen.pqNames Gen.ftNames m)
        | .none => "none"
        | .raised => "raised"
      pure ((name, { d with st := st' }) :: insts.filter (·.1 ≠ name), s!"{r} #{st'.dump.length}")
  | _ => none

end N2k.Driver
