#!/bin/bash
# What a stranger does: clone the committed /verif into scratch (no .lake, no Gen), run MANIFEST.setup_cmd there, then every
# quick check against /repo; report; remove the scratch.  usage: fresh_test.sh [tier]
T=${1:-quick}
D=/tmp/verif_fresh_$$
rm -rf $D; git clone -q /verif $D || exit 2
cd $D
( time /venv/bin/python tools/setup.py ) > $D/setup.log 2>&1
tail -2 $D/setup.log | head -1
/venv/bin/python tools/run_all.py $T 2>&1 | grep -v "KNOWN-FINDING"
rc=${PIPESTATUS[0]}
cd /; rm -rf $D
exit $rc
