#!/usr/bin/env python3
"""Write MANIFEST.json from the table below (kept in one place so that it stays valid)."""
import json
from pathlib import Path

V = Path(__file__).resolve().parent.parent
PY = "/venv/bin/python"

CHECKS = {
    "C01": ("kernel-checked table theorems (all 442 shipped per-definition decoders = Spec.compileDec of their database entries; the three dictionaries = the database's enumerations; regenerated from pgns.py and canboat.json on every run) + generic Lean theorems about running a compiled decoder for EVERY entry and payload (header, field metadata in order, each statically positioned field = the database-derived codec at the field's own offset, locality in the field's bits, not-available <-> no value, totality 'in range => decodes' for integer resolutions, for every decimal resolution without an Offset by an error analysis of the binary64 range test over Q with kernel-checked database side conditions, and for the one decimal field with an Offset by kernel evaluation of its whole raw domain) + correspondence of the interpreter/codec models with all real decoders on database-derived boundary payloads + a database-only oracle over the same payloads",
            "trusts the T1 translator (validated end-to-end), Spec.compile* as the reading of the database, hand models Codec/Interp tied by T3; non-ASCII/UTF-16 text decoding not modelled; totality for the non-NUMBER kinds rests on the oracle and correspondence, not on a theorem", "5 C01"),
    "C02": ("kernel-checked table theorems (shipped encoders and decoders = compiled database) + Lean theorems: per-kind decode->encode round trips on the codec models (numbers up to 48 bits with integer or decimal resolution and Offset, not-available, lookups, reserved, dates, TIME/DURATION tick counts incl. signed), OR-accumulation read-back, and the message-level C02_roundtrip for the 260 well-formed encodable definitions (the 3 others are named by C02_db_coverage) + correspondence of all 418 encoders + a decode->encode oracle over every encodable definition (every raw value for fields up to 10 bits)",
            "trusts the T1 translator and Spec.compile*; hand models Codec/Interp tied by T3; fields wider than 48 bits rest on oracle + correspondence (one known finding at the end of a 64-bit range)", "5 C02"),
    "C09": ("Lean theorems on the encoder model: a NUMBER is encoded as the nearest tick inside the representable range, out-of-range and non-finite values are rejected, absent <-> absent, a missing field is an error, changing one field changes only its bits; exactness of LOOKUP/RESERVED/DATE/TIME raws only under an explicit `fits` hypothesis (partial) + table theorems + correspondence over the value classes of the quantifier + an encode->decode oracle",
            "PARTIAL: the full property is false of this code for non-NUMBER kinds (masked, not rejected) and for reserved NUMBER codes — 8 known findings keyed by field kind", "5 C09"),
    "C10": ("Lean theorem C10_selection over the hand model of NMEA2000Decoder: for every user filter configuration and every input history, position by position, the filtered output is exactly the permitted part of the unfiltered output and the source maps are equal (simulation proof by induction), for any generated layer satisfying GenOk; + correspondence of the decoder model on random histories under 29 configurations + filtered-vs-unfiltered monitor on the real decoder",
            "hand model Decoder tied by T3; GenOk facts come from the regenerated tables", "5 C10"),
    "C11": ("Lean theorems over the decoder model: a claim changes only its own address's identity, only claims change the source map, every returned message carries the source map's identity for its source right after the step, manufacturer exclude/include lists (unknown code passes no include list), discovery window, and no leak for every history; + history correspondence + identity monitor on the real decoder",
            "hand model tied by T3; the 10-minute window is a Boolean input", "5 C11"),
    "C12": ("Lean theorems: framing is a function of the concatenated stream, not of the reads (Reader.feed13 / feedLines chunking independence and exactness; with the StreamReader's line limit: the code-shaped readuntil/overrun loop refines a byte-at-a-time automaton, so every segmentation yields exactly the stream's lines of at most `limit` bytes; Serial.feed via C20_chunking) and the receive queue delivers FIFO, each message once, whatever the callback does; correspondence: the byte strings the four real clients take off a real StreamReader under every segmentation class vs the framing models, queue events vs the queue machine, callback log vs a reference decoder",
            "PARTIAL w.r.t. the runtime: real TCP segmentation and asyncio internals are represented only through the real StreamReader object and the stated assumption (readexactly/readline consume the concatenation)", "5 C12, 2.9"),
    "C13": ("Lean theorems over the client LTS, for every accepted event list: back-off formula (growing, capped at 10 s, never zero), retry delay = back-off of the attempt number, at most one live receive task at every point of every trace, recovery for every k (refused k times then accepted ends CONNECTED, reported once, receive task on the new link), DISCONNECTED only after a fault and only once, no non-progressing receive iteration; trace validation of the four real clients under virtual time with faults injected at every step",
            "PARTIAL w.r.t. the runtime: LTS at the granularity of externally observable events, tied by trace validation; blocking inside a task step is outside the model (a wall-clock alarm turns a non-yielding spin into an observation)", "5 C13, 2.9"),
    "C14": ("Lean theorems over the client LTS: CLOSED is absorbing for every event and trace, no connection attempt, receive task or status report once CLOSED, the status log is exactly the sequence of state changes without repeats, close() returns only with the link shut and no receive task alive, no callback afterwards; trace validation with close() injected at every loop step and virtual time of every session shape, incl. close() from inside a callback and raising/slow status callbacks",
            "PARTIAL w.r.t. the runtime as C13", "5 C14, 2.9"),
    "C19": ("Lean theorems over the client LTS: a write needs the send lock, in every accepted trace each message's packets form one contiguous block in encoder order, an unsendable message is a no-op on the state, a failing write records a fault that enables DISCONNECTED; trace validation with concurrent sends, scripted drain() suspensions, write/drain failures at each packet and really unencodable messages through the real encoder",
            "PARTIAL w.r.t. the runtime as C13", "5 C19, 2.9"),
    "C15": ("Lean theorems over the JSON data model of to_json/from_json: header and addressing survive, fields keep id and the JSON view of value/raw (binary as hex, dates/times as ISO text), plain values are exact, what each encoder kind reads of a field is preserved (so the parsed message re-encodes to the same bytes), and the dump log is exactly the matching returned messages in order for every history; correspondence: the model's tree vs json.loads(msg.to_json()) for messages of every definition, dump counts in histories; monitors: from_json(to_json(m)) re-encodes identically, dump file content",
            "PARTIAL: orjson's text layer is a trusted parameter; NaN/inf -> null is a recorded known finding", "5 C15"),
    "C16": ("Lean theorems over the decoder model: a single-frame probe's result depends only on configuration, input and source identity; ignored/rejected input leaves reassembly table and source map untouched; fast frames touch only their own stream; a complete fast-packet message with a fresh counter decodes, after ANY history, to what its pre-assembled payload decodes to (also the frame-wise = pre-assembled clause of C07); whole histories: what is returned never depends on the dump log, any set of rejected or ignored inputs can be removed from ANY history without changing the result at any remaining position (C16_garbage_removal, by induction over the history), the same history decodes twice to the same results; isolation between live instances is VALIDATED by multi-instance correspondence",
            "isolation proper rests on T3 (several real decoders/encoders alive, each compared with its own model instance), not on a theorem", "5 C16"),
    "C17": ("Lean theorems over Dec.hashKey: key = id and primary-key raws only (congruence), unit preferences and everything else irrelevant, no hash with mapping off, key injective for underscore-free ids and integer keys; kernel-checked database facts (no id contains '_', primary-key kinds) and the C01 tables pinning the primary-key flags; correspondence hashes the model's key with hashlib and compares digests",
            "PARTIAL: MD5 collision-freedom is not a theorem (named gap); four trailing STRING_LAU station-id keys are outside the injectivity theorem", "5 C17"),
    "C18": ("Lean theorems over Dec.applyUnits: frame rule (only value and unit change; raw, metadata, order, message attributes untouched), untouched without a recognised preference, absent stays absent, case-insensitive matching, decoding with preferences = conversion of decoding without, bar exact, accuracy bounds against the exact rational result for Celsius, Fahrenheit, psi, degrees and knots over the whole range the fields can carry (error analysis of every binary64 rounding over Q); database fact: all convertible quantities are NUMBER fields; correspondence of the six conversion functions over the quantity fields' ranges",
            "conversion arithmetic modelled as rationals + round-to-nearest-even, tied by T3; the accuracy bounds are about the Rat+rne model of CPython's float arithmetic and round(), which the unit-conversions correspondence ties to the real functions bit for bit", "5 C18"),
    "C03": ("Lean 4 theorems over the hand model Fast (frames well-formed, counter advance, in-order round trip from any admissible stream state, consecutive messages) + exhaustive correspondence of the model with _encode_fast_message/_decode_fast_message over all 224 lengths x 8 counters",
            "hand model tied by T3 differential runs; the per-PGN decode step is replaced by a payload capture", "2.2, 5 C03"),
    "C04": ("Lean 4 theorems: stream independence of the keyed table for every interleaving (C04_interleaving), exactness within a message under any permutation/duplication/loss of later frames incl. padding (C04_exact), clean restart after loss (C04_after_segment); correspondence on enumerated and random multi-stream histories",
            "hand models Fast/FastKeyed tied by T3; distinct consecutive counters and first-frame-first as the property states", "5 C04"),
    "C05": ("Lean 4 theorems about the T2 translations of _extract_header/_build_header, re-proved on every run against the current source: build∘parse = id on all 2^29 identifiers (omega, no enumeration), parse∘build for PDU1/PDU2 incl. non-canonical inputs, injectivity",
            "trusts the T2 translator (validated by differential runs of the translated defs against the Python functions)", "5 C05, Appendix B"),
    "C06": ("Lean 4 theorems over the hand model Wire: every EByte packet is 13 bytes and every USB packet 20 bytes with a valid checksum, per-format round trips (EByte, USB, Yacht Devices, Actisense incl. the empty payload), ANY single corrupted byte among positions 2..19 is rejected (all 18 x 255 at once), one CR/LF per Yacht Devices line, fixed-size re-splitting, the addressing round trip composed with C05; message level (model Encoder of _encode and the encode_* wrappers on the T1 tables): for every message of a Single/Fast definition the encoder accepts, every EByte/USB packet has the fixed size and is accepted, nothing is returned before the last packet and the last packet returns exactly what the pre-assembled payload returns (any configuration, any decoder state), the Actisense line carries the message's PGN/addressing/payload, the sequence counter advances once per fast message; correspondence of all four encoders and five decoders at frame level and of the real encoder on whole messages of every encodable definition; message-level trip monitor on the real code on every run",
            "models tied by T3; header/checksum are T2 translations; is_fast/encoder tables T1; strict text grammar; canonical addressing; Yacht Devices message level by correspondence only", "5 C06"),
    "C07": ("Lean 4 theorems: the three frame-level formats and the two message-level formats extract the same frame (identifier fields + data) that the common decoding core receives, incl. direction markers and lower-case hex; kernel-checked table theorem (the shipped is_fast_pgn_* functions are what the database Types demand, every definition) + decoder-model theorem (for every fast-packet definition, frame-by-frame delivery returns nothing before the last frame and then exactly what the pre-assembled payload returns, any configuration, any decoder state; already_combined is irrelevant for single-frame definitions); correspondence of the five real front-ends with the frame observed at _decode, of every is_fast function with the table, and of the real decoder driven through its six public deliveries (mixed on one decoder) with the decoder model",
            "strict text grammar; PGN types ISO/Mixed (2 definitions) outside the domain; the stream's record must not already hold the sequence counter", "5 C07"),
    "C08": ("kernel-checked table theorem (the 24 shipped dispatchers = Spec.compileDisp of the database groups, regenerated from pgns.py and canboat.json every run) + generic Lean theorem (compiled dispatcher = Spec.select: first matching non-fallback definition in database order, else fallback, else none) with corollaries (only match bits matter, selected definition carries its match values); end-to-end correspondence of the translated tables with the real decode_pgn_<PGN>",
            "trusts the T1 translator (validated end-to-end) and Spec.compileDisp as the reading of the database", "5 C08"),
    "C20": ("Lean 4 theorems over the hand model Serial (buffer ≤ 19 bytes after every read, segmentation independence, marker-free noise lossless, resynchronisation loses at most the first packet, checksum gate, checksum covers bytes 2..18) + trace correspondence with the real _receive_impl under adversarial segmentations",
            "hand model tied by T3; decode_usb's checksum is the T2 translation", "5 C20"),
}

NOT_YET = {}


def main():
    props = [json.loads(l) for l in (V / "properties.jsonl").read_text().splitlines() if l.strip()]
    checks = []
    for p in props:
        pid = p["id"]
        if pid not in CHECKS:
            continue
        text, note, ref = CHECKS[pid]
        checks.append({
            "property_id": pid,
            "quick_cmd": f"{PY} tools/check.py {pid} --tier quick",
            "thorough_cmd": f"{PY} tools/check.py {pid} --tier thorough",
            "evidence_file": f"evidence/{pid}.json",
            "replay_cmd_template": f"{PY} tools/check.py --replay {{path}}",
            "engine": "lean4-proof+correspondence",
            "level_claimed": {"category": "proof", "text": text, "design_ref": "DESIGN.md section " + ref},
            "level_note": note + "; Lean kernel + axioms propext/Classical.choice/Quot.sound only (audited every run)",
            "technique": "machine-checked proof in Lean 4 (model + theorems), model tied to the source by translation (T1/T2) or differential correspondence (T3)",
        })
    na = [{"property_id": p["id"], "reason": NOT_YET.get(p["id"], "check under construction in this build phase: model/theorems not yet registered (not a statement that the technique cannot apply)")}
          for p in props if p["id"] not in CHECKS]
    man = {
        "version": 1,
        "setup_cmd": f"{PY} tools/setup.py",
        "hooks": {"guard": "TOMER_W_NMEA2000_VERIF", "enable": "no hooks are needed: the harness reaches everything from outside (monkeypatching in-process)",
                  "baseline_off_cmd": "cd /repo && /venv/bin/python -m pytest -ra -q -p no:cacheprovider --timeout=900 --continue-on-collection-errors tests",
                  "source_commits": [], "add_only": True},
        "engines": [{"name": "lean4-proof+correspondence", "path": "lean/ + tools/", "serves_properties": sorted(CHECKS),
                     "kind_free_text": "Lean 4.33 models and theorems (lake project lean/), translators tools/translate_*.py, correspondence harness tools/props/*.py driving `lake env lean --run N2k/Driver/Main.lean`"}],
        "checks": checks,
        "not_applicable": na,
        "notes": "Every check: replay past failures on the real code (tools/findings.py), regenerate translated Lean sources from /repo, lake build the property's theorems, audit axioms, run the correspondence suites, and on any break search for a failing input. known_findings.json lists repaired (fixed) and recorded (known) defects.",
    }
    (V / "MANIFEST.json").write_text(json.dumps(man, indent=1) + "\n")


if __name__ == "__main__":
    main()
