#!/bin/bash
# usage: seedtest.sh <seed-dir-name e.g. C03-2> [check ids...]  — applies the seeded change to a scratch worktree of /repo HEAD and runs checks against it
set -u
S=$1; shift
W=/tmp/sw_$S
git -C /repo worktree remove --force $W >/dev/null 2>&1
git -C /repo worktree add -q --detach $W HEAD || exit 2
git -C $W apply /verif/seeded/$S/patch.diff || { echo "patch does not apply"; git -C /repo worktree remove --force $W; exit 2; }
PIDS="$@"; [ -z "$PIDS" ] && PIDS=${S%%-*}
for P in $PIDS; do
  echo "== seeded $S vs check $P"
  VERIF_REPO=$W /venv/bin/python /verif/tools/check.py $P 2>&1 | grep -E "VIOLATION|KNOWN|obligations|HARNESS"
done
git -C /repo worktree remove --force $W
