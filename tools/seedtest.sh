#!/bin/bash
# usage: seedtest.sh <seed-dir-name e.g. C03-2> [check ids...]
# Applies the seeded change to a scratch worktree of /repo HEAD and runs checks against it.  Everything the run
# writes goes to scratch copies (worktree, lake project, evidence/replays), so /verif and /repo stay untouched
# and several seeds can be tested in parallel.  Scratch is removed at the end.
set -u
S=$1; shift
W=/tmp/sw_$S; L=/tmp/lw_$S; O=/tmp/ow_$S
git -C /repo worktree remove --force $W >/dev/null 2>&1
rm -rf $L $O
git -C /repo worktree add -q --detach $W HEAD || exit 2
git -C $W apply /verif/seeded/$S/patch.diff || { echo "patch does not apply"; git -C /repo worktree remove --force $W; exit 2; }
cp -a /verif/lean $L; mkdir -p $O/evidence $O/replays
PIDS="$@"; [ -z "$PIDS" ] && PIDS=${S%%-*}
for P in $PIDS; do
  echo "== seeded $S vs check $P"
  VERIF_REPO=$W VERIF_LEAN=$L VERIF_OUT=$O /venv/bin/python /verif/tools/check.py $P 2>&1 | grep -E "VIOLATION|KNOWN|obligations|HARNESS"
  for f in $O/replays/*.json; do [ -f "$f" ] && echo "REPLAYKEY $(python3 -c "import json,sys;print(json.load(open(sys.argv[1])).get('key'))" $f)"; done
  rm -f $O/replays/*.json
done
git -C /repo worktree remove --force $W
rm -rf $L $O
