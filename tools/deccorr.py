"""Correspondence for the decoder state machine: real NMEA2000Decoder instances vs Model/Decoder.lean (driver `dec.*`),
history based and multi-instance.  Shared by C10, C11, C15, C16, C17, C18 (and the fast-packet clause of C07)."""
import datetime
import hashlib
import json
import os
import random
import re
import tempfile

import common
import harness
import pgncorr


def href(x):
    return f"n{x}" if isinstance(x, int) else "s" + harness.hx(x.encode())


def cfg_spec(c):
    units = ",".join(f"{pq}:{harness.hx(u.encode())}" for pq, u in c.get("units", {}).items())
    return ("ex=" + ",".join(href(x) for x in c.get("exclude", [])) + ";in=" + ",".join(href(x) for x in c.get("include", []))
            + ";exm=" + ",".join(harness.hx(x.encode()) for x in c.get("exm", [])) + ";inm=" + ",".join(harness.hx(x.encode()) for x in c.get("inm", []))
            + ";units=" + units + ";dump=" + ("1" if c.get("dump") else "0") + ";dumppgns=" + ",".join(href(x) for x in c.get("dumppgns", []))
            + ";map=" + ("1" if c.get("map") else "0"))


class Real:
    """a real decoder built from a config dict; keeps its dump file in a temp dir"""
    DB = None
    def __init__(self, c, shared=None):
        """`shared`: a dict in which the keyword-argument OBJECTS (lists, dict) are kept, so that several decoders can be built from the very
        same settings objects, as an application with one settings structure does"""
        from nmea2000.decoder import NMEA2000Decoder
        from nmea2000.consts import PhysicalQuantities
        self.tmp = None
        kw = dict(exclude_pgns=list(c.get("exclude", [])), include_pgns=list(c.get("include", [])),
                  exclude_manufacturer_code=list(c.get("exm", [])), include_manufacturer_code=list(c.get("inm", [])),
                  preferred_units={PhysicalQuantities[k]: v for k, v in c.get("units", {}).items()},
                  dump_pgns=list(c.get("dumppgns", [])), build_network_map=bool(c.get("map")))
        if shared is not None:
            kw = shared.setdefault("kw", kw)
        if c.get("dump"):
            self.tmp = tempfile.TemporaryDirectory()
            kw["dump_to_file"] = os.path.join(self.tmp.name, "dump.jsonl")
        self.dump_file = kw.get("dump_to_file")
        try:
            self.d = NMEA2000Decoder(**kw)
            self.err = None
        except ValueError:
            self.d = None
            self.err = "valueerror"

    def dump_lines(self):
        if not self.dump_file:
            return []
        self.d.dump_TextIOWrapper.flush()
        return open(self.dump_file).read().splitlines()

    def feed(self, inp):
        pgn, prio, src, dst, data, combined, window = inp
        now = datetime.datetime.now()
        self.d.started_at = now if window else now - datetime.timedelta(minutes=11)
        try:
            m = self.d._decode(pgn, prio, src, dst, now, bytes(data)[::-1], b"raw", combined)
        except Exception:
            return "raised", None
        if m is None:
            return "none", None
        return canon_msg(m, self.opaque(m, data) if (combined or len(data) <= 8) else ()), m

    def opaque(self, m, data):
        """string fields whose bytes are non-ASCII/UTF-16: reported as the marker S? on both sides (text decoding not modelled)"""
        if Real.DB is None:
            Real.DB = pgncorr.Db(common.REPO)
        p = Real.DB.defs.get(f"{m.PGN}_{m.id}") or Real.DB.defs.get(str(m.PGN))
        if p is None or p["Id"] != m.id or not any(f["FieldType"].startswith("STRING") for f in p["Fields"]):
            return ()
        return pgncorr.opaque_text_fields(p, int.from_bytes(bytes(data), "little"))

    def state(self):
        live = sum(1 for v in self.d.data.values() if v.sequence_counter != -1)
        srcs = sorted(f"{a}:{n.name}" for a, n in self.d.source_to_iso_name.items())
        return f"records={live} sources={','.join(srcs)} dump={len(self.dump_lines())}"

    def close(self):
        if self.d:
            self.d.close()
        if self.tmp:
            self.tmp.cleanup()


def opt_codes(s):
    return "N" if s is None else "s" + harness.hx(s.encode("ascii"))


def canon_iso(n):
    if n is None:
        return "N"
    return (f"{n.unique_number},{opt_codes(n.manufacturer_code)},{n.device_instance},{opt_codes(n.device_function)},{opt_codes(n.device_class)},"
            f"{n.system_instance},{opt_codes(n.industry_group)},{1 if n.arbitrary_address_capable else 0},{n.name}")


def canon_msg(m, opaque=()):
    fs = ";".join(("S?|S?" if i in opaque else pgncorr.canon(f.value) + "|" + pgncorr.canon(f.raw_value)) + "|" + pgncorr.opt_hex(f.unit_of_measurement)
                  for i, f in enumerate(m.fields))
    hk = "N" if m.hash is None else "h" + m.hash
    if m.hash is not None and any(m.fields[i].part_of_primary_key for i in opaque if i < len(m.fields)):
        hk = "*"        # the key contains text the model does not decode (S?): the digest cannot be compared
    return f"msg {harness.hx(m.id.encode())} {m.source} {m.destination} {m.priority} iso={canon_iso(m.source_iso_name)} hk={hk} {fs}"


def post_model(resp):
    """the model prints the pre-hash key string; the implementation prints the MD5 digest: hash the model's key"""
    def rep(mo):
        key = bytes.fromhex(mo.group(1)) if mo.group(1) != "-" else b""
        return "hk=h" + hashlib.md5(key).hexdigest()
    return re.sub(r"hk=k([0-9a-f]+|-)", rep, resp)


class DecSuite(common.Suite):
    def run(self):
        super().run()
        # re-compare after mapping the model's hash key to its digest
        def norm(d):
            r = post_model(d["model"])
            return re.sub(r"hk=\S+", "hk=*", r) if " hk=* " in d["implementation"] else r
        self.disagreements = [d for d in self.disagreements if norm(d) != d["implementation"]]
        return self


# ----------------------------------------------------------------------------- traffic
def claim_name(unique, manu, func=130, cls=25, inst=0, sysinst=0, industry=4, arb=1):
    return (unique & 0x1FFFFF) | (manu << 21) | ((inst & 7) << 32) | ((inst >> 3) << 35) | (func << 40) | (cls << 49) | (sysinst << 56) | (industry << 60) | (arb << 63)


MANU = {"garmin": 229, "maretron": 137, "airmar": 135, "unknown": 2000}


def spec_frames(seq, p):
    out = [bytes([seq * 32, len(p)]) + p[:6]]
    rest, i = p[6:], 1
    while rest:
        out.append(bytes([seq * 32 + i]) + rest[:7])
        rest = rest[7:]
        i += 1
    return out


class Traffic:
    """generator of decoder inputs: (pgn, prio, src, dst, data(wire), combined, inWindow)"""
    def __init__(self, rnd, db):
        self.rnd = rnd
        self.db = db
        self.seq = {}

    def single(self, src, kind=None):
        r = self.rnd
        kind = kind or r.choice(["battery", "heading", "temperature", "pressure", "speed", "rudder"])
        if kind == "battery":
            data = bytes([r.randrange(0, 4)]) + r.randrange(0, 3000).to_bytes(2, "little") + (r.randrange(-2000, 2000) & 0xFFFF).to_bytes(2, "little") + r.randrange(27000, 32000).to_bytes(2, "little") + bytes([r.randrange(0, 250)])
            return (127508, 6, src, 255, data)
        if kind == "heading":
            data = bytes([r.randrange(0, 250)]) + r.randrange(0, 62831).to_bytes(2, "little") + (r.randrange(-3000, 3000) & 0xFFFF).to_bytes(2, "little") + (r.randrange(-3000, 3000) & 0xFFFF).to_bytes(2, "little") + bytes([r.choice([0, 1, 0xFD])])
            return (127250, 2, src, 255, data)
        if kind == "temperature":
            data = bytes([r.randrange(0, 250), r.randrange(0, 4), r.choice([0, 1, 2, 13])]) + r.choice([0xFFFF, r.randrange(25000, 40000)]).to_bytes(2, "little") + r.choice([0xFFFF, r.randrange(25000, 40000)]).to_bytes(2, "little") + b"\xff"
            return (130312, 5, src, 255, data)
        if kind == "pressure":
            data = bytes([r.randrange(0, 250), r.randrange(0, 4), r.choice([0, 1, 2])]) + r.randrange(0, 2000000).to_bytes(4, "little", signed=True) + b"\xff"
            return (130314, 5, src, 255, data)
        if kind == "speed":
            data = bytes([r.randrange(0, 250)]) + r.randrange(0, 3000).to_bytes(2, "little") + r.choice([0xFFFF, r.randrange(0, 3000)]).to_bytes(2, "little") + bytes([r.choice([0, 1, 2]), 0xFF, 0xFF])
            return (128259, 2, src, 255, data)
        data = bytes([r.randrange(0, 250), r.choice([0, 1, 0xF8 | 3]) & 0xFF]) + (r.randrange(-3000, 3000) & 0xFFFF).to_bytes(2, "little") + (r.randrange(-3000, 3000) & 0xFFFF).to_bytes(2, "little") + b"\xff\xff"
        return (127245, 2, src, 255, data)

    def fast(self, src, pgn=None, lossy=False):
        r = self.rnd
        pgn = pgn or r.choice([128275, 130816, 126720])
        if pgn == 128275:
            payload = r.randrange(15000, 20000).to_bytes(2, "little") + r.randrange(0, 864000000).to_bytes(4, "little") + r.randrange(0, 10 ** 9).to_bytes(4, "little") + r.randrange(0, 10 ** 9).to_bytes(4, "little")
        elif pgn == 130816:
            payload = (r.choice([1851, 275, 1857, 381]) | (3 << 11) | (4 << 13)).to_bytes(2, "little") + bytes(r.getrandbits(8) & 0x7F for _ in range(r.randrange(1, 20)))
        else:
            payload = (r.choice([1851, 135, 1857]) | (3 << 11) | (4 << 13)).to_bytes(2, "little") + bytes(r.getrandbits(8) & 0x7F for _ in range(r.randrange(1, 20)))
        key = (pgn, src)
        s = self.seq.get(key, r.randrange(8))
        self.seq[key] = s if r.random() < 0.3 else (s + 1) % 8      # some senders restart / reuse the counter
        fr = spec_frames(s, payload)
        if r.random() < 0.5:
            fr[-1] = fr[-1] + bytes([0xFF] * (8 - len(fr[-1])))
        if lossy and len(fr) > 1:
            del fr[r.randrange(1, len(fr))]
        prio = r.choice([6, 6, 3, 2, 7])          # the priority may change from message to message on one stream
        return [(pgn, prio, src, 255, f) for f in fr]

    def proprietary(self, src):
        """a pre-assembled payload of a multi-definition PGN without fallback: own match values, a sibling's, or none"""
        r = self.rnd
        if not hasattr(self, "_nofb"):
            self._nofb = [pgn for pgn, g in self.db.groups.items() if self.db.is_complex(pgn) and not any(p.get("Fallback") for p in g)]
        pgn = r.choice(self._nofb[:6])
        x = r.choice(pgncorr.match_payloads(self.db, pgn, r, 2))
        n = max(1, min(223, (x.bit_length() + 7) // 8))
        return (pgn, 6, src, 255, (x & ((1 << (8 * n)) - 1)).to_bytes(n, "little"))

    def claim(self, src, manu="garmin", unique=None):
        r = self.rnd
        name = claim_name(unique if unique is not None else r.choice([r.randrange(1, 1 << 21), (1 << 21) - 1, 0]), MANU[manu], func=r.choice([130, 140, 150]), cls=r.choice([25, 30, 35, 60, 75]),
                          inst=r.choice([0, 0, 1, 7, 8, 15, 0xFF, 0xF7, 0xF0 | 6]),       # all-ones sub-fields are data; 0xF0|6 = reserved upper part 30: the generated decoder rejects the claim
                          sysinst=r.choice([0, 0, 5, 13, 15, 14]))                         # 14 is a reserved code: rejected
        return (60928, 6, src, 255, name.to_bytes(8, "little"))

    def junk(self, src):
        r = self.rnd
        k = r.choice(["unknown-pgn", "truncated", "out-of-range", "iso-type", "mixed-type", "empty-fast", "short-fast", "overlong-claim", "overlong-single"])
        if k == "overlong-claim":
            # more data bytes than a claim has: the NAME is still the first 64 bits
            c = self.claim(src, r.choice(["garmin", "maretron", "airmar"]), unique=r.choice([11, 22, None]))
            return c[:4] + (c[4] + bytes(r.getrandbits(8) for _ in range(r.choice([1, 2]))),)
        if k == "overlong-single":
            t = self.single(src)
            return t[:4] + (t[4] + bytes([r.getrandbits(8)]),)
        if k == "unknown-pgn":
            return (r.choice([61000, 130999, 65000]), 6, src, 255, bytes(r.getrandbits(8) for _ in range(8)))
        if k == "truncated":
            return (r.choice([127508, 127250, 60928]), 6, src, 255, bytes(r.getrandbits(8) for _ in range(r.randrange(0, 3))))
        if k == "out-of-range":
            return (127508, 6, src, 255, bytes([0xFE] * 8))
        if k == "iso-type":
            return (65240, 6, src, 255, bytes(8))
        if k == "mixed-type":
            return (126976, 6, src, 255, bytes(8))
        if k == "empty-fast":
            return (128275, 6, src, 255, b"")
        return (128275, 6, src, 255, bytes([r.getrandbits(8) & 0xE0]))


def gen_history(rnd, db, n_steps, sources=(1, 2, 7), claims="mixed", junk=0.15, window=None):
    t = Traffic(rnd, db)
    h = []
    claimed = {}
    pending = []      # interleaved fast-packet frames
    while len(h) < n_steps:
        src = rnd.choice(sources)
        k = rnd.random()
        w = rnd.random() < 0.5 if window is None else window
        c_claim = 0.16 if claims != "none" else 0.0
        if pending and k < 0.35:
            h.append(pending.pop(0) + (False, w))
        elif k < 0.47:
            h.append(t.single(src) + (False, w))
        elif k < 0.59:
            pending += t.fast(src, lossy=rnd.random() < 0.2)
        elif k < 0.59 + c_claim:
            manu = rnd.choice(["garmin", "maretron", "airmar", "unknown"])
            if claims == "mixed" and src in claimed and rnd.random() < 0.4:
                c = claimed[src]           # repeated identical claim
            else:
                c = t.claim(src, manu, unique=rnd.choice([11, 22, None]))
                claimed[src] = c
            h.append(c + (False, w))
        elif k < 0.59 + c_claim + junk * 0.8:
            h.append(t.junk(src) + (False, w))
        elif k < 0.59 + c_claim + junk * 0.8 + 0.05:
            h.append(t.proprietary(src) + (True, w))
        elif k < 0.59 + c_claim + junk * 0.8 + 0.08:
            # a single-frame message handed over as already combined
            h.append(t.single(src) + (True, w))
        else:
            # a whole fast-packet message given pre-assembled (already_combined)
            fr = t.fast(src)
            payload = b"".join(f[2:] if i == 0 else f[1:] for i, (_, _, _, _, f) in enumerate(fr))
            payload = payload[:fr[0][4][1]]
            h.append((fr[0][0], fr[0][1], src, 255, payload, True, w))
    return h[:n_steps]


def feed_line(name, inp):
    pgn, prio, src, dst, data, combined, window = inp
    return f"dec.feed {name} {pgn} {prio} {src} {dst} {harness.hx(data)} {1 if combined else 0} {1 if window else 0}"


def run_history(suite, name, cfg, history, klass):
    """one real decoder + one model instance on the same history; adds the lines to the suite"""
    real = Real(cfg)
    suite.add(f"dec.new {name} {cfg_spec(cfg)}", real.err or "ok", klass + "-new")
    outs = []
    if real.err:
        return outs
    for inp in history:
        o, m = real.feed(inp)
        outs.append((o, m))
        suite.add(feed_line(name, inp), f"{o} #{len(real.dump_lines())}", klass + "-" + o.split()[0])
    suite.add(f"dec.state {name}", real.state(), klass + "-state")
    real.close()
    return outs


CONFIGS = [
    {},
    {"exclude": [127508]}, {"exclude": ["batteryStatus"]}, {"exclude": ["BATTERYSTATUS", 127250]}, {"exclude": [60928]}, {"exclude": ["isoAddressClaim", 130312]},
    {"include": [127508]}, {"include": ["batteryStatus"]}, {"include": ["vesselHeading", 127508]}, {"include": [60928, "distanceLog"]}, {"include": ["ISOADDRESSCLAIM"]},
    {"include": [128275, 130816]}, {"include": ["0xff000xffffManufacturerProprietaryFastPacketNonAddressed"]},
    {"exclude": [127508], "include": [127250]},
    {"map": True}, {"map": True, "exm": ["Garmin"]}, {"map": False, "exm": ["GARMIN", "airmar"]}, {"inm": ["Maretron"]}, {"map": True, "inm": ["maretron", "Garmin"]},
    {"map": True, "exclude": [60928], "inm": ["Garmin"]}, {"include": [127508], "exm": ["Maretron"]},
    {"units": {"TEMPERATURE": "C"}}, {"units": {"PRESSURE": "kPa", "TEMPERATURE": "C", "SPEED": "mph", "ANGLE": "deg"}}, {"units": {"TEMPERATURE": "f", "ANGLE": "DEG", "SPEED": "kts", "PRESSURE": "Bar"}}, {"units": {"PRESSURE": "psi", "TEMPERATURE": "kelvin"}},
    {"dump": True}, {"dump": True, "dumppgns": [127508]}, {"dump": True, "dumppgns": ["batteryStatus"]}, {"dump": True, "dumppgns": ["vesselHeading", 130312], "map": True},
    # id filters on ONE definition of a multi-definition PGN of the traffic (126720: airmarAddressableMultiFrame next to the catch-all definition)
    {"exclude": ["airmarAddressableMultiFrame"]}, {"include": ["airmarAddressableMultiFrame", 127250]}, {"exclude": ["0x1ef00ManufacturerProprietaryFastPacketAddressed", "lowranceTemperature"]},
    {"dump": True, "dumppgns": ["airmarAddressableMultiFrame"]}, {"dump": True, "dumppgns": ["0x1ef00ManufacturerProprietaryFastPacketAddressed", 127508]},
]


def suite_histories(ctx, n_hist=None, steps=40):
    harness.load_repo()
    db = pgncorr.Db(ctx["repo"])
    rnd = random.Random(ctx["seed"] + 61)
    s = DecSuite("decoder-histories", "real NMEA2000Decoder vs Dec.step on random histories over 3 source addresses mixing single-frame, fast-packet (interleaved, padded, lossy), "
                 "pre-assembled, address-claim (4 manufacturers incl. an unknown code, repeated and changed NAMEs), unknown-PGN, truncated, out-of-range and ISO/Mixed-type traffic, "
                 "discovery window on/off per step, under 28 filter/manufacturer/unit/dump configurations; per step: returned message (fields, raw values, units, addressing, identity, hash), "
                 "dump line count; at the end: live reassembly records, source map, dump size")
    n_hist = n_hist or (2 if ctx["tier"] == "quick" else 30)
    k = 0
    for cfg in CONFIGS:
        for _ in range(n_hist):
            k += 1
            run_history(s, f"d{k}", cfg, gen_history(rnd, db, steps), "cfg" + str(CONFIGS.index(cfg)))
    return [s.run()]


# ----------------------------------------------------------------------------- monitors (the properties themselves, on the real code)
def _vis(o, m):
    return canon_msg(m) if m is not None else None


def permitted(cfg, pgn, mid):
    ex = cfg.get("exclude", [])
    inc = cfg.get("include", [])
    nums = lambda l: [x for x in l if isinstance(x, int)]
    ids = lambda l: [x.lower() for x in l if isinstance(x, str)]
    if pgn in nums(ex) or mid.lower() in ids(ex):
        return False
    if inc and not (pgn in nums(inc) or mid.lower() in ids(inc)):
        return False
    return True


def monitor_filters(ctx, n_hist=6, steps=50):
    """C10 on the real code: filtered vs unfiltered decoder on the same history"""
    harness.load_repo()
    db = pgncorr.Db(ctx["repo"])
    rnd = random.Random(ctx["seed"] + 62)
    n = 0
    plan = []
    for cfg in CONFIGS:
        if not (cfg.get("exclude") or cfg.get("include")) or (cfg.get("exclude") and cfg.get("include")):
            continue
        plan += [(cfg, None)] * n_hist
    # directed: filters by id built from what the unfiltered decoder actually returns on the history (ids sharing a PGN,
    # so that a filtered-out message and a kept one travel on the same fast-packet stream)
    for _ in range(30 * n_hist):
        h = gen_history(rnd, db, 2 * steps, sources=(1, 2), claims="none", junk=0.05)
        u = Real({})
        ids = {}
        for inp in h:
            o, m = u.feed(inp)
            if m is not None:
                ids.setdefault(m.PGN, set()).add(m.id)
        u.close()
        multi = sorted(i for g in ids.values() if len(g) > 1 for i in g)
        pool = multi or sorted(i for g in ids.values() for i in g)
        if not pool:
            continue
        pick = rnd.sample(pool, min(len(pool), rnd.choice([1, 2])))
        plan.append(({rnd.choice(["exclude", "include"]): pick}, h))
    for cfg, h0 in plan:
        base = {k: v for k, v in cfg.items() if k not in ("exclude", "include", "dump", "dumppgns")}
        for _ in range(1):
            h = h0 if h0 is not None else gen_history(rnd, db, steps)
            a, b = Real({**base, "exclude": cfg.get("exclude", []), "include": cfg.get("include", [])}), Real(base)
            for k, inp in enumerate(h):
                n += 1
                oa, ma = a.feed(inp)
                ob, mb = b.feed(inp)
                exp = canon_msg(mb) if (mb is not None and permitted(cfg, mb.PGN, mb.id)) else None
                got = canon_msg(ma) if ma is not None else None
                if exp != got:
                    a.close(); b.close()
                    return {"kind": "filters", "config": cfg, "history": ser_history(h[:k + 1]), "what": f"step {k}: filtered decoder returned {str(got)[:120]}, selection of the unfiltered output is {str(exp)[:120]}"}, n
            sa, sb = sorted(a.d.source_to_iso_name), sorted(b.d.source_to_iso_name)
            na = {k: v.name for k, v in a.d.source_to_iso_name.items()}
            nb = {k: v.name for k, v in b.d.source_to_iso_name.items()}
            a.close(); b.close()
            if na != nb:
                return {"kind": "filters", "config": cfg, "history": ser_history(h), "what": f"source maps differ: filtered {na}, unfiltered {nb}"}, n
    return None, n


def ser_history(h):
    return [[p, pr, s, d, data.hex(), c, w] for p, pr, s, d, data, c, w in h]


def deser_history(h):
    return [(p, pr, s, d, bytes.fromhex(data), c, w) for p, pr, s, d, data, c, w in h]


def monitor_identity(ctx, n_hist=6, steps=60):
    """C11 on the real code: identity = latest decodable claim of the source; manufacturer lists; discovery window"""
    harness.load_repo()
    db = pgncorr.Db(ctx["repo"])
    rnd = random.Random(ctx["seed"] + 63)
    n = 0
    names = {v: k for k, v in MANU.items()}
    names_db = {}
    for e in db.db["LookupEnumerations"]:
        if e["Name"] == "MANUFACTURER_CODE":
            names_db = {v["Value"]: v["Name"] for v in e["EnumValues"]}
    for cfg in CONFIGS:
        if cfg.get("exclude") and cfg.get("include"):
            continue
        for _ in range(n_hist):
            h = gen_history(rnd, db, steps)
            d = Real(cfg)
            ref = Real({})       # reference for claims only
            ident = {}
            claimed = {}
            for k, inp in enumerate(h):
                n += 1
                pgn, prio, src, dst, data, comb, win = inp
                if pgn == 60928:
                    o, m = ref.feed(inp)
                    if m is not None:
                        ident[src] = m.source_iso_name
                        claimed[src] = int.from_bytes(bytes(data)[:8], "little")      # the NAME as it is on the wire: independent of any decoder object
                o, m = d.feed(inp)
                if m is None:
                    continue
                exp = ident.get(src)
                got = m.source_iso_name
                bad = None
                if got is not None:
                    # the identity's numbers are bits of the NAME, the manufacturer is the database's name for bits 21..31
                    nm = got.name
                    manu_name = names_db.get((nm >> 21) & 0x7FF)
                    if (got.unique_number, got.device_instance, got.system_instance, got.manufacturer_code) != (nm & 0x1FFFFF, (nm >> 32) & 0xFF, (nm >> 56) & 0xF, manu_name):
                        bad = (f"identity of source {src} is (unique {got.unique_number}, instance {got.device_instance}, system {got.system_instance}, {got.manufacturer_code}); "
                               f"its NAME {nm:#018x} says ({nm & 0x1FFFFF}, {(nm >> 32) & 0xFF}, {(nm >> 56) & 0xF}, {manu_name})")
                if not bad and got is not None and src in claimed and got.name != claimed[src]:
                    bad = (f"message from source {src} carries the NAME {got.name:#018x} (instance {got.device_instance}), the most recent claim received from that address "
                           f"has NAME {claimed[src]:#018x} (instance {(claimed[src] >> 32) & 0xFF})")
                if bad:
                    pass
                elif (exp is None) != (got is None) or (exp is not None and canon_iso(exp) != canon_iso(got)):
                    bad = f"message from source {src} carries identity {canon_iso(got)}, the latest claim of that source gives {canon_iso(exp)}"
                elif pgn != 60928 and exp is not None:
                    manu = (exp.manufacturer_code or "\0").lower()
                    if manu in [x.lower() for x in cfg.get("exm", [])]:
                        bad = f"traffic of excluded manufacturer {exp.manufacturer_code} returned"
                    elif cfg.get("inm") and manu not in [x.lower() for x in cfg.get("inm", [])]:
                        bad = f"traffic of manufacturer {exp.manufacturer_code} returned although not in the include list"
                elif pgn != 60928 and exp is None and cfg.get("map") and win:
                    bad = f"message from unclaimed source {src} returned inside the discovery window"
                if bad:
                    d.close(); ref.close()
                    return {"kind": "identity", "config": cfg, "history": ser_history(h[:k + 1]), "what": f"step {k}: {bad}"}, n
            d.close(); ref.close()
    return None, n


def monitor_shared_settings(ctx, steps=40):
    """C16 on the real code: several decoders built one after the other from the SAME settings objects (the lists and the dict an
    application keeps its configuration in).  The last one must return what a decoder built from a pristine copy returns — an instance
    created earlier must not have changed the configuration of a later one"""
    harness.load_repo()
    db = pgncorr.Db(ctx["repo"])
    rnd = random.Random(ctx["seed"] + 67)
    extra = [{"exclude": [60928, 127250]}, {"exclude": [60928]}, {"exclude": ["isoAddressClaim", 127250]}, {"include": [60928, 127250]}, {"include": [60928]},
             {"include": ["isoAddressClaim"]}, {"exclude": [127250, 60928], "map": True}, {"include": [129025, 60928], "exm": ["garmin"]}]
    cfgs = extra + [c for c in CONFIGS if not c.get("dump")]
    n = 0
    for c in cfgs:
        if c.get("exclude") and c.get("include"):
            continue
        h = gen_history(rnd, db, steps)
        ref = Real(c)
        if ref.d is None:
            continue
        shared = {}
        first = Real(c, shared=shared)
        second = Real(c, shared=shared)
        third = Real(c, shared=shared)
        for k, inp in enumerate(h):
            n += 1
            a = ref.feed(inp)[0]
            first.feed(inp)
            b = third.feed(inp)[0]
            if a != b:
                return {"kind": "shared-settings", "config": c, "history": ser_history(h[:k + 1]),
                        "what": f"config {c}: the third decoder built from the same settings objects returns {b[:90]} at step {k}, a decoder built from a pristine copy returns {a[:90]}"}, n
        for r in (ref, first, second, third):
            r.close()
    return None, n


def monitor_isolation(ctx, n_hist=8, steps=40):
    """C16 on the real code: probes after arbitrary histories, several instances alive, replays"""
    harness.load_repo()
    from nmea2000.decoder import NMEA2000Decoder
    from nmea2000.encoder import NMEA2000Encoder
    db = pgncorr.Db(ctx["repo"])
    rnd = random.Random(ctx["seed"] + 64)
    n = 0
    for trial in range(n_hist):
        cfgs = [rnd.choice(CONFIGS[:1] + CONFIGS[14:16] + CONFIGS[21:23] + CONFIGS[29:32]) for _ in range(3)]
        cfgs = [c for c in cfgs if not (c.get("exclude") and c.get("include"))]
        # (no address-claim traffic at all: the probes compare with a fresh decoder, which has no identities)
        hs = [[x for x in gen_history(rnd, db, steps, claims="none") if x[0] != 60928] for _ in cfgs]
        # interleaved run of several live instances (and a few encoders/decoders created with defaults in between)
        live = [Real(c) for c in cfgs]
        outs = [[] for _ in cfgs]
        idx = [0] * len(cfgs)
        while any(idx[j] < len(hs[j]) for j in range(len(cfgs))):
            j = rnd.choice([j for j in range(len(cfgs)) if idx[j] < len(hs[j])])
            outs[j].append(live[j].feed(hs[j][idx[j]])[0])
            idx[j] += 1
            if rnd.random() < 0.1:
                NMEA2000Decoder(); NMEA2000Encoder()
        # solo replays on fresh instances
        for j, c in enumerate(cfgs):
            n += len(hs[j])
            solo = Real(c)
            so = [solo.feed(x)[0] for x in hs[j]]
            if so != outs[j]:
                k = next(i for i in range(len(so)) if so[i] != outs[j][i])
                return {"kind": "isolation", "config": c, "history": ser_history(hs[j][:k + 1]), "what": f"step {k}: with other instances alive the decoder returned {outs[j][k][:100]}, alone it returns {so[k][:100]}"}, n
            # inputs rejected with an error never change what is returned later: the history without them gives the same results
            keep = [i for i, o in enumerate(so) if o != "raised"]
            if len(keep) < len(so):
                filt = Real(c)
                fo = [filt.feed(hs[j][i])[0] for i in keep]
                filt.close()
                ref = [so[i] for i in keep]
                if fo != ref:
                    k = next(i for i in range(len(fo)) if fo[i] != ref[i])
                    return {"kind": "rejected-input", "config": c, "history": ser_history(hs[j][:keep[k] + 1]),
                            "what": f"step {keep[k]}: the decoder returned {ref[k][:90]}; without the {keep[k] + 1 - (k + 1)} earlier inputs it had rejected with an error it returns {fo[k][:90]}"}, n
            # probes: a single-frame message and a complete fast message with a fresh counter, after the history vs on a fresh instance
            t = Traffic(rnd, db)
            probe1 = t.single(9) + (False, False)
            fresh = Real(c)
            if solo.feed(probe1)[0] != fresh.feed(probe1)[0]:
                return {"kind": "probe", "config": c, "history": ser_history(hs[j] + [probe1]), "what": "single-frame probe decodes differently after the history than on a fresh decoder"}, n
            # a pre-assembled proprietary message from a source the history used (ignored/None inputs must not poison it)
            for _ in range(6):
                probe2 = t.proprietary(rnd.choice([1, 2, 7])) + (True, False)
                if solo.feed(probe2)[0] != fresh.feed(probe2)[0]:
                    return {"kind": "probe", "config": c, "history": ser_history(hs[j] + [probe2]), "what": f"a proprietary message of PGN {probe2[0]} decodes differently after the history than on a fresh decoder"}, n
            # pre-assembled messages of the multi-definition fast PGNs of the traffic (an earlier message of ANOTHER definition of the
            # same PGN that was filtered out or ignored must not influence them)
            for _ in range(6):
                fr = t.fast(rnd.choice([1, 2, 7]), pgn=rnd.choice([126720, 130816]))
                payload = b"".join(f[2:] if i == 0 else f[1:] for i, (_, _, _, _, f) in enumerate(fr))[:fr[0][4][1]]
                probe3 = (fr[0][0], fr[0][1], fr[0][2], 255, payload, True, False)
                if solo.feed(probe3)[0] != fresh.feed(probe3)[0]:
                    return {"kind": "probe", "config": c, "history": ser_history(hs[j] + [probe3]), "what": f"a pre-assembled message of PGN {probe3[0]} decodes differently after the history than on a fresh decoder with the same configuration"}, n
            src = rnd.choice([1, 2, 7])
            fr = t.fast(src, pgn=128275)
            key = f"128275_{src}_255"
            rec = solo.d.data.get(key)
            cur = rec.sequence_counter if rec is not None else -1
            if fr[0][4][0] >> 5 != cur:
                a = [solo.feed(f + (False, False))[0] for f in fr]
                b = [fresh.feed(f + (False, False))[0] for f in fr]
                if a != b:
                    return {"kind": "probe", "config": c, "history": ser_history(hs[j] + [f + (False, False) for f in fr]), "what": f"fast-packet probe with a fresh counter: {a[-1][:80]} after the history, {b[-1][:80]} on a fresh decoder"}, n
            solo.close(); fresh.close()
        for r in live:
            r.close()
    return None, n


def monitor_rejected(ctx, n_hist=20, steps=60):
    """C16, metamorphic, with address claims and dumping: a history with its error-rejected inputs removed gives the same results
    at every remaining position (configurations with a dump file and network mapping, claims of every kind incl. over-long ones)"""
    harness.load_repo()
    db = pgncorr.Db(ctx["repo"])
    rnd = random.Random(ctx["seed"] + 65)
    n = 0
    for trial in range(n_hist):
        cfg = rnd.choice([{"dump": True}, {"dump": True, "map": True}, {}, {"map": True, "exm": ["Garmin"]}, {"dump": True, "dumppgns": [127250, "isoAddressClaim"]}])
        h = gen_history(rnd, db, steps, junk=0.3)
        a = Real(cfg)
        so = [a.feed(x)[0] for x in h]
        a.close()
        n += len(h)
        keep = [i for i, o in enumerate(so) if o != "raised"]
        if len(keep) == len(so):
            continue
        b = Real(cfg)
        fo = [b.feed(h[i])[0] for i in keep]
        b.close()
        ref = [so[i] for i in keep]
        if fo != ref:
            k = next(i for i in range(len(fo)) if fo[i] != ref[i])
            return {"kind": "rejected-input", "config": cfg, "history": ser_history(h[:keep[k] + 1]),
                    "what": f"step {keep[k]}: the decoder returned {ref[k][:90]}; without the earlier inputs it had rejected with an error it returns {fo[k][:90]}"}, n
    return None, n


def replay_history(rp):
    harness.load_repo()
    cfg = rp["config"]
    h = deser_history(rp["history"])
    d = Real(cfg)
    outs = [d.feed(x)[0] for x in h]
    d.close()
    return outs

# ----------------------------------------------------------------------------- C07: the same frames through the real front-ends
FRAME_FORMATS = ("tcp", "usb", "yd", "basic-frame")
WHOLE_FORMATS = ("actisense", "basic-combined")


def can_id(pgn, prio, src, dst):
    """29-bit identifier by the J1939 rule, written independently of the repo's own _build_header"""
    if (pgn >> 8) & 0xFF < 240:
        return (prio << 26) | (((pgn & 0x3FF00) | (dst & 0xFF)) << 8) | src
    return (prio << 26) | ((pgn & 0x3FFFF) << 8) | src


def via(real, fmt, rnd, pgn, prio, src, dst, data, window=False, whole=None):
    """hand one frame (or one whole payload) to the real decoder through a public decode_* entry point"""
    d = real.d
    now = datetime.datetime.now()
    d.started_at = now if window else now - datetime.timedelta(minutes=11)
    i = can_id(pgn, prio, src, dst)
    try:
        if fmt == "tcp":
            m = d.decode_tcp(bytes([(len(data) & 0xF) | 0x80]) + i.to_bytes(4, "big") + data + bytes(8 - len(data)))
        elif fmt == "usb":
            from nmea2000.utils import calculate_canbus_checksum
            body = bytes([0xaa, 0x55, 1, 2, 1]) + i.to_bytes(4, "little") + bytes([len(data)]) + data + bytes(8 - len(data)) + b"\x00"
            m = d.decode_usb(body + bytes([calculate_canbus_checksum(body)]))
        elif fmt == "yd":
            hx = data.hex().upper() if rnd.random() < 0.5 else data.hex()
            m = d.decode_yacht_devices_string("%02d:%02d:%02d.%03d %s %08X %s" % (rnd.randrange(24), rnd.randrange(60), rnd.randrange(60), rnd.randrange(1000), rnd.choice("RT"), i,
                                                                                  " ".join(hx[k:k + 2] for k in range(0, len(hx), 2))))
        elif fmt in ("basic-frame", "basic-combined"):
            line = "2024-03-0%d-1%d:2%d:3%d.%03d,%d,%d,%d,%d,%d,%s" % (rnd.randrange(1, 9), rnd.randrange(10), rnd.randrange(10), rnd.randrange(10), rnd.randrange(1000), prio, pgn, src, dst, len(data),
                                                                   ",".join("%02x" % b for b in data))
            m = d.decode_basic_string(line, fmt == "basic-combined")
        elif fmt == "actisense":
            m = d.decode_actisense_string("A%06d.%03d %05X %05X %s" % (rnd.randrange(10 ** 6), rnd.randrange(1000), (src << 12) | (dst << 4) | prio, pgn, data.hex().upper()))
        else:
            raise AssertionError(fmt)
    except Exception:
        return "raised"
    if m is None:
        return "none"
    return canon_msg(m, real.opaque(m, whole if whole is not None else data))


def format_cases(ctx, per_def=None):
    """[(definition key, type, pgn, prio, src, dst, payload bytes)]: every definition of the database (Single and Fast),
    legal payloads plus random ones, the length the database gives (or a plausible variable tail)"""
    db = pgncorr.Db(ctx["repo"])
    rnd = random.Random(ctx["seed"] + 97)
    per_def = per_def or (2 if ctx["tier"] == "quick" else 6)
    out = []
    for key, p in sorted(db.defs.items()):
        if p["Type"] not in ("Single", "Fast"):
            continue
        xs = pgncorr.payloads_for(p, rnd, per_field=False, n_random=per_def - 1)[3:]
        for x in xs[:per_def]:
            n = p.get("Length") or max(1, (x.bit_length() + 7) // 8)
            n = min(n, 8) if p["Type"] == "Single" else max(1, min(n, 223))
            data = (x & ((1 << (8 * n)) - 1)).to_bytes(n, "little")
            pgn = p["PGN"]
            dst = rnd.choice([255, 0, 35]) if (pgn >> 8) & 0xFF < 240 else 255
            out.append((key, p["Type"], pgn, rnd.randrange(8), rnd.choice([1, 7, 200]), dst, data))
    return out


def frames_of(rnd, typ, data, seq):
    if typ != "Fast":
        return [data]
    fr = spec_frames(seq, data)
    if rnd.random() < 0.5:
        fr[-1] = fr[-1] + bytes([0xFF] * (8 - len(fr[-1])))
    return fr


def scripts(rnd, typ, data):
    """deliveries of one message to ONE decoder each: [(label, [(format, bytes, already_combined, is_last_of_a_message)])].
    Frame-level formats: the message frame by frame, the same message again with the SAME counter (a restarted sender), then
    pre-assembled, then with the next counter.  Whole-message formats: pre-assembled, then frame by frame, then pre-assembled."""
    seq = rnd.randrange(8)
    out = []
    for f in FRAME_FORMATS:
        st = []
        for sq in (seq, seq):
            fr = frames_of(rnd, typ, data, sq)
            st += [(f, x, False, i == len(fr) - 1) for i, x in enumerate(fr)]
        st.append(("actisense", data, True, True))
        fr = frames_of(rnd, typ, data, (seq + 1) % 8)
        st += [(f, x, False, i == len(fr) - 1) for i, x in enumerate(fr)]
        out.append((f, st))
    for w in WHOLE_FORMATS:
        fr = frames_of(rnd, typ, data, seq)
        g = rnd.choice(FRAME_FORMATS)
        out.append((w, [(w, data, True, True)] + [(g, x, False, i == len(fr) - 1) for i, x in enumerate(fr)] + [(w, data, True, True)]))
    return out


def suite_formats(ctx):
    """real decoder fed through each public front-end vs the decoder model fed the same frames: every Single and Fast definition,
    frame by frame through the four frame-level formats, pre-assembled through the two whole-message formats, mixed on one decoder"""
    harness.load_repo()
    rnd = random.Random(ctx["seed"] + 98)
    s = DecSuite("decoder-via-formats", "real NMEA2000Decoder driven through decode_tcp / decode_usb / decode_yacht_devices_string / decode_basic_string (per frame) and "
                 "decode_actisense_string / decode_basic_string(already_combined) (whole payload) vs Dec.step on the same frames: every Single and Fast definition of the database, "
                 "legal and random payloads, fast-packet messages split into frames (random counter, last frame padded or not); per decoder: the message frame by frame, again with the "
                 "same counter, pre-assembled, with the next counter (frame-level formats) / pre-assembled, frame by frame, pre-assembled (whole-message formats); per step the returned message")
    k = 0
    for key, typ, pgn, prio, src, dst, data in format_cases(ctx):
        for label, steps in scripts(rnd, typ, data):
            k += 1
            real = Real({})
            name = f"f{k}"
            s.add(f"dec.new {name} {cfg_spec({})}", "ok", label + "-new")
            for fmt, x, comb, _last in steps:
                o = via(real, fmt, rnd, pgn, prio, src, dst, x, whole=data)
                s.add(feed_line(name, (pgn, prio, src, dst, x, comb, False)), f"{o} #0", f"{label}-{typ}-{o.split()[0]}")
            real.close()
    return [s.run()]


def _formats_verdict(real_outs):
    """real_outs: {script label: [(is_last, output)]} -> None when the property holds, else a description"""
    msgs, bad = set(), {}
    for label, outs in real_outs.items():
        for i, (last, o) in enumerate(outs):
            if last:
                msgs.add(o)
            elif o != "none":
                bad[label] = f"step {i}: a non-final frame returned {o[:80]}"
    if len(msgs) > 1:
        ref = real_outs["actisense"][0][1]
        for label, outs in real_outs.items():
            for i, (last, o) in enumerate(outs):
                if last and o != ref and label not in bad:
                    bad[label] = f"step {i}: {o[:160]}"
    return bad or None


def monitor_formats(ctx, per_def=None):
    """C07 itself on the real code: the message a Single/Fast definition decodes to is the same through all deliveries
    (frame by frame or pre-assembled, whatever was delivered before on that decoder); frame-wise delivery returns nothing before the last frame"""
    harness.load_repo()
    rnd = random.Random(ctx["seed"] + 99)
    hits, n = [], 0
    for key, typ, pgn, prio, src, dst, data in format_cases(ctx, per_def):
        sc = scripts(rnd, typ, data)
        outs = {}
        for label, steps in sc:
            real = Real({})
            n += 1
            outs[label] = [(last, via(real, fmt, rnd, pgn, prio, src, dst, x, whole=data)) for fmt, x, comb, last in steps]
            real.close()
        bad = _formats_verdict(outs)
        if bad:
            hits.append({"key": f"C07/formats-disagree/{key}", "what": f"PGN {pgn} ({key}, {typ}) payload {data.hex()}: deliveries {sorted(bad)} differ from the pre-assembled Actisense delivery",
                         "replay": {"kind": "formats", "def": key, "type": typ, "pgn": pgn, "prio": prio, "src": src, "dst": dst, "data": data.hex(),
                                    "scripts": [[label, [[fmt, x.hex(), comb, last] for fmt, x, comb, last in steps]] for label, steps in sc],
                                    "expected": outs["actisense"][0][1][:300], "got": bad}})
    return hits, n


def replay_formats(rp):
    harness.load_repo()
    rnd = random.Random(5)
    data = bytes.fromhex(rp["data"])
    outs = {}
    for label, steps in rp["scripts"]:
        real = Real({})
        outs[label] = [(last, via(real, fmt, rnd, rp["pgn"], rp["prio"], rp["src"], rp["dst"], bytes.fromhex(x), whole=data)) for fmt, x, comb, last in steps]
        real.close()
    bad = _formats_verdict(outs)
    return bad is None, json.dumps(bad)[:600]


def _ebyte(pgn, prio, src, dst, data):
    pf = (pgn >> 8) & 0xFF
    i = (prio << 26) | ((pgn | (dst if pf < 240 else 0)) << 8) | src
    return bytes([0x80 | len(data)]) + i.to_bytes(4, "big") + bytes(data) + bytes(8 - len(data))


def datapage_probe(pgn, prio, src, dst, data, first_twin):
    """one decoder sees a frame of the PGN that differs only in the data-page bit and a frame of `pgn` (in either order), through the
    identifier path (decode_tcp); the frame of `pgn` must decode as the pre-parsed path (decode_basic_string, which never looks at an
    identifier) decodes the same payload.  Returns None or a description"""
    from nmea2000.decoder import NMEA2000Decoder
    d = NMEA2000Decoder()
    twin = pgn ^ 0x10000
    line = "2024-01-01-00:00:00.000,%d,%d,%d,%d,%d,%s" % (prio, pgn, src, dst, len(data), ",".join("%02x" % b for b in data))
    try:
        ref = NMEA2000Decoder().decode_basic_string(line)
    except Exception:
        return None
    if ref is None:
        return None
    order = [(twin, bytes(8)), (pgn, bytes(data))] if first_twin else [(pgn, bytes(data)), (twin, bytes(8)), (pgn, bytes(data))]
    got = None
    for q, dat in order:
        try:
            r = d.decode_tcp(_ebyte(q, prio, src, dst, dat))
        except Exception as e:
            r = f"raised {type(e).__name__}"
        if q == pgn:
            got = r
        elif r is not None and not isinstance(r, str) and r.PGN != q:
            return f"a frame of PGN {q} (the data-page twin of {pgn}) was returned as PGN {r.PGN} ({r.id})"
    if got is None or isinstance(got, str) or canon_msg(got).split(" hk=")[1:] != canon_msg(ref).split(" hk=")[1:] or got.PGN != ref.PGN:
        return (f"PGN {pgn} from source {src} after a frame of PGN {twin} (same PDU format and specific bytes, other data page): the identifier path returns "
                f"{got if got is None or isinstance(got, str) else (got.PGN, got.id)}, the same payload pre-parsed gives {(ref.PGN, ref.id)}")
    return None


def monitor_datapage(ctx):
    """C16 (and C05) on the real code: what a frame decodes to does not depend on frames of a PGN with the same PF/PS bytes and another data
    page seen earlier by this or any other decoder object"""
    harness.load_repo()
    db = pgncorr.Db(ctx["repo"])
    rnd = random.Random(ctx["seed"] + 66)
    t = Traffic(rnd, db)
    n = 0
    for k in range(60):
        pgn, prio, src, dst, data = t.single(rnd.choice([1, 2, 7]))[:5]
        for first_twin in (True, False):
            n += 1
            why = datapage_probe(pgn, prio, src, dst, bytes(data), first_twin)
            if why:
                return {"kind": "datapage", "pgn": pgn, "prio": prio, "src": src, "dst": dst, "data": bytes(data).hex(), "first_twin": first_twin, "what": why}, n
    return None, n
