#!/venv/bin/python
"""Regression corpus of concrete failing inputs found on tomer-w/nmea2000 (real code, no model).

Each entry is a small program against the *implementation* that returns (holds, detail):
holds=False means the property is violated on that input.  `check.py` runs the entries of a
property first (past failures run first); `known_findings.json` says which of them are
repaired (`fixed`: must hold again from now on) and which are recorded (`known`).

usage: findings.py [--repo /repo] [key ...]      (no key = all)   exit 1 if any entry fails
"""
import asyncio
import io
import json
import os
import sys
import tempfile

REPO = os.environ.get("VERIF_REPO", "/repo")
if "--repo" in sys.argv:
    i = sys.argv.index("--repo")
    REPO = sys.argv[i + 1]
    del sys.argv[i:i + 2]
sys.path.insert(0, REPO)

import logging  # noqa: E402
logging.disable(logging.CRITICAL)

FINDINGS = {}


def finding(key, prop):
    def deco(fn):
        FINDINGS[key] = (prop, fn)
        return fn
    return deco


def _dec(**kw):
    from nmea2000.decoder import NMEA2000Decoder
    return NMEA2000Decoder(**kw)


def _basic(pgn, data: bytes, src=1, dst=255, prio=2):
    return "2024-01-01-00:00:00.000,%d,%d,%d,%d,%d,%s" % (prio, pgn, src, dst, len(data), ",".join("%02x" % b for b in data))


# ---------------------------------------------------------------- C01
@finding("C01/range-end-reject/127508.current", "C01")
def f_range_end():
    # battery current raw -32767 is the database's RangeMin (-3276.7 A): in range, must decode
    data = bytes([1]) + (0).to_bytes(2, "little") + (-32767 & 0xFFFF).to_bytes(2, "little") + bytes([0, 0, 0])
    try:
        m = _dec().decode_basic_string(_basic(127508, data))
    except Exception as e:
        return False, f"decode raised {type(e).__name__}: {e}"
    v = [f for f in m.fields if f.id == "current"][0].value
    return abs(v + 3276.7) < 1e-6, f"current={v}"


@finding("C01/one-bit-number/129556.cna", "C01")
def f_one_bit():
    from nmea2000 import pgns
    m = pgns.decode_pgn_129556(1 << 26)
    v = [f for f in m.fields if f.id == "cna"][0].value
    return v == 1, f"cna value for bit pattern 1 = {v!r} (database range 0..1, no sentinel possible in 1 bit)"


@finding("C01/assert-is-int/129797", "C01")
def f_assert_is_int():
    from nmea2000 import pgns
    try:
        # messageId 1, sourceId 230000000, 8 bits of binary data 0xAB
        m = pgns.decode_pgn_129797(1 | (230000000 << 8) | (8 << 48) | (0xAB << 64))
    except AssertionError as e:
        return False, "decode_pgn_129797 raises AssertionError on every payload (assert x is int)"
    v = [f for f in m.fields if f.id == "binaryData"][0].raw_value
    return v == bytes([0, 0xAB]) or v == bytes([0xAB]), f"binaryData={v!r}"


@finding("C01/string-lz-empty/130820", "C01")
def f_string_lz_empty():
    from nmea2000.utils import decode_string_lz
    try:
        s = decode_string_lz(0, 16)
    except IndexError as e:
        return False, "decode_string_lz raises IndexError on an empty (all-zero) tail"
    return s == "", repr(s)


@finding("C01/offset-ignored/127513.peukertExponent", "C01")
def f_offset():
    from nmea2000 import pgns
    # batteryConfigurationStatus: peukertExponent is byte 6, resolution 0.002, Offset 1, range 1..1.504 (raw 0..252)
    p = (1) | (2 << 8) | (100 << 48)
    try:
        m = pgns.decode_pgn_127513(p)
    except Exception as e:
        return False, f"in-range payload rejected: {type(e).__name__}: {e}"
    v = [f for f in m.fields if f.id == "peukertExponent"][0].value
    out = int.from_bytes(pgns.encode_pgn_127513(m), "little")
    return abs(v - 1.2) < 1e-9 and out == p, f"peukertExponent raw 100 -> {v} (database: 1 + 100*0.002 = 1.2); re-encodes to raw {(out >> 48) & 0xFF}"


# ---------------------------------------------------------------- C02
@finding("C02/time-tick-loss/126992.time", "C02")
def f_tick_loss():
    from nmea2000 import pgns
    # systemTime: sid, source(4)+reserved(4), date(16), time(32, 0.0001 s)
    p = 1 | (0xF0 << 8) | (19000 << 16) | (49 << 32)
    m = pgns.decode_pgn_126992(p)
    out = int.from_bytes(pgns.encode_pgn_126992(m), "little")
    return out == p, f"time raw 49 re-encodes as {(out >> 32) & 0xFFFFFFFF}"


@finding("C02/signed-duration-absent/129033.localOffset", "C02")
def f_signed_absent():
    from nmea2000 import pgns
    # timeDate: date(16) time(32) localOffset(16, signed, 60 s): 0x7FFF = not available
    p = 19000 | (1234 << 16) | (0x7FFF << 48)
    m = pgns.decode_pgn_129033(p)
    v = [f for f in m.fields if f.id == "localOffset"][0].raw_value
    out = int.from_bytes(pgns.encode_pgn_129033(m), "little")
    return v is None and out == p, f"absent localOffset (0x7FFF) re-encodes as {hex((out >> 48) & 0xFFFF)}"


@finding("C02/absent-date-reencode/126992.date", "C02")
def f_absent_date():
    from nmea2000 import pgns
    p = 1 | (0xF0 << 8) | (0xFFFF << 16) | (1234 << 32)     # systemTime with date = not available
    m = pgns.decode_pgn_126992(p)
    try:
        out = int.from_bytes(pgns.encode_pgn_126992(m), "little")
    except Exception as e:
        return False, f"a message with an absent date decodes but cannot be re-encoded: {type(e).__name__}"
    return out == p, f"re-encoded {hex(out)}"


@finding("C02/one-bit-number-reencode/129556.cna", "C02")
def f_one_bit_encode():
    from nmea2000 import pgns
    p = 1 << 26
    m = pgns.decode_pgn_129556(p)
    try:
        out = int.from_bytes(pgns.encode_pgn_129556(m), "little")
    except Exception as e:
        return False, f"value 1 of the 1-bit field cna decodes but cannot be re-encoded: {type(e).__name__}: {e}"
    return (out >> 26) & 1 == 1, f"re-encoded bit {(out >> 26) & 1}"


@finding("C02/preferred-units-reencode/130312", "C02")
def f_units_reencode():
    """decode with a unit preference, then encode: the converted value is encoded as if it were SI"""
    from nmea2000.decoder import NMEA2000Decoder
    from nmea2000.encoder import NMEA2000Encoder
    from nmea2000.consts import PhysicalQuantities
    d = NMEA2000Decoder(preferred_units={PhysicalQuantities.TEMPERATURE: "c"})
    m = d.decode_basic_string("2020-01-01-00:00:00.000,5,130312,1,255,8,01,00,00,a5,73,ff,ff,ff", True)
    try:
        out = NMEA2000Encoder().encode_actisense(m).split()[-1]
    except Exception as e:
        out = type(e).__name__
    return out == "010000A573FFFFFF", f"130312 payload 010000A573FFFFFF decoded with TEMPERATURE:c re-encodes as {out}"


# ---------------------------------------------------------------- C04
@finding("C04/padding-dependence/130816", "C04")
def f_padding():
    res = []
    for pad in (0xFF, 0x00):
        d = _dec()
        payload = bytes(range(1, 10))  # 9 bytes announced
        f0 = bytes([0x20, 9]) + payload[:6]
        f1 = bytes([0x21]) + payload[6:] + bytes([pad] * 4)
        out = None
        for fr in (f0, f1):
            out = d.decode_basic_string(_basic(130816, fr))
        res.append([(f.id, f.raw_value) for f in out.fields] if out else None)
    return res[0] == res[1], f"fields differ with padding 0xFF vs 0x00: {res[0]} / {res[1]}"


@finding("C01/na-inside-range/129795.sequenceNumber", "C01")
def f_na_inside_range():
    """raw 3 of the 2-bit AIS Sequence Number (database range 0..3) is reported as no value"""
    d = _dec()
    m = d.decode_basic_string("2024-01-01-00:00:00.000,3,129801,7,255,11,00,80,85,b5,0d,c0,80,85,b5,0d,00", True)
    f = m.get_field_by_id("sequenceNumber")
    return f.value == 3, f"129801 sequenceNumber bits 0b11 (database range 0..3): value {f.value!r}, raw {f.raw_value!r}"


@finding("C01/repeating-set-absent/129796", "C01")
def f_repeating_set_absent():
    """a 6-byte AIS Acknowledge (MinLength 6, zero repetitions of the repeating set) raises"""
    d = _dec()
    try:
        m = d.decode_basic_string("2024-01-01-00:00:00.000,7,129796,7,255,6,07,80,85,b5,0d,01", True)
    except Exception as e:
        return False, f"129796 with zero repetitions raises {type(e).__name__}: {e}"
    return m is not None, "decodes"


@finding("C01/time-of-day-value/TIME", "C01")
def f_time_of_day():
    """in-range TIME raw values 86400 s and 86401 s (leap second) are reported as 00:00:00; sub-second parts are dropped from the value"""
    d = _dec()
    m = d.decode_basic_string("2024-01-01T00:00:00.000Z,3,126992,7,255,8,ff,0f,ff,ff,00,98,7f,33", True)
    f = m.fields[-1]
    import datetime
    return not (f.raw_value == 86400.0 and f.value == datetime.time(0, 0)), f"126992 time raw {f.raw_value} s (database range 0..86401) is reported as {f.value}"


@finding("C04/reused-counter-merge/128275", "C04")
def f_reused_counter_merge():
    """the library's encoder keeps ONE sequence counter for all fast-packet messages: after 7 other fast messages the next message of a stream
    carries the counter of the previous one.  If that previous message had lost a frame, the decoder took the new first frame for a duplicate
    and completed a message out of the leftovers of the old one and the later frames of the new one"""
    from nmea2000.encoder import NMEA2000Encoder
    from nmea2000.decoder import NMEA2000Decoder
    from nmea2000.message import NMEA2000Message, NMEA2000Field
    e, d = NMEA2000Encoder(), NMEA2000Decoder()

    def dist(log):
        return NMEA2000Message(PGN=128275, id="distanceLog", source=1, destination=255, priority=6, fields=[
            NMEA2000Field("date", value=None, raw_value=18000 + log % 7), NMEA2000Field("time", value=None, raw_value=10.0 + log % 5),
            NMEA2000Field("log", value=log, raw_value=log), NMEA2000Field("tripLog", value=log // 100, raw_value=log // 100)])
    first = e.encode_ebyte(dist(1001))
    for pk in first[:-1]:                                   # the last frame of the first message is lost
        d.decode_tcp(pk)
    other = NMEA2000Message(PGN=128275, id="distanceLog", source=2, destination=255, priority=6, fields=dist(5).fields)
    for _ in range(7):                                      # 7 fast messages of another stream: the counter comes round
        for pk in e.encode_ebyte(other):
            d.decode_tcp(pk)
    second = e.encode_ebyte(dist(2003))
    outs = [d.decode_tcp(pk) for pk in second]
    same_counter = first[0][5] >> 5 == second[0][5] >> 5
    got = [None if o is None else o.get_field_by_id("log").value for o in outs]
    return same_counter and got[:-1] == [None] * (len(got) - 1) and got[-1] == 2003, \
        f"same counter: {same_counter}; per-frame results for the second message (log 2003): {got}"


# ---------------------------------------------------------------- C06
@finding("C06/ebyte-short-frame/59904", "C06")
def f_ebyte_13():
    from nmea2000.encoder import NMEA2000Encoder
    from nmea2000.message import NMEA2000Message, NMEA2000Field
    m = NMEA2000Message(PGN=59904, id="isoRequest", fields=[NMEA2000Field("pgn", value=60928, raw_value=60928)],
                        source=1, destination=255, priority=6)
    pk = NMEA2000Encoder().encode_ebyte(m)
    return all(len(p) == 13 for p in pk), f"packet lengths {[len(p) for p in pk]}"


@finding("C06/message-trip/actisense/126464", "C06")
def f_actisense_empty_payload():
    """an all-zero message of a variable-length definition encodes to an empty payload; the Actisense line then has no data token"""
    from nmea2000 import pgns
    from nmea2000.encoder import NMEA2000Encoder
    from nmea2000.decoder import NMEA2000Decoder
    m = pgns.decode_pgn_126464(0)
    m.source, m.destination, m.priority = 5, 255, 6
    line = NMEA2000Encoder().encode_actisense(m)
    try:
        r = NMEA2000Decoder().decode_actisense_string("A000001.000 " + line)
    except Exception as e:
        return False, f"encode_actisense gives {line!r}; decode_actisense_string raises {type(e).__name__}"
    ok = r is not None and r.PGN == 126464 and [f.value for f in r.fields] == [f.value for f in m.fields]
    return ok, f"encode_actisense gives {line!r}; decoded back: {r is not None and [f.value for f in r.fields]}"


# ---------------------------------------------------------------- C08
@finding("C08/no-match-arm/129808.dscCallInformation", "C08")
def f_129808():
    from nmea2000 import pgns
    try:
        m = pgns.decode_pgn_129808(0)   # dscCategory = 0 != 112: second definition (no match fields) applies
    except Exception as e:
        return True, f"selected a definition (decoder raised {type(e).__name__})"
    return m is not None and m.id == "dscCallInformation", f"result {m.id if m else None}"


# ---------------------------------------------------------------- C09
@finding("C09/number-corrupted/129556.cna", "C09")
def f_one_bit_none():
    from nmea2000.utils import encode_number
    try:
        v = encode_number(None, 1, False, 1)
    except ValueError:
        return True, "absent value for a 1-bit field is rejected"
    return False, f"encode_number(None, 1, ...) = {v}: an absent value silently becomes the value 1 of the 1-bit field"


@finding("C09/time-by-value/TIME", "C09")
def f_time_by_value():
    """a TIME given as a datetime.time value (no raw value) was encoded as seconds, ignoring the field's resolution"""
    import datetime
    from nmea2000 import pgns
    m = pgns.decode_pgn_126992(int.from_bytes(bytes([1, 0xF0, 0x10, 0x4e, 0x00, 0x5a, 0x62, 0x02]), "little"))
    f = [x for x in m.fields if x.id == "time"][0]
    f.value, f.raw_value = datetime.time(1, 2, 3), None
    try:
        b = pgns.encode_pgn_126992(m)
    except Exception as e:
        return True, f"rejected ({type(e).__name__})"
    back = [x for x in pgns.decode_pgn_126992(int.from_bytes(b, "little")).fields if x.id == "time"][0]
    return back.value == datetime.time(1, 2, 3), f"time 01:02:03 given by value decodes back as {back.value!r} (raw {back.raw_value!r})"


# ---------------------------------------------------------------- C10
@finding("C10/include-by-id", "C10")
def f_include_id():
    d = _dec(include_pgns=["gnssPositionData"])
    m = d.decode_basic_string(_basic(127508, bytes(8)))
    return m is None, "include_pgns=['gnssPositionData'] still returns batteryStatus"


@finding("C10/include-mixed", "C10")
def f_include_mixed():
    d = _dec(include_pgns=[127508, "gnssPositionData"])
    m = d.decode_basic_string(_basic(127508, bytes(8)))
    return m is not None, "include_pgns=[127508,'gnssPositionData'] drops 127508"


@finding("C10/include-claim-by-id", "C10")
def f_include_claim():
    d = _dec(include_pgns=["isoAddressClaim"])
    m = d.decode_basic_string(_basic(60928, bytes([1, 2, 3, 4, 5, 6, 7, 0x80])))
    return m is not None, "include_pgns=['isoAddressClaim'] suppresses the address claim"


# ---------------------------------------------------------------- C11
@finding("C11/unknown-manufacturer-bypass", "C11")
def f_unknown_manu():
    d = _dec(include_manufacturer_code=["Garmin"])
    name = (12345) | (2000 << 21) | (4 << 60) | (1 << 63)   # manufacturer code 2000: not in the table
    d.decode_basic_string(_basic(60928, name.to_bytes(8, "little"), src=7))
    m = d.decode_basic_string(_basic(127508, bytes(8), src=7))
    return m is None, "traffic of an unlisted (unknown-code) manufacturer passes include_manufacturer_code=['Garmin']"


def _claim_line(src, name):
    return "2022-09-10T12:10:16.614Z,6,60928,%d,255,8,%s" % (src, ",".join("%02x" % b for b in name.to_bytes(8, "little")))


def _name(unique, manu, lower=0, upper=0, func=130, cls=25, sysinst=0, industry=4, arb=1):
    return unique | (manu << 21) | (lower << 32) | (upper << 35) | (func << 40) | (cls << 49) | (sysinst << 56) | (industry << 60) | (arb << 63)


@finding("C11/identity-all-ones-subfield/instance15", "C11")
def f_identity_all_ones():
    """all-ones NAME sub-fields were read as 'not available' and replaced by 0 in the identity (device instance 15 reported as 8)"""
    d = _dec()
    m = d.decode_basic_string(_claim_line(9, _name(1234, 275, lower=7, upper=1)))
    iso = d.source_to_iso_name.get(9)
    ok = iso is not None and iso.device_instance == 15 and iso.unique_number == 1234
    d2 = _dec()
    d2.decode_basic_string(_claim_line(9, _name(2097151, 275, sysinst=15)))
    iso2 = d2.source_to_iso_name.get(9)
    ok = ok and iso2 is not None and iso2.unique_number == 2097151 and iso2.system_instance == 15
    return ok, f"instance byte 15 -> device_instance {iso and iso.device_instance}; unique 2097151/system 15 -> {iso2 and (iso2.unique_number, iso2.system_instance)}"


@finding("C11/undecodable-claim/reserved-name-subfield", "C11")
def f_undecodable_claim():
    """a claim whose NAME sub-field holds a reserved code (system instance 14, unique number 2097149/50, upper instance 30) is rejected
    by the generated decoder (database range), so the source keeps its previous identity: traffic of an excluded manufacturer leaks"""
    d = _dec(exclude_manufacturer_code=["garmin"], build_network_map=True)
    d.decode_basic_string(_claim_line(9, _name(77, 275)))                     # Navico
    try:
        d.decode_basic_string(_claim_line(9, _name(78, 229, sysinst=14)))     # Garmin re-claims the address
        raised = False
    except Exception:
        raised = True
    m = d.decode_basic_string("2022-09-10T12:10:17.000Z,2,127250,9,255,8,00,10,27,ff,7f,ff,7f,fd")
    leaked = m is not None
    return not leaked, f"re-claim by Garmin with system instance 14 {'raised' if raised else 'was accepted'}; later data from that address is {'returned with identity ' + str(m.source_iso_name.manufacturer_code) if leaked else 'withheld'}"


# ---------------------------------------------------------------- C15
@finding("C15/dump-by-id-case", "C15")
def f_dump_id():
    with tempfile.TemporaryDirectory() as td:
        fn = os.path.join(td, "dump.jsonl")
        d = _dec(dump_to_file=fn, dump_pgns=["batteryStatus"])
        d.decode_basic_string(_basic(127508, bytes(8)))
        d.close()
        n = len(open(fn).read().splitlines())
    return n == 1, f"dump filter ['batteryStatus'] wrote {n} lines for one batteryStatus message"


# ---------------------------------------------------------------- C16
@finding("C16/rejected-fast-message-leaves-record/127513", "C16")
def f_stale_record():
    # a complete fast-packet message whose per-PGN decoder raises (127513 with an out-of-range byte)
    # must not change what the decoder returns for the next message on that stream
    def feed(d, frames):
        out = None
        for fr in frames:
            try:
                out = d.decode_basic_string(_basic(127513, fr))
            except Exception:
                out = "raised"
        return out
    bad = bytes([0, 0, 0, 0, 0, 0, 0, 0, 0, 0])       # peukert byte 0 -> below the database minimum
    good = bytes([1, 2, 2, 0x10, 0x27, 100, 50, 120, 90, 80])
    def frames(seq, p):
        return [bytes([seq << 5, len(p)]) + p[:6], bytes([(seq << 5) | 1]) + p[6:]]
    d1 = _dec()
    r_bad = feed(d1, frames(2, bad))
    r1 = feed(d1, frames(2, good))
    r2 = feed(_dec(), frames(2, good))
    same = (r1 is None) == (r2 is None) and (r1 is None or r1 == "raised" or r2 == "raised" or
                                               [f.raw_value for f in r1.fields] == [f.raw_value for f in r2.fields])
    return same, f"after a rejected message ({r_bad!r}) the same stream returns {('a message' if r1 not in (None, 'raised') else r1)!r}, a fresh decoder returns {('a message' if r2 not in (None, 'raised') else r2)!r}"


# ---------------------------------------------------------------- clients
class _FakeWriter:
    def __init__(self, script=None):
        self.written = []
        self.closed = False
        self.suspend = script

    def write(self, b):
        self.written.append(bytes(b))

    async def drain(self):
        await asyncio.sleep(0)

    def close(self):
        self.closed = True

    def get_extra_info(self, *_):
        return None


def _run(coro, timeout=5.0):
    async def wrapped():
        return await asyncio.wait_for(coro, timeout)
    return asyncio.run(wrapped())


@finding("C13/eof-spin/text", "C13")
def f_eof_spin():
    import nmea2000.ioclient as io_

    async def main():
        reader = asyncio.StreamReader()
        w = _FakeWriter()
        calls = {"n": 0}
        orig = reader.readline

        async def counting_readline():
            calls["n"] += 1
            if calls["n"] > 2000:
                raise asyncio.CancelledError()   # break the spin so that the replay terminates
            return await orig()
        reader.readline = counting_readline

        async def fake_open(host, port):
            return reader, w
        io_.asyncio.open_connection = fake_open
        c = io_.YachtDevicesNmea2000Gateway("h", 1)
        ticks = {"n": 0}

        async def other():
            while True:
                ticks["n"] += 1
                await asyncio.sleep(0)
        t = asyncio.create_task(other())
        await c.connect()
        reader.feed_eof()
        for _ in range(50):
            await asyncio.sleep(0)
        t.cancel()
        n = calls["n"]
        try:
            await c.close()
        except BaseException:
            pass
        return n
    real_open = None
    import asyncio as _a
    real_open = _a.open_connection
    try:
        n = _run(main())
    finally:
        _a.open_connection = real_open
    return n < 100, f"{n} non-suspending readline() calls after EOF (spin)"


@finding("C14/close-during-connect", "C14")
def f_close_during_connect():
    import nmea2000.ioclient as io_

    async def main():
        gate = asyncio.Event()
        w = _FakeWriter()

        async def fake_open(host, port):
            await gate.wait()
            return asyncio.StreamReader(), w
        io_.asyncio.open_connection = fake_open
        c = io_.EByteNmea2000Gateway("h", 1)
        states = []

        async def cb(s):
            states.append(s.name)
        c.set_status_callback(cb)
        t = asyncio.create_task(c.connect())
        await asyncio.sleep(0)
        await asyncio.sleep(0)
        await c.close()
        gate.set()
        await asyncio.sleep(0.05)
        st = c.state.name
        t.cancel()
        return st, states, w.closed
    import asyncio as _a
    real_open = _a.open_connection
    try:
        st, states, closed = _run(main())
    finally:
        _a.open_connection = real_open
    return st == "CLOSED" and states == ["CLOSED"] and closed, f"state after close()+connect completion: {st}, status log {states}, new link closed={closed}"


@finding("C12/delivery/overlong-line", "C12")
def f_overlong_line():
    """a garbage line longer than the StreamReader limit (64 KiB) made readline() raise ValueError, which the receive loop took for a lost
    connection: reconnect, and everything the gateway sent afterwards on the old link was lost"""
    import nmea2000.ioclient as io_

    async def main():
        opened = []

        async def fake_open(host, port):
            rd = asyncio.StreamReader()
            opened.append(rd)
            return rd, _FakeWriter()
        io_.asyncio.open_connection = fake_open
        c = io_.YachtDevicesNmea2000Gateway("h", 1)
        got = []

        async def cb(m):
            got.append(m.PGN)
        c.set_receive_callback(cb)
        await c.connect()
        rd = opened[0]
        rd.feed_data(b"00:01:54.430 R 15F11910 00 00 00 E5 0B 1D FF FF\r\n")
        rd.feed_data(b"x" * 70000 + b"\r\n")
        rd.feed_data(b"00:01:54.530 R 09F11203 01 A0 5A FF 7F FF 7F FD\r\n")
        rd.feed_data(b"00:01:54.630 R 09FD0207 05 F4 01 30 5D FA FF FF\r\n")
        await asyncio.sleep(0.3)
        n = len(opened)
        await c.close()
        return got, n
    import asyncio as _a
    real_open = _a.open_connection
    try:
        got, n = _run(main())
    finally:
        _a.open_connection = real_open
    return got == [127257, 127250, 130306] and n == 1, f"delivered {got}, connections opened {n} (a decoder returns 127257, 127250, 130306 for the stream's lines)"


@finding("C13/zero-delay/accept-and-drop", "C13")
def f_accept_and_drop():
    """a gateway that accepts and immediately drops every connection was reconnected to without any delay (thousands of attempts per second)"""
    import nmea2000.ioclient as io_

    async def main():
        attempts = []

        async def fake_open(host, port):
            attempts.append(asyncio.get_event_loop().time())
            rd = asyncio.StreamReader()
            rd.feed_eof()                      # accepted, then dropped at once
            return rd, _FakeWriter()
        io_.asyncio.open_connection = fake_open
        c = io_.YachtDevicesNmea2000Gateway("h", 1)
        await c.connect()
        await asyncio.sleep(1.3)
        n = len(attempts)
        gaps = [b - a for a, b in zip(attempts, attempts[1:])]
        await c.close()
        return n, (min(gaps) if gaps else None)
    import asyncio as _a
    real_open = _a.open_connection
    try:
        n, g = _run(main(), timeout=10)
    finally:
        _a.open_connection = real_open
    return n <= 6 and (g is None or g >= 0.2), f"{n} connection attempts in 1.3 s, smallest gap between attempts {g if g is None else round(g, 4)} s"


@finding("C13/connect-from-status-callback", "C13")
def f_connect_from_status_callback():
    """connect() called from the status callback on DISCONNECTED ran inside the receive task and cancelled it: no receive path was left and
    the retry machinery opened connection after connection"""
    import nmea2000.ioclient as io_

    async def main():
        opened = []

        async def fake_open(host, port):
            rd = asyncio.StreamReader()
            opened.append(rd)
            return rd, _FakeWriter()
        io_.asyncio.open_connection = fake_open
        c = io_.YachtDevicesNmea2000Gateway("h", 1)
        got = []

        async def cb(m):
            got.append(m.PGN)
        c.set_receive_callback(cb)

        async def st(s):
            if s.name == "DISCONNECTED":
                await c.connect()
        c.set_status_callback(st)
        await c.connect()
        opened[0].feed_eof()
        await asyncio.sleep(1.5)
        opened[-1].feed_data(b"00:01:54.430 R 15F11910 00 00 00 E5 0B 1D FF FF\r\n")
        await asyncio.sleep(0.2)
        n = len(opened)
        state = c.state.name
        await c.close()
        return n, got, state
    import asyncio as _a
    real_open = _a.open_connection
    try:
        n, got, state = _run(main(), timeout=10)
    finally:
        _a.open_connection = real_open
    return n == 2 and got == [127257] and state == "CONNECTED", f"connections opened {n}, delivered after recovery {got}, state {state}"


@finding("C13/no-yield/buffered-frames", "C13")
def f_no_yield():
    """frames that are already buffered were read and queued without ever giving other tasks a turn"""
    import nmea2000.ioclient as io_

    async def main():
        rd = asyncio.StreamReader(limit=2 ** 22)

        async def fake_open(host, port):
            return rd, _FakeWriter()
        io_.asyncio.open_connection = fake_open
        c = io_.YachtDevicesNmea2000Gateway("h", 1)
        beats = [0]
        marks = []
        orig_put = c.queue.put

        async def put(m):
            marks.append(beats[0])
            await orig_put(m)
        c.queue.put = put

        async def heart():
            while True:
                beats[0] += 1
                await asyncio.sleep(0)
        h = asyncio.create_task(heart())
        await c.connect()
        rd.feed_data(b"00:01:54.430 R 15F11910 00 00 00 E5 0B 1D FF FF\r\n" * 400)
        await asyncio.sleep(0.5)
        h.cancel()
        await c.close()
        longest, run = 1, 1
        for a, b in zip(marks, marks[1:]):
            run = run + 1 if a == b else 1
            longest = max(longest, run)
        return len(marks), longest
    import asyncio as _a
    real_open = _a.open_connection
    try:
        n, longest = _run(main(), timeout=20)
    finally:
        _a.open_connection = real_open
    return n == 400 and longest <= 2, f"{n} frames received; up to {longest} frames were processed between two turns of another task"


@finding("C14/link-open/stalled-peer", "C14")
def f_close_stalled_peer():
    """close() while the gateway does not read and the write buffer is full: the shutdown waited for the buffer to drain, the link stayed open"""
    from nmea2000.ioclient import EByteNmea2000Gateway, State
    from nmea2000.decoder import NMEA2000Decoder

    async def main():
        release = asyncio.Event()

        async def handle(reader, writer):
            await release.wait()
            writer.close()
        server = await asyncio.start_server(handle, "127.0.0.1", 0)
        port = server.sockets[0].getsockname()[1]
        c = EByteNmea2000Gateway("127.0.0.1", port)
        await c.connect()
        msg = NMEA2000Decoder().decode_yacht_devices_string("00:01:54.430 R 15F11910 00 00 00 E5 0B 1D FF FF")
        sent = [0]

        async def sender():
            while c.state == State.CONNECTED:
                await c.send(msg)
                sent[0] += 1
        st = asyncio.create_task(sender())
        last = -1
        while last != sent[0]:
            last = sent[0]
            await asyncio.sleep(0.2)
        sock = c.writer.get_extra_info("socket")
        await c.close()
        await asyncio.sleep(0.5)
        open_ = sock.fileno() != -1
        stuck = not st.done()
        st.cancel()
        release.set()
        server.close()
        return open_, stuck
    open_, stuck = _run(main(), timeout=30)
    return (not open_) and (not stuck), f"0.5 s after close() returned: socket still open = {open_}, sender still blocked in send() = {stuck}"


@finding("C12/delivery/overlong-line-remainder", "C12")
def f_overlong_line_remainder():
    """one line of 70000 garbage characters followed by a valid sentence: delivered or not depending on where the read boundary falls"""
    import nmea2000.ioclient as io_

    async def run(parts):
        rd = asyncio.StreamReader()

        async def fake_open(host, port):
            return rd, _FakeWriter()
        io_.asyncio.open_connection = fake_open
        c = io_.ActisenseNmea2000Gateway("h", 1)
        got = []

        async def cb(m):
            got.append(m.PGN)
        c.set_receive_callback(cb)
        await c.connect()
        for p in parts:
            rd.feed_data(p)
            await asyncio.sleep(0.05)
        await c.close()
        return got

    async def main():
        line = b"X" * 70000 + b"A000057.055 09FF7 0FF00 3F9FDCFFFFFFFFFF\n"
        return await run([line]), await run([line[:70000], line[70000:]])
    import asyncio as _a
    real_open = _a.open_connection
    try:
        a, b = _run(main(), timeout=20)
    finally:
        _a.open_connection = real_open
    return a == b == [], f"the line in one piece delivers {a}; cut after the 70000 garbage characters it delivers {b} (a decoder rejects the whole line)"


@finding("C12/delivery/line-limit-valid-sentence", "C12")
def f_line_limit_valid_sentence():
    """a sentence the decoder accepts, padded with blanks to more than the reader's 64 KiB limit: the decoder returns a message, the client drops the line"""
    import nmea2000.ioclient as io_
    from nmea2000.decoder import NMEA2000Decoder

    async def run(line):
        rd = asyncio.StreamReader()

        async def fake_open(host, port):
            return rd, _FakeWriter()
        io_.asyncio.open_connection = fake_open
        c = io_.ActisenseNmea2000Gateway("h", 1)
        got = []

        async def cb(m):
            got.append(m.PGN)
        c.set_receive_callback(cb)
        await c.connect()
        rd.feed_data(line)
        await asyncio.sleep(0.05)
        await c.close()
        return got

    sentence = b"A000057.055 09FF7 0FF00 3F9FDCFFFFFFFFFF"
    out = {}
    import asyncio as _a
    real_open = _a.open_connection
    try:
        for n in (65536, 65537):
            line = sentence + b" " * (n - len(sentence)) + b"\n"
            ref = NMEA2000Decoder().decode_actisense_string(line.decode().strip())
            out[n] = (None if ref is None else ref.PGN, _run(run(line), timeout=20))
    finally:
        _a.open_connection = real_open
    ok = all(got == ([] if ref is None else [ref]) for ref, got in out.values())
    return ok, "; ".join(f"line body of {n} bytes: decoder returns {ref}, client delivers {got}" for n, (ref, got) in out.items())


@finding("C12/delivery/callback-cancelled-error", "C12")
def f_callback_cancelled_error():
    """a receive callback that lets asyncio.CancelledError escape (it awaited a helper task that had been cancelled) ended the one consumer
    task: no later message was ever delivered although the client stayed CONNECTED"""
    import nmea2000.ioclient as io_

    async def main():
        rd = asyncio.StreamReader()

        async def fake_open(host, port):
            return rd, _FakeWriter()
        io_.asyncio.open_connection = fake_open
        c = io_.YachtDevicesNmea2000Gateway("h", 1)
        calls = []

        async def cb(m):
            calls.append(m.PGN)
            if len(calls) == 2:
                t = asyncio.ensure_future(asyncio.sleep(10))
                t.cancel()
                await t
        c.set_receive_callback(cb)
        await c.connect()
        for _ in range(5):
            rd.feed_data(b"00:01:54.430 R 15F11910 00 00 00 E5 0B 1D FF FF\r\n")
            await asyncio.sleep(0.03)
        n = len(calls)
        done = c._process_queue_task.done()
        await c.close()
        return n, done, c._process_queue_task.done()
    import asyncio as _a
    real_open = _a.open_connection
    try:
        n, done, done_after_close = _run(main())
    finally:
        _a.open_connection = real_open
    return n == 5 and not done and done_after_close, f"callback invoked {n} times for 5 lines; consumer task ended early: {done}; ended after close(): {done_after_close}"


@finding("C14/task-alive", "C14")
def f_close_from_status_callback():
    """close() called from the status callback at the first fault (the callback runs inside the receive task) cancelled the task it
    was running in: close() raised CancelledError and the queue consumer task was left pending"""
    import nmea2000.ioclient as io_

    async def main():
        w = _FakeWriter()
        rd = asyncio.StreamReader()

        async def fake_open(host, port):
            return rd, w
        io_.asyncio.open_connection = fake_open
        c = io_.EByteNmea2000Gateway("h", 1)
        states, raised = [], []

        async def cb(s):
            states.append(s.name)
            if s.name == "DISCONNECTED":
                try:
                    await c.close()
                except BaseException as e:
                    raised.append(type(e).__name__)
                    raise
        c.set_status_callback(cb)
        await c.connect()
        await asyncio.sleep(0.01)
        rd.feed_eof()                    # the gateway drops the link
        await asyncio.sleep(0.3)
        pq = c._process_queue_task
        alive = pq is not None and not pq.done()
        if alive:
            pq.cancel()
        return states, raised, alive, c.state.name
    import asyncio as _a
    real_open = _a.open_connection
    try:
        states, raised, alive, st = _run(main())
    finally:
        _a.open_connection = real_open
    return (not raised) and (not alive) and st == "CLOSED", f"status log {states}, close() raised {raised}, queue consumer still pending: {alive}, state {st}"


@finding("C15/dump/cli-options", "C15")
def f_cli_dump_options():
    """the command line passed --dump_pgns as one raw string (split into one-letter ids by the decoder) and the tcp_client sub-command
    did not pass its dump options on at all"""
    import nmea2000.cli as cli
    seen = []

    class Fake:
        def __init__(self, *a, **kw):
            seen.append(kw)

    async def no_interactive(client):
        return None
    saved = (cli.EByteNmea2000Gateway, cli.WaveShareNmea2000Gateway, cli.interactive_client, sys.argv)
    try:
        cli.EByteNmea2000Gateway = Fake
        cli.WaveShareNmea2000Gateway = Fake
        cli.interactive_client = no_interactive
        sys.argv = ["nmea2000-cli", "usb_client", "--port", "/dev/null", "--dump_file", "d.jsonl", "--dump_pgns", "65280,windData"]
        asyncio.run(cli.async_main())
        sys.argv = ["nmea2000-cli", "tcp_client", "--server", "h", "--port", "1", "--type", "EBYTE", "--dump_file", "d.jsonl", "--dump_pgns", "127250"]
        asyncio.run(cli.async_main())
    finally:
        cli.EByteNmea2000Gateway, cli.WaveShareNmea2000Gateway, cli.interactive_client, sys.argv = saved
    ok = (len(seen) == 2 and seen[0].get("dump_pgns") == [65280, "windData"] and seen[0].get("dump_to_file") == "d.jsonl"
          and seen[1].get("dump_pgns") == [127250] and seen[1].get("dump_to_file") == "d.jsonl")
    return ok, f"usb_client passes {seen[0] if seen else None}; tcp_client passes {seen[1] if len(seen) > 1 else None}"


@finding("C16/rejected-input/overlong-claim", "C16")
def f_overlong_claim():
    """an address claim with a ninth data byte gave a NAME wider than 64 bits: with a dump file configured the claim was rejected with
    TypeError (orjson) AFTER the source map had been updated, and every later message from that source raised as well"""
    tmp = tempfile.TemporaryDirectory()
    d = _dec(dump_to_file=os.path.join(tmp.name, "dump.jsonl"))
    probe = "2022-09-10T12:10:17.000Z,2,127250,7,255,8,00,10,27,ff,7f,ff,7f,fd"
    before = d.decode_basic_string(probe)
    try:
        d.decode_basic_string("2022-09-10T12:10:16.614Z,6,60928,7,255,9,01,02,03,04,05,06,07,08,09")
        claim = "accepted"
    except Exception as e:
        claim = "raised " + type(e).__name__
    try:
        after = d.decode_basic_string(probe)
        res = "decodes" if after is not None and [f.value for f in after.fields] == [f.value for f in before.fields] else "differs"
    except Exception as e:
        res = "raises " + type(e).__name__
    iso = d.source_to_iso_name.get(7)
    d.close(); tmp.cleanup()
    return res == "decodes" and (iso is None or iso.name < 2 ** 64), f"9-byte claim {claim}; a later heading message from that source {res}; stored NAME {iso and hex(iso.name)}"


@finding("C17/hash/text-key-None", "C17")
def f_hash_text_key():
    """the key string was built with str(raw): an absent station id (raw None) and the station id "None" gave the same hash; text containing '_'
    could also run into the next key part"""
    from nmea2000.decoder import NMEA2000Decoder
    d = NMEA2000Decoder(build_network_map=True)
    d.decode_basic_string("2022-09-10T12:10:16.614Z,6,60928,5,255,8,fb,9b,70,22,00,9b,50,c0", True)
    head = "00,10,00,10,00,00,00,01,00,00,00,01,00,00,00,01,00,01,00"
    m1 = d.decode_basic_string("2022-09-10T12:10:16.614Z,6,130320,5,255,19," + head, True)
    m2 = d.decode_basic_string("2022-09-10T12:10:16.614Z,6,130320,5,255,25," + head + ",06,01,4e,6f,6e,65", True)
    r1, r2 = m1.get_field_by_id("stationId").raw_value, m2.get_field_by_id("stationId").raw_value
    return (r1 != r2) and m1.hash != m2.hash, f"130320 station id raw {r1!r} -> hash {m1.hash}; raw {r2!r} -> hash {m2.hash}"


@finding("C18/units/130818.degrees-twice", "C18")
def f_degrees_twice():
    """ANGLE fields that the database gives in degrees already (130818 heading/pitch/roll offset, 126720 xAxisAngularOffset) were run through
    radians->degrees again with the preference ANGLE:deg"""
    from nmea2000.decoder import NMEA2000Decoder
    from nmea2000.consts import PhysicalQuantities as PQ
    line = "2024-05-06T07:08:09.100Z,3,130818,35,255,28,3f,87,00,00,0a,00,19,00,fb,ff,00,00,00,00,00,00,00,00,00,00,00,00,00,00,00,00,00,00"
    plain = NMEA2000Decoder().decode_basic_string(line, True)
    pref = NMEA2000Decoder(preferred_units={PQ.ANGLE: "deg"}).decode_basic_string(line, True)
    a = [(f.id, f.value, f.unit_of_measurement) for f in plain.fields if f.physical_quantities == PQ.ANGLE]
    b = [(f.id, f.value, f.unit_of_measurement) for f in pref.fields if f.physical_quantities == PQ.ANGLE]
    ok = all(abs(x[1] - y[1]) < 0.51 for x, y in zip(a, b))
    return ok, f"without preference {a}; with ANGLE:deg {b}"


@finding("C19/unsendable-not-harmless/header-none", "C19")
def f_send_header_none():
    """send() of a message whose priority or destination is None (JSON null) raised TypeError outside the encoder's own error handling and was
    treated as a lost connection: DISCONNECTED, status callbacks, reconnection of a healthy link"""
    import nmea2000.ioclient as io_
    from nmea2000.message import NMEA2000Message, NMEA2000Field

    async def main():
        opened = []

        async def fake_open(host, port):
            w = _FakeWriter()
            opened.append(w)
            return asyncio.StreamReader(), w
        io_.asyncio.open_connection = fake_open
        c = io_.EByteNmea2000Gateway("h", 1)
        states = []

        async def cb(s):
            states.append(s.name)
        c.set_status_callback(cb)
        await c.connect()
        for prio, dst in ((None, 255), (6, None)):
            await c.send(NMEA2000Message(PGN=59904, id="isoRequest", fields=[NMEA2000Field("pgn", value=60928, raw_value=60928)], source=1, destination=dst, priority=prio))
            await asyncio.sleep(0.05)
        st = c.state.name
        n = len(opened)
        before = list(states)
        await c.close()
        return before, st, n
    import asyncio as _a
    real_open = _a.open_connection
    try:
        states, st, n = _run(main())
    finally:
        _a.open_connection = real_open
    return states == ["CONNECTED"] and st == "CONNECTED" and n == 1, f"status log before close {states}, state {st}, connections opened {n}"


@finding("C19/split-over-links", "C19")
def f_send_split_over_links():
    """send() re-read self.writer for every packet: a sender suspended in drain() while the client reconnected wrote the rest of its
    message to the new link"""
    import nmea2000.ioclient as io_

    class W(_FakeWriter):
        def __init__(self):
            super().__init__()
            self.gate = None
            self.out = []

        def write(self, b):
            self.out.append(bytes(b))

        async def drain(self):
            if self.gate is not None:
                await self.gate.wait()

    async def main():
        ws = []

        async def fake_open(host, port):
            w = W()
            ws.append(w)
            return asyncio.StreamReader(), w
        io_.asyncio.open_connection = fake_open
        c = io_.EByteNmea2000Gateway("h", 1)

        class Enc:
            def encode_ebyte(self, m):
                return [bytes([i]) * 13 for i in range(5)]
        c.encoder = Enc()
        await c.connect()
        ws[0].gate = asyncio.Event()              # flow control: the gateway does not read
        t = asyncio.create_task(c.send(object()))
        await asyncio.sleep(0.01)                 # the sender has written packet 0 and is suspended in drain()
        c.reader.feed_eof()                       # the gateway half-closes: the client reconnects
        await asyncio.sleep(1.0)
        ws[0].gate.set()                          # the old link drains
        await asyncio.sleep(0.05)
        n = [len(w.out) for w in ws]
        t.cancel()
        await c.close()
        return n
    import asyncio as _a
    real_open = _a.open_connection
    try:
        n = _run(main())
    finally:
        _a.open_connection = real_open
    return len(n) >= 2 and n[0] == 5 and all(x == 0 for x in n[1:]), f"packets of the one 5-packet message per link, in connection order: {n}"


@finding("C19/unsendable-not-harmless/destination-range", "C19")
def f_send_destination_range():
    """a destination above 255 was OR-ed into the PGN bits of the frame id: ISO Request 59904 to destination 256 was written as PGN 60160"""
    from nmea2000.encoder import NMEA2000Encoder
    from nmea2000.message import NMEA2000Message, NMEA2000Field
    m = NMEA2000Message(PGN=59904, id="isoRequest", fields=[NMEA2000Field("pgn", value=60928, raw_value=60928)], source=1, destination=256, priority=6)
    try:
        pk = NMEA2000Encoder().encode_ebyte(m)
    except ValueError:
        return True, "rejected with ValueError"
    return False, f"written as {pk[0].hex()} (frame id {pk[0][1:5].hex()})"


@finding("C19/concurrent-send-interleave", "C19")
def f_send_interleave():
    import nmea2000.ioclient as io_
    from nmea2000.message import NMEA2000Message

    async def main():
        w = _FakeWriter()

        async def fake_open(host, port):
            return asyncio.StreamReader(), w
        io_.asyncio.open_connection = fake_open
        c = io_.EByteNmea2000Gateway("h", 1)
        await c.connect()

        class Enc:
            def __init__(self):
                self.k = 0

            def encode_ebyte(self, m):
                self.k += 1
                return [bytes([self.k, i]) for i in range(3)]
        c.encoder = Enc()
        m = NMEA2000Message(PGN=1)
        await asyncio.gather(c.send(m), c.send(m))
        out = list(w.written)
        await c.close()
        return out
    import asyncio as _a
    real_open = _a.open_connection
    try:
        out = _run(main())
    finally:
        _a.open_connection = real_open
    ids = [b[0] for b in out]
    return ids in ([1, 1, 1, 2, 2, 2], [2, 2, 2, 1, 1, 1]), f"wire order of two concurrent 3-packet sends: {ids}"


@finding("C19/actisense-send-drops-link", "C19")
def f_actisense_send():
    import nmea2000.ioclient as io_
    from nmea2000.message import NMEA2000Message

    async def main():
        w = _FakeWriter()

        async def fake_open(host, port):
            return asyncio.StreamReader(), w
        io_.asyncio.open_connection = fake_open
        c = io_.ActisenseNmea2000Gateway("h", 1)
        states = []

        async def cb(s):
            states.append(s.name)
        c.set_status_callback(cb)
        await c.connect()
        await c.send(NMEA2000Message(PGN=59904))
        await asyncio.sleep(0.05)
        await c.close()
        return states, w.written
    import asyncio as _a
    real_open = _a.open_connection
    try:
        states, written = _run(main())
    finally:
        _a.open_connection = real_open
    return states == ["CONNECTED", "CLOSED"] and not written, f"status log {states} (format without an encoder must leave the connection as it was)"


@finding("C20/noise-free-loss/junction-marker", "C20")
def f_serial_junction():
    """after a marker inside noise had swallowed the head of packet 1 (always 20 bytes were consumed, also on a checksum mismatch), the tail of
    packet 1 (checksum byte AA) and the first byte of a MARKER-FREE noise run (55) read as a marker, and packet 2 was lost as well"""
    import serial_asyncio
    from nmea2000.ioclient import WaveShareNmea2000Gateway
    from nmea2000.encoder import NMEA2000Encoder
    from nmea2000.utils import calculate_canbus_checksum

    def packet(pgn, src, data):
        fid = NMEA2000Encoder._build_header(pgn, src, 255, 2)
        b = bytes([0xaa, 0x55, 1, 2, 1]) + fid.to_bytes(4, "little") + bytes([8]) + bytes(data) + b"\x00"
        return b + bytes([calculate_canbus_checksum(b)])

    async def main():
        p1 = next(p for p in (packet(127251, 7, [1, x, 0, 0, 0, 0xff, 0xff, 0xff]) for x in range(256)) if p[19] == 0xAA)
        p2 = packet(127251, 7, [2, 9, 0, 0, 0, 0xff, 0xff, 0xff])
        p3 = packet(127251, 7, [3, 9, 0, 0, 0, 0xff, 0xff, 0xff])
        noise_a = b"\xaa\x55" + bytes(14)               # noise containing a marker: may cost packet 1
        noise_b = b"\x55" + bytes(range(1, 18))          # 18 bytes without a marker
        reader = asyncio.StreamReader()

        async def fake_open(**kw):
            return reader, _FakeWriter()
        real = serial_asyncio.open_serial_connection
        serial_asyncio.open_serial_connection = fake_open
        try:
            c = WaveShareNmea2000Gateway("/dev/null")
            got = []

            async def cb(m):
                got.append(m.fields[0].value)
            c.set_receive_callback(cb)
            await c.connect()
            reader.feed_data(noise_a + p1 + noise_b + p2 + p3)
            await asyncio.sleep(0.2)
            await c.close()
        finally:
            serial_asyncio.open_serial_connection = real
        return got
    got = _run(main())
    return 2 in got and 3 in got, f"packets with sid 1, 2, 3 sent (marker noise, p1, marker-free noise, p2, p3): delivered sids {got}"


@finding("C20/unbounded-buffer", "C20")
def f_serial_buffer():
    import nmea2000.ioclient as io_

    async def main():
        reader = asyncio.StreamReader()
        w = _FakeWriter()

        async def fake_open(**kw):
            return reader, w
        io_.serial_asyncio.open_serial_connection = fake_open
        c = io_.WaveShareNmea2000Gateway("p")
        await c.connect()
        for _ in range(50):
            reader.feed_data(bytes([0x11] * 100))
            await asyncio.sleep(0)
            await asyncio.sleep(0)
        n = len(c._buffer)
        await c.close()
        return n
    import serial_asyncio as _s
    real = _s.open_serial_connection
    try:
        n = _run(main())
    finally:
        _s.open_serial_connection = real
    return n <= 60, f"{n} bytes held after 5000 bytes of marker-free noise"


@finding("C13/eof-spin/serial", "C13")
def f_eof_spin_serial():
    import nmea2000.ioclient as io_

    async def main():
        reader = asyncio.StreamReader()
        w = _FakeWriter()
        calls = {"n": 0}
        orig = reader.read

        async def counting_read(n=-1):
            calls["n"] += 1
            if calls["n"] > 2000:
                raise asyncio.CancelledError()
            return await orig(n)
        reader.read = counting_read

        async def fake_open(**kw):
            return reader, w
        io_.serial_asyncio.open_serial_connection = fake_open
        c = io_.WaveShareNmea2000Gateway("p")
        await c.connect()
        reader.feed_eof()
        for _ in range(50):
            await asyncio.sleep(0)
        n = calls["n"]
        try:
            await c.close()
        except BaseException:
            pass
        return n
    import serial_asyncio as _s
    real = _s.open_serial_connection
    try:
        n = _run(main())
    finally:
        _s.open_serial_connection = real
    return n < 100, f"{n} non-suspending read() calls after EOF (spin)"


# ---------------------------------------------------------------- round 4
YD_LINE = b"00:01:54.430 R 15F11910 00 00 00 E5 0B 1D FF FF\r\n"


def _fake_text_client(cls_name="YachtDevicesNmea2000Gateway", **kw):
    """a text client over a fake link: returns (module, opened readers list, make())"""
    import nmea2000.ioclient as io_
    opened = []

    async def fake_open(host, port):
        rd = asyncio.StreamReader()
        w = _FakeWriter()
        opened.append((rd, w))
        return rd, w
    io_.asyncio.open_connection = fake_open
    return io_, opened, (lambda: getattr(io_, cls_name)("h", 1, **kw))


def _with_real_open(fn, timeout=8.0):
    import asyncio as _a
    real_open = _a.open_connection
    try:
        return _run(fn(), timeout=timeout)
    finally:
        _a.open_connection = real_open


async def _cancelled_error():
    t = asyncio.ensure_future(asyncio.sleep(10))
    t.cancel()
    await t


@finding("C13/no-recovery/status-callback-cancelled", "C13")
def f_status_cancelled_recovery():
    """a status callback that lets CancelledError escape (it awaited something cancelled) while DISCONNECTED is reported killed the receive
    task before it scheduled the reconnect: the client stayed DISCONNECTED for ever although the gateway accepts"""
    async def main():
        io_, opened, make = _fake_text_client()
        c = make()
        log, got = [], []

        async def st(s):
            log.append(s.name)
            if s.name == "DISCONNECTED":
                await _cancelled_error()

        async def cb(m):
            got.append(m.PGN)
        c.set_status_callback(st)
        c.set_receive_callback(cb)
        await c.connect()
        opened[0][0].feed_eof()
        await asyncio.sleep(1.5)
        if len(opened) > 1:
            opened[1][0].feed_data(YD_LINE)
            await asyncio.sleep(0.05)
        state = c.state.name
        await c.close()
        return log, state, len(opened), got
    log, state, n, got = _with_real_open(main)
    return state == "CONNECTED" and n == 2 and got == [127257], f"status log {log}, state 1.5 s after the fault {state}, connections opened {n}, delivered on the new link {got}"


@finding("C14/status-callback-cancelled/close", "C14")
def f_status_cancelled_close():
    """a status callback that lets CancelledError escape while CLOSED is reported made close() raise before it shut the link and stopped the
    background tasks"""
    async def main():
        io_, opened, make = _fake_text_client()
        c = make()

        async def st(s):
            if s.name == "CLOSED":
                await _cancelled_error()
        c.set_status_callback(st)
        await c.connect()
        raised = None
        try:
            await c.close()
        except BaseException as e:     # noqa
            raised = type(e).__name__
        await asyncio.sleep(0.05)
        res = (raised, opened[0][1].closed, c._receive_task.done(), c._process_queue_task.done())
        for t in (c._receive_task, c._process_queue_task):
            t.cancel()
        return res
    raised, shut, rdone, qdone = _with_real_open(main)
    return raised is None and shut and rdone and qdone, f"close() raised {raised}; link shut {shut}; receive task finished {rdone}; queue task finished {qdone}"


@finding("C13/retry-floor/reconnect-per-send", "C13")
def f_reconnect_per_send():
    """a gateway that accepts and drops every connection, an application that sends every 50 ms: every failing send started its own reconnect
    task, the gateway saw an attempt every 50 ms instead of every 0.5 s"""
    from nmea2000.ioclient import EByteNmea2000Gateway
    from nmea2000.message import NMEA2000Message, NMEA2000Field

    async def main():
        times = []

        async def handle(reader, writer):
            times.append(asyncio.get_event_loop().time())
            writer.close()
        server = await asyncio.start_server(handle, "127.0.0.1", 0)
        port = server.sockets[0].getsockname()[1]
        c = EByteNmea2000Gateway("127.0.0.1", port)
        await c.connect()
        msg = NMEA2000Message(PGN=59904, id="isoRequest", priority=6, source=1, destination=255, fields=[NMEA2000Field(id="pgn", value=60928, raw_value=60928)])
        for _ in range(60):
            await c.send(msg)
            await asyncio.sleep(0.05)
        await c.close()
        server.close()
        return times
    times = _run(main(), timeout=30)
    gaps = [b - a for a, b in zip(times, times[1:])]
    return len(times) <= 8 and (not gaps or min(gaps) > 0.4), f"{len(times)} connection attempts in 3 s, smallest gap {min(gaps) if gaps else None}"


@finding("C19/send-blocked/replaced-link", "C19")
def f_send_blocked_replaced_link():
    """a sender suspended in drain() on a link whose peer stopped reading; the peer half-closes, the client reconnects without shutting the old
    link: the stuck sender kept the send lock for ever and a message sent on the new, healthy link was never written"""
    from nmea2000.ioclient import EByteNmea2000Gateway, State
    from nmea2000.message import NMEA2000Message, NMEA2000Field

    def req(pgn):
        return NMEA2000Message(PGN=59904, id="isoRequest", priority=6, source=1, destination=255, fields=[NMEA2000Field(id="pgn", value=pgn, raw_value=pgn)])

    async def main():
        conns = []

        async def handle(reader, writer):
            rec = {"w": writer, "data": bytearray(), "read": len(conns) > 0}
            conns.append(rec)
            while True:
                if rec["read"]:
                    d = await reader.read(65536)
                    if not d:
                        return
                    rec["data"] += d
                else:
                    await asyncio.sleep(0.05)       # the first link's peer does not read
        server = await asyncio.start_server(handle, "127.0.0.1", 0)
        port = server.sockets[0].getsockname()[1]
        c = EByteNmea2000Gateway("127.0.0.1", port)
        await c.connect()
        old = c.writer
        stop = [False]

        async def sender_a():
            while not stop[0] and c.writer is old:
                await c.send(req(60928))
        a = asyncio.create_task(sender_a())
        for _ in range(200):
            await asyncio.sleep(0.05)
            if c._send_lock.locked() and old.transport.get_write_buffer_size() > 0:
                break
        await asyncio.sleep(0.2)
        conns[0]["w"].write_eof()                   # half-close without reading what is pending
        for _ in range(100):
            await asyncio.sleep(0.05)
            if c.state == State.CONNECTED and c.writer is not old:
                break
        stop[0] = True
        reconnected = c.state == State.CONNECTED and c.writer is not old
        b = asyncio.create_task(c.send(req(126996)))
        done, _ = await asyncio.wait([b], timeout=3)
        await asyncio.sleep(0.3)
        got = bytes(conns[1]["data"]) if len(conns) > 1 else b""
        exp = b"".join(c.encoder.encode_ebyte(req(126996)))
        a.cancel()
        b.cancel()
        old_open = old.transport is not None and not old.transport.is_closing()
        await c.close()
        server.close()
        return reconnected, bool(done), got.endswith(exp) and len(exp) > 0, old_open
    reconnected, done, ok, old_open = _run(main(), timeout=40)
    return reconnected and done and ok and not old_open, (f"reconnected {reconnected}; send() on the new link returned within 3 s: {done}; its packet arrived: {ok}; "
                                                          f"the replaced link is still open: {old_open}")


@finding("C15/dump/client-close", "C15")
def f_client_dump_close():
    """a gateway client with dump_to_file: after client.close() the dump file lacked the delivered messages (the client never closed its decoder,
    the buffered file was written only when the object was garbage collected)"""
    async def main():
        with tempfile.TemporaryDirectory() as td:
            fn = os.path.join(td, "d.jsonl")
            io_, opened, make = _fake_text_client(dump_to_file=fn)
            c = make()
            got = []

            async def cb(m):
                got.append(m)
            c.set_receive_callback(cb)
            await c.connect()
            for _ in range(5):
                opened[0][0].feed_data(YD_LINE)
            await asyncio.sleep(0.1)
            await c.close()
            lines = open(fn).read().splitlines()
            same = [json.loads(l)["PGN"] for l in lines] == [m.PGN for m in got]
            return len(got), len(lines), same, c        # (c is returned so that it is still referenced when the file is read)
    n, k, same, _c = _with_real_open(main)
    return n == 5 and k == 5 and same, f"{n} messages delivered, dump file after client.close(): {k} lines"


@finding("C15/dump/non-utf8-locale", "C15")
def f_dump_locale():
    """dump file opened in the locale's encoding: under an ASCII locale a message with non-ASCII text made decode_*() raise as soon as dumping
    was switched on (run in a child interpreter with LC_ALL=C, UTF-8 mode off)"""
    import subprocess
    prog = r"""
import sys, json, tempfile, os, logging
sys.path.insert(0, sys.argv[1])
logging.disable(logging.CRITICAL)
from nmea2000.decoder import NMEA2000Decoder
text = 'h\u00e9llo'.encode('utf-8')
# PGN 126998 configuration information: three STRING_LAU fields (length, encoding 1 = ASCII/UTF-8, bytes)
p = bytes([len(text) + 2, 1]) + text + bytes([2, 1]) + bytes([2, 1])
line = '2024-01-01-00:00:00.000,6,126998,1,255,%d,%s' % (len(p), ','.join('%02x' % b for b in p))
plain = NMEA2000Decoder().decode_basic_string(line, already_combined=True)
with tempfile.TemporaryDirectory() as td:
    fn = os.path.join(td, 'd.jsonl')
    d = NMEA2000Decoder(dump_to_file=fn)
    try:
        m = d.decode_basic_string(line, already_combined=True)
        err = None
    except Exception as e:
        m, err = None, type(e).__name__
    d.close()
    data = open(fn, 'rb').read()
ok = err is None and m is not None and data.decode('utf-8').strip() != '' and json.loads(data.decode('utf-8'))['fields'][0]['value'] == plain.fields[0].value
print(json.dumps({'ok': ok, 'err': err, 'plain': plain.fields[0].value}))
"""
    env = dict(os.environ, LC_ALL="C", LANG="C", PYTHONUTF8="0", PYTHONCOERCECLOCALE="0")
    r = subprocess.run([sys.executable, "-c", prog, REPO], env=env, stdout=subprocess.PIPE, stderr=subprocess.PIPE, text=True, timeout=60)
    try:
        d = json.loads(r.stdout.strip().splitlines()[-1])
    except Exception:
        return False, f"child failed: {r.stderr[-300:]}"
    return d["ok"], f"under LC_ALL=C: decode with dumping raised {d['err']}; text decoded without dumping: {d['plain']!r}"


@finding("C06/message-trip/actisense/out-of-range-addressing", "C06")
def f_actisense_out_of_range():
    """encode_actisense skipped the addressing checks of the other formats and masked instead: source 300 was accepted and decodes as 44"""
    from nmea2000.encoder import NMEA2000Encoder
    bad = []
    for attr, v in (("source", 300), ("destination", 256), ("source", -1), ("priority", 22)):
        m = _dec().decode_actisense_string("A000001.000 23FF6 0EA00 00EE00")
        setattr(m, attr, v)
        try:
            line = NMEA2000Encoder().encode_actisense(m)
        except ValueError:
            continue
        r = _dec().decode_actisense_string("A000001.000 " + line)
        if getattr(r, attr) != v:
            bad.append(f"{attr}={v} accepted, decodes as {getattr(r, attr)}")
    return not bad, "; ".join(bad) or "out-of-range addressing is refused"


@finding("C12/delivery/cut-off-line", "C12")
def f_cut_off_line():
    """the stream ends in the middle of a line: readline() hands out the fragment, the text clients decoded and delivered it as a packet"""
    async def main():
        out = []
        for cls, frag in (("YachtDevicesNmea2000Gateway", b"00:01:54.430 R 15F11910 00 00 00 E5 0B 1"), ("ActisenseNmea2000Gateway", b"A000057.055 09FF7 0FF00 3F9FDCFFFFFF")):
            io_, opened, make = _fake_text_client(cls)
            c = make()
            got = []

            async def cb(m, got=got):
                got.append([f.value for f in m.fields])
            c.set_receive_callback(cb)
            await c.connect()
            opened[0][0].feed_data(frag)
            opened[0][0].feed_eof()
            await asyncio.sleep(0.1)
            await c.close()
            out.append((cls, got))
        return out
    out = _with_real_open(main)
    bad = [(c, g) for c, g in out if g]
    return not bad, f"messages delivered for a packet that never arrived completely: {bad}" if bad else "fragments at the end of the stream are not delivered"


@finding("C12/delivery/callback-exception-str", "C12")
def f_callback_badstr():
    """a receive callback raising an exception whose __str__ raises: the except handler's own f-string raised, the consumer task ended and no
    later message was delivered"""
    class Bad(Exception):
        def __str__(self):
            raise RuntimeError("no text")

    async def main():
        io_, opened, make = _fake_text_client()
        c = make()
        calls = []

        async def cb(m):
            calls.append(m.PGN)
            if len(calls) == 2:
                raise Bad()
        c.set_receive_callback(cb)
        await c.connect()
        for _ in range(5):
            opened[0][0].feed_data(YD_LINE)
            await asyncio.sleep(0.02)
        n = len(calls)
        await c.close()
        return n
    n = _with_real_open(main)
    return n == 5, f"callback invoked {n} times for 5 lines"


@finding("C14/task-alive/reconnect-and-seeding", "C14")
def f_tasks_after_close():
    """close() while the reconnect task is connecting, and close() of a client that is seeding its network map: both background tasks went on
    after close() had returned (the reconnect completed a connection, the seeding task kept calling send() for up to 6 s)"""
    import nmea2000.ioclient as io_

    async def main():
        opened, gates = [], []

        async def fake_open(host, port):
            if opened:                       # every connection after the first is slow to come up
                ev = asyncio.Event()
                gates.append(ev)
                await ev.wait()
            rd = asyncio.StreamReader()
            w = _FakeWriter()
            opened.append((rd, w))
            return rd, w
        io_.asyncio.open_connection = fake_open
        base = set(asyncio.all_tasks())

        def pending():
            return sorted(getattr(t.get_coro(), "__qualname__", "?").split(".")[-1] for t in asyncio.all_tasks()
                          if t not in base and not t.done() and t is not asyncio.current_task())
        # 1. close() while the reconnect task is inside connect()
        c = io_.YachtDevicesNmea2000Gateway("h", 1)
        await c.connect()
        opened[0][0].feed_eof()
        await asyncio.sleep(0.8)              # DISCONNECTED, 0.5 s wait, then the reconnect attempt hangs in open_connection
        await c.close()
        left1 = pending()
        for g in gates:
            g.set()
        await asyncio.sleep(0.05)
        n_conn = len(opened)
        # 2. close() of a client that seeds its network map
        opened.clear()
        c2 = io_.YachtDevicesNmea2000Gateway("h", 1, build_network_map=True)
        await c2.connect()
        await asyncio.sleep(0.1)
        await c2.close()
        left2 = pending()
        for t in asyncio.all_tasks():
            if t not in base and t is not asyncio.current_task():
                t.cancel()
        return left1, n_conn, left2
    left1, n_conn, left2 = _with_real_open(main)
    return not left1 and n_conn == 1 and not left2, (f"tasks of the client still pending when close() returned: during a reconnect {left1} (connections opened in the end: {n_conn}), "
                                                     f"with network map seeding {left2}")


@finding("C14/task-alive/reconnect-scheduled-after-close", "C14")
def f_reconnect_after_close():
    """the status callback that is told DISCONNECTED calls close(): the fault path scheduled its reconnect all the same, a task that was
    started after close() had returned"""
    async def main():
        io_, opened, make = _fake_text_client()
        c = make()
        base = set(asyncio.all_tasks())

        async def st(s):
            if s.name == "DISCONNECTED":
                await c.close()
        c.set_status_callback(st)
        await c.connect()
        opened[0][0].feed_eof()
        await asyncio.sleep(0.1)
        left = sorted(getattr(t.get_coro(), "__qualname__", "?").split(".")[-1] for t in asyncio.all_tasks()
                      if t not in base and not t.done() and t is not asyncio.current_task())
        for t in asyncio.all_tasks():
            if t not in base and t is not asyncio.current_task():
                t.cancel()
        return c.state.name, left
    state, left = _with_real_open(main)
    return state == "CLOSED" and not left, f"state {state}; tasks of the client alive 0.1 s after close() returned: {left}"


def _script(name, timeout=120):
    """run a stored reproduction script (tools/repros/) against the tree under test: exit 0 = the property holds on its scenario"""
    import subprocess
    here = os.path.dirname(os.path.abspath(__file__))
    r = subprocess.run([sys.executable, os.path.join(here, "repros", name), REPO], stdout=subprocess.PIPE, stderr=subprocess.STDOUT, text=True, timeout=timeout)
    lines = [l for l in r.stdout.strip().splitlines() if l.strip()]
    return r.returncode == 0, " | ".join(lines[-3:])[:600]


@finding("C14/task-alive/connect-after-close-window", "C14")
def f_connect_window():
    """connect() waits 10 ms after cancelling the old receive task and then started the new receive and seeding tasks without looking at the
    state again: a close() from the receive callback returns inside that window (real sockets, build_network_map, slow DISCONNECTED callback,
    the application's own connect())"""
    return _script("C14_connect_window.py")


@finding("C14/task-alive/cancellation-retried", "C14")
def f_cancel_retried():
    """close() cancels the reconnect task while its connect() waits for the old receive task: the CancelledError was turned into an
    AssertionError, which the retry loop retried — the task survived close() by half a second"""
    return _script("C14_cancel_retried.py")


@finding("C12/delivery/non-utf8-bytes-dropped", "C12")
def f_non_utf8():
    """the text clients deleted bytes that are not UTF-8 from a line before decoding it: a damaged line was delivered as an intact sentence"""
    return _script("C12_non_utf8.py")


@finding("C13/no-yield/queue-backlog", "C13")
def f_consumer_no_yield():
    """a backlog of queued frames (built up while one callback waited) was delivered by the queue consumer without ever suspending: a
    heartbeat task got one turn while 100 000 frames were delivered"""
    return _script("C13_consumer_no_yield.py")


@finding("C13/no-recovery/stale-receive-loop-shuts-new-link", "C13")
def f_stale_loop_shuts_new_link():
    """a send fails, its fault path shuts the link and reports DISCONNECTED; the status callback (or the application) connects again at once; the
    receive loop of the OLD link then sees the end of its stream and shut `self.writer` — by now the NEW link — and reported a fault for it"""
    import nmea2000.ioclient as io_

    class W(_FakeWriter):
        def __init__(self, reader):
            super().__init__()
            self.reader, self.fail = reader, False

        def write(self, b):
            if self.fail or self.closed:
                raise ConnectionResetError("reset")
            super().write(b)

        def close(self):
            if not self.closed and not self.reader.at_eof():
                self.reader.feed_eof()           # as with a real transport: shutting the link ends its stream
            super().close()

    async def main():
        links = []

        async def fake_open(host, port):
            rd = asyncio.StreamReader()
            w = W(rd)
            links.append(w)
            return rd, w
        io_.asyncio.open_connection = fake_open
        c = io_.YachtDevicesNmea2000Gateway("h", 1)
        log = []

        async def st(s):
            log.append(s.name)
            if s.name == "DISCONNECTED" and len(links) == 1:
                await c.connect()                # "on disconnect, reconnect" written by the user
            if s.name == "CONNECTED" and len(links) == 2:
                await asyncio.sleep(0.05)        # … and a status callback that takes a moment: the old receive loop runs meanwhile
        c.set_status_callback(st)
        await c.connect()
        await asyncio.sleep(0.01)            # the receive task is reading from the first link
        links[0].fail = True
        from nmea2000.message import NMEA2000Message, NMEA2000Field
        await c.send(NMEA2000Message(PGN=59904, id="isoRequest", priority=6, source=1, destination=255, fields=[NMEA2000Field(id="pgn", value=60928, raw_value=60928)]))
        await asyncio.sleep(0.2)
        res = (list(log), len(links), links[1].closed if len(links) > 1 else None, c.state.name)
        await c.close()
        return res
    log, n, second_shut, state = _with_real_open(main)
    return n == 2 and second_shut is False and state == "CONNECTED" and log == ["CONNECTED", "DISCONNECTED", "CONNECTED"], \
        f"status log {log}; links opened {n}; the new link was shut: {second_shut}; state {state}"


@finding("C01/excess-k/65013.realPower", "C01")
def f_excess_k():
    """the 22 J1939 AC power fields (32 bits, Offset -2000000000, range -2e9..2294967292, marked Signed because the VALUES can be negative): the
    raw count was sign-extended before the offset was added, so the upper half of the database range was refused, 147483647 W read as
    'not available' and the all-ones 'not available' payload raised"""
    from nmea2000.encoder import NMEA2000Encoder
    out = {}
    for lab, raw in (("0x80000000", 0x80000000), ("0x7fffffff", 0x7FFFFFFF), ("0xfffffffc", 0xFFFFFFFC), ("all-ones", 0xFFFFFFFF), ("zero", 0)):
        data = raw.to_bytes(4, "little") + (0xFFFFFFFF).to_bytes(4, "little")
        try:
            m = _dec().decode_basic_string(_basic(65013, data), True)
            out[lab] = m.fields[0].value
        except Exception as e:
            out[lab] = f"{type(e).__name__}"
    exp = {"0x80000000": 147483648, "0x7fffffff": 147483647, "0xfffffffc": 2294967292, "all-ones": None, "zero": -2000000000}
    # … and back: a value in the upper half encodes to its unsigned raw count
    m = _dec().decode_basic_string(_basic(65013, (5).to_bytes(4, "little") + (0xFFFFFFFF).to_bytes(4, "little")), True)
    m.fields[0].value = 2000000000
    try:
        back = NMEA2000Encoder()._call_encode_function(m)[:4].hex()
    except Exception as e:
        back = type(e).__name__
    return out == exp and back == (4000000000).to_bytes(4, "little").hex(), f"decoded {out} (expected {exp}); 2000000000 W encodes to {back}"


@finding("C09/wraps-silently/DATE-by-value", "C09")
def f_date_by_value():
    """a DATE given by value outside 1970-01-01..2149-06-05 was turned into a day count that the generated code then masked: date(2200,1,1) was
    sent as 2020-07-27"""
    import datetime
    from nmea2000.encoder import NMEA2000Encoder
    bad = []
    for d in (datetime.date(2200, 1, 1), datetime.date(1969, 12, 31), datetime.date(2149, 6, 6), datetime.date(1800, 1, 1)):
        m = _dec().decode_basic_string(_basic(126992, bytes([1, 0xF0]) + (19000).to_bytes(2, "little") + (36000000).to_bytes(4, "little")), True)
        f = m.get_field_by_id("date")
        f.value, f.raw_value = d, None
        try:
            p = NMEA2000Encoder()._call_encode_function(m)
        except ValueError:
            continue
        r = _dec().decode_basic_string(_basic(126992, p), True)
        bad.append(f"{d} accepted, decodes as {r.get_field_by_id('date').value}")
    return not bad, "; ".join(bad) or "dates outside the field are refused"


@finding("C14/activity-after-close/seeding-task-own-callback", "C14")
def f_seeding_close_from_callback():
    """build_network_map: a seeding send fails, DISCONNECTED is reported inside the seeding task, the status callback closes the client — close()
    does not cancel the task it runs in, and that task went on sleeping and sending for four more seconds"""
    return _script("C14_seeding_close_from_callback.py")


@finding("C13/connected-without-receiver/connect-cancelled", "C13")
def f_connect_cancelled():
    """wait_for(client.connect(), t) expires while the CONNECTED status callback is still running: state CONNECTED, no receive loop; every later
    connect() returned at once, nothing was delivered, the end of the stream was never noticed"""
    return _script("C13_connect_cancelled.py")


@finding("C13/not-recovered/reconnect-task-gives-up", "C13")
def f_reconnect_gives_up():
    """an application connect() bounded by a timeout holds the lock when the reconnect task wakes: the task's connect() returned at once and the
    task ended; when the application's call timed out nobody tried again"""
    return _script("C13_reconnect_gives_up.py")


@finding("C13/retry-floor/new-fault-while-polling", "C13")
def f_reconnect_floor_new_fault():
    """the reconnect task polls every half second while the client is DISCONNECTED (b7bcb77): a fault reported while it was already polling was
    followed by the next attempt at the next tick — 0.03 s after the fault — since no new task with its own wait is started while one is alive"""
    return _script("C13_reconnect_floor_after_new_fault.py")


@finding("C13/connected-without-receiver/reconnect-task-stops", "C13")
def f_reconnect_stops_without_reader():
    """link 1 is lost, the reconnect task starts; the application's own connect() (bounded by a timeout) is accepted but cancelled during a slow
    CONNECTED callback, before the receive loop starts; the reconnect task saw CONNECTED and ended: frames on link 2 were never delivered"""
    return _script("C13_reconnect_stops_without_reader.py")


@finding("C14/link-open/failed-attempt", "C14")
def f_failed_attempt_link_open():
    """_connect_impl() opens a link and then fails (socket options, the serial adapter's configuration write): the retry replaced the writer, the
    first link stayed open, also after close()"""
    return _script("C14_failed_attempt_link_open.py")


@finding("C13/retry-starved/sends-postpone-reconnect", "C13")
def f_sends_postpone_reconnect():
    """fault sequences through the three sending clients on localhost (a seeded change's demonstration, which found this on the unmodified tree):
    after dd85ad2 every failing send() pushed the reconnect task's wait forward, so a link reset while the application keeps sending was never
    re-established"""
    return _script("C13_sends_postpone_reconnect.py", timeout=170)


@finding("C13/connected-without-receiver/connect-cancelled-in-pause", "C13")
def f_known_cancel_in_pause():
    """an application connect() cancelled by its caller inside the 10 ms pause after it cancelled the old receive task (whose fault path was
    still waiting behind a slow DISCONNECTED callback, so no reconnect had been scheduled yet): CONNECTED, no receive loop, no reconnect task"""
    return _script("C13_known_connect_cancelled_in_pause.py")


@finding("C13/not-recovered/abandon-then-cancelled", "C13")
def f_known_abandon_cancelled():
    """continuation: the next connect() gives the reader-less link up and reports DISCONNECTED but schedules no reconnect; if that call is
    cancelled too while the gateway refuses, nobody reconnects"""
    return _script("C13_known_abandon_then_cancelled.py")


@finding("C13/connected-without-receiver/reconnect-stops-other-connect-cancelled", "C13")
def f_known_reconnect_stops():
    """the reconnect task ended when the state reads CONNECTED and the OLD receive task is still alive (an EByte loop in its 30 s busy pause),
    while the application connect() that reported CONNECTED is cancelled before it replaces that task"""
    return _script("C13_known_reconnect_stops_other_connect_cancelled.py")


def run(keys=None):
    out = {}
    for k, (prop, fn) in FINDINGS.items():
        if keys and k not in keys:
            continue
        try:
            ok, detail = fn()
        except BaseException as e:  # a crash of the replay itself counts as failing
            ok, detail = False, f"replay raised {type(e).__name__}: {e}"
        out[k] = {"property": prop, "holds": bool(ok), "detail": detail}
    return out


if __name__ == "__main__":
    keys = [a for a in sys.argv[1:] if not a.startswith("-")]
    res = run(keys or None)
    bad = 0
    for k, r in res.items():
        print(("HOLDS " if r["holds"] else "FAILS ") + k + " :: " + r["detail"])
        bad += not r["holds"]
    sys.exit(1 if bad else 0)
