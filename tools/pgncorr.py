"""Correspondence for the generated layer: the real functions of nmea2000/pgns.py vs the Lean interpreter
(Model/Interp.lean) run on the T1 code tables.  Shared by C01, C02, C08, C09, C15, C17, C18."""
import datetime
import inspect
import json
import math
import random
import re
from fractions import Fraction

import common
import harness


# ----------------------------------------------------------------------------- canonical values
def canon(v):
    if v is None:
        return "N"
    if isinstance(v, bool):
        return "i1" if v else "i0"
    if isinstance(v, int):
        return f"i{v}"
    if isinstance(v, float):
        if math.isnan(v):
            return "nan"
        if math.isinf(v):
            return "inf+" if v > 0 else "inf-"
        n, d = v.as_integer_ratio()
        return f"f{n}/{d}"
    if isinstance(v, str):
        try:
            b = v.encode("ascii")
        except UnicodeEncodeError:
            return "S?"
        return "s" + harness.hx(b)
    if isinstance(v, (bytes, bytearray)):
        return "b" + harness.hx(v)
    if isinstance(v, datetime.datetime):
        return "other:datetime"
    if isinstance(v, datetime.date):
        return f"d{(v - datetime.date(1970, 1, 1)).days}"
    if isinstance(v, datetime.time):
        return f"t{v.hour * 3600 + v.minute * 60 + v.second}"
    return "other:" + type(v).__name__


def dec_err_class(e):
    s = str(e)
    if isinstance(e, ValueError) and "below minimum" in s:
        return "below"
    if isinstance(e, ValueError) and "above maximum" in s:
        return "above"
    if isinstance(e, AssertionError):
        return "assertion"
    if isinstance(e, KeyError):
        return "key"
    if isinstance(e, OverflowError):
        return "overflow"
    if type(e) is Exception and "not supported" in s:
        return "unsupported"
    return "other:" + type(e).__name__


def enc_err_class(e):
    s = str(e)
    if isinstance(e, AssertionError) or isinstance(e, TypeError):
        return "type"
    if isinstance(e, ValueError) and "out of range after scaling" in s:
        return "range"
    if isinstance(e, ValueError) and "is missing" in s:
        return "missing"
    if isinstance(e, ValueError) and ("Cannot encode None as a float" in s or "no 'not available' value" in s):
        return "range"
    if isinstance(e, ValueError) and "cannot convert float NaN" in s:
        return "notfinite"
    if isinstance(e, OverflowError) and "infinity" in s:
        return "notfinite"
    if isinstance(e, OverflowError) or type(e).__name__ == "error":
        return "overflow"
    if type(e) is Exception and "is missing from" in s:
        return "lookupname"
    if type(e) is Exception and ("not support" in s):
        return "unsupported"
    return "other:" + type(e).__name__


def text_opaque(data_int, off_bits, nbytes):
    """True when the bytes a string field reads contain a non-ASCII byte (decoding not modelled)"""
    return any(((data_int >> (off_bits + 8 * i)) & 0xFF) >= 128 for i in range(nbytes))


def fields_canon(msg, opaque=()):
    return ";".join("S?|S?" if i in opaque else canon(f.value) + "|" + canon(f.raw_value) for i, f in enumerate(msg.fields))


def opaque_text_fields(p, x):
    """indices of the string fields whose bytes (as the decoder reads them, following its running offset) contain a
    non-ASCII byte or are UTF-16 — text decoding of those is not modelled, both sides report the marker S?"""
    out = set()
    off = 0
    for i, f in enumerate(p["Fields"]):
        if "BitOffset" in f:
            off = f["BitOffset"]
        t = f["FieldType"]
        if t == "STRING_FIX":
            n = (f["BitLength"] + 7) // 8
            v = (x >> off) & ((1 << f["BitLength"]) - 1)
            if any(b >= 128 for b in v.to_bytes(n, "little")):
                out.add(i)
        elif t == "STRING_LZ":
            v = x >> off
            b = v.to_bytes((v.bit_length() + 7) // 8, "little")
            if b and any(c >= 128 for c in b[1:1 + b[0]]):
                out.add(i)
        elif t == "STRING_LAU":
            v = x >> off
            b = v.to_bytes((v.bit_length() + 7) // 8 + 1, "little")
            if len(b) >= 2:
                body = b[:b[0]][2:]
                if (b[1] == 0 and body) or (b[1] != 0 and any(c >= 128 for c in body)):
                    out.add(i)
                off += b[0] * 8
            else:
                off += len(b)
        elif t not in ("NUMBER", "MMSI", "PGN", "DURATION", "LOOKUP", "BITLOOKUP", "FLOAT", "TIME", "DATE", "RESERVED", "SPARE", "INDIRECT_LOOKUP", "BINARY"):
            break   # the decoder raises here
        if "BitLength" in f:
            off += f["BitLength"]
    return out


def real_dec(fn, payload_int, p=None):
    try:
        m = fn(payload_int)
    except Exception as e:
        return "err " + dec_err_class(e), None
    if m is None:
        return "none", None
    return "ok " + fields_canon(m, opaque_text_fields(p, payload_int) if p else ()), m


def opt_hex(s):
    return "N" if s is None else "S" + harness.hx(s.encode("utf-8"))


def meta_canon(m):
    def one(f):
        pq = f.physical_quantities.name if f.physical_quantities is not None else None
        return ",".join([harness.hx(f.id.encode()), harness.hx(f.name.encode()), opt_hex(f.description), opt_hex(f.unit_of_measurement),
                         opt_hex(pq), harness.hx(f.type.name.encode()), "1" if f.part_of_primary_key else "0"])
    ttl = "N" if m.ttl is None else str(int(m.ttl.total_seconds() * 1000))
    return f"{m.PGN} {harness.hx(m.id.encode())} {harness.hx(m.description.encode())} {ttl} " + ";".join(one(f) for f in m.fields)


# ----------------------------------------------------------------------------- database-driven payloads
class Db:
    def __init__(self, repo):
        self.db = json.load(open(f"{repo}/canboat.json"))
        groups = {}
        for p in self.db["PGNs"]:
            groups.setdefault(p["PGN"], []).append(p)
        self.groups = groups
        self.defs = {}
        for pgn, g in groups.items():
            complex_ = len(g) > 1 and any("Match" in f for p in g for f in p["Fields"])
            for p in g:
                self.defs[(f"{pgn}_{p['Id']}" if complex_ else str(pgn))] = p   # last definition wins, as in Python

    def is_complex(self, pgn):
        g = self.groups[pgn]
        return len(g) > 1 and any("Match" in f for p in g for f in p["Fields"])


NUMERIC = ("NUMBER", "MMSI", "PGN", "DURATION", "TIME", "DATE")


def raw_range(f):
    """(min_raw, max_raw) of a numeric field per the database range (exact arithmetic), or None"""
    if "RangeMin" not in f or "RangeMax" not in f or "Resolution" not in f:
        return None
    res = Fraction(repr(f["Resolution"])) if isinstance(f["Resolution"], float) else Fraction(f["Resolution"])
    lo = Fraction(repr(f["RangeMin"])) if isinstance(f["RangeMin"], float) else Fraction(f["RangeMin"])
    hi = Fraction(repr(f["RangeMax"])) if isinstance(f["RangeMax"], float) else Fraction(f["RangeMax"])
    if "Offset" in f:
        lo -= f["Offset"]
        hi -= f["Offset"]
    if res == 0:
        return None
    return (math.ceil(lo / res), math.floor(hi / res))


def eff_signed(f):
    """is the raw count sign-extended?  A field with an Offset is stored excess-K: its raw count is unsigned, the database's Signed flag
    then only says that the values can be negative (its RangeMax fits an unsigned count only)"""
    return bool(f.get("Signed", False)) and not f.get("Offset")


def boundary_raws(f, rnd):
    """interesting raw values (as signed ints where the field is signed) of a fixed-width field"""
    n = f["BitLength"]
    signed = eff_signed(f)
    top = (1 << n) - 1
    vals = {0, 1, top, top - 1, top - 2, rnd.getrandbits(n)}
    if n > 1:
        vals |= {1 << (n - 1), (1 << (n - 1)) - 1, (1 << (n - 1)) - 2, (1 << (n - 1)) + 1}
    if f["FieldType"] in NUMERIC:
        rr = raw_range(f)
        if rr:
            for r in (rr[0], rr[0] - 1, rr[0] + 1, rr[1], rr[1] - 1, rr[1] + 1):
                vals.add(r & top if signed or r >= 0 else 0)
    if "Match" in f:
        vals.add(f["Match"])
    return sorted(v & top for v in vals)


def layout(p):
    """[(field, offset)] for the fields whose position is static (BitOffset and BitLength defined)"""
    return [(f, f["BitOffset"]) for f in p["Fields"] if "BitOffset" in f and "BitLength" in f]


def total_bits(p):
    if "Length" in p:
        return 8 * p["Length"]
    lay = layout(p)
    return max([o + f["BitLength"] for f, o in lay], default=0) + 64


def base_payload(p, rnd, mode):
    """a payload in which every static field holds a legal, decodable value (zero / low in-range raw), so that one
    field at a time can be driven to its boundaries"""
    x = 0
    for f, o in layout(p):
        n = f["BitLength"]
        v = 0
        if "Match" in f:
            v = f["Match"]
        elif f["FieldType"] in NUMERIC:
            rr = raw_range(f)
            if rr:
                lo, hi = rr
                if mode == "rand" and hi >= lo:
                    v = rnd.randint(lo, min(hi, lo + (1 << min(n, 40))))
                else:
                    v = lo if lo > 0 else (0 if hi >= 0 else hi)
        elif mode == "rand":
            v = rnd.getrandbits(n) if f["FieldType"] not in ("STRING_FIX",) else int.from_bytes(bytes(rnd.choice(b"ABCxyz 09@") for _ in range(n // 8)), "little")
        x |= (v & ((1 << n) - 1)) << o
    return x


def tail_for(p, rnd):
    """bytes after the static part for definitions with variable-length fields: a plausible STRING_LAU / STRING_LZ / binary tail"""
    kinds = [f["FieldType"] for f in p["Fields"]]
    out = b""
    for k in kinds:
        if k == "STRING_LAU":
            s = bytes(rnd.choice(b"ABC xyz019") for _ in range(rnd.choice([0, 1, 3, 8])))
            out += bytes([len(s) + 2, rnd.choice([1, 1, 1, 0]) if s else 1]) + s
        elif k == "STRING_LZ":
            s = bytes(rnd.choice(b"ABC xyz019") for _ in range(rnd.choice([0, 1, 5])))
            out += bytes([len(s)]) + s + b"\x00"
    return out


def payloads_for(p, rnd, per_field=True, n_random=6):
    """boundary-directed payloads for a definition"""
    tb = total_bits(p)
    lay = layout(p)
    static_end = max([o + f["BitLength"] for f, o in lay], default=0)
    out = [0, (1 << tb) - 1, rnd.getrandbits(tb)]
    base = base_payload(p, rnd, "zero")
    out.append(base)
    has_var = any(f["FieldType"] in ("STRING_LAU", "STRING_LZ") for f in p["Fields"])
    if per_field:
        for f, o in lay:
            n = f["BitLength"]
            m = ((1 << n) - 1) << o
            for v in boundary_raws(f, rnd):
                out.append((base & ~m) | (v << o))
    for _ in range(n_random):
        x = base_payload(p, rnd, "rand")
        if has_var:
            first_var = min([f.get("BitOffset", static_end) for f in p["Fields"] if f["FieldType"] in ("STRING_LAU", "STRING_LZ")] + [static_end])
            x = (x & ((1 << first_var) - 1)) | (int.from_bytes(tail_for(p, rnd), "little") << first_var)
        out.append(x)
    return out


# ----------------------------------------------------------------------------- suites
def decoder_functions(pgns_mod):
    """[(suffix, function)] of the per-definition decoders actually reachable by name (Python: last def wins)"""
    out = []
    for name, fn in vars(pgns_mod).items():
        if name.startswith("decode_pgn_") and inspect.isfunction(fn):
            params = list(inspect.signature(fn).parameters)
            if params == ["_data_raw_"]:
                out.append((name[len("decode_pgn_"):], fn))
    return out


def dispatcher_functions(pgns_mod):
    out = []
    for name, fn in vars(pgns_mod).items():
        if name.startswith("decode_pgn_") and inspect.isfunction(fn) and list(inspect.signature(fn).parameters) == ["data_raw"]:
            out.append((int(name[len("decode_pgn_"):]), fn))
    return out


def mask_opaque_text(p, payload, line):
    """string fields with non-ASCII bytes: canonical value S? on both sides (decoding of such bytes is not modelled)"""
    return line


def suite_decoders(ctx, n_random=4, per_field=True):
    harness.load_repo()
    from nmea2000 import pgns
    db = Db(ctx["repo"])
    rnd = random.Random(ctx["seed"] + 41)
    s = common.Suite("gen-decoders", "every per-definition decoder of pgns.py (all names reachable in the module) on database-derived "
                     "boundary payloads: per static field {0,1,top,top-1,sign boundary,NA code,range ends and +-1, match value, random} with the other "
                     "fields at a legal base value, plus all-zero/all-one/random payloads and plausible variable-length tails; vs Interp.runDec on the T1 tables")
    sm = common.Suite("gen-decoder-metadata", "message and field metadata (PGN, id, description, interval; per field id, name, description, unit, "
                      "quantity, type, primary-key flag) of one successful decode per definition vs the T1 code table")
    for sfx, fn in decoder_functions(pgns):
        p = db.defs.get(sfx)
        if p is None:
            s.add(f"dec {sfx} 0", real_dec(fn, 0)[0], "not-in-db")
            continue
        got_meta = False
        for x in payloads_for(p, rnd, per_field, n_random):
            res, m = real_dec(fn, x, p)
            s.add(f"dec {sfx} {x}", res, res.split()[0] + ("" if res.startswith("ok") else ":" + res.split()[1]))
            if m is not None and not got_meta:
                got_meta = True
                sm.add(f"meta {sfx}", meta_canon(m), "meta")
    return [s.run(), sm.run()]


def _reads_nonascii(p, x):
    return False


def suite_dispatchers(ctx, n_random=30):
    harness.load_repo()
    from nmea2000 import pgns
    db = Db(ctx["repo"])
    rnd = random.Random(ctx["seed"] + 42)
    s = common.Suite("gen-dispatchers", "every multi-definition PGN: every combination of match-field values drawn from each definition's own "
                     "values, its siblings' values and a value matching none, with random remaining bits, through decode_pgn_<PGN> vs Interp.decodePgn")
    for pgn, fn in dispatcher_functions(pgns):
        for x in match_payloads(db, pgn, rnd, n_random):
            try:
                m = fn(x)
                pd = None if m is None else (db.defs.get(f"{pgn}_{m.id}") or db.defs.get(str(pgn)))
                res = "none" if m is None else f"ok {harness.hx(m.id.encode())} {fields_canon(m, opaque_text_fields(pd, x) if pd else ())}"
            except Exception as e:
                res = "err " + dec_err_class(e)
            s.add(f"decpgn {pgn} {x}", res, res.split()[0])
    return [s.run()]


def match_payloads(db, pgn, rnd, n_random):
    g = db.groups.get(pgn, [])
    positions = {}
    for p in g:
        for f in p["Fields"]:
            if "Match" in f and "BitOffset" in f:
                positions.setdefault((f["BitOffset"], f["BitLength"]), set()).add(f["Match"])
    tb = max([total_bits(p) for p in g] + [64])
    out = []
    for p in g:
        # the definition's own match values, remaining bits random / zero
        for k in range(3):
            x = rnd.getrandbits(tb) if k else 0
            for f in p["Fields"]:
                if "Match" in f and "BitOffset" in f:
                    m = ((1 << f["BitLength"]) - 1) << f["BitOffset"]
                    x = (x & ~m) | (f["Match"] << f["BitOffset"])
            out.append(x)
        # one match field at a time replaced by a sibling's value or by a value matching none
        for f in p["Fields"]:
            if "Match" in f and "BitOffset" in f:
                key = (f["BitOffset"], f["BitLength"])
                others = sorted(positions[key] - {f["Match"]})[:4]
                none_val = next(v for v in range(1 << f["BitLength"]) if v not in positions[key]) if len(positions[key]) < (1 << f["BitLength"]) else None
                for alt in others + ([none_val] if none_val is not None else []):
                    x = out[-1 if False else len(out) - 1]
                    x = rnd.getrandbits(tb)
                    for f2 in p["Fields"]:
                        if "Match" in f2 and "BitOffset" in f2:
                            m = ((1 << f2["BitLength"]) - 1) << f2["BitOffset"]
                            x = (x & ~m) | ((alt if f2 is f else f2["Match"]) << f2["BitOffset"])
                    out.append(x)
    # bit-exact: every single bit of every match field flipped, and the bit just outside on either side, other match fields as the definition wants them
    for p in g:
        base = rnd.getrandbits(tb)
        for f in p["Fields"]:
            if "Match" in f and "BitOffset" in f:
                m = ((1 << f["BitLength"]) - 1) << f["BitOffset"]
                base = (base & ~m) | (f["Match"] << f["BitOffset"])
        for f in p["Fields"]:
            if "Match" in f and "BitOffset" in f:
                lo, hi = f["BitOffset"], f["BitOffset"] + f["BitLength"]
                for b in list(range(lo, hi)) + ([lo - 1] if lo > 0 else []) + [hi]:
                    out.append(base ^ (1 << b))
    for _ in range(n_random):
        x = rnd.getrandbits(tb)
        for (o, n), vals in positions.items():
            if rnd.random() < 0.8:
                m = ((1 << n) - 1) << o
                x = (x & ~m) | (rnd.choice(sorted(vals)) << o)
        out.append(x)
    return out


# ----------------------------------------------------------------------------- database-only oracle (C01)
SUPPORTED_STATIC = ("NUMBER", "MMSI", "PGN", "DURATION", "TIME", "DATE", "LOOKUP", "BITLOOKUP", "RESERVED", "SPARE", "BINARY", "STRING_FIX", "FLOAT", "INDIRECT_LOOKUP")


def frac(v):
    return Fraction(repr(v)) if isinstance(v, float) else Fraction(v)


def oracle_check(db, sfx, p, fn, x):
    """compare one real decode with what the DATABASE demands (no model involved). Returns None or (key, what)."""
    static = all(("BitOffset" in f and "BitLength" in f and f["FieldType"] in SUPPORTED_STATIC) for f in p["Fields"])
    enums = {e["Name"]: {it["Value"]: it["Name"] for it in e["EnumValues"]} for e in db.db["LookupEnumerations"]}
    exp = []
    in_range = True
    for f in p["Fields"]:
        if not ("BitOffset" in f and "BitLength" in f):
            exp.append(None)
            continue
        n, o = f["BitLength"], f["BitOffset"]
        bits = (x >> o) & ((1 << n) - 1)
        t = f["FieldType"]
        if t in ("NUMBER", "MMSI", "PGN", "DURATION", "TIME", "DATE") and "Resolution" in f and "RangeMin" in f:
            signed = eff_signed(f)
            z = bits - (1 << n) if signed and bits >> (n - 1) else bits
            na = (n >= 2 and not signed and bits == (1 << n) - 1) or (n >= 4 and signed and z == (1 << (n - 1)) - 1)
            if na:
                exp.append(("na",))
            else:
                val = z * frac(f["Resolution"]) + frac(f.get("Offset", 0))
                ok = frac(f["RangeMin"]) <= val <= frac(f["RangeMax"])
                if not ok:
                    in_range = False
                exp.append(("num", val, ok, z))
        elif t == "LOOKUP":
            exp.append(("lookup", bits, enums.get(f.get("LookupEnumeration"), {}).get(bits)))
        elif t == "BITLOOKUP":
            # the names of the set bits, in bit order (bits without a name are skipped), from the database's own table
            tbl = next(({it["Bit"]: it["Name"] for it in e["EnumBitValues"]} for e in db.db["LookupBitEnumerations"] if e["Name"] == f.get("LookupBitEnumeration")), {})
            exp.append(("bitlookup", bits, ", ".join(tbl[b] for b in range(n) if (bits >> b) & 1 and b in tbl)))
        elif t in ("RESERVED", "SPARE"):
            exp.append(("raw", bits))
        else:
            exp.append(None)
    try:
        m = fn(x)
    except Exception as e:
        if static and in_range and not any(f["FieldType"] == "FLOAT" for f in p["Fields"]):
            bad = _first_offset_field(p)
            if bad:
                return (f"C01/offset-ignored/{p['PGN']}.{bad}", f"{sfx}: in-range payload {x} rejected ({type(e).__name__}: {e}); field {bad} has a database Offset the decoder ignores")
            return (f"C01/in-range-rejected/{sfx}", f"{sfx}: every field of payload {x} is inside its database range but decoding raised {type(e).__name__}: {e}")
        return None
    if m is None:
        return (f"C01/no-message/{sfx}", f"{sfx}: returned None for payload {x}")
    if m.PGN != p["PGN"] or m.id != p["Id"] or m.description != p["Description"]:
        return (f"C01/header/{sfx}", f"{sfx}: message names {m.PGN}/{m.id}/{m.description!r}")
    ttl = p.get("TransmissionInterval")
    if (m.ttl is None) != (ttl is None) or (ttl is not None and m.ttl.total_seconds() * 1000 != ttl):
        return (f"C01/header-interval/{sfx}", f"{sfx}: ttl {m.ttl} vs database interval {ttl}")
    if len(m.fields) != len(p["Fields"]):
        return (f"C01/field-count/{sfx}", f"{sfx}: {len(m.fields)} fields, database has {len(p['Fields'])}")
    for i, (f, e, mf) in enumerate(zip(p["Fields"], exp, m.fields)):
        fid = ("reserved_" + str(f.get("BitOffset", ""))) if f["FieldType"] == "RESERVED" else f["Id"]
        pq = mf.physical_quantities.name if mf.physical_quantities is not None else None
        meta_ok = (mf.id == fid and mf.name == f["Name"] and mf.description == f.get("Description") and mf.unit_of_measurement == f.get("Unit")
                   and pq == f.get("PhysicalQuantity") and mf.type.name == f["FieldType"] and bool(mf.part_of_primary_key) == bool(f.get("PartOfPrimaryKey", False)))
        if not meta_ok:
            return (f"C01/field-meta/{p['PGN']}.{f['Id']}", f"{sfx} field {i}: metadata {mf.id}/{mf.name}/{mf.unit_of_measurement}/{pq}/{mf.type.name}/{mf.part_of_primary_key} differs from the database")
        if e is None:
            continue
        if e[0] == "na":
            if mf.raw_value is not None or (mf.value is not None and f["FieldType"] not in ("TIME", "DATE")):
                return (f"C01/na/{p['PGN']}.{f['Id']}", f"{sfx} field {f['Id']}: not-available pattern reported as {mf.raw_value!r}")
        elif e[0] == "num":
            val = e[1]
            got = mf.raw_value
            if got is None:
                return (f"C01/value/{p['PGN']}.{f['Id']}", f"{sfx} field {f['Id']}: raw {e[3]} reported as no value")
            if "Offset" in f and frac(got) != val and abs(frac(got) - val) > abs(val) / 2 ** 48:
                return (f"C01/offset-ignored/{p['PGN']}.{f['Id']}", f"{sfx} field {f['Id']}: raw {e[3]} reported as {got!r}, database (with Offset {f['Offset']}) says {float(val)}")
            if abs(frac(got) - val) > abs(val) / 2 ** 48:
                return (f"C01/value/{p['PGN']}.{f['Id']}", f"{sfx} field {f['Id']}: raw {e[3]} reported as {got!r}, database says {float(val)}")
        elif e[0] == "bitlookup":
            if mf.value != e[2] and not (e[1] == 0 and mf.value in ("", None)):
                return (f"C01/bitlookup/{p['PGN']}.{f['Id']}", f"{sfx} field {f['Id']}: bits {e[1]:#x} reported as {mf.value!r}, the database's table says {e[2]!r}")
        elif e[0] == "lookup":
            if mf.raw_value != e[1] or mf.value != e[2]:
                return (f"C01/lookup/{p['PGN']}.{f['Id']}", f"{sfx} field {f['Id']}: bits {e[1]} reported as {mf.value!r}/{mf.raw_value!r}, database says {e[2]!r}")
        elif e[0] == "raw":
            if mf.raw_value != e[1] or mf.value != e[1]:
                return (f"C01/raw/{p['PGN']}.{f['Id']}", f"{sfx} field {f['Id']}: bits {e[1]} reported as {mf.value!r}")
    return None


def _first_offset_field(p):
    for f in p["Fields"]:
        if "Offset" in f:
            return f["Id"]
    return None


def oracle_search(ctx, per_def=None, limit=None):
    """database-only oracle over every definition's boundary payloads; returns list of (key, what, sfx, payload)"""
    harness.load_repo()
    from nmea2000 import pgns
    db = Db(ctx["repo"])
    rnd = random.Random(ctx["seed"] + 43)
    hits = {}
    n = 0
    for sfx, fn in decoder_functions(pgns):
        p = db.defs.get(sfx)
        if p is None:
            continue
        for x in payloads_for(p, rnd, True, 6):
            n += 1
            r = oracle_check(db, sfx, p, fn, x)
            if r and r[0] not in hits:
                hits[r[0]] = (r[0], r[1], sfx, x)
    return list(hits.values()), n


# ----------------------------------------------------------------------------- encoders
def encoder_functions(pgns_mod):
    out = []
    for name, fn in vars(pgns_mod).items():
        if name.startswith("encode_pgn_") and inspect.isfunction(fn):
            out.append((name[len("encode_pgn_"):], fn))
    return out


def field_spec(msg):
    """canonical `idhex=value|raw;…` of a message's fields, or None when a value is outside the modelled universe"""
    parts = []
    for f in msg.fields:
        v, r = canon(f.value), canon(f.raw_value)
        if v.startswith("other:") or r.startswith("other:") or v == "S?" or r == "S?":
            return None
        try:
            fid = f.id.encode("ascii")
        except UnicodeEncodeError:
            return None
        parts.append(f"{harness.hx(fid)}={v}|{r}")
    return ";".join(parts) if parts else None


def real_enc(fn, msg):
    try:
        b = fn(msg)
    except Exception as e:
        return "err " + enc_err_class(e)
    return "ok " + harness.hx(b)


def mutate_values(f, dbf, rnd):
    """value classes of C09 for one field of a decoded message: list of (label, value, raw)"""
    t = dbf["FieldType"]
    out = [("removed", None, None)]
    n = dbf.get("BitLength", 8)
    if t in ("NUMBER", "PGN") and "Resolution" in dbf:
        res = dbf["Resolution"]
        signed = eff_signed(dbf)
        ofs = dbf.get("Offset", 0)
        top = (1 << (n - 1)) - 2 if signed else (1 << n) - 2
        bot = -(1 << (n - 1)) if signed else 0
        for lab, raw in (("max", top), ("max+1", top + 1), ("max+2", top + 2), ("min", bot), ("min-1", bot - 1), ("far", top * 1000 + 7), ("neg", -5), ("zero", 0), ("mid", (top + bot) // 2)):
            out.append((lab, raw * res + ofs, None))
        step = res
        out.append(("between", (top // 3) * res + ofs + step * 0.4, None))
        if isinstance(res, int) and res > 1 and isinstance(ofs, int):
            out.append(("between-int-up", (top // 3) * res + ofs + (res * 3) // 4, None))       # an int between two steps, nearer to the upper one
            out.append(("between-int-down", (top // 3) * res + ofs + res // 4, None))
        out.append(("between-half", (top // 3) * res + ofs + step * 0.5, None))
        out.append(("absent", None, None))
        out.append(("nan", float("nan"), None))
        out.append(("inf", float("inf"), None))
        out.append(("string", "12", None))
        out.append(("int-as-float", float(top // 2), None))
    elif t == "RESERVED":
        out += [("fits", (1 << n) - 1, None), ("too-big", (1 << n) + 3, None), ("negative", -1, None), ("absent", None, None), ("float", 1.0, None)]
    elif t == "LOOKUP":
        out += [("raw-fits", f.value, (1 << n) - 1), ("raw-too-big", f.value, (1 << n) + 1), ("by-name", f.value, None), ("bad-name", "No Such Name", None),
                ("none-none", None, None), ("raw-float", f.value, 1.5)]
    elif t == "DATE":
        out += [("raw", f.value, 19000), ("by-value", datetime.date(2020, 2, 29), None), ("none", None, None), ("raw-big", f.value, (1 << n) + 5), ("value-str", "2020-01-01", None)]
    elif t in ("TIME", "DURATION") and "Resolution" in dbf:
        res = dbf["Resolution"]
        out += [("raw-ticks", None, 49 * res), ("raw-big", None, ((1 << n) + 3) * res), ("raw-neg", None, -3 * res), ("absent", None, None),
                ("by-time", datetime.time(1, 2, 3), None), ("raw-nan", None, float("nan")), ("raw-int", None, 60)]
    elif t == "FLOAT":
        out += [("v", 1.5, None), ("big", 1e39, None), ("nan", float("nan"), None), ("absent", None, None), ("int", 3, None)]
    return out


def suite_encoders(ctx, n_payloads=6, n_mut=2):
    harness.load_repo()
    import copy
    from nmea2000 import pgns
    db = Db(ctx["repo"])
    rnd = random.Random(ctx["seed"] + 45)
    s1 = common.Suite("gen-encoders-roundtrip", "every encode_pgn_* function applied to the messages its decoder returns for boundary payloads "
                      "(per-field range ends, zero, NA, random) vs Interp.runEnc on the T1 encoder tables; also the decoded payload bytes themselves")
    s2 = common.Suite("gen-encoders-values", "the value classes of C09 per field of every encodable definition: representable range ends, one and two steps beyond, far out, negative, "
                      "between steps, absent, NaN/inf, wrong type, removed field; LOOKUP/DATE/TIME raw and by-value variants; vs Interp.runEnc")
    decs = dict(decoder_functions(pgns))
    skipped = 0
    for sfx, efn in encoder_functions(pgns):
        p = db.defs.get(sfx)
        dfn = decs.get(sfx)
        if p is None or dfn is None:
            continue
        base = None
        pls = payloads_for(p, rnd, per_field=False, n_random=n_payloads) + [base_payload(p, rnd, "zero")]
        # a few per-field boundary payloads as well
        lay = layout(p)
        for f, o in lay[:40]:
            vals = boundary_raws(f, rnd)
            v = rnd.choice(vals)
            pls.append((base_payload(p, rnd, "zero") & ~(((1 << f["BitLength"]) - 1) << o)) | (v << o))
        for x in pls:
            try:
                m = dfn(x)
            except Exception:
                continue
            if m is None:
                continue
            spec = field_spec(m)
            if spec is None:
                skipped += 1
                continue
            s1.add(f"enc {sfx} {spec}", real_enc(efn, m), "roundtrip")
            if base is None:
                base = m
        if base is None:
            # no decodable payload: still exercise the encoder on an empty message (missing field / unsupported)
            from nmea2000.message import NMEA2000Message
            s2.add(f"enc {sfx} -", real_enc(efn, NMEA2000Message(PGN=p["PGN"], id=p["Id"])), "empty-message")
            continue
        idx = list(range(len(base.fields)))
        rnd.shuffle(idx)
        for i in idx[:max(1, n_mut)]:
            dbf = p["Fields"][i]
            for lab, val, raw in mutate_values(base.fields[i], dbf, rnd):
                m = copy.deepcopy(base)
                if lab == "removed":
                    del m.fields[i]
                else:
                    m.fields[i].value = val
                    if raw is not None or dbf["FieldType"] in ("LOOKUP", "DATE", "TIME", "DURATION"):
                        m.fields[i].raw_value = raw
                spec = field_spec(m)
                if spec is None:
                    skipped += 1
                    continue
                s2.add(f"enc {sfx} {spec}", real_enc(efn, m), f"{dbf['FieldType']}-{lab}")
    s1.dist["skipped-unmodelled-values"] = skipped
    return [s1.run(), s2.run()]


# ----------------------------------------------------------------------------- C02 oracle: decode -> encode reproduces the defined bits
ENCODABLE_TYPES = ("NUMBER", "PGN", "RESERVED", "FLOAT", "LOOKUP", "DATE", "TIME", "DURATION")


def encodable(p):
    return all(("BitOffset" in f and "BitLength" in f and f["FieldType"] in ENCODABLE_TYPES) for f in p["Fields"])


def roundtrip_check(sfx, p, dfn, efn, x):
    """None or (key, what): the property C02 on one payload, on the real code"""
    try:
        m = dfn(x)
    except Exception:
        return None          # the decoder does not accept this payload
    if m is None:
        return None
    for f in m.fields:
        if isinstance(f.value, float) and (math.isnan(f.value) or math.isinf(f.value)):
            return None      # non-finite floats are excepted by the property
    try:
        b = efn(m)
    except Exception as e:
        mm = re.match(r"Value (\S+) out of range after scaling", str(e))
        if mm:
            for f, mf in zip(p["Fields"], m.fields):
                if f["BitLength"] > 53 and repr(mf.value) == mm.group(1):
                    return (f"C02/wide-field-range-end/{p['PGN']}.{f['Id']}",
                            f"{sfx} field {f['Id']} ({f['BitLength']} bits): the decoded value {mf.value!r} at the end of the raw range rounds beyond the representable maximum and is rejected on re-encoding (payload {x})")
        return (f"C02/reencode-raises/{sfx}", f"{sfx}: payload {x} decodes but encoding the decoded message raises {type(e).__name__}: {e}")
    if "Length" in p and len(b) != p["Length"]:
        return (f"C02/length/{sfx}", f"{sfx}: re-encoded payload has {len(b)} bytes, the definition's length is {p['Length']}")
    y = int.from_bytes(b, "little")
    for f in p["Fields"]:
        n, o = f["BitLength"], f["BitOffset"]
        a, c = (x >> o) & ((1 << n) - 1), (y >> o) & ((1 << n) - 1)
        if a == c:
            continue
        if n > 48 and f["FieldType"] in ("NUMBER", "PGN", "TIME", "DURATION"):
            sa = a - (1 << n) if f.get("Signed") and a >> (n - 1) else a
            sc = c - (1 << n) if f.get("Signed") and c >> (n - 1) else c
            if abs(sa - sc) <= abs(sa) / 2 ** 50 + 1:
                continue
        return (f"C02/field-bits/{p['PGN']}.{f['Id']}", f"{sfx} field {f['Id']} ({f['FieldType']}, {n} bits): raw {a} re-encodes as {c} (payload {x})")
    return None


def roundtrip_search(ctx, exhaustive_bits=10):
    harness.load_repo()
    from nmea2000 import pgns
    db = Db(ctx["repo"])
    rnd = random.Random(ctx["seed"] + 46)
    decs = dict(decoder_functions(pgns))
    hits = {}
    n = 0
    for sfx, efn in encoder_functions(pgns):
        p = db.defs.get(sfx)
        if p is None or not encodable(p) or sfx not in decs:
            continue
        pls = payloads_for(p, rnd, True, 6)
        base = base_payload(p, rnd, "zero")
        for f, o in layout(p):
            if f["BitLength"] <= exhaustive_bits:
                m = ((1 << f["BitLength"]) - 1) << o
                pls += [(base & ~m) | (v << o) for v in range(1 << f["BitLength"])]
        for x in pls:
            n += 1
            r = roundtrip_check(sfx, p, decs[sfx], efn, x)
            if r and r[0] not in hits:
                hits[r[0]] = (r[0], r[1], sfx, x)
    return list(hits.values()), n


# ----------------------------------------------------------------------------- C09 oracle: encode never silently corrupts
def c09_check(sfx, p, dfn, efn, base, i, lab, val, raw, copy):
    """one value class on one field; returns None or (key, what)"""
    dbf = p["Fields"][i]
    t = dbf["FieldType"]
    m = copy.deepcopy(base)
    if lab == "removed":
        del m.fields[i]
    else:
        m.fields[i].value = val
        if raw is not None or t in ("LOOKUP", "DATE", "TIME", "DURATION"):
            m.fields[i].raw_value = raw
    try:
        b = efn(m)
    except Exception:
        return None                      # an error is always acceptable
    if lab == "removed":
        return (f"C09/missing-field-encoded/{sfx}", f"{sfx}: field {dbf['Id']} removed, yet a payload was produced")
    x = int.from_bytes(b, "little")
    try:
        m2 = dfn(x)
    except Exception as e:
        if t in ("NUMBER", "PGN") and isinstance(val, (int, float)) and not isinstance(val, bool):
            return ("C09/encodes-undecodable/NUMBER", f"{sfx} field {dbf['Id']}: value {val!r} encodes to a payload the decoder rejects ({e}) — a reserved code between the database maximum and the top code")
        return (f"C09/encodes-undecodable/{t}", f"{sfx} field {dbf['Id']} ({lab}): encodes to a payload the decoder rejects ({type(e).__name__}: {e})")
    f2 = m2.fields[i]
    if t in ("NUMBER", "PGN"):
        if val is None:
            ok = f2.value is None
        elif isinstance(val, (int, float)) and not isinstance(val, bool) and not (isinstance(val, float) and (math.isnan(val) or math.isinf(val))):
            res = dbf["Resolution"]
            ok = f2.value is not None and abs(frac(f2.value) - frac(val)) <= frac(res) / 2 + abs(frac(val)) / 2 ** 45
        else:
            ok = False
        if not ok:
            return (f"C09/number-corrupted/{p['PGN']}.{dbf['Id']}", f"{sfx} field {dbf['Id']} ({lab}): value {val!r} encodes without error but decodes back as {f2.value!r}")
    elif t == "RESERVED":
        if f2.value != val:
            return ("C09/wraps-silently/RESERVED", f"{sfx} field {dbf['Id']}: value {val!r} is stored as {f2.value!r} without an error (masked to {dbf['BitLength']} bits)")
    elif t == "LOOKUP":
        if raw is not None and f2.raw_value != raw:
            return ("C09/wraps-silently/LOOKUP", f"{sfx} field {dbf['Id']}: raw {raw!r} is stored as {f2.raw_value!r} without an error")
        if raw is None and f2.value != val:
            return (f"C09/lookup-corrupted/{p['PGN']}.{dbf['Id']}", f"{sfx} field {dbf['Id']}: name {val!r} decodes back as {f2.value!r}")
    elif t == "DATE":
        exp = raw if raw is not None else (None if val is None else (val - datetime.date(1970, 1, 1)).days)
        got = f2.raw_value
        if exp != got:
            return ("C09/wraps-silently/DATE", f"{sfx} field {dbf['Id']}: date raw {exp!r} is stored as {got!r} without an error")
    elif t in ("TIME", "DURATION"):
        res = dbf["Resolution"]
        if raw is not None:
            ticks = round(raw / res) if not (isinstance(raw, float) and math.isnan(raw)) else None
            got = None if f2.raw_value is None else round(f2.raw_value / res)
            if ticks != got:
                return (f"C09/wraps-silently/{t}", f"{sfx} field {dbf['Id']}: raw {raw!r} ({ticks} ticks) is stored as {got!r} ticks without an error")
        elif val is None and f2.raw_value is not None:
            return (f"C09/absent-corrupted/{p['PGN']}.{dbf['Id']}", f"{sfx} field {dbf['Id']}: absent value decodes back as {f2.raw_value!r}")
        elif isinstance(val, datetime.time):
            # given by value: the time of day must come back (to the second; the field may be too narrow for it: then an error or a known wrap)
            secs = val.hour * 3600 + val.minute * 60 + val.second
            fits = round(secs / res) < (1 << (dbf["BitLength"] - (1 if dbf.get("Signed") else 0))) - 2
            if isinstance(f2.value, (int, float)) and not isinstance(f2.value, bool):
                same = abs(f2.value - secs) <= res / 2 + 1e-9        # a DURATION decodes to a number of seconds
            else:
                same = f2.value == val
            if fits and not same:
                return (f"C09/time-by-value/{t}", f"{sfx} field {dbf['Id']}: the time {val!r} given as value encodes without error but decodes back as {f2.value!r} (raw {f2.raw_value!r})")
    # locality: every other field's bits unchanged w.r.t. the base encoding
    try:
        xb = int.from_bytes(efn(base), "little")
    except Exception:
        return None
    for j, g in enumerate(p["Fields"]):
        if j == i:
            continue
        n, o = g["BitLength"], g["BitOffset"]
        if (x >> o) & ((1 << n) - 1) != (xb >> o) & ((1 << n) - 1):
            return (f"C09/locality/{p['PGN']}.{dbf['Id']}", f"{sfx}: changing field {dbf['Id']} ({lab}) changed the bits of field {g['Id']}")
    return None


def c09_search(ctx, n_mut=3):
    import copy
    harness.load_repo()
    from nmea2000 import pgns
    db = Db(ctx["repo"])
    rnd = random.Random(ctx["seed"] + 47)
    decs = dict(decoder_functions(pgns))
    hits = {}
    n = 0
    for sfx, efn in encoder_functions(pgns):
        p = db.defs.get(sfx)
        if p is None or not encodable(p) or sfx not in decs:
            continue
        base = None
        for x in [base_payload(p, rnd, "zero"), base_payload(p, rnd, "rand")]:
            try:
                base = decs[sfx](x)
                if base is not None:
                    break
            except Exception:
                continue
        if base is None:
            continue
        idx = list(range(len(base.fields)))
        rnd.shuffle(idx)
        for i in idx[:n_mut]:
            for lab, val, raw in mutate_values(base.fields[i], p["Fields"][i], rnd):
                n += 1
                r = c09_check(sfx, p, decs[sfx], efn, base, i, lab, val, raw, copy)
                if r and r[0] not in hits:
                    hits[r[0]] = (r[0], r[1], sfx, (i, lab, repr(val), repr(raw)))
    return list(hits.values()), n
