#!/venv/bin/python
"""Regenerate lean/N2k/Gen/* from /repo's working tree (T1 + T2). Files are rewritten only
when their content changes, so an unchanged source tree keeps `lake build` a no-op.
Returns/prints the list of translation problems (unrecognised shapes, untranslatable functions)."""
import os
import sys
from pathlib import Path

sys.path.insert(0, str(Path(__file__).resolve().parent))
import common  # noqa: E402
import translate_py  # noqa: E402


def write_if_changed(path: Path, text: str):
    if path.exists() and path.read_text() == text:
        return False
    path.parent.mkdir(parents=True, exist_ok=True)
    path.write_text(text)
    return True


def regenerate(repo=None, want_tables=True):
    repo = repo or common.REPO
    problems = []
    gen = common.LEAN / "N2k" / "Gen"
    txt, errs = translate_py.translate(repo)
    write_if_changed(gen / "Straight.lean", txt)
    problems += [f"T2: {e}" for e in errs]
    if want_tables:
        try:
            import translate_tables
        except ImportError:
            translate_tables = None
        if translate_tables is not None:
            files, errs = translate_tables.translate(repo)
            for name, text in files.items():
                write_if_changed(gen / name, text)
            problems += [f"T1: {e}" for e in errs]
    return problems


if __name__ == "__main__":
    ps = regenerate(sys.argv[1] if len(sys.argv) > 1 else None)
    for p in ps:
        print("PROBLEM", p)
    sys.exit(0)
