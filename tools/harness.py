"""Helpers shared by the correspondence suites: import the real code from the repo under test."""
import importlib
import logging
import os
import sys

import common


def load_repo():
    """import nmea2000 from the tree under test (VERIF_REPO or /repo), never an installed copy"""
    repo = common.REPO
    if sys.path[0] != repo:
        sys.path.insert(0, repo)
    for m in [k for k in sys.modules if k == "nmea2000" or k.startswith("nmea2000.")]:
        del sys.modules[m]
    logging.disable(logging.CRITICAL)
    import nmea2000  # noqa
    assert os.path.realpath(nmea2000.__file__).startswith(os.path.realpath(repo) + os.sep), nmea2000.__file__
    return nmea2000


def hx(b) -> str:
    b = bytes(b)
    return b.hex() if b else "-"


class Captured:
    """stands for the message `_call_decode_function` would build; carries the reassembled payload"""
    def __init__(self, pgn, data):
        self.pgn = pgn
        self.payload = bytes(data)[::-1]   # the decoder's `data` is the reversed wire order


def fast_decoder():
    """a real NMEA2000Decoder whose per-PGN decode step is replaced by a capture of the combined payload"""
    from nmea2000.decoder import NMEA2000Decoder
    d = NMEA2000Decoder()

    def cap(pgn, priority, src, dest, timestamp, data, source_iso_name, raw_can_data):
        return Captured(pgn, data)
    d._call_decode_function = cap
    return d


def fast_feed(d, key, frame_wire: bytes):
    """one wire-order frame into the real reassembler of stream key=(pgn,src,dst); returns the canonical observation"""
    pgn, src, dst = key
    try:
        r = d._decode_fast_message(pgn, 2, src, dst, None, bytes(frame_wire)[::-1], None, b"")
        obs = "none" if r is None else "complete:" + hx(r.payload)
    except Exception:
        obs = "error"
    rec = d.data.get(f"{pgn}_{src}_{dst}")
    if rec is None or rec.sequence_counter == -1:
        rs = "norec"
    else:
        rs = f"rec:{rec.payload_length}:{rec.sequence_counter}:{rec.bytes_stored}:{len(rec.frames)}"
    live = sum(1 for v in d.data.values() if v.sequence_counter != -1)
    return obs, rs, live
