"""Helpers shared by the correspondence suites: import the real code from the repo under test."""
import importlib
import logging
import os
import sys

import common


def load_repo():
    """import nmea2000 from the tree under test (VERIF_REPO or /repo), never an installed copy"""
    repo = common.REPO
    if sys.path[0] != repo:
        sys.path.insert(0, repo)
    for m in [k for k in sys.modules if k == "nmea2000" or k.startswith("nmea2000.")]:
        del sys.modules[m]
    logging.disable(logging.CRITICAL)
    import nmea2000  # noqa
    assert os.path.realpath(nmea2000.__file__).startswith(os.path.realpath(repo) + os.sep), nmea2000.__file__
    return nmea2000


def hx(b) -> str:
    b = bytes(b)
    return b.hex() if b else "-"
