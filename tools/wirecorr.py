"""Correspondence suites for the wire formats (shared by C06 and C07): real encoders/decoders of
encoder.py/decoder.py vs Model/Wire.lean, at the level of one CAN frame."""
import random

import common
import harness


class Cap:
    """a real NMEA2000Decoder whose `_decode` records the frame the front-end extracted"""
    def __init__(self):
        from nmea2000.decoder import NMEA2000Decoder
        self.d = NMEA2000Decoder()
        self.last = None
        self.d._decode = self._cap

    def _cap(self, pgn, priority, source_id, destination_id, timestamp, can_data, raw, already_combined=False):
        self.last = (pgn, priority, source_id, destination_id, bytes(can_data)[::-1])
        return "MSG"

    def run(self, fn, arg):
        self.last = None
        try:
            r = getattr(self.d, fn)(arg)
        except Exception:
            return "error"
        if r is None:
            return "none"
        f = self.last
        return "ok %d %d %d %d %s" % (f[0], f[1], f[2], f[3], harness.hx(f[4]))


def txt(s: str) -> str:
    return harness.hx(s.encode("ascii"))


def boundary_ids(rnd, n):
    vals = []
    for prio in (0, 3, 7):
        for dp in range(4):
            for pf in (0, 0xEE, 0xEF, 0xF0, 0xFF):
                for ps in (0, 0xFF, 0x23):
                    for src in (0, 0xFF, 0x17):
                        vals.append((prio << 26) | (dp << 24) | (pf << 16) | (ps << 8) | src)
    rnd.shuffle(vals)
    vals = vals[:n // 2]
    vals += [rnd.getrandbits(29) for _ in range(n - len(vals))]
    return vals


def rand_data(rnd, lo=0, hi=8):
    n = rnd.randrange(lo, hi + 1)
    return bytes(rnd.choice([0, 0xFF, 0xAA, 0x55, rnd.getrandbits(8)]) for _ in range(n))


def stamp_hms(rnd):
    return rnd.choice(["00:00:00.000", "23:59:59.999", "1:2:3.4", "12:00:01.5", "09:30:59.123456"])


def stamp_basic(rnd):
    return rnd.choice(["2024-01-01-00:00:00.000", "2011-11-24-22:42:04.388", "2024-02-28T23:59:59.999Z", "1999-12-05T01:02:03.5Z"])


def encode_suites(ctx):
    harness.load_repo()
    from nmea2000.encoder import NMEA2000Encoder
    from nmea2000.message import NMEA2000Message
    rnd = random.Random(ctx["seed"] + 21)
    s = common.Suite("wire-encoders", "encode_ebyte/encode_usb/encode_yacht_devices (frame list injected in place of _encode) and "
                     "encode_actisense (payload injected) on boundary PGN/src/dst/prio x frame lengths 0..8 (short frames emphasised), "
                     "incl. non-canonical addressing, vs Wire.encode* o build_header")
    pgns = [59904, 60928, 126720, 126208, 127250, 129025, 130816, 0xEF00, 0x1EF00, 0x3FFFF, 0]
    n = 400 if ctx["tier"] == "quick" else 6000
    for _ in range(n):
        pgn, src, dst, prio = rnd.choice(pgns), rnd.choice([0, 1, 254, 255, rnd.getrandbits(8)]), rnd.choice([0, 5, 255, rnd.getrandbits(8)]), rnd.randrange(8)
        frames = [rand_data(rnd, 0, 8) for _ in range(rnd.choice([1, 1, 2, 3]))]
        m = NMEA2000Message(PGN=pgn, source=src, destination=dst, priority=prio)
        e = NMEA2000Encoder()
        e._encode = lambda msg, fr=frames: list(fr)
        for fmt, fn in (("ebyte", e.encode_ebyte), ("usb", e.encode_usb), ("yd", e.encode_yacht_devices)):
            out = fn(m)
            for f, pk in zip(frames, out):
                s.add(f"wire.encm.{fmt} {pgn} {src} {dst} {prio} {harness.hx(f)}", harness.hx(pk), f"{fmt}-len{len(f)}")
        payload = rand_data(rnd, 1, 30)
        e._call_encode_function = lambda msg, p=payload: p
        s.add(f"wire.enc.acti {prio} {dst} {src} {pgn} {harness.hx(payload)}", txt(e.encode_actisense(m)), "actisense")
    return [s.run()]


def render_yd(rnd, i, data, lower=False):
    line = "%s %s %08X %s" % (stamp_hms(rnd), rnd.choice("RT"), i, " ".join("%02X" % b for b in data))
    return line.lower().replace(" r ", " R ").replace(" t ", " T ") if lower else line


def decode_suites(ctx):
    harness.load_repo()
    rnd = random.Random(ctx["seed"] + 22)
    from nmea2000.utils import calculate_canbus_checksum
    cap = Cap()
    s = common.Suite("wire-decoders", "decode_tcp/decode_usb/decode_yacht_devices_string/decode_actisense_string/decode_basic_string with the "
                     "frame observed at _decode: valid packets (R/T, upper/lower hex, timestamp variants, lengths 0..8), short/long/odd binary "
                     "packets, bad checksums, and malformed text of classes both sides must reject; vs Wire.decode*")
    n = 500 if ctx["tier"] == "quick" else 8000
    for i in boundary_ids(rnd, n):
        data = rand_data(rnd)
        # EByte
        pk = bytes([(len(data) & 0xF) | 0x80]) + i.to_bytes(4, "big") + data + bytes(8 - len(data))
        k = rnd.random()
        if k < 0.15:
            pk = pk[:rnd.randrange(0, 13)]
        elif k < 0.25:
            pk = bytes([rnd.getrandbits(8)]) + pk[1:]
        s.add("wire.dec.tcp " + harness.hx(pk), cap.run("decode_tcp", pk), "tcp")
        # USB
        body = bytes([0xaa, 0x55, 1, 2, 1]) + i.to_bytes(4, "little") + bytes([len(data)]) + data + bytes(8 - len(data)) + b"\x00"
        pk = bytearray(body + bytes([calculate_canbus_checksum(body)]))
        k = rnd.random()
        if k < 0.2:
            pk[rnd.randrange(0, 20)] ^= rnd.randrange(1, 256)
        elif k < 0.3:
            pk = pk[:rnd.randrange(0, 20)]
        elif k < 0.35:
            pk[9] = rnd.choice([9, 10, 11, 200])
            pk[19] = calculate_canbus_checksum(bytes(pk))
        s.add("wire.dec.usb " + harness.hx(pk), cap.run("decode_usb", bytes(pk)), "usb")
        # Yacht Devices
        if data:
            line = render_yd(rnd, i, data, lower=rnd.random() < 0.3)
            k = rnd.random()
            if k < 0.08:
                line = line.replace(" R ", " X ").replace(" T ", " X ")
            elif k < 0.16:
                line = " ".join(line.split(" ")[:rnd.randrange(0, 4)])
            elif k < 0.22:
                line = line[:-1] + "G"
            elif k < 0.28:
                line = "25:00:00.000" + line[line.index(" "):]
            elif k < 0.34:
                line = line + " 1FF"
            elif k < 0.4:
                line = line.replace(" ", "  ", 1)
            s.add("wire.dec.yd " + txt(line), cap.run("decode_yacht_devices_string", line), "yd")
        # Actisense
        payload = rand_data(rnd, 1, 20)
        pgn, src, dst, prio = rnd.choice([59904, 126720, 129025, 130816, rnd.getrandbits(18)]), rnd.getrandbits(8), rnd.getrandbits(8), rnd.randrange(8)
        line = "A%06d.%03d %05X %05X %s" % (rnd.randrange(10 ** 6), rnd.randrange(1000), (src << 12) | (dst << 4) | prio, pgn, payload.hex().upper())
        k = rnd.random()
        if k < 0.08:
            line = "B" + line[1:]
        elif k < 0.12:
            line = " ".join(line.split(" ")[:3]) + rnd.choice(["", " "])      # no data part: empty payload
        elif k < 0.16:
            line = " ".join(line.split(" ")[:rnd.randrange(1, 3)])
        elif k < 0.22:
            line = line[:-1]          # odd number of hex digits
        elif k < 0.28:
            line = line.replace(".", ":", 1)
        elif k < 0.34:
            line = line[:-2] + "ZZ"
        elif k < 0.4:
            line = line.lower().replace("a", "A", 1) if line.startswith("A") else line
        s.add("wire.dec.acti " + txt(line), cap.run("decode_actisense_string", line), "actisense")
        # canboat plain
        line = "%s,%d,%d,%d,%d,%d,%s" % (stamp_basic(rnd), prio, pgn, src, dst, len(payload), ",".join("%02x" % b for b in payload))
        k = rnd.random()
        if k < 0.08:
            line = ",".join(line.split(",")[:rnd.randrange(1, 7)])
        elif k < 0.16:
            line = line.replace(",%d," % len(payload), ",%d," % rnd.randrange(0, len(payload) + 3), 1)
        elif k < 0.22:
            line = "2024-13-01-00:00:00.000" + line[line.index(","):]
        elif k < 0.28:
            line = line[:-2] + "zz"
        elif k < 0.34:
            line = line.replace(",%d,%d," % (prio, pgn), ",x,%d," % pgn, 1)
        s.add("wire.dec.basic " + txt(line), cap.run("decode_basic_string", line), "basic")
    return [s.run()]


def five_way(ctx, n=300):
    """the property C07 itself on the real code: one frame, five renderings, same extracted frame"""
    harness.load_repo()
    from nmea2000.decoder import NMEA2000Decoder
    from nmea2000.utils import calculate_canbus_checksum
    rnd = random.Random(ctx["seed"] + 23)
    cap = Cap()
    for i in boundary_ids(rnd, n):
        data = rand_data(rnd, 1, 8)
        pgn, src, dst, prio = NMEA2000Decoder._extract_header(i)
        body = bytes([0xaa, 0x55, 1, 2, 1]) + i.to_bytes(4, "little") + bytes([len(data)]) + data + bytes(8 - len(data)) + b"\x00"
        outs = {
            "tcp": cap.run("decode_tcp", bytes([(len(data) & 0xF) | 0x80]) + i.to_bytes(4, "big") + data + bytes(8 - len(data))),
            "usb": cap.run("decode_usb", body + bytes([calculate_canbus_checksum(body)])),
            "yd": cap.run("decode_yacht_devices_string", render_yd(rnd, i, data)),
            "yd-lower": cap.run("decode_yacht_devices_string", render_yd(rnd, i, data, lower=True)),
            "actisense": cap.run("decode_actisense_string", "A000001.000 %05X %05X %s" % ((src << 12) | (dst << 4) | prio, pgn, data.hex().upper())),
            "basic": cap.run("decode_basic_string", "%s,%d,%d,%d,%d,%d,%s" % (stamp_basic(rnd), prio, pgn, src, dst, len(data), ",".join("%02x" % b for b in data))),
        }
        exp = "ok %d %d %d %d %s" % (pgn, prio, src, dst, harness.hx(data))
        bad = {k: v for k, v in outs.items() if v != exp}
        if bad:
            return {"id": i, "data": data.hex(), "expected": exp, "got": bad}
    return None
